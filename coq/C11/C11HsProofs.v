(* C11, handshake side: invariants of the chain instance C11HsModel over ALL runs (any number of sender
   threads, any send lists, one handshake worker, any schedule), including the raising sends that hit
   WANoiseProtocol.send before the transport state exists and the step at which the state flips. *)
From YV Require Import Common.Tac C12.C12Chain C12.C12Proofs C11.C11Proofs C11.C11HsModel.
From Coq Require Import Permutation.

(* ---------- list helpers ---------- *)
Lemma Forall_set_nth {A} (P : A -> Prop) : forall l t b, Forall P l -> P b -> Forall P (set_nth t b l).
Proof.
  induction l as [|a l IH]; intros [|t] b F Pb; simpl; auto; inversion F; subst; constructor; auto.
Qed.

Lemma Forall_nth {A} (P : A -> Prop) l t a : Forall P l -> nth_error l t = Some a -> P a.
Proof. intros F E. rewrite Forall_forall in F. apply F. eapply nth_error_In; eauto. Qed.

Lemma combine_set_nth {A B} : forall (l : list A) (m : list B) t a b, nth_error l t = Some a ->
  combine l (set_nth t b m) = set_nth t (a, b) (combine l m).
Proof.
  induction l as [|x l IH]; intros [|y m] [|t] a b E; simpl in *; try discriminate; auto.
  - inversion E; subst. reflexivity.
  - rewrite (IH m t a b E). reflexivity.
Qed.

Lemma nth_combine {A B} : forall (l : list A) (m : list B) t a b,
  nth_error l t = Some a -> nth_error m t = Some b -> nth_error (combine l m) t = Some (a, b).
Proof.
  induction l as [|x l IH]; intros [|y m] [|t] a b E1 E2; simpl in *; try discriminate.
  - inversion E1; inversion E2; subst. reflexivity.
  - apply IH; auto.
Qed.

Lemma nth_combine_inv {A B} : forall (l : list A) (m : list B) t p,
  nth_error (combine l m) t = Some p -> nth_error l t = Some (fst p) /\ nth_error m t = Some (snd p).
Proof.
  induction l as [|x l IH]; intros [|y m] [|t] p E; simpl in *; try discriminate.
  - inversion E; subst. auto.
  - apply IH; auto.
Qed.

Lemma nth_some_lt {A} (l : list A) t a : nth_error l t = Some a -> t < length l.
Proof. intros E. apply nth_error_Some. congruence. Qed.

Lemma nth_lt_some {A} (l : list A) t : t < length l -> exists a, nth_error l t = Some a.
Proof. intros H. destruct (nth_error l t) eqn:E; eauto. apply nth_error_None in E. lia. Qed.

Lemma perm_set {A B} (g : A -> list B) l t a b X :
  nth_error l t = Some a -> Permutation (g b) (g a ++ X) ->
  Permutation (concat (map g (set_nth t b l))) (concat (map g l) ++ X).
Proof.
  intros E H. destruct (nth_split_set l t a b E) as (l1 & l2 & -> & ->).
  rewrite !map_app, !concat_app. simpl. rewrite H.
  rewrite <- !app_assoc. apply Permutation_app_head. apply Permutation_app_head.
  apply Permutation_app_comm.
Qed.

Lemma perm_unset {A B} (g : A -> list B) l t a b X :
  nth_error l t = Some a -> Permutation (g a) (g b ++ X) ->
  Permutation (concat (map g l)) (concat (map g (set_nth t b l)) ++ X).
Proof.
  intros E H. destruct (nth_split_set l t a b E) as (l1 & l2 & -> & ->).
  rewrite !map_app, !concat_app. simpl. rewrite H.
  rewrite <- !app_assoc. apply Permutation_app_head. apply Permutation_app_head.
  apply Permutation_app_comm.
Qed.

Section C11HsProofs.
Variable data : Type.
Variable encode : data -> data.
Variable enc : nat -> data -> data.
Variable hdr : data -> data.
Variable upper : nat -> data -> list data.

Notation msg := (msg data).
Notation body := (bodyh data encode enc hdr upper).
Notation frame := (frame msg).
Notation thread := (thread msg).
Notation config := (config msg (@hstate data)).
Notation exec := (exec msg (@hstate data) has_lockh rorh body).
Notation hexec := (hexec data encode enc hdr upper).
Notation reach := (reach msg (@hstate data) has_lockh rorh body (s0h data)).
Notation reach_h := (reach_h data encode enc hdr upper).
Notation tspec := (tspec msg (@hstate data) has_lockh rorh body).
Notation hframes := (hframes data enc hdr).
Notation hsframes := (hsframes data hdr).
Notation pexpandh := (pexpandh data encode upper).
Notation okp := (okp data encode upper).
Notation entry_h := (entry_h data).
Notation hs_prog := (hs_prog data).
Notation hs_tail := (hs_tail data).
Notation sender_prog := (sender_prog data).

(* ---------- the bodies ---------- *)
Definition is_dat (m : msg) : Prop := exists d, m = Dat d.

Lemma body_calleeh : forall x m s c, In c (snd (body x m s)) -> S (fst c) = x /\ is_dat (snd c).
Proof.
  intros x m s c H. unfold bodyh in H. destruct m as [d|].
  - destruct x as [|[|[|[|[|[|x]]]]]]; simpl in H.
    + contradiction.
    + destruct H as [<-|[<-|[]]]; split; try reflexivity; eexists; reflexivity.
    + destruct (hq s); simpl in H; [contradiction|]. destruct H as [<-|[]]. split; [reflexivity|eexists; reflexivity].
    + destruct H as [<-|[]]. split; [reflexivity|eexists; reflexivity].
    + destruct H as [<-|[]]. split; [reflexivity|eexists; reflexivity].
    + destruct H as [<-|[]]. split; [reflexivity|eexists; reflexivity].
    + unfold dcalls in H. apply in_map_iff in H. destruct H as (o & <- & _). split; [reflexivity|eexists; reflexivity].
  - destruct x as [|[|[|[|[|x]]]]]; simpl in H; contradiction.
Qed.

Lemma body_lowerh : forall x m s y d', In (y, d') (snd (body x m s)) -> y < x.
Proof. intros x m s y d' H. apply body_calleeh in H. simpl in H. lia. Qed.

Lemma body_highh : forall x m s, 5 <= x -> fst (body x m s) = s.
Proof.
  intros x m s H. unfold bodyh. destruct m; destruct x as [|[|[|[|[|[|x]]]]]]; try lia; reflexivity.
Qed.

(* the protocol state only ever changes from handshake to transport, and only in `finish` *)
Lemma body_hst : forall x m s, hst (fst (body x m s)) = hst s \/ (x = 4 /\ m = Flip /\ hst (fst (body x m s)) = true).
Proof.
  intros x m s. unfold bodyh. destruct m.
  - left. destruct x as [|[|[|[|[|[|x]]]]]]; try reflexivity. destruct (hq s); reflexivity.
  - destruct x as [|[|[|[|[|x]]]]]; auto.
Qed.

Lemma body_hst_dat : forall x d s, hst (fst (body x (Dat d) s)) = hst s.
Proof. intros. destruct (body_hst x (Dat d) s) as [H|(_ & H & _)]; [exact H|discriminate]. Qed.

(* only WANoiseProtocol.send advances the nonce / the log of encrypted plaintexts *)
Lemma body_sent : forall x m s, (hsent (fst (body x m s)) = hsent s /\ hctr (fst (body x m s)) = hctr s)
                                \/ (x = 4 /\ is_dat m).
Proof.
  intros x m s. unfold bodyh. destruct m.
  - destruct x as [|[|[|[|[|[|x]]]]]]; auto.
    + left. destruct (hq s); auto.
    + right. split; [reflexivity|eexists; reflexivity].
  - left. destruct x as [|[|[|[|[|x]]]]]; auto.
Qed.

Lemma reach_h_reach opss c : reach_h opss c -> reach opss c.
Proof. induction 1; [apply reach_init|eapply reach_step; eauto]. Qed.

Lemma hexec_inv c t c' : hexec c t = Some c' ->
  exists th lk' s' th' l, nth_error (thr c) t = Some th /\
    tspec t (locks c) (sh c) th (hfail c t) lk' s' th' l /\
    c' = Config lk' s' (set_nth t th' (thr c)).
Proof. intros H. unfold C11HsModel.hexec in H. apply exec_inv in H. exact H. Qed.

Lemma hfail_eq (c : config) t th : nth_error (thr c) t = Some th ->
  hfail c t = match next_call th with Some 4 => negb (hst (sh c)) | _ => false end.
Proof. intros E. unfold hfail. rewrite E. reflexivity. Qed.

Lemma nc_call (th : thread) f fs y d cs :
  raising th = false -> stack th = f :: fs -> fheld f = true -> fpend f = (y, d) :: cs -> next_call th = Some y.
Proof. intros R S H P. unfold next_call. rewrite R, S, H, P. reflexivity. Qed.

Lemma nc_empty (th : thread) : stack th = [] -> next_call th = None.
Proof. intros S. unfold next_call. rewrite S. destruct (raising th); reflexivity. Qed.

Lemma nc_unheld (th : thread) f fs : stack th = f :: fs -> fheld f = false -> next_call th = None.
Proof. intros S H. unfold next_call. rewrite S, H. destruct (raising th); reflexivity. Qed.

Lemma nc_raising (th : thread) : raising th = true -> next_call th = None.
Proof. intros R. unfold next_call. rewrite R. reflexivity. Qed.

(* a step raises exactly when it is WANoiseProtocol.send (node 4) in the handshake state *)
Lemma hfail_true (c : config) t th : nth_error (thr c) t = Some th -> hfail c t = true ->
  next_call th = Some 4 /\ hst (sh c) = false.
Proof.
  intros E H. rewrite (hfail_eq _ _ _ E) in H.
  destruct (next_call th) as [[|[|[|[|[|n]]]]]|]; try discriminate.
  split; [reflexivity|]. destruct (hst (sh c)); [discriminate|reflexivity].
Qed.

Lemma hfail_false (c : config) t th : nth_error (thr c) t = Some th -> hfail c t = false ->
  next_call th = Some 4 -> hst (sh c) = true.
Proof.
  intros E H N. rewrite (hfail_eq _ _ _ E), N in H. destruct (hst (sh c)); [reflexivity|discriminate].
Qed.

(* ---------- chain shape ---------- *)
Definition pendokh (f : frame) : Prop := Forall (fun c => S (fst c) = fnode f /\ is_dat (snd c)) (fpend f).

Fixpoint contigh (P : nat -> Prop) (k : nat) (st : list frame) : Prop :=
  match st with
  | [] => P k
  | g :: rest => fnode g = S k /\ fheld g = true /\ contigh P (S k) rest
  end.

Definition stk (P : nat -> Prop) (st : list frame) : Prop :=
  Forall pendokh st /\ match st with [] => True | f :: rest => contigh P (fnode f) rest end.

Definition P5 (k : nat) : Prop := 5 <= k.
Definition P3 (k : nat) : Prop := k = 3.

Lemma pendokh_body x m s : pendokh (Frame x false (snd (body x m s))).
Proof. unfold pendokh. simpl. apply Forall_forall. intros c Hc. apply (body_calleeh x m s c Hc). Qed.

Lemma pendokh_head (f : frame) y d cs : pendokh f -> fpend f = (y, d) :: cs -> fnode f = S y /\ is_dat d.
Proof. intros P E. unfold pendokh in P. rewrite E in P. inversion P; subst. simpl in *. destruct H1. auto. Qed.

Lemma tspec_stk P t lk s th fl lk' s' th' l :
  tspec t lk s th fl lk' s' th' l -> stk P (stack th) ->
  (forall x d rest, stack th = [] -> ops th = (x, d) :: rest -> P x) ->
  stk P (stack th').
Proof.
  intros H [F C] HS. unfold stk. destruct H; simpl.
  - split; [constructor|exact I].
  - rewrite H0 in *. inversion F as [|? ? _ F2]; subst. split; [exact F2|].
    destruct C as (Eg & _ & C). rewrite Eg. exact C.
  - split; [constructor|exact I].
  - split; [constructor; [|constructor]|].
    + pose proof (pendokh_body x d s) as Pb. rewrite H2 in Pb. exact Pb.
    + apply (HS x d rest H0 H1).
  - rewrite H0 in *. split; assumption.
  - rewrite H0 in *. inversion F as [|? ? Pf _]; subst.
    destruct (pendokh_head f y d cs Pf H2) as [Ef _]. split.
    + constructor; [|exact F]. pose proof (pendokh_body y d s) as Pb. rewrite H3 in Pb. exact Pb.
    + simpl. rewrite <- Ef. auto.
  - rewrite H0 in *. split; assumption.
  - rewrite H0 in *. inversion F; subst. split; [constructor; assumption|exact C].
  - rewrite H0 in *. inversion F; subst. split; [constructor; assumption|exact C].
  - split; [constructor|exact I].
  - rewrite H0 in *. inversion F as [|? ? _ F2]; subst. inversion F2 as [|? ? Pg F3]; subst.
    destruct C as (Eg & _ & C). split.
    + constructor; [|exact F3]. unfold pendokh in *. simpl.
      destruct (fpend g); simpl; [constructor|inversion Pg; assumption].
    + simpl. rewrite Eg. exact C.
Qed.

Lemma contigh_has5 : forall rest k, contigh P5 k rest -> k <= 4 -> In 5 (held_nodes msg rest).
Proof.
  induction rest as [|g rest IH]; intros k C Hk; simpl in C; [unfold P5 in C; lia|].
  destruct C as (Eg & Hg & C). rewrite held_cons, Hg.
  destruct (Nat.eq_dec (S k) 5) as [E5|Hne]; [left; congruence|right].
  apply (IH (S k)); [exact C|lia].
Qed.

Lemma contigh_ge P : forall rest k, contigh P k rest -> forall g, In g rest -> k < fnode g.
Proof.
  induction rest as [|g rest IH]; intros k C g' Hin; [contradiction|].
  destruct C as (Eg & _ & C). destruct Hin as [->|Hin]; [lia|]. specialize (IH _ C _ Hin). lia.
Qed.

Lemma contigh_P3_le : forall rest k, contigh P3 k rest -> k <= 3.
Proof.
  induction rest as [|g rest IH]; intros k C; simpl in C; [unfold P3 in C; lia|].
  destruct C as (_ & _ & C). specialize (IH _ C). lia.
Qed.

Definition low (th : thread) : Prop := exists f rest, stack th = f :: rest /\ fnode f <= 4.

Lemma low_holds5 (th : thread) : stk P5 (stack th) -> low th -> In 5 (held_nodes msg (stack th)).
Proof.
  intros [_ C] (f & rest & Es & Hk). rewrite Es in *. rewrite held_cons.
  pose proof (contigh_has5 _ _ C Hk). destruct (fheld f); [right|]; assumption.
Qed.

Lemma call_holds5 (th : thread) f fs : stk P5 (stack th) -> stack th = f :: fs -> fheld f = true ->
  fnode f <= 5 -> In 5 (held_nodes msg (stack th)).
Proof.
  intros [_ C] Es Hh Hk. rewrite Es in *. rewrite held_cons, Hh.
  destruct (Nat.eq_dec (fnode f) 5) as [E|Hne]; [left; exact E|right].
  apply (contigh_has5 _ _ C). lia.
Qed.

(* ---------- the shape invariant ---------- *)
Definition sshape (th : thread) : Prop := stk P5 (stack th) /\ sender_prog (ops th).
Definition flipframe (st : list frame) : Prop := st = [Frame 4 false []].
Definition hshape (b : bool) (th : thread) : Prop :=
  raising th = false /\
  if b then sender_prog (ops th) /\ (flipframe (stack th) \/ stk P5 (stack th))
  else hs_prog (ops th) /\ stk P3 (stack th).

Definition Inv (h : nat) (c : config) : Prop :=
  (hst (sh c) = false -> hsent (sh c) = [] /\ hctr (sh c) = 0) /\
  (forall t th, nth_error (thr c) t = Some th -> t <> h ->
                sshape th /\ (hst (sh c) = false -> ~ low th)) /\
  (forall th, nth_error (thr c) h = Some th -> hshape (hst (sh c)) th).

Lemma Inv_init h opss : entry_h h opss -> Inv h (init msg _ (s0h data) opss).
Proof.
  intros EO. unfold Inv, init. simpl. split; [auto|]. split.
  - intros t th E Hne. rewrite nth_error_map in E.
    destruct (nth_error opss t) as [o|] eqn:Eo; [|discriminate]. simpl in E. inversion E; subst; clear E.
    specialize (EO t o Eo). destruct (Nat.eqb_spec t h); [contradiction|].
    split; [split; [split; [constructor|exact I]|exact EO]|].
    intros _ (f & rest & Es & _). simpl in Es. discriminate.
  - intros th E. rewrite nth_error_map in E.
    destruct (nth_error opss h) as [o|] eqn:Eo; [|discriminate]. simpl in E. inversion E; subst; clear E.
    specialize (EO h o Eo). rewrite Nat.eqb_refl in EO.
    split; [reflexivity|]. split; [exact EO|]. split; [constructor|exact I].
Qed.

Lemma stk_top_ge5 (th : thread) : stk P5 (stack th) -> ~ low th ->
  forall f rest, stack th = f :: rest -> 5 <= fnode f.
Proof.
  intros _ NL f rest Es. destruct (le_lt_dec 5 (fnode f)); [assumption|].
  exfalso. apply NL. exists f, rest. split; [exact Es|lia].
Qed.

Lemma hs_prog_cons x d rest : hs_prog ((x, d) :: rest) ->
  (x = 3 /\ is_dat d /\ hs_prog rest) \/ (x = 4 /\ d = Flip /\ sender_prog rest).
Proof.
  intros (ms & tl & E & T). destruct ms as [|m ms]; simpl in E.
  - destruct T as [->|(rep & -> & SP)]; [discriminate|]. inversion E; subst. right. auto.
  - inversion E; subst. left. split; [reflexivity|]. split; [eexists; reflexivity|].
    exists ms, tl. auto.
Qed.

Lemma Inv_step h c t c' : hexec c t = Some c' -> Inv h c -> Inv h c'.
Proof.
  intros H (I1 & I2 & I3). apply hexec_inv in H.
  destruct H as (th & lk' & s' & th' & l & En & Hs & ->).
  remember (hfail c t) as fl eqn:Efl. symmetry in Efl.
  (* facts about the shared state after the step *)
  assert (Hmono : hst s' = false -> hst (sh c) = false).
  { intros Hf. destruct Hs; try assumption.
    - pose proof (body_hst x d (sh c)) as B. rewrite H2 in B. simpl in B.
      destruct B as [B|(_ & _ & B)]; congruence.
    - pose proof (body_hst y d (sh c)) as B. rewrite H3 in B. simpl in B.
      destruct B as [B|(_ & _ & B)]; congruence. }
  destruct (Nat.eq_dec t h) as [->|Hth].
  - (* the handshake worker steps *)
    pose proof (I3 _ En) as (Rz & Sh).
    assert (Others : forall t2 th2, nth_error (set_nth h th' (thr c)) t2 = Some th2 -> t2 <> h ->
                                    sshape th2 /\ (hst s' = false -> ~ low th2)).
    { intros t2 th2 E2 Hne. rewrite nth_set_neq in E2 by exact Hne.
      destruct (I2 _ _ E2 Hne) as [A B]. split; [exact A|]. intros Hf. apply B. apply Hmono. exact Hf. }
    destruct (hst (sh c)) eqn:Est.
    + (* transport: an ordinary sender, or the frame of `finish` *)
      destruct Sh as (SP & Shape).
      assert (Hfl : fl = false).
      { rewrite <- Efl, (hfail_eq _ _ _ En). destruct (next_call th) as [[|[|[|[|[|n]]]]]|]; try reflexivity.
        rewrite Est. reflexivity. }
      subst fl.
      assert (Hs'true : hst s' = true).
      { destruct (hst s') eqn:E; [reflexivity|]. specialize (Hmono eq_refl). discriminate. }
      unfold Inv. simpl. rewrite Hs'true. split; [discriminate|]. split.
      * intros t2 th2 E2 Hne. destruct (Others t2 th2 E2 Hne) as [A _]. split; [exact A|discriminate].
      * intros th2 E2. rewrite (nth_set_eq _ _ _ _ En) in E2. inversion E2; subst th2; clear E2.
        destruct Shape as [FF|SK].
        -- (* [finish frame] -> done *)
           unfold flipframe in FF.
           remember false as ff eqn:Eff in Hs. destruct Hs; try discriminate Eff; try congruence;
             rewrite FF in *; try discriminate.
           ++ inversion H0; subst. simpl in *. discriminate.
           ++ inversion H0; subst. simpl in *. discriminate.
           ++ inversion H0; subst. simpl in *. discriminate.
           ++ split; [reflexivity|]. split; [exact SP|]. right. split; [constructor|exact I].
        -- assert (SK' : stk P5 (stack th')).
           { eapply tspec_stk; eauto. intros x d rest _ Eo. rewrite Eo in SP. apply Forall_inv in SP. exact SP. }
           remember false as ff eqn:Eff in Hs.
           destruct Hs; try discriminate Eff; try congruence; simpl in *;
             (split; [reflexivity|]); (split; [|right; exact SK']); try exact SP.
           rewrite H1 in SP. apply Forall_inv_tail in SP. exact SP.
    + (* handshake: writing hello / finish through write_segment, or starting `finish` *)
      destruct Sh as (HP & SK).
      assert (Hfl : fl = false).
      { destruct fl; [|reflexivity]. exfalso.
        destruct (hfail_true _ _ _ En Efl) as [N _]. unfold next_call in N. rewrite Rz in N.
        destruct (stack th) as [|f fs] eqn:Es; [discriminate|].
        destruct (fheld f); [|discriminate]. destruct (fpend f) as [|[y d] cs] eqn:Ep; [discriminate|].
        simpl in N. inversion N; subst y. destruct SK as [F C]. inversion F as [|? ? Pf _]; subst.
        destruct (pendokh_head f 4 d cs Pf Ep) as [Ef _].
        pose proof (contigh_P3_le _ _ C). lia. }
      subst fl.
      assert (SKgen : stack th <> [] -> stk P3 (stack th')).
      { intros Hne. eapply tspec_stk; [exact Hs|exact SK|]. intros x0 d0 rest0 Es0. contradiction. }
      remember false as ff eqn:Eff in Hs.
      destruct Hs; try discriminate Eff; try congruence.
      * (* start *)
        rewrite H1 in HP. destruct (hs_prog_cons _ _ _ HP) as [(-> & (m & ->) & HP')|(-> & -> & SP')].
        -- (* write_segment m *)
           simpl in H2. inversion H2; subst s' calls; clear H2.
           unfold Inv. simpl. rewrite ?Est. split; [exact I1|]. split.
           ++ intros t2 th2 E2 Hne. specialize (Others t2 th2 E2 Hne). simpl in Others. rewrite ?Est in Others.
              exact Others.
           ++ intros th2 E2. rewrite (nth_set_eq _ _ _ _ En) in E2. inversion E2; subst th2; clear E2.
              split; [reflexivity|]. simpl. split; [exact HP'|]. split.
              ** constructor; [|constructor]. unfold pendokh. simpl. constructor; [|constructor].
                 simpl. split; [reflexivity|eexists; reflexivity].
              ** simpl. reflexivity.
        -- (* finish *)
           simpl in H2. inversion H2; subst s' calls; clear H2.
           unfold Inv. simpl. split; [discriminate|]. split.
           ++ intros t2 th2 E2 Hne. specialize (Others t2 th2 E2 Hne). simpl in Others.
              destruct Others as [A _]. split; [exact A|discriminate].
           ++ intros th2 E2. rewrite (nth_set_eq _ _ _ _ En) in E2. inversion E2; subst th2; clear E2.
              split; [reflexivity|]. simpl. split; [exact SP'|]. left. reflexivity.
      * (* call: below write_segment, nodes <= 2 *)
        assert (Hy : y <= 2).
        { destruct SK as [F C]. rewrite H0 in F, C. inversion F as [|? ? Pf _]; subst.
          destruct (pendokh_head f y d cs Pf H2) as [Ef _]. pose proof (contigh_P3_le _ _ C). lia. }
        assert (Es' : hst s' = false /\ hsent s' = hsent (sh c) /\ hctr s' = hctr (sh c)).
        { pose proof (body_hst y d (sh c)) as B. rewrite H3 in B. simpl in B.
          pose proof (body_sent y d (sh c)) as B2. rewrite H3 in B2. simpl in B2.
          destruct B as [B|(B & _)]; [|lia]. destruct B2 as [[B2 B3]|[B2 _]]; [|lia].
          rewrite B, Est. auto. }
        destruct Es' as (E1 & E2 & E3).
        assert (SK' := SKgen ltac:(rewrite H0; discriminate)). simpl in SK'.
        unfold Inv. simpl. rewrite E1, E2, E3. split; [exact I1|]. split.
        -- intros t2 th2 E4 Hne. specialize (Others t2 th2 E4 Hne). rewrite E1 in Others. exact Others.
        -- intros th2 E4. rewrite (nth_set_eq _ _ _ _ En) in E4. inversion E4; subst th2; clear E4.
           split; [reflexivity|]. split; [exact HP|exact SK'].
      * (* acquire (lock) *)
        assert (SK' := SKgen ltac:(rewrite H0; discriminate)). simpl in SK'.
        unfold Inv. simpl. rewrite Est. split; [exact I1|]. split.
        -- intros t2 th2 E4 Hne. specialize (Others t2 th2 E4 Hne). simpl in Others. rewrite Est in Others. exact Others.
        -- intros th2 E4. rewrite (nth_set_eq _ _ _ _ En) in E4. inversion E4; subst th2; clear E4.
           split; [reflexivity|]. split; [exact HP|exact SK'].
      * assert (SK' := SKgen ltac:(rewrite H0; discriminate)). simpl in SK'.
        unfold Inv. simpl. rewrite Est. split; [exact I1|]. split.
        -- intros t2 th2 E4 Hne. specialize (Others t2 th2 E4 Hne). simpl in Others. rewrite Est in Others. exact Others.
        -- intros th2 E4. rewrite (nth_set_eq _ _ _ _ En) in E4. inversion E4; subst th2; clear E4.
           split; [reflexivity|]. split; [exact HP|exact SK'].
      * (* done *)
        unfold Inv. simpl. rewrite Est. split; [exact I1|]. split.
        -- intros t2 th2 E4 Hne. specialize (Others t2 th2 E4 Hne). simpl in Others. rewrite Est in Others. exact Others.
        -- intros th2 E4. rewrite (nth_set_eq _ _ _ _ En) in E4. inversion E4; subst th2; clear E4.
           split; [reflexivity|]. split; [exact HP|]. split; [constructor|exact I].
      * (* return *)
        assert (SK' := SKgen ltac:(rewrite H0; discriminate)). simpl in SK'.
        unfold Inv. simpl. rewrite Est. split; [exact I1|]. split.
        -- intros t2 th2 E4 Hne. specialize (Others t2 th2 E4 Hne). simpl in Others. rewrite Est in Others. exact Others.
        -- intros th2 E4. rewrite (nth_set_eq _ _ _ _ En) in E4. inversion E4; subst th2; clear E4.
           split; [reflexivity|]. split; [exact HP|exact SK'].
  - (* a sender steps *)
    destruct (I2 _ _ En Hth) as ((SK & SP) & NL).
    assert (SK' : stk P5 (stack th')).
    { eapply tspec_stk; eauto. intros x d rest _ Eo. rewrite Eo in SP. apply Forall_inv in SP. exact SP. }
    assert (SP' : sender_prog (ops th')).
    { destruct Hs; simpl; try exact SP.
      - rewrite H1 in SP. apply Forall_inv_tail in SP. exact SP.
      - rewrite H1 in SP. apply Forall_inv_tail in SP. exact SP. }
    (* the shared state: senders never change the protocol state; sent/ctr only in transport *)
    assert (Hst : hst s' = hst (sh c)).
    { destruct Hs; try reflexivity.
      - assert (Hx : 5 <= x) by (rewrite H1 in SP; apply Forall_inv in SP; exact SP).
        pose proof (body_highh x d (sh c) Hx) as B. rewrite H2 in B. simpl in B. subst s'. reflexivity.
      - destruct SK as [F _]. rewrite H0 in F. inversion F as [|? ? Pf _]; subst.
        destruct (pendokh_head f y d cs Pf H2) as [_ (d0 & ->)].
        pose proof (body_hst_dat y d0 (sh c)) as B. rewrite H3 in B. exact B. }
    assert (NL' : hst s' = false -> ~ low th').
    { intros Hf. rewrite Hst in Hf. specialize (NL Hf).
      pose proof (stk_top_ge5 th SK NL) as Top.
      intros (f0 & r0 & Es0 & Hk0).
      destruct Hs; simpl in Es0; try discriminate Es0.
      - (* unwind *) inversion Es0; subst f0 r0. destruct SK as [_ C]. rewrite H0 in C. simpl in C.
        destruct C as (Eg & _). specialize (Top _ _ H0). lia.
      - (* start *) inversion Es0; subst f0 r0. simpl in Hk0. rewrite H1 in SP. apply Forall_inv in SP.
        simpl in SP. lia.
      - (* failcall *) inversion Es0; subst f0 r0. specialize (Top _ _ H0). lia.
      - (* call *) inversion Es0; subst f0 r0. simpl in Hk0.
        destruct SK as [F _]. rewrite H0 in F. inversion F as [|? ? Pf _]; subst.
        destruct (pendokh_head f y d cs Pf H2) as [Ef _]. specialize (Top _ _ H0).
        assert (y = 4) by lia. subst y.
        pose proof (hfail_false _ _ _ En Efl (nc_call th f fs 4 d cs H H0 H1 H2)). congruence.
      - inversion Es0; subst f0 r0. specialize (Top _ _ H0). lia.
      - inversion Es0; subst f0 r0. simpl in Hk0. specialize (Top _ _ H0). lia.
      - inversion Es0; subst f0 r0. simpl in Hk0. specialize (Top _ _ H0). lia.
      - inversion Es0; subst f0 r0. simpl in Hk0. destruct SK as [_ C]. rewrite H0 in C. simpl in C.
        destruct C as (Eg & _). specialize (Top _ _ H0). lia. }
    unfold Inv. simpl. split; [|split].
    + intros Hf. rewrite Hst in Hf. destruct (I1 Hf) as [A B].
      destruct Hs; simpl; auto.
      * assert (Hx : 5 <= x) by (rewrite H1 in SP; apply Forall_inv in SP; exact SP).
        pose proof (body_highh x d (sh c) Hx) as Bh. rewrite H2 in Bh. simpl in Bh. subst s'. auto.
      * pose proof (body_sent y d (sh c)) as B2. rewrite H3 in B2. simpl in B2.
        destruct B2 as [[B2 B3]|[-> _]]; [rewrite B2, B3; auto|].
        pose proof (hfail_false _ _ _ En Efl (nc_call th f fs 4 d cs H H0 H1 H2)). congruence.
    + intros t2 th2 E2 Hne. destruct (Nat.eq_dec t2 t) as [->|Hne2].
      * rewrite (nth_set_eq _ _ _ _ En) in E2. inversion E2; subst th2. split; [split; assumption|exact NL'].
      * rewrite nth_set_neq in E2 by exact Hne2. destruct (I2 _ _ E2 Hne) as [A B]. split; [exact A|].
        rewrite Hst. exact B.
    + intros th2 E2. rewrite nth_set_neq in E2 by (intros E; apply Hth; auto). rewrite Hst. apply I3. exact E2.
Qed.

Lemma reach_h_Inv h opss c : entry_h h opss -> reach_h opss c -> Inv h c.
Proof.
  intros EO R. induction R as [|c t c' R IH Hs]; [apply Inv_init; exact EO|]. eapply Inv_step; eauto.
Qed.


(* ---------- pending work of a call stack ---------- *)
Section Aggh.
Variable B : Type.
Variable e : nat * msg -> list B.
Definition eallh (l : list (nat * msg)) : list B := concat (map e l).
Definition aggh (st : list frame) : list B :=
  match st with
  | [] => []
  | f :: rest => eallh (fpend f) ++ concat (map (fun g => eallh (tl (fpend g))) rest)
  end.
(* a raising thread only unwinds: whatever it still had to do is dropped *)
Definition pendh (th : thread) : list B := if raising th then [] else aggh (stack th).

Variable n : nat.
Hypothesis e_high : forall c, n <= S (fst c) -> e c = [].

Lemma eallh_high (f : frame) : pendokh f -> n <= fnode f -> eallh (fpend f) = [] /\ eallh (tl (fpend f)) = [].
Proof.
  intros P H. unfold pendokh in P.
  assert (A : forall l, Forall (fun c => S (fst c) = fnode f /\ is_dat (snd c)) l -> eallh l = []).
  { induction l as [|c l IH]; intros F; [reflexivity|]. inversion F; subst. unfold eallh in *. simpl.
    destruct H2 as [H2 _]. rewrite e_high by lia. simpl. auto. }
  split; [apply A; exact P|]. apply A. destruct (fpend f); [constructor|inversion P; assumption].
Qed.

Lemma aggh_ge P st : Forall pendokh st ->
  match st with [] => True | f :: rest => n <= fnode f /\ contigh P (fnode f) rest end -> aggh st = [].
Proof.
  intros F C. destruct st as [|f rest]; [reflexivity|]. destruct C as [Hf C].
  simpl. inversion F as [|? ? Pf Fr]; subst. rewrite (proj1 (eallh_high f Pf Hf)). simpl.
  apply all_nil. intros i g Eg. apply nth_error_In in Eg.
  pose proof (contigh_ge P _ _ C _ Eg). rewrite Forall_forall in Fr. apply (eallh_high g); [auto|lia].
Qed.
End Aggh.

Lemma aggh_high B (e : nat * msg -> list B) (th : thread) :
  (forall c, 4 <= fst c -> e c = []) -> stk P5 (stack th) -> ~ low th -> aggh B e (stack th) = [].
Proof.
  intros He SK NL. pose proof (stk_top_ge5 th SK NL) as Top. destruct SK as [F C].
  apply (aggh_ge B e 5) with (P := P5); [intros c Hc; apply He; lia|exact F|].
  remember (stack th) as st eqn:Es in *. destruct st as [|f rest]; [exact I|]. split; [|exact C].
  apply (Top f rest eq_refl).
Qed.

Lemma aggh_ret B e (f g : frame) fs : fpend f = [] ->
  aggh B e (f :: g :: fs) = aggh B e (Frame (fnode g) false (tl (fpend g)) :: fs).
Proof. intros Ep. simpl. rewrite Ep. reflexivity. Qed.

Lemma aggh_call B e (f : frame) fs y d cs calls : fpend f = (y, d) :: cs ->
  aggh B e (Frame y false calls :: f :: fs) =
  eallh B e calls ++ eallh B e cs ++ concat (map (fun g => eallh B e (tl (fpend g))) fs).
Proof. intros Ep. simpl. rewrite Ep. reflexivity. Qed.

Lemma aggh_top B e (f : frame) fs y d cs : fpend f = (y, d) :: cs ->
  aggh B e (f :: fs) = e (y, d) ++ eallh B e cs ++ concat (map (fun g => eallh B e (tl (fpend g))) fs).
Proof. intros Ep. simpl. rewrite Ep. unfold eallh. simpl. rewrite app_assoc. reflexivity. Qed.

Definition wexpandh (c : nat * msg) : list data :=
  match snd c with
  | Flip => []
  | Dat d => match fst c with
             | 0 => [d]
             | 1 => [hdr d; d]
             | 2 => [hdr d; d]
             | 3 => [hdr d; d]
             | _ => []
             end
  end.
Definition qexpandh (c : nat * msg) : list data :=
  match snd c with
  | Flip => []
  | Dat d => if Nat.eqb (fst c) 2 then [d] else []
  end.

Lemma wexpandh_high c : 4 <= fst c -> wexpandh c = [].
Proof. unfold wexpandh. destruct (snd c); [|reflexivity]. destruct (fst c) as [|[|[|[|n]]]]; intros; try lia; reflexivity. Qed.
Lemma qexpandh_high c : 3 <= fst c -> qexpandh c = [].
Proof. unfold qexpandh. destruct (snd c); [|reflexivity]. intros. destruct (Nat.eqb_spec (fst c) 2); [lia|reflexivity]. Qed.
Lemma qexpandh_high4 c : 4 <= fst c -> qexpandh c = [].
Proof. intros. apply qexpandh_high. lia. Qed.

Definition futsh (c : config) : list data := concat (map (pendh data wexpandh) (thr c)).
Definition qfuth (c : config) : list data := concat (map (pendh data qexpandh) (thr c)).

(* the invariant tying wire, nonce counter and queue together: the socket has received a prefix of
   [handshake segments, framed] ++ [transport frames with nonces 0,1,2,...] *)
Definition Wh (c : config) : Prop :=
  hwire (sh c) ++ futsh c = hsframes (hsw (sh c)) ++ hframes 0 (hsent (sh c)) /\
  hctr (sh c) = length (hsent (sh c)) /\
  hq (sh c) = qfuth c.

Lemma hframes_app : forall a k b, hframes k (a ++ b) = hframes k a ++ hframes (k + length a) b.
Proof.
  induction a as [|p a IH]; intros k b; simpl.
  - rewrite Nat.add_0_r. reflexivity.
  - rewrite IH. replace (S k + length a) with (k + S (length a)) by lia. reflexivity.
Qed.

Lemma hsframes_app : forall a b, hsframes (a ++ b) = hsframes a ++ hsframes b.
Proof. induction a as [|p a IH]; intros b; simpl; [reflexivity|]. rewrite IH. reflexivity. Qed.

(* ---------- exclusivity below the coder ---------- *)
Lemma others_quiet h opss c t th : reach opss c -> Inv h c -> nth_error (thr c) t = Some th ->
  (hst (sh c) = true -> In 5 (held_nodes msg (stack th))) -> (hst (sh c) = false -> t = h) ->
  forall B (e : nat * msg -> list B), (forall c0, 4 <= fst c0 -> e c0 = []) ->
  forall t' th', t' <> t -> nth_error (thr c) t' = Some th' -> pendh B e th' = [].
Proof.
  intros R (I1 & I2 & I3) En H5 Hh B e He t' th' Hne En'. unfold pendh.
  destruct (raising th') eqn:Er; [reflexivity|].
  destruct (reach_inv_wa msg _ has_lockh rorh body body_lowerh _ _ _ R) as [_ IA].
  assert (Snd : stk P5 (stack th') -> hst (sh c) = true -> aggh B e (stack th') = []).
  { intros SK Est. apply aggh_high; [exact He|exact SK|]. intros L.
    pose proof (low_holds5 th' SK L) as H5'.
    pose proof (IA _ _ _ En (H5 Est) eq_refl) as E1. pose proof (IA _ _ _ En' H5' eq_refl) as E2. congruence. }
  destruct (hst (sh c)) eqn:Est.
  - destruct (Nat.eq_dec t' h) as [->|Hn].
    + destruct (I3 _ En') as (_ & _ & [FF|SK]); [rewrite FF; reflexivity|auto].
    + destruct (I2 _ _ En' Hn) as [[SK _] _]. auto.
  - specialize (Hh eq_refl). subst t. destruct (I2 _ _ En' Hne) as [[SK _] NL].
    apply aggh_high; auto.
Qed.

Lemma pendh_single B (e : nat * msg -> list B) (l : list thread) t th th' :
  (forall t' a', t' <> t -> nth_error l t' = Some a' -> pendh B e a' = []) ->
  nth_error l t = Some th ->
  concat (map (pendh B e) l) = pendh B e th /\
  concat (map (pendh B e) (set_nth t th' l)) = pendh B e th'.
Proof.
  intros H En. split.
  - apply (concat_single (pendh B e) l t th En H).
  - apply (concat_single (pendh B e) (set_nth t th' l) t th').
    + eapply nth_set_eq; eauto.
    + intros t' a' Hne E. rewrite nth_set_neq in E by exact Hne. eauto.
Qed.

Lemma Wh_local c t th th' lk' s' :
  nth_error (thr c) t = Some th ->
  hwire s' = hwire (sh c) -> hsw s' = hsw (sh c) -> hsent s' = hsent (sh c) -> hctr s' = hctr (sh c) ->
  hq s' = hq (sh c) ->
  pendh data wexpandh th' = pendh data wexpandh th -> pendh data qexpandh th' = pendh data qexpandh th ->
  Wh c -> Wh (Config lk' s' (set_nth t th' (thr c))).
Proof.
  intros En E1 E2 E3 E4 E5 Hw Hq (W1 & W2 & W3). unfold Wh, futsh, qfuth in *. simpl.
  rewrite (concat_same (pendh data wexpandh) _ _ _ _ En Hw).
  rewrite (concat_same (pendh data qexpandh) _ _ _ _ En Hq).
  rewrite E1, E2, E3, E4, E5. auto.
Qed.

Lemma Wh_init opss : Wh (init msg _ (s0h data) opss).
Proof.
  unfold Wh, futsh, qfuth, init. simpl. rewrite !map_map. unfold pendh. simpl.
  assert (Z : forall (l : list (list (nat * msg))), concat (map (fun _ => @nil data) l) = []).
  { induction l; simpl; auto. }
  rewrite !Z. auto.
Qed.


Lemma pendh_nr B e (th : thread) : raising th = false -> pendh B e th = aggh B e (stack th).
Proof. intros R. unfold pendh. rewrite R. reflexivity. Qed.

Lemma start_high B (e : nat * msg -> list B) x d s :
  (forall c, 4 <= fst c -> e c = []) -> 5 <= x -> eallh B e (snd (body x d s)) = [].
Proof.
  intros He Hx. pose proof (pendokh_body x d s) as Pb.
  apply (proj1 (eallh_high B e 5 (fun c Hc => He c ltac:(lia)) _ Pb Hx)).
Qed.

Lemma Wh_step h opss c t c' :
  reach opss c -> Inv h c -> hexec c t = Some c' -> Wh c -> Wh c'.
Proof.
  intros R IV H HW. pose proof (Inv_step _ _ _ _ H IV) as IV'. apply hexec_inv in H.
  destruct H as (th & lk' & s' & th' & l & En & Hs & ->).
  remember (hfail c t) as fl eqn:Efl. symmetry in Efl.
  pose proof IV as IVc. destruct IV as (I1 & I2 & I3).
  assert (Sh' : t <> h -> stk P5 (stack th')).
  { intros Hth. destruct IV' as (_ & I2' & _). simpl in I2'.
    destruct (I2' t th' (nth_set_eq _ _ _ _ En) Hth) as [[SK _] _]. exact SK. }
  assert (ShH' : t = h -> hshape (hst s') th').
  { intros ->. destruct IV' as (_ & _ & I3'). simpl in I3'. apply I3'. eapply nth_set_eq; eauto. }
  clear IV'.
  destruct Hs.
  - (* unwind, last frame *)
    apply (Wh_local c t th); auto; unfold pendh; simpl; rewrite H; reflexivity.
  - apply (Wh_local c t th); auto; unfold pendh; simpl; rewrite H; reflexivity.
  - exfalso. destruct (hfail_true _ _ _ En Efl) as [N _]. rewrite (nc_empty th H0) in N. discriminate.
  - (* start *)
    destruct (le_lt_dec 5 x) as [Hx|Hx].
    + pose proof (body_highh x d (sh c) Hx) as Eb. rewrite H2 in Eb. simpl in Eb. subst s'.
      apply (Wh_local c t th); auto.
      * rewrite (pendh_nr _ _ th H), H0. unfold pendh. simpl.
        pose proof (start_high _ wexpandh x d (sh c) wexpandh_high Hx) as Z. rewrite H2 in Z. simpl in Z.
        rewrite Z. reflexivity.
      * rewrite (pendh_nr _ _ th H), H0. unfold pendh. simpl.
        pose proof (start_high _ qexpandh x d (sh c) qexpandh_high4 Hx) as Z. rewrite H2 in Z. simpl in Z.
        rewrite Z. reflexivity.
    + (* only the handshake worker enters below the coder *)
      destruct (Nat.eq_dec t h) as [->|Hth].
      2:{ exfalso. destruct (I2 _ _ En Hth) as [[_ SP] _]. rewrite H1 in SP. apply Forall_inv in SP. simpl in SP. lia. }
      destruct (I3 _ En) as (_ & Shh). destruct (hst (sh c)) eqn:Est.
      { exfalso. destruct Shh as [SP _]. rewrite H1 in SP. apply Forall_inv in SP. simpl in SP. lia. }
      destruct Shh as [HP _]. rewrite H1 in HP.
      destruct (hs_prog_cons _ _ _ HP) as [(-> & (m & ->) & _)|(-> & -> & _)].
      * (* write_segment m in handshake state: everybody else has nothing pending *)
        simpl in H2. rewrite Est in H2. inversion H2; subst s' calls; clear H2.
        assert (Oth : forall B (e : nat * msg -> list B), (forall c0, 4 <= fst c0 -> e c0 = []) ->
                  forall t' a', t' <> h -> nth_error (thr c) t' = Some a' -> pendh B e a' = []).
        { intros B e He. apply (others_quiet h opss c h th R IVc En); auto.
          rewrite Est. discriminate. }
        destruct (I1 eq_refl) as [Es Ec].
        destruct HW as (W1 & W2 & W3). unfold Wh, futsh, qfuth in *. simpl.
        destruct (pendh_single _ wexpandh (thr c) h th
                    (Thread [Frame 3 false [(2, Dat m)]] false rest (results th))
                    (Oth _ wexpandh wexpandh_high) En) as [Fw Fw'].
        destruct (pendh_single _ qexpandh (thr c) h th
                    (Thread [Frame 3 false [(2, Dat m)]] false rest (results th))
                    (Oth _ qexpandh qexpandh_high4) En) as [Fq Fq'].
        rewrite Fw', Fq'. rewrite Fw in W1. rewrite Fq in W3.
        rewrite (pendh_nr _ wexpandh th H), H0 in W1. rewrite (pendh_nr _ qexpandh th H), H0 in W3. simpl in W1, W3.
        unfold pendh, eallh, wexpandh, qexpandh. simpl.
        rewrite Es in *. simpl in *. rewrite app_nil_r in *. rewrite hsframes_app. simpl.
        rewrite W1, W3. rewrite app_nil_r. auto.
      * (* finish: only the protocol state changes *)
        simpl in H2. inversion H2; subst s' calls; clear H2.
        apply (Wh_local c h th); auto; rewrite (pendh_nr _ _ th H), H0; reflexivity.
  - (* a send raising in WANoiseProtocol.send: it had nothing pending below the coder *)
    destruct (hfail_true _ _ _ En Efl) as [N Est]. rewrite (nc_call th f fs y d cs H H0 H1 H2) in N.
    inversion N; subst y; clear N.
    assert (Z : forall B (e : nat * msg -> list B), (forall c0, 4 <= fst c0 -> e c0 = []) -> pendh B e th = []).
    { intros B e He. rewrite (pendh_nr _ _ th H).
      destruct (Nat.eq_dec t h) as [->|Hth].
      - exfalso. destruct (I3 _ En) as (_ & Shh). rewrite Est in Shh. destruct Shh as [_ [F C]].
        rewrite H0 in F, C. inversion F as [|? ? Pf _]; subst.
        destruct (pendokh_head f 4 d cs Pf H2) as [Ef _]. pose proof (contigh_P3_le _ _ C). lia.
      - destruct (I2 _ _ En Hth) as [[SK _] NL]. apply aggh_high; auto. }
    apply (Wh_local c t th); auto; unfold pendh at 1; simpl; symmetry.
    + apply Z. exact wexpandh_high.
    + apply Z. exact qexpandh_high4.
  - (* call *)
    assert (TS : Forall pendokh (stack th) /\
                 ((hst (sh c) = true /\ stk P5 (stack th)) \/ (hst (sh c) = false /\ t = h /\ stk P3 (stack th))
                  \/ (hst (sh c) = false /\ t <> h /\ stk P5 (stack th) /\ ~ low th))).
    { destruct (Nat.eq_dec t h) as [->|Hth].
      - destruct (I3 _ En) as (_ & Shh). destruct (hst (sh c)) eqn:Est.
        + destruct Shh as [_ [FF|SK]].
          * rewrite FF in H0. inversion H0; subst f. simpl in H1. discriminate.
          * split; [apply SK|]. left. auto.
        + destruct Shh as [_ SK]. split; [apply SK|]. right. left. auto.
      - destruct (I2 _ _ En Hth) as [[SK _] NL]. split; [apply SK|].
        destruct (hst (sh c)) eqn:Est; [left; auto|]. right. right. auto. }
    destruct TS as [Fp TS]. rewrite H0 in Fp. inversion Fp as [|? ? Pf _]; subst.
    destruct (pendokh_head f y d cs Pf H2) as [Ef (d0 & ->)].
    destruct (le_lt_dec 5 y) as [Hy|Hy].
    + (* above WANoiseProtocol.send: nothing shared is touched, nothing is pending *)
      pose proof (body_highh y (Dat d0) (sh c) Hy) as Eb. rewrite H3 in Eb. simpl in Eb. subst s'.
      assert (SKb : stk P5 (stack th)).
      { destruct TS as [[_ SK]|[(_ & _ & [_ C])|(_ & _ & SK & _)]]; auto.
        rewrite H0 in C. pose proof (contigh_P3_le _ _ C). lia. }
      assert (SKa : stk P5 (stack (Thread (Frame y false calls :: f :: fs) false (ops th) (results th)))).
      { destruct (Nat.eq_dec t h) as [->|Hth]; [|auto].
        destruct (ShH' eq_refl) as (_ & Shh). destruct (hst (sh c)).
        - destruct Shh as [_ [FF|SK]]; [discriminate FF|exact SK].
        - exfalso. destruct TS as [[E _]|[(_ & _ & [_ C])|(_ & Hn & _)]]; [discriminate| |congruence].
          rewrite H0 in C. pose proof (contigh_P3_le _ _ C). lia. }
      assert (NLb : ~ low th). { intros (f0 & r0 & E0 & Hk). rewrite H0 in E0. inversion E0; subst. lia. }
      assert (NLa : ~ low (Thread (Frame y false calls :: f :: fs) false (ops th) (results th))).
      { intros (f0 & r0 & E0 & Hk). simpl in E0. inversion E0; subst. simpl in Hk. lia. }
      apply (Wh_local c t th); auto.
      * rewrite (pendh_nr _ _ th H), (aggh_high _ wexpandh th wexpandh_high SKb NLb).
        unfold pendh. simpl raising. cbv iota. apply (aggh_high _ wexpandh _ wexpandh_high SKa NLa).
      * rewrite (pendh_nr _ _ th H), (aggh_high _ qexpandh th qexpandh_high4 SKb NLb).
        unfold pendh. simpl raising. cbv iota. apply (aggh_high _ qexpandh _ qexpandh_high4 SKa NLa).
    + (* into WANoiseProtocol.send or lower: nobody else has anything pending *)
      assert (P1 : hst (sh c) = true -> In 5 (held_nodes msg (stack th))).
      { intros Est. destruct TS as [[_ SK]|[(E & _)|(E & _)]]; try congruence.
        apply (call_holds5 th f fs SK H0 H1). lia. }
      assert (P2 : hst (sh c) = false -> t = h).
      { intros Est. destruct TS as [[E _]|[(_ & E & _)|(_ & Hn & SK & NL)]]; [congruence|exact E|].
        exfalso. assert (5 <= fnode f). { destruct (le_lt_dec 5 (fnode f)); [assumption|]. exfalso. apply NL. exists f, fs. split; [exact H0|lia]. }
        assert (y = 4) by lia. subst y.
        pose proof (hfail_false _ _ _ En Efl (nc_call th f fs 4 _ cs H H0 H1 H2)). congruence. }
      assert (Oth : forall B (e : nat * msg -> list B), (forall c0, 4 <= fst c0 -> e c0 = []) ->
                forall t' a', t' <> t -> nth_error (thr c) t' = Some a' -> pendh B e a' = []).
      { intros B e He. apply (others_quiet h opss c t th R IVc En P1 P2 B e He). }
      destruct HW as (W1 & W2 & W3). unfold Wh, futsh, qfuth in *. simpl.
      destruct (pendh_single _ wexpandh (thr c) t th
                  (Thread (Frame y false calls :: f :: fs) false (ops th) (results th))
                  (Oth _ wexpandh wexpandh_high) En) as [Fw Fw'].
      destruct (pendh_single _ qexpandh (thr c) t th
                  (Thread (Frame y false calls :: f :: fs) false (ops th) (results th))
                  (Oth _ qexpandh qexpandh_high4) En) as [Fq Fq'].
      rewrite Fw', Fq'. rewrite Fw in W1. rewrite Fq in W3.
      rewrite (pendh_nr _ wexpandh th H), H0 in W1. rewrite (pendh_nr _ qexpandh th H), H0 in W3.
      rewrite (aggh_top _ wexpandh _ _ _ _ _ H2) in W1. rewrite (aggh_top _ qexpandh _ _ _ _ _ H2) in W3.
      unfold pendh. simpl raising. cbv iota. simpl stack.
      rewrite (aggh_call _ wexpandh _ _ _ _ _ _ H2), (aggh_call _ qexpandh _ _ _ _ _ _ H2).
      set (Xw := eallh _ wexpandh cs ++ concat (map (fun g => eallh _ wexpandh (tl (fpend g))) fs)) in *.
      set (Xq := eallh _ qexpandh cs ++ concat (map (fun g => eallh _ qexpandh (tl (fpend g))) fs)) in *.
      unfold bodyh in H3.
      destruct y as [|[|[|[|[|y]]]]]; [| | | | |lia].
      * (* network: the write *)
        inversion H3; subst s' calls; clear H3. simpl. unfold wexpandh, qexpandh in W1, W3. simpl in W1, W3.
        unfold eallh. simpl. rewrite <- app_assoc. simpl. auto.
      * (* segments.send: header, payload *)
        inversion H3; subst s' calls; clear H3. unfold eallh. simpl. unfold wexpandh, qexpandh in *. simpl in *. auto.
      * (* _handle_stream_event: dequeue *)
        unfold qexpandh in W3. simpl in W3. rewrite W3 in H3.
        inversion H3; subst s' calls; clear H3. unfold eallh. simpl. unfold wexpandh, qexpandh in *. simpl in *. auto.
      * (* write_segment from WANoiseTransport.send (transport state): enqueue *)
        assert (Est : hst (sh c) = true).
        { destruct TS as [[E _]|[(_ & _ & [_ C])|(E & Hn & _)]]; [exact E| |].
          - rewrite H0 in C. pose proof (contigh_P3_le _ _ C). lia.
          - specialize (P2 E). congruence. }
        rewrite Est in H3. inversion H3; subst s' calls; clear H3.
        (* the frame of WANoiseProtocol.send has no other queue content pending *)
        assert (Zq : Xq = []).
        { destruct TS as [[_ [F C]]|[(E & _)|(E & _)]]; try congruence.
          assert (A : aggh _ qexpandh (f :: fs) = []).
          { apply (aggh_ge _ qexpandh 4 (fun c0 Hc => qexpandh_high c0 ltac:(lia)) P5).
            - rewrite <- H0. exact F.
            - rewrite H0 in C. split; [lia|exact C]. }
          rewrite (aggh_top _ qexpandh _ _ _ _ _ H2) in A. fold Xq in A.
          apply app_eq_nil in A. apply A. }
        unfold eallh. simpl. unfold wexpandh, qexpandh in *. simpl in *.
        rewrite Zq in *. rewrite W3. simpl. auto.
      * (* WANoiseProtocol.send in transport state: encrypt with the next nonce *)
        assert (Est : hst (sh c) = true).
        { apply (hfail_false _ _ _ En Efl (nc_call th f fs 4 _ cs H H0 H1 H2)). }
        inversion H3; subst s' calls; clear H3.
        assert (SKb : stk P5 (stack th)).
        { destruct TS as [[_ SK]|[(E & _)|(E & _)]]; [exact SK|congruence|congruence]. }
        assert (NLb : ~ low th). { intros (f0 & r0 & E0 & Hk). rewrite H0 in E0. inversion E0; subst. lia. }
        pose proof (aggh_high _ wexpandh th wexpandh_high SKb NLb) as Zw.
        pose proof (aggh_high _ qexpandh th qexpandh_high4 SKb NLb) as Zq.
        rewrite H0 in Zw, Zq. rewrite (aggh_top _ wexpandh _ _ _ _ _ H2) in Zw.
        rewrite (aggh_top _ qexpandh _ _ _ _ _ H2) in Zq.
        fold Xw in Zw. fold Xq in Zq.
        unfold wexpandh in Zw, W1. unfold qexpandh in Zq, W3. simpl in Zw, Zq, W1, W3.
        rewrite Zw in *. rewrite Zq in *. unfold eallh. simpl. unfold wexpandh, qexpandh. simpl.
        rewrite app_nil_r in *. rewrite hframes_app. simpl. rewrite app_assoc. rewrite <- W1, <- W2.
        rewrite W3. rewrite app_length. simpl. repeat split; auto. lia.
  - exfalso. destruct (hfail_true _ _ _ En Efl) as [N _]. rewrite (nc_unheld th f fs H0 H1) in N. discriminate.
  - (* acquire (lock) *)
    apply (Wh_local c t th); auto; unfold pendh; simpl; rewrite H, H0; reflexivity.
  - apply (Wh_local c t th); auto; unfold pendh; simpl; rewrite H, H0; reflexivity.
  - (* done *)
    apply (Wh_local c t th); auto; unfold pendh; simpl; rewrite H, H0; simpl; unfold eallh; rewrite H2; reflexivity.
  - (* return *)
    apply (Wh_local c t th); auto; unfold pendh; simpl raising; rewrite H, H0; symmetry; apply aggh_ret; exact H2.
Qed.

Lemma reach_h_Wh h opss c : entry_h h opss -> reach_h opss c -> Wh c.
Proof.
  intros EO R. induction R as [|c t c' R IH Hs]; [apply Wh_init|].
  eapply Wh_step; eauto; [apply reach_h_reach; exact R|eapply reach_h_Inv; eauto].
Qed.


(* ---------- exactly once, with outcomes ---------- *)
Lemma okp_app : forall pre rs rest rs', length pre = length rs ->
  okp (pre ++ rest) (rs ++ rs') = okp pre rs ++ okp rest rs'.
Proof.
  induction pre as [|c pre IH]; intros [|r rs] rest rs' L; simpl in *; try discriminate; [reflexivity|].
  rewrite IH by lia. rewrite app_assoc. reflexivity.
Qed.

Lemma okp_nil_r : forall o, okp o [] = [].
Proof. destruct o; reflexivity. Qed.

Lemma okp_pre pre rs rest : length pre = length rs -> okp (pre ++ rest) rs = okp pre rs.
Proof.
  intros L. rewrite <- (app_nil_r rs) at 1. rewrite okp_app by exact L. rewrite okp_nil_r. apply app_nil_r.
Qed.

Lemma skipn_app_len {A} : forall (pre l : list A), skipn (length pre) (pre ++ l) = l.
Proof. induction pre; simpl; auto. Qed.

Lemma pexpand_bodyh x m s : (x <> 4 \/ m = Flip) ->
  eallh data pexpandh (snd (body x m s)) = pexpandh (x, m) /\ hsent (fst (body x m s)) = hsent s.
Proof.
  intros Hx. unfold bodyh, eallh. destruct m as [d|].
  - destruct x as [|[|[|[|[|[|x]]]]]]; simpl; auto.
    + destruct (hq s); simpl; auto.
    + destruct Hx as [Hx|Hx]; [congruence|discriminate].
    + split; [|reflexivity]. unfold C11HsModel.pexpandh at 2. simpl. unfold dcalls. rewrite map_map. simpl.
      f_equal. apply map_ext. intros o. unfold C11HsModel.pexpandh. simpl. rewrite Nat.sub_0_r. reflexivity.
  - destruct x as [|[|[|[|[|x]]]]]; simpl; auto.
Qed.

Notation pair := (list (nat * msg) * thread)%type.
Definition okd (p : pair) : list data := okp (fst p) (results (snd p)).
Definition curop (p : pair) : list (nat * msg) := firstn 1 (skipn (length (results (snd p))) (fst p)).
Definition curp (p : pair) : list data :=
  if raising (snd p) then [] else
  match stack (snd p) with [] => [] | _ :: _ => concat (map pexpandh (curop p)) end.
Definition pendp (p : pair) : list data := pendh data pexpandh (snd p).
Definition okcur (p : pair) : list data := okd p ++ curp p.
(* the operations already over, the one in progress (if any), the ones still to start *)
Definition Rp (p : pair) : Prop :=
  exists pre cur, fst p = pre ++ cur ++ ops (snd p) /\ length pre = length (results (snd p)) /\
                  (stack (snd p) = [] -> cur = []) /\ (stack (snd p) <> [] -> exists c, cur = [c]).
Definition Lp (p : pair) : Prop := Permutation (pendp p) (curp p) /\ okd p = [].

Definition Kh (opss : list (list (nat * msg))) (c : config) : Prop :=
  length (thr c) = length opss /\ Forall Rp (combine opss (thr c)) /\
  Permutation (hsent (sh c) ++ concat (map pendp (combine opss (thr c))))
              (concat (map okcur (combine opss (thr c)))) /\
  (hst (sh c) = false -> Forall Lp (combine opss (thr c))).

Lemma Rp_cur o (th : thread) : Rp (o, th) -> stack th <> [] ->
  exists pre c, o = pre ++ c :: ops th /\ length pre = length (results th) /\ curop (o, th) = [c].
Proof.
  intros (pre & cur & E & L & _ & Hc) Hne. simpl in *. destruct (Hc Hne) as (c & ->).
  exists pre, c. split; [exact E|]. split; [exact L|]. unfold curop. simpl. rewrite E, <- L.
  rewrite skipn_app_len. reflexivity.
Qed.

Lemma Kh_init opss : Kh opss (init msg _ (s0h data) opss).
Proof.
  unfold Kh, init. simpl. rewrite map_length. split; [reflexivity|].
  assert (A : forall l : list (list (nat * msg)),
            Forall Rp (combine l (map (fun o => Thread [] false o []) l)) /\
            concat (map pendp (combine l (map (fun o => Thread [] false o []) l))) = [] /\
            concat (map okcur (combine l (map (fun o => Thread [] false o []) l))) = [] /\
            Forall Lp (combine l (map (fun o => Thread [] false o []) l))).
  { induction l as [|o l (A1 & A2 & A3 & A4)]; simpl; [repeat split; constructor|].
    split; [constructor; [|exact A1]|].
    - exists [], []. simpl. repeat split; auto. intros Hn. contradiction.
    - rewrite A2, A3. unfold pendp, okcur, okd, curp, pendh. simpl. rewrite okp_nil_r. simpl.
      repeat split; auto. constructor; [|exact A4]. unfold Lp, pendp, curp, okd, pendh. simpl.
      rewrite okp_nil_r. split; [constructor|reflexivity]. }
  destruct (A opss) as (A1 & A2 & A3 & A4). rewrite A2, A3. repeat split; auto.
Qed.

Lemma Kh_local opss c t o th th' lk' s' :
  nth_error opss t = Some o -> nth_error (thr c) t = Some th ->
  Rp (o, th') -> hsent s' = hsent (sh c) -> (hst s' = false -> hst (sh c) = false) ->
  pendp (o, th') = pendp (o, th) -> okcur (o, th') = okcur (o, th) -> (Lp (o, th) -> Lp (o, th')) ->
  Kh opss c -> Kh opss (Config lk' s' (set_nth t th' (thr c))).
Proof.
  intros Eo En R' Es Hm Hp Hc HL (K1 & K2 & K3 & K4). unfold Kh. simpl.
  pose proof (nth_combine _ _ _ _ _ Eo En) as Ec.
  rewrite (combine_set_nth _ _ _ _ th' Eo).
  split; [rewrite set_nth_length; exact K1|]. split; [apply Forall_set_nth; assumption|]. split.
  - rewrite Es. rewrite (concat_same pendp _ _ _ _ Ec Hp). rewrite (concat_same okcur _ _ _ _ Ec Hc). exact K3.
  - intros Hf. specialize (K4 (Hm Hf)). apply Forall_set_nth; [exact K4|]. apply HL.
    apply (Forall_nth _ _ _ _ K4 Ec).
Qed.

Lemma Kh_step h opss c t c' :
  Inv h c -> hexec c t = Some c' -> Kh opss c -> Kh opss c'.
Proof.
  intros IV H HK. apply hexec_inv in H.
  destruct H as (th & lk' & s' & th' & l & En & Hs & ->).
  remember (hfail c t) as fl eqn:Efl. symmetry in Efl.
  assert (Hmono : hst s' = false -> hst (sh c) = false).
  { intros Hf. destruct Hs; try assumption.
    - pose proof (body_hst x d (sh c)) as B. rewrite H2 in B. simpl in B.
      destruct B as [B|(_ & _ & B)]; congruence.
    - pose proof (body_hst y d (sh c)) as B. rewrite H3 in B. simpl in B.
      destruct B as [B|(_ & _ & B)]; congruence. }
  pose proof HK as (K1 & K2 & K3 & K4).
  destruct (nth_lt_some opss t) as [o Eo]. { rewrite <- K1. eapply nth_some_lt; eauto. }
  pose proof (nth_combine _ _ _ _ _ Eo En) as Ec.
  pose proof (Forall_nth _ _ _ _ K2 Ec) as Rt.
  destruct Hs.
  - (* unwind, last frame: the operation is over, result false *)
    assert (Hne : stack th <> []) by (rewrite H0; discriminate).
    destruct (Rp_cur o th Rt Hne) as (pre & c0 & Eo' & Lpre & _).
    assert (Eokd : okd (o, Thread [] false (ops th) (results th ++ [false])) = okd (o, th)).
    { unfold okd. simpl. rewrite Eo'. replace (pre ++ c0 :: ops th) with (pre ++ [c0] ++ ops th) by reflexivity.
      rewrite okp_app by exact Lpre. simpl. rewrite okp_nil_r, app_nil_r. symmetry. apply okp_pre. exact Lpre. }
    apply (Kh_local opss c t o th); auto.
    + exists (pre ++ [c0]), []. simpl. rewrite Eo', <- app_assoc. simpl.
      repeat split; auto; [rewrite !app_length; simpl; lia|intros Hn; contradiction].
    + unfold pendp, pendh. simpl. rewrite H. reflexivity.
    + unfold okcur. rewrite Eokd. unfold curp. simpl. rewrite H. reflexivity.
    + intros [_ L2]. unfold Lp. rewrite Eokd. split; [|exact L2]. unfold pendp, curp, pendh. simpl. constructor.
  - (* unwind *)
    apply (Kh_local opss c t o th); auto.
    + destruct Rt as (pre & cur & E1 & E2 & E3 & E4). exists pre, cur. simpl in *. repeat split; auto.
      * intros Hn. discriminate.
      * intros _. apply E4. rewrite H0. discriminate.
    + unfold pendp, pendh. simpl. rewrite H. reflexivity.
    + unfold okcur, okd, curp. simpl. rewrite H. reflexivity.
    + intros [_ L2]. unfold Lp. split; [unfold pendp, curp, pendh; simpl; constructor|exact L2].
  - exfalso. destruct (hfail_true _ _ _ En Efl) as [N _]. rewrite (nc_empty th H0) in N. discriminate.
  - (* start *)
    assert (Hx : x <> 4 \/ d = Flip).
    { destruct IV as (_ & I2 & I3). destruct (Nat.eq_dec t h) as [->|Hth].
      - destruct (I3 _ En) as (_ & Shh). destruct (hst (sh c)).
        + destruct Shh as [SP _]. rewrite H1 in SP. apply Forall_inv in SP. simpl in SP. left. lia.
        + destruct Shh as [HP _]. rewrite H1 in HP.
          destruct (hs_prog_cons _ _ _ HP) as [(-> & _)|(_ & -> & _)]; [left; lia|right; reflexivity].
      - destruct (I2 _ _ En Hth) as [[_ SP] _]. rewrite H1 in SP. apply Forall_inv in SP. simpl in SP. left. lia. }
    destruct (pexpand_bodyh x d (sh c) Hx) as [Eb Es]. rewrite H2 in Eb, Es. simpl in Eb, Es.
    destruct Rt as (pre & cur & E1 & E2 & E3 & _). simpl in E1, E2, E3. rewrite (E3 H0) in E1. simpl in E1.
    rewrite H1 in E1.
    assert (Ecur : curop (o, Thread [Frame x false calls] false rest (results th)) = [(x, d)]).
    { unfold curop. simpl. rewrite E1, <- E2, skipn_app_len. reflexivity. }
    assert (Ep' : pendp (o, Thread [Frame x false calls] false rest (results th)) = pendp (o, th) ++ pexpandh (x, d)).
    { unfold pendp, pendh. simpl. rewrite H, H0. simpl. rewrite app_nil_r. exact Eb. }
    assert (Ec' : okcur (o, Thread [Frame x false calls] false rest (results th)) = okcur (o, th) ++ pexpandh (x, d)).
    { unfold okcur, okd, curp. simpl. rewrite H, H0, Ecur. simpl. rewrite !app_nil_r. reflexivity. }
    unfold Kh. simpl. rewrite (combine_set_nth _ _ _ _ _ Eo).
    split; [rewrite set_nth_length; exact K1|]. split; [|split].
    + apply Forall_set_nth; [exact K2|]. exists pre, [(x, d)]. simpl. rewrite E1. repeat split; auto.
      * intros Hn. discriminate.
      * intros _. eexists; reflexivity.
    + rewrite Es.
      rewrite (perm_set pendp _ _ _ _ (pexpandh (x, d)) Ec) by (rewrite Ep'; reflexivity).
      rewrite (perm_set okcur _ _ _ _ (pexpandh (x, d)) Ec) by (rewrite Ec'; reflexivity).
      rewrite app_assoc. apply Permutation_app_tail. exact K3.
    + intros Hf. specialize (K4 (Hmono Hf)). apply Forall_set_nth; [exact K4|].
      destruct (Forall_nth _ _ _ _ K4 Ec) as [L1 L2]. split.
      * unfold pendp, curp, pendh. simpl. rewrite Ecur. simpl. rewrite !app_nil_r. rewrite Eb. reflexivity.
      * exact L2.
  - (* the send raises: what it had pending is dropped, the operation will end with result false *)
    destruct (hfail_true _ _ _ En Efl) as [_ Est].
    destruct (Forall_nth _ _ _ _ (K4 Est) Ec) as [L1 L2].
    assert (Ep' : pendp (o, Thread (f :: fs) true (ops th) (results th)) = []) by reflexivity.
    assert (Ec' : okcur (o, Thread (f :: fs) true (ops th) (results th)) = okd (o, th)).
    { unfold okcur, okd, curp. simpl. apply app_nil_r. }
    unfold Kh. simpl. rewrite (combine_set_nth _ _ _ _ _ Eo).
    split; [rewrite set_nth_length; exact K1|]. split; [|split].
    + apply Forall_set_nth; [exact K2|]. destruct Rt as (pre & cur & E1 & E2 & E3 & E4). exists pre, cur.
      simpl in *. repeat split; auto.
      * intros Hn. discriminate.
      * intros _. apply E4. rewrite H0. discriminate.
    + pose proof (perm_unset pendp _ t _ (o, Thread (f :: fs) true (ops th) (results th)) (pendp (o, th)) Ec) as Q1.
      rewrite Ep' in Q1. specialize (Q1 (Permutation_refl _)).
      pose proof (perm_unset okcur _ t _ (o, Thread (f :: fs) true (ops th) (results th)) (curp (o, th)) Ec) as Q2.
      rewrite Ec' in Q2. specialize (Q2 (Permutation_refl _)).
      rewrite Q1, Q2 in K3. rewrite app_assoc in K3. rewrite L1 in K3.
      apply Permutation_app_inv_r in K3. exact K3.
    + intros _. apply Forall_set_nth; [exact (K4 Est)|]. split; [|exact L2].
      unfold pendp, curp, pendh. simpl. constructor.
  - (* call *)
    assert (Rt' : Rp (o, Thread (Frame y false calls :: f :: fs) false (ops th) (results th))).
    { destruct Rt as (pre & cur & E1 & E2 & E3 & E4). exists pre, cur. simpl in *. repeat split; auto.
      - intros Hn. discriminate.
      - intros _. apply E4. rewrite H0. discriminate. }
    assert (Ecur : curp (o, Thread (Frame y false calls :: f :: fs) false (ops th) (results th)) = curp (o, th)).
    { unfold curp, curop. simpl. rewrite H, H0. reflexivity. }
    assert (Ec' : okcur (o, Thread (Frame y false calls :: f :: fs) false (ops th) (results th)) = okcur (o, th)).
    { unfold okcur. rewrite Ecur. reflexivity. }
    assert (Dd : is_dat d).
    { destruct IV as (_ & I2 & I3).
      assert (Fp : Forall pendokh (stack th)).
      { destruct (Nat.eq_dec t h) as [->|Hth].
        - destruct (I3 _ En) as (_ & Shh). destruct (hst (sh c)).
          + destruct Shh as [_ [FF|SK]]; [|apply SK]. rewrite FF in H0. inversion H0; subst f. discriminate.
          + apply Shh.
        - destruct (I2 _ _ En Hth) as [[SK _] _]. apply SK. }
      rewrite H0 in Fp. inversion Fp as [|? ? Pf _]; subst. apply (pendokh_head f y d cs Pf H2). }
    destruct Dd as (d0 & ->).
    destruct (Nat.eq_dec y 4) as [->|Hy].
    + (* WANoiseProtocol.send: the plaintext moves from `pending` to `sent` *)
      unfold bodyh in H3. inversion H3; subst s' calls; clear H3.
      assert (Ep : Permutation (pendp (o, th))
                     (pendp (o, Thread (Frame 4 false [(3, Dat (enc (hctr (sh c)) d0))] :: f :: fs) false (ops th) (results th)) ++ [d0])).
      { unfold pendp. rewrite (pendh_nr _ _ th H), H0. rewrite (aggh_top _ pexpandh _ _ _ _ _ H2).
        unfold pendh. simpl raising. cbv iota. simpl stack. rewrite (aggh_call _ pexpandh _ _ _ _ _ _ H2).
        unfold eallh at 1. unfold C11HsModel.pexpandh at 1 2. simpl. apply Permutation_cons_append. }
      unfold Kh. simpl. rewrite (combine_set_nth _ _ _ _ _ Eo).
      split; [rewrite set_nth_length; exact K1|]. split; [|split].
      * apply Forall_set_nth; assumption.
      * rewrite (concat_same okcur _ _ _ _ Ec Ec').
        rewrite (perm_unset pendp _ t _ _ [d0] Ec Ep) in K3.
        rewrite <- K3. rewrite <- !app_assoc. apply Permutation_app_head. apply Permutation_app_comm.
      * intros Hf. exfalso.
        pose proof (hfail_false _ _ _ En Efl (nc_call th f fs 4 _ cs H H0 H1 H2)). simpl in Hf. congruence.
    + destruct (pexpand_bodyh y (Dat d0) (sh c) (or_introl Hy)) as [Eb Es]. rewrite H3 in Eb, Es. simpl in Eb, Es.
      assert (Ep : pendp (o, Thread (Frame y false calls :: f :: fs) false (ops th) (results th)) = pendp (o, th)).
      { unfold pendp. rewrite (pendh_nr _ _ th H), H0. rewrite (aggh_top _ pexpandh _ _ _ _ _ H2).
        unfold pendh. simpl raising. cbv iota. simpl stack. rewrite (aggh_call _ pexpandh _ _ _ _ _ _ H2).
        rewrite Eb. reflexivity. }
      apply (Kh_local opss c t o th); auto.
      intros [L1 L2]. split; [rewrite Ep, Ecur; exact L1|exact L2].
  - exfalso. destruct (hfail_true _ _ _ En Efl) as [N _]. rewrite (nc_unheld th f fs H0 H1) in N. discriminate.
  - (* acquire (lock) *)
    assert (Ep : pendp (o, Thread (Frame (fnode f) true (fpend f) :: fs) false (ops th) (results th)) = pendp (o, th)).
    { unfold pendp, pendh. simpl. rewrite H, H0. reflexivity. }
    assert (Ecur : curp (o, Thread (Frame (fnode f) true (fpend f) :: fs) false (ops th) (results th)) = curp (o, th)).
    { unfold curp, curop. simpl. rewrite H, H0. reflexivity. }
    apply (Kh_local opss c t o th); auto.
    + destruct Rt as (pre & cur & E1 & E2 & E3 & E4). exists pre, cur. simpl in *. repeat split; auto.
      * intros Hn. discriminate.
      * intros _. apply E4. rewrite H0. discriminate.
    + unfold okcur. rewrite Ecur. reflexivity.
    + intros [L1 L2]. split; [rewrite Ep, Ecur; exact L1|exact L2].
  - assert (Ep : pendp (o, Thread (Frame (fnode f) true (fpend f) :: fs) false (ops th) (results th)) = pendp (o, th)).
    { unfold pendp, pendh. simpl. rewrite H, H0. reflexivity. }
    assert (Ecur : curp (o, Thread (Frame (fnode f) true (fpend f) :: fs) false (ops th) (results th)) = curp (o, th)).
    { unfold curp, curop. simpl. rewrite H, H0. reflexivity. }
    apply (Kh_local opss c t o th); auto.
    + destruct Rt as (pre & cur & E1 & E2 & E3 & E4). exists pre, cur. simpl in *. repeat split; auto.
      * intros Hn. discriminate.
      * intros _. apply E4. rewrite H0. discriminate.
    + unfold okcur. rewrite Ecur. reflexivity.
    + intros [L1 L2]. split; [rewrite Ep, Ecur; exact L1|exact L2].
  - (* done: the operation is over, result true; what it was to send has been sent *)
    assert (Hne : stack th <> []) by (rewrite H0; discriminate).
    destruct (Rp_cur o th Rt Hne) as (pre & c0 & Eo' & Lpre & Ecu).
    assert (Eokd : okd (o, Thread [] false (ops th) (results th ++ [true])) = okd (o, th) ++ pexpandh c0).
    { unfold okd. simpl. rewrite Eo'. replace (pre ++ c0 :: ops th) with (pre ++ [c0] ++ ops th) by reflexivity.
      rewrite okp_app by exact Lpre. simpl. rewrite okp_nil_r, !app_nil_r. f_equal. symmetry.
      replace (pre ++ c0 :: ops th) with (pre ++ [c0] ++ ops th) by reflexivity. apply okp_pre. exact Lpre. }
    assert (Ecurp : curp (o, th) = pexpandh c0).
    { unfold curp. simpl. rewrite H, H0, Ecu. simpl. apply app_nil_r. }
    assert (Ep0 : pendp (o, th) = []).
    { unfold pendp, pendh. simpl. rewrite H, H0. simpl. unfold eallh. rewrite H2. reflexivity. }
    apply (Kh_local opss c t o th); auto.
    + exists (pre ++ [c0]), []. simpl. rewrite Eo', <- app_assoc. simpl.
      repeat split; auto; [rewrite !app_length; simpl; lia|intros Hn; contradiction].
    + unfold okcur. rewrite Eokd, Ecurp. unfold curp. simpl. rewrite app_nil_r. reflexivity.
    + intros [L1 L2]. rewrite Ep0, Ecurp in L1. apply Permutation_nil in L1.
      split; [unfold pendp, curp, pendh; simpl; constructor|]. rewrite Eokd, L2, L1. reflexivity.
  - (* return *)
    assert (Ep : pendp (o, Thread (Frame (fnode g) false (tl (fpend g)) :: fs) false (ops th) (results th)) = pendp (o, th)).
    { unfold pendp, pendh. cbn [snd raising stack]. rewrite H, H0. symmetry. apply aggh_ret. exact H2. }
    assert (Ecur : curp (o, Thread (Frame (fnode g) false (tl (fpend g)) :: fs) false (ops th) (results th)) = curp (o, th)).
    { unfold curp, curop. simpl. rewrite H, H0. reflexivity. }
    apply (Kh_local opss c t o th); auto.
    + destruct Rt as (pre & cur & E1 & E2 & E3 & E4). exists pre, cur. simpl in *. repeat split; auto.
      * intros Hn. discriminate.
      * intros _. apply E4. rewrite H0. discriminate.
    + unfold okcur. rewrite Ecur. reflexivity.
    + intros [L1 L2]. split; [rewrite Ep, Ecur; exact L1|exact L2].
Qed.

Lemma reach_h_Kh h opss c : entry_h h opss -> reach_h opss c -> Kh opss c.
Proof.
  intros EO R. induction R as [|c t c' R IH Hs]; [apply Kh_init|].
  eapply Kh_step; eauto. eapply reach_h_Inv; eauto.
Qed.


(* ---------- theorems ---------- *)

(* a thread is below the coder when its innermost frame is WANoiseProtocol.send or lower; the lone frame of
   `finish` (which only flips the state) does not count *)
Definition belowh (th : thread) : Prop :=
  exists f rest, stack th = f :: rest /\ fnode f <= 4 /\ (fnode f = 4 -> rest <> []).

(* whoever is below the coder either holds the coder's lock (transport state), or is the handshake worker
   (handshake state: every other thread's send raises before it gets there) *)
Theorem hs_below_owner_thm h opss c t th :
  entry_h h opss -> reach_h opss c -> nth_error (thr c) t = Some th -> belowh th ->
  (hst (sh c) = true /\ holds th 5 /\ locks c 5 = Some t) \/ (hst (sh c) = false /\ t = h).
Proof.
  intros EO R En (f & rest & Es & Hk & H4). destruct (reach_h_Inv _ _ _ EO R) as (_ & I2 & I3).
  destruct (reach_inv_wa msg _ has_lockh rorh body body_lowerh _ _ _ (reach_h_reach _ _ R)) as [_ IA].
  assert (L : low th) by (exists f, rest; auto).
  assert (Snd : stk P5 (stack th) -> holds th 5 /\ locks c 5 = Some t).
  { intros SK. pose proof (low_holds5 th SK L) as H5. split.
    - apply (holds_iff msg has_lockh rorh). exact H5.
    - apply (IA _ _ _ En H5 eq_refl). }
  destruct (hst (sh c)) eqn:Est.
  - left. split; [reflexivity|]. destruct (Nat.eq_dec t h) as [->|Hth].
    + destruct (I3 _ En) as (_ & _ & [FF|SK]); [|auto].
      exfalso. rewrite FF in Es. inversion Es; subst f rest. apply H4; reflexivity.
    + destruct (I2 _ _ En Hth) as [[SK _] _]. auto.
  - right. split; [reflexivity|]. destruct (Nat.eq_dec t h) as [->|Hth]; [reflexivity|].
    exfalso. destruct (I2 _ _ En Hth) as [_ NL]. apply (NL eq_refl). exact L.
Qed.

Theorem hs_serialised_thm h opss c t1 t2 th1 th2 :
  entry_h h opss -> reach_h opss c ->
  nth_error (thr c) t1 = Some th1 -> nth_error (thr c) t2 = Some th2 ->
  belowh th1 -> belowh th2 -> t1 = t2.
Proof.
  intros EO R E1 E2 B1 B2.
  destruct (hs_below_owner_thm _ _ _ _ _ EO R E1 B1) as [(S1 & _ & L1)|(S1 & ->)];
  destruct (hs_below_owner_thm _ _ _ _ _ EO R E2 B2) as [(S2 & _ & L2)|(S2 & ->)]; congruence.
Qed.

Lemma not_below_quiet h c t th B (e : nat * msg -> list B) :
  (forall c0, 4 <= fst c0 -> e c0 = []) -> Inv h c -> nth_error (thr c) t = Some th -> ~ belowh th ->
  pendh B e th = [].
Proof.
  intros He (_ & I2 & I3) En NB. unfold pendh. destruct (raising th); [reflexivity|].
  destruct (stack th) as [|f rest] eqn:Es; [reflexivity|]. rewrite <- Es.
  assert (Snd : stk P5 (stack th) -> aggh B e (stack th) = []).
  { intros SK. apply aggh_high; [exact He|exact SK|]. intros (f0 & r0 & E0 & Hk).
    rewrite Es in E0. inversion E0; subst f0 r0.
    apply NB. exists f, rest. split; [exact Es|]. split; [exact Hk|]. intros E4 ->.
    destruct SK as [_ C]. rewrite Es in C. simpl in C. unfold P5 in C. lia. }
  destruct (Nat.eq_dec t h) as [->|Hth].
  - destruct (I3 _ En) as (_ & Shh). destruct (hst (sh c)).
    + destruct Shh as [_ [FF|SK]]; [rewrite FF; reflexivity|auto].
    + exfalso. destruct Shh as [_ [_ C]]. rewrite Es in C.
      pose proof (contigh_P3_le _ _ C) as Hle. apply NB. exists f, rest.
      split; [exact Es|]. split; [lia|intros; lia].
  - destruct (I2 _ _ En Hth) as [[SK _] _]. auto.
Qed.

(* in every reachable state the socket has received a prefix of
     [handshake segments, framed, in the order they were handed to the stream] ++
     [transport frames hdr(c0) c0 hdr(c1) c1 ..., c_j = enc j p_j, p = the plaintexts in encryption order];
   what is missing is exactly the pending writes of the (unique) thread below the coder *)
Theorem hs_frames_whole_thm h opss c :
  entry_h h opss -> reach_h opss c ->
  hwire (sh c) ++ futsh c = hsframes (hsw (sh c)) ++ hframes 0 (hsent (sh c)) /\
  hctr (sh c) = length (hsent (sh c)) /\
  (forall t th, nth_error (thr c) t = Some th -> ~ belowh th -> pendh data wexpandh th = []) /\
  (forall t th, nth_error (thr c) t = Some th -> belowh th -> futsh c = pendh data wexpandh th).
Proof.
  intros EO R. pose proof (reach_h_Inv _ _ _ EO R) as IV.
  destruct (reach_h_Wh _ _ _ EO R) as (W1 & W2 & _). split; [exact W1|]. split; [exact W2|]. split.
  - intros t th En NB. apply (not_below_quiet h c t th _ wexpandh wexpandh_high IV En NB).
  - intros t th En B. unfold futsh. apply (concat_single (pendh data wexpandh) _ t th En).
    intros t' a' Hne Ea. apply (not_below_quiet h c t' a' _ wexpandh wexpandh_high IV Ea).
    intros B'. apply Hne. eapply hs_serialised_thm; eauto.
Qed.

(* whenever nobody is below the coder the wire is: the handshake segments, then whole transport frames, the
   j-th encrypted with nonce j *)
Theorem hs_counter_order_thm h opss c :
  entry_h h opss -> reach_h opss c ->
  (forall t th, nth_error (thr c) t = Some th -> ~ belowh th) ->
  hwire (sh c) = hsframes (hsw (sh c)) ++ hframes 0 (hsent (sh c)).
Proof.
  intros EO R NB. destruct (hs_frames_whole_thm _ _ _ EO R) as (W1 & _ & Z & _).
  unfold futsh in W1. rewrite all_nil in W1; [rewrite app_nil_r in W1; exact W1|].
  intros i x Ex. apply (Z i x Ex). apply (NB i x Ex).
Qed.

(* before the state flips nothing has been encrypted: no transport frame precedes a handshake segment *)
Theorem hs_handshake_first_thm h opss c :
  entry_h h opss -> reach_h opss c -> hst (sh c) = false ->
  hsent (sh c) = [] /\ hctr (sh c) = 0 /\ hwire (sh c) ++ futsh c = hsframes (hsw (sh c)).
Proof.
  intros EO R Hf. destruct (reach_h_Inv _ _ _ EO R) as (I1 & _). destruct (I1 Hf) as [A B].
  destruct (reach_h_Wh _ _ _ EO R) as (W1 & _). rewrite A in W1. simpl in W1. rewrite app_nil_r in W1. auto.
Qed.

(* a send raises exactly when it reaches WANoiseProtocol.send outside the transport state; the raising step
   changes nothing shared, takes no lock; in transport state no send ever raises *)
Theorem hs_raise_thm c t c' :
  hexec c t = Some c' ->
  (hfail c t = true -> hst (sh c) = false /\ sh c' = sh c /\ locks c' = locks c /\
                       exists th, nth_error (thr c) t = Some th /\ next_call th = Some 4) /\
  (hst (sh c) = true -> hfail c t = false).
Proof.
  intros H. split.
  - intros Hf. apply hexec_inv in H. destruct H as (th & lk' & s' & th' & l & En & Hs & ->).
    destruct (hfail_true _ _ _ En Hf) as [N Est]. rewrite Hf in Hs.
    remember true as tt eqn:Et in Hs. destruct Hs; try discriminate Et; simpl; eauto 10.
  - intros Est. unfold hfail. destruct (nth_error (thr c) t) as [th|]; [|reflexivity].
    destruct (next_call th) as [[|[|[|[|[|n]]]]]|]; try reflexivity. rewrite Est. reflexivity.
Qed.

(* at termination: the plaintexts encrypted are, as a multiset, exactly those of the sends that RETURNED
   (okp: each operation flattened through the layers above the noise layer, counted iff its result is true);
   a send that raised contributed nothing; every operation has a result; the wire is the handshake segments
   followed by the whole frames of `sent` in nonce order *)
Theorem hs_exactly_once_thm h opss c :
  entry_h h opss -> reach_h opss c ->
  (forall t th, nth_error (thr c) t = Some th -> finished th) ->
  Permutation (hsent (sh c)) (concat (map okd (combine opss (thr c)))) /\
  hwire (sh c) = hsframes (hsw (sh c)) ++ hframes 0 (hsent (sh c)) /\
  length (thr c) = length opss /\
  (forall t o th, nth_error opss t = Some o -> nth_error (thr c) t = Some th ->
                  length (results th) = length o).
Proof.
  intros EO R Fin. destruct (reach_h_Kh _ _ _ EO R) as (K1 & K2 & K3 & _).
  assert (A : forall p, In p (combine opss (thr c)) -> pendp p = [] /\ okcur p = okd p).
  { intros p Hp. apply In_nth_error in Hp. destruct Hp as (t & Et).
    destruct (nth_combine_inv _ _ _ _ Et) as [_ E2]. destruct (Fin _ _ E2) as [Es _].
    unfold pendp, okcur, curp, pendh. rewrite Es. destruct (raising (snd p)); rewrite ?app_nil_r; auto. }
  split; [|split; [|split]].
  - rewrite all_nil in K3.
    + rewrite app_nil_r in K3. rewrite K3. erewrite map_ext_in; [reflexivity|]. intros p Hp. apply A. exact Hp.
    + intros i x Ex. apply A. eapply nth_error_In; eauto.
  - apply (hs_counter_order_thm _ _ _ EO R). intros t th En (f & rest & Es & _).
    destruct (Fin t th En) as [Es' _]. congruence.
  - exact K1.
  - intros t o th Eo En. pose proof (Forall_nth _ _ _ _ K2 (nth_combine _ _ _ _ _ Eo En)) as (pre & cur & E1 & E2 & E3 & _).
    simpl in *. destruct (Fin _ _ En) as [Es Eops]. rewrite (E3 Es), Eops in E1. simpl in E1.
    rewrite app_nil_r in E1. subst o. symmetry. exact E2.
Qed.

(* locks are taken in one global order and a raising send releases what it holds: while a thread is
   unfinished some thread can step *)
Theorem hs_no_deadlock_thm opss c t th :
  reach_h opss c -> nth_error (thr c) t = Some th -> (stack th <> [] \/ ops th <> []) ->
  exists t', hexec c t' <> None.
Proof.
  intros R En Hun.
  destruct (no_deadlock_thm msg _ has_lockh rorh body body_lowerh (fun _ => eq_refl) _ _ _ _ _
              (reach_h_reach _ _ R) En Hun) as (t' & Ht').
  exists t'. unfold C11HsModel.hexec. destruct (hfail c t') eqn:Ef; [|exact Ht'].
  unfold hfail in Ef. destruct (nth_error (thr c) t') as [th'|] eqn:En'; [|discriminate].
  unfold next_call in Ef.
  destruct (raising th') eqn:Er; [discriminate|].
  destruct (stack th') as [|f fs] eqn:Es; [discriminate|].
  destruct (fheld f) eqn:Eh; [|discriminate].
  destruct (fpend f) as [|[y d] cs] eqn:Ep; [discriminate|].
  unfold C12Chain.exec, C12Chain.exec_l. simpl. rewrite En'. unfold C12Chain.tstep.
  rewrite Er, Es, Eh, Ep. discriminate.
Qed.

End C11HsProofs.




