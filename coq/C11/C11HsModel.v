(* C11, handshake side: senders racing the Noise handshake.  Definitions only.

   Second instance of the lock-chain model (C12/C12Chain.v).  The call chain of the send path is the one of
   C11Model.v with consonance's three calls kept apart, plus the protocol state:

   node >= 6  any layer above the coder: toLower(o) for each o in `upper k d`          lock = its own
   node 5     YowCoderLayer.send:        toLower(encode d)                             lock = coder.lock
   node 4     YowNoiseLayer.send -> WANoiseProtocol.send  (no lock of its own)
                Dat d : _machine.send() -- raises MachineError unless the state is `transport` --
                        then WANoiseTransport.send: c := enc ctr d; ctr += 1; calls node 3 with c
                Flip  : WANoiseProtocol.start's `_machine.finish()`: state := transport (the protocol-state
                        callback that follows -- write_config, _flush_incoming_buffer -- touches nothing of the
                        send path; replies produced by the flush are ordinary sends of the thread running it)
   node 3     BlockingQueueSegmentedStream.write_segment c: enqueue c, then the stream callback = node 2
              (no lock).  ENTRY POINT of the handshake worker: WAHandshake.perform writes the client hello /
              client finish with stream.write_segment directly, i.e. NOT through the coder's lock.
   node 2     YowNoiseLayer._handle_stream_event(EVENT_WRITE): q := dequeue; toLower(q)   lock = noise.lock
   node 1     YowNoiseSegmentsLayer.send: toLower(hdr q); toLower(q)                     lock = segments.lock
   node 0     network: append to the socket

   The raise of node 4 in handshake state is the chain model's failure step (the thread unwinds, every
   toLower releases its lock, the operation's result is `false`); it is not a free choice of the scheduler:
   a step of thread t fails iff t's next step is a call of node 4 and the state is not `transport` (`hfail`).

   Threads: one handshake worker `h` whose operations are  (3, Dat m1) ... (3, Dat mk)  [(4, Flip)  replies...]
   (k = 2 for XX, 1 for IK; replies = sends entering at a layer >= coder, produced while it flushes the incoming
   buffer), and any number of sender threads with any lists of sends entering at a layer >= coder (application,
   keep-alive, replies of the receive path).  Any schedule.

   Ghost state: `hsent` plaintexts in encryption order; `hsw` handshake segments in enqueue order; the datum
   handed to node 2 (the real call passes nothing and takes what it finds in the queue).            *)
From YV Require Import Common.Tac C12.C12Chain.

Section C11Hs.
Variable data : Type.
Variable encode : data -> data.            (* WriteEncoder.protocolTreeNodeToBytes *)
Variable enc : nat -> data -> data.        (* CipherState.encrypt_with_ad with nonce n *)
Variable hdr : data -> data.               (* struct.pack('>I', len d)[1:] *)
Variable upper : nat -> data -> list data. (* what layer k >= 6 hands to toLower for input d *)

Inductive msg := Dat (d : data) | Flip.

(* hst: false = handshake (or init: every send raises), true = transport *)
Record hstate := HState { hst : bool; hctr : nat; hq : list data; hwire : list data;
                          hsent : list data; hsw : list data }.

Definition has_lockh (x : nat) : bool := negb (Nat.eqb x 3) && negb (Nat.eqb x 4).
Definition rorh (_ : nat) : bool := true.

Definition dcalls (k : nat) (l : list data) : list (nat * msg) := map (fun o => (k, Dat o)) l.

Definition bodyh (x : nat) (m : msg) (s : hstate) : hstate * list (nat * msg) :=
  match m with
  | Flip =>
    match x with
    | 4 => (HState true (hctr s) (hq s) (hwire s) (hsent s) (hsw s), [])
    | _ => (s, [])
    end
  | Dat d =>
    match x with
    | 0 => (HState (hst s) (hctr s) (hq s) (hwire s ++ [d]) (hsent s) (hsw s), [])
    | 1 => (s, [(0, Dat (hdr d)); (0, Dat d)])
    | 2 => match hq s with
           | q :: qs => (HState (hst s) (hctr s) qs (hwire s) (hsent s) (hsw s), [(1, Dat q)])
           | [] => (s, [])
           end
    | 3 => (HState (hst s) (hctr s) (hq s ++ [d]) (hwire s) (hsent s)
                   (if hst s then hsw s else hsw s ++ [d]), [(2, Dat d)])
    | 4 => (HState (hst s) (S (hctr s)) (hq s) (hwire s) (hsent s ++ [d]) (hsw s),
            [(3, Dat (enc (hctr s) d))])
    | 5 => (s, [(4, Dat (encode d))])
    | S k => (s, dcalls k (upper x d))
    end
  end.

Definition s0h : hstate := HState false 0 [] [] [] [].

(* the node the thread will call at its next step, if that step is a call *)
Definition next_call (th : thread msg) : option nat :=
  if raising th then None else
  match stack th with
  | f :: _ => if fheld f then match fpend f with c :: _ => Some (fst c) | [] => None end else None
  | [] => None
  end.

(* the step of thread t raises iff it is WANoiseProtocol.send outside the transport state *)
Definition hfail (c : config msg hstate) (t : nat) : bool :=
  match nth_error (thr c) t with
  | Some th => match next_call th with
               | Some 4 => negb (hst (sh c))
               | _ => false
               end
  | None => false
  end.

Definition hexec_l (c : config msg hstate) (t : nat) :=
  exec_l msg hstate has_lockh rorh bodyh c (t, hfail c t).
Definition hexec (c : config msg hstate) (t : nat) :=
  exec msg hstate has_lockh rorh bodyh c (t, hfail c t).

Inductive reach_h (opss : list (list (nat * msg))) : config msg hstate -> Prop :=
| reach_h_init : reach_h opss (init msg hstate s0h opss)
| reach_h_step c t c' : reach_h opss c -> hexec c t = Some c' -> reach_h opss c'.

(* programs *)
Definition sender_prog (o : list (nat * msg)) : Prop := Forall (fun c => 5 <= fst c) o.
Definition hs_tail (tl : list (nat * msg)) : Prop :=
  tl = [] \/ exists rep, tl = (4, Flip) :: rep /\ sender_prog rep.
Definition hs_prog (o : list (nat * msg)) : Prop :=
  exists ms tl, o = map (fun m => (3, Dat m)) ms ++ tl /\ hs_tail tl.
Definition entry_h (h : nat) (opss : list (list (nat * msg))) : Prop :=
  forall t o, nth_error opss t = Some o -> if Nat.eqb t h then hs_prog o else sender_prog o.

(* the canonical stream *)
Fixpoint hframes (n : nat) (ps : list data) : list data :=
  match ps with
  | [] => []
  | p :: r => hdr (enc n p) :: enc n p :: hframes (S n) r
  end.
Fixpoint hsframes (ms : list data) : list data :=
  match ms with
  | [] => []
  | m :: r => hdr m :: m :: hsframes r
  end.

(* plaintexts a call hands to WANoiseProtocol.send *)
Fixpoint flat_uph (k : nat) (d : data) : list data :=     (* node 5 + k *)
  match k with
  | O => [encode d]
  | S k' => concat (map (flat_uph k') (upper (5 + k) d))
  end.
Definition pexpandh (c : nat * msg) : list data :=
  match snd c with
  | Flip => []
  | Dat d => if Nat.ltb (fst c) 4 then [] else if Nat.eqb (fst c) 4 then [d] else flat_uph (fst c - 5) d
  end.

(* what the operations o with results rs (true = returned, false = raised) were to transmit:
   the plaintexts of those that returned *)
Fixpoint okp (o : list (nat * msg)) (rs : list bool) : list data :=
  match o, rs with
  | c :: o', r :: rs' => (if r then pexpandh c else []) ++ okp o' rs'
  | _, _ => []
  end.

End C11Hs.

Arguments Dat {data}. Arguments Flip {data}.
Arguments HState {data}. Arguments hst {data}. Arguments hctr {data}. Arguments hq {data}.
Arguments hwire {data}. Arguments hsent {data}. Arguments hsw {data}.
Arguments next_call {data}. Arguments hfail {data}.
