(* Glue between the sx line format and the C11 chain model (unverified, trusted, small).
   Data are symbolic terms (free algebra): the harness maps real bytes to terms by decrypting
   and decoding what was written.                                                         *)
From YV Require Import Common.Tac Common.Sx C12.C12Chain C11.C11Model C11.C11HsModel.

Inductive term := TPlain (id : nat) | TEncd (t : term) | TCt (n : nat) (t : term) | THdr (t : term).

Definition upper_id (_ : nat) (d : term) : list term := [d].     (* pass-through layers above the coder *)
Definition ror_t (_ : nat) : bool := true.
Definition body_t := body11 term TEncd TCt THdr upper_id.
Definition exec_t := exec_l term (@wstate term) has_lock11 ror_t body_t.

Definition nat_of (s : sx) : nat := N.to_nat (sx_get_n s).
Definition sx_nat (n : nat) : sx := SN (N.of_nat n).

Fixpoint sx_term (t : term) : sx :=
  match t with
  | TPlain i => SL [SN 0; sx_nat i]
  | TEncd u => SL [SN 1; sx_term u]
  | TCt n u => SL [SN 2; sx_nat n; sx_term u]
  | THdr u => SL [SN 3; sx_term u]
  end.

(* visible events: 1 acq x | 2 rel x | 3 put | 4 get | 5 write | 0 stuck *)
Definition visible (l : label) : option (nat * nat) :=
  match l with
  | LAcq x => if has_lock11 x then Some (1, x) else None
  | LRet x => if has_lock11 (S x) then Some (2, S x) else None
  | LCall _ 3 => Some (3, 0)
  | LCall _ 2 => Some (4, 0)
  | LCall _ 0 => Some (5, 0)
  | _ => None
  end.

(* thread t runs until it has performed one visible event *)
Fixpoint advance (fuel : nat) (t : nat) (c : config term (@wstate term))
  : config term (@wstate term) * (nat * nat) :=
  match fuel with
  | O => (c, (0, 1))
  | S fuel' =>
    match exec_t c (t, false) with
    | None => (c, (0, 0))
    | Some (c', l) =>
      match visible l with
      | Some v => (c', v)
      | None => advance fuel' t c'
      end
    end
  end.

(* run the threads' remaining invisible steps (Done etc.) so that `finished` is meaningful *)
Fixpoint settle (fuel : nat) (t : nat) (c : config term (@wstate term)) : config term (@wstate term) :=
  match fuel with
  | O => c
  | S fuel' =>
    match exec_t c (t, false) with
    | Some (c', l) => match visible l with None => settle fuel' t c' | Some _ => c end
    | None => c
    end
  end.

Fixpoint replay (sched : list nat) (c : config term (@wstate term)) (acc : list sx)
  : config term (@wstate term) * list sx :=
  match sched with
  | [] => (c, rev acc)
  | t :: r =>
    let '(c', (k, x)) := advance 64 t c in
    replay r c' (SL [sx_nat k; sx_nat x] :: acc)
  end.

Fixpoint seq_from (a n : nat) : list nat := match n with O => [] | S n' => a :: seq_from (S a) n' end.

(* arg: (((N entry N plainid) ...) ...)  (N tid ...)
   ->   ((N kind N x) ...)  (term ...)wire  N ctr  (term ...)sent  (N finished ...) N queue_len *)
Definition run_c11 (arg : sx) : sx :=
  let opss := map (fun o => map (fun e => (nat_of (sx_nth e 0), TPlain (nat_of (sx_nth e 1)))) (sx_get_l o))
                  (sx_get_l (sx_nth arg 0)) in
  let sched := map nat_of (sx_get_l (sx_nth arg 1)) in
  let c0 := init term (@wstate term) (s0 term) opss in
  let '(c1, evs) := replay sched c0 [] in
  let c2 := fold_left (fun c t => settle 16 t c) (seq_from 0 (length opss)) c1 in
  SL [SL evs; SL (map sx_term (wire (sh c2))); sx_nat (ctr (sh c2)); SL (map sx_term (sent (sh c2)));
      SL (map (fun th => sx_bool (match stack th, ops th with [], [] => true | _, _ => false end)) (thr c2));
      sx_nat (length (queue (sh c2)))].


(* ---------------- handshake side (C11HsModel): senders racing the handshake worker ---------------- *)
Definition body_ht := bodyh term TEncd TCt THdr upper_id.
Definition cfg_h := config (msg term) (@hstate term).
Definition exec_ht (c : cfg_h) (t : nat) := hexec_l term TEncd TCt THdr upper_id c t.

(* visible events: 1 acq x | 2 rel x | 3 put | 4 get | 5 write | 6 flip | 7 nsend (0 ok, 1 raise) | 0 stuck *)
Definition visible_h (l : label) : option (nat * nat) :=
  match l with
  | LAcq x => if has_lockh x then Some (1, x) else None
  | LRet x => if has_lockh (S x) then Some (2, S x) else None
  | LUnwind x true => Some (2, x)
  | LRaised x true => Some (2, x)
  | LCall _ 4 => Some (7, 0)
  | LFailCall _ 4 => Some (7, 1)
  | LCall _ 3 => Some (3, 0)
  | LStart 3 => Some (3, 0)
  | LStart 4 => Some (6, 0)
  | LCall _ 2 => Some (4, 0)
  | LCall _ 0 => Some (5, 0)
  | _ => None
  end.

Fixpoint advance_h (fuel : nat) (t : nat) (c : cfg_h) : cfg_h * (nat * nat) :=
  match fuel with
  | O => (c, (0, 1))
  | S fuel' =>
    match exec_ht c t with
    | None => (c, (0, 0))
    | Some (c', l) =>
      match visible_h l with
      | Some v => (c', v)
      | None => advance_h fuel' t c'
      end
    end
  end.

Fixpoint settle_h (fuel : nat) (t : nat) (c : cfg_h) : cfg_h :=
  match fuel with
  | O => c
  | S fuel' =>
    match exec_ht c t with
    | Some (c', l) => match visible_h l with None => settle_h fuel' t c' | Some _ => c end
    | None => c
    end
  end.

Fixpoint replay_h (sched : list nat) (c : cfg_h) (acc : list sx) : cfg_h * list sx :=
  match sched with
  | [] => (c, rev acc)
  | t :: r =>
    let '(c', (k, x)) := advance_h 64 t c in
    replay_h r c' (SL [sx_nat k; sx_nat x] :: acc)
  end.

Definition msg_of (e : sx) : nat * msg term :=
  (nat_of (sx_nth e 0),
   match nat_of (sx_nth e 1) with O => Dat (TPlain (nat_of (sx_nth e 2))) | _ => Flip end).

(* arg: (((N entry N kind N id) ...) ...)  (N tid ...)      kind 0 = datum, 1 = flip; thread 0 = handshake worker
   ->   ((N kind N x) ...)  (term ...)wire  N ctr  (term ...)sent  (N finished ...) N queue_len
        ((N result ...) ...)  N transport *)
Definition run_c11h (arg : sx) : sx :=
  let opss := map (fun o => map msg_of (sx_get_l o)) (sx_get_l (sx_nth arg 0)) in
  let sched := map nat_of (sx_get_l (sx_nth arg 1)) in
  let c0 := init (msg term) (@hstate term) (s0h term) opss in
  let '(c1, evs) := replay_h sched c0 [] in
  let c2 := fold_left (fun c t => settle_h 16 t c) (seq_from 0 (length opss)) c1 in
  SL [SL evs; SL (map sx_term (hwire (sh c2))); sx_nat (hctr (sh c2)); SL (map sx_term (hsent (sh c2)));
      SL (map (fun th => sx_bool (match stack th, ops th with [], [] => true | _, _ => false end)) (thr c2));
      sx_nat (length (hq (sh c2)));
      SL (map (fun th => SL (map sx_bool (results th))) (thr c2));
      sx_bool (hst (sh c2))].
