(* Concrete instances for the handshake side of C11: non-vacuity of the theorems (a run in which a send raises
   during the handshake, the state flips while another send is in progress above the coder, and the handshake
   worker sends a reply afterwards), and the witness for a noise layer with an UNLOCKED deferred-send queue. *)
From YV Require Import Common.Tac C12.C12Chain C12.C12Proofs C11.C11Proofs C11.C11HsModel C11.C11HsProofs.

Definition enc_h (n d : nat) : nat := 100 * (n + 1) + d.
Definition hdr_h (d : nat) : nat := 5000 + d.
Definition up_h (_ : nat) (d : nat) : list nat := [d].
Definition hexec_n := hexec nat (fun d => d) enc_h hdr_h up_h.
Definition init_h opss := init (msg nat) (@hstate nat) (s0h nat) opss.

Fixpoint hrun (c : config (msg nat) (@hstate nat)) (acts : list nat) : option (config (msg nat) (@hstate nat)) :=
  match acts with
  | [] => Some c
  | t :: r => match hexec_n c t with Some c' => hrun c' r | None => None end
  end.

Fixpoint reph {A} (n : nat) (a : A) : list A := match n with O => [] | S k => a :: reph k a end.

Lemma reach_h_run opss : forall acts c c',
  reach_h nat (fun d => d) enc_h hdr_h up_h opss c -> hrun c acts = Some c' ->
  reach_h nat (fun d => d) enc_h hdr_h up_h opss c'.
Proof.
  induction acts as [|a r IH]; intros c c' R H; simpl in H.
  - inversion H; subst; exact R.
  - destruct (hexec_n c a) as [c1|] eqn:E; [|discriminate].
    apply (IH c1); [eapply reach_h_step; eauto|exact H].
Qed.

(* thread 0 = handshake worker (XX: client hello 91, client finish 92, `finish`, then a reply 70 entering at the
   coder); thread 1 sends 7 while the handshake is running (raises) and 8 across the flip; thread 2 sends 9 *)
Definition hs_ops : list (list (nat * msg nat)) :=
  [[(3, Dat 91); (3, Dat 92); (4, Flip); (5, Dat 70)]; [(6, Dat 7); (6, Dat 8)]; [(5, Dat 9)]].
Definition hs_sched : list nat :=
  reph 14 0 ++ reph 7 1 ++ reph 14 0 ++ reph 4 1 ++ [0] ++ [2] ++ [0] ++ reph 19 1 ++ reph 19 2 ++ reph 20 0.
Definition hs_cfg := match hrun (init_h hs_ops) hs_sched with Some c => c | None => init_h [] end.

Example hs_run :
  entry_h nat 0 hs_ops /\
  reach_h nat (fun d => d) enc_h hdr_h up_h hs_ops hs_cfg /\
  hwire (sh hs_cfg) = [hdr_h 91; 91; hdr_h 92; 92;
                       hdr_h (enc_h 0 8); enc_h 0 8; hdr_h (enc_h 1 9); enc_h 1 9; hdr_h (enc_h 2 70); enc_h 2 70] /\
  map (@results _) (thr hs_cfg) = [[true; true; true; true]; [false; true]; [true]] /\
  hst (sh hs_cfg) = true /\
  (forall t th, nth_error (thr hs_cfg) t = Some th -> finished th).
Proof.
  split.
  { intros [|[|[|t]]] o E; simpl in E; inversion E; subst; simpl.
    - exists [91; 92], [(4, Flip); (5, Dat 70)]. split; [reflexivity|]. right.
      exists [(5, Dat 70)]. split; [reflexivity|]. repeat constructor.
    - repeat constructor.
    - repeat constructor.
    - destruct t; discriminate. }
  split.
  { unfold hs_cfg. destruct (hrun (init_h hs_ops) hs_sched) as [c|] eqn:E.
    + eapply reach_h_run; [apply reach_h_init|exact E].
    + exfalso. vm_compute in E. discriminate. }
  split; [vm_compute; reflexivity|]. split; [vm_compute; reflexivity|]. split; [vm_compute; reflexivity|].
  intros [|[|[|t]]] th E; vm_compute in E; try (inversion E; subst; split; reflexivity).
  destruct t; discriminate.
Qed.

(* ---------- a noise layer with an unlocked deferred-send queue (the shape of seeded defect C11-2) ----------
   send() in handshake state does not raise: it parks the plaintext (node 9, after having looked at the state
   in node 4); `finish` flushes the parked plaintexts with WANoiseProtocol.send on the handshake worker, i.e.
   without the coder's lock. *)
Record dstate := DState { dst : bool; dctr : nat; dq : list nat; dwire : list nat; dsent : list nat;
                          dpark : list nat }.

Definition body_d (x : nat) (m : msg nat) (s : dstate) : dstate * list (nat * msg nat) :=
  match m with
  | Flip =>
    match x with
    | 4 => (DState true (dctr s) (dq s) (dwire s) (dsent s) [], map (fun p => (4, Dat p)) (dpark s))
    | _ => (s, [])
    end
  | Dat d =>
    match x with
    | 0 => (DState (dst s) (dctr s) (dq s) (dwire s ++ [d]) (dsent s) (dpark s), [])
    | 1 => (s, [(0, Dat (hdr_h d)); (0, Dat d)])
    | 2 => match dq s with
           | q :: qs => (DState (dst s) (dctr s) qs (dwire s) (dsent s) (dpark s), [(1, Dat q)])
           | [] => (s, [])
           end
    | 3 => (DState (dst s) (dctr s) (dq s ++ [d]) (dwire s) (dsent s) (dpark s), [(2, Dat d)])
    | 4 => if dst s
           then (DState (dst s) (S (dctr s)) (dq s) (dwire s) (dsent s ++ [d]) (dpark s),
                 [(3, Dat (enc_h (dctr s) d))])
           else (s, [(9, Dat d)])
    | 5 => (s, [(4, Dat d)])
    | 9 => (DState (dst s) (dctr s) (dq s) (dwire s) (dsent s) (dpark s ++ [d]), [])
    | _ => (s, [])
    end
  end.

Definition d0 : dstate := DState false 0 [] [] [] [].
Definition run_d := run (msg nat) dstate has_lockh rorh body_d.
Definition init_d opss := init (msg nat) dstate d0 opss.
Notation reach_d := (reach_nf (msg nat) dstate has_lockh rorh body_d d0).

Lemma reach_d_run opss : forall acts c c',
  reach_d opss c -> run_d c (map (fun t => (t, false)) acts) = Some c' -> reach_d opss c'.
Proof.
  induction acts as [|a r IH]; intros c c' R H; simpl in H.
  - inversion H; subst; exact R.
  - unfold run_d in H. simpl in H.
    destruct (exec (msg nat) dstate has_lockh rorh body_d c (a, false)) as [c1|] eqn:E; [|discriminate].
    apply (IH c1); [eapply reach_nf_step; eauto|exact H].
Qed.

(* (a) frames out of nonce order: thread 1 sends 7 during the handshake (parked), the worker flushes it after the
   flip and is overtaken, between its encryption and its enqueue, by thread 2 sending 8 through the coder *)
Definition ooo_ops : list (list (nat * msg nat)) := [[(4, Flip)]; [(5, Dat 7)]; [(5, Dat 8)]].
Definition ooo_sched : list nat := reph 8 1 ++ reph 3 0 ++ reph 20 2 ++ reph 17 0.
Definition ooo_cfg := match run_d (init_d ooo_ops) (map (fun t => (t, false)) ooo_sched) with
                      | Some c => c | None => init_d [] end.

(* (b) a stanza accepted and never sent: thread 1 looks at the state (handshake), the worker flips and flushes
   an empty queue, thread 1 parks its plaintext *)
Definition lost_ops : list (list (nat * msg nat)) := [[(4, Flip)]; [(5, Dat 7)]].
Definition lost_sched : list nat := reph 3 1 ++ reph 2 0 ++ reph 5 1.
Definition lost_cfg := match run_d (init_d lost_ops) (map (fun t => (t, false)) lost_sched) with
                       | Some c => c | None => init_d [] end.

Theorem deferred_flush_refuted_thm :
  (reach_d ooo_ops ooo_cfg /\
   (forall t th, nth_error (thr ooo_cfg) t = Some th -> finished th /\ Forall (fun r => r = true) (results th)) /\
   dsent (sh ooo_cfg) = [7; 8] /\
   dwire (sh ooo_cfg) = [hdr_h (enc_h 1 8); enc_h 1 8; hdr_h (enc_h 0 7); enc_h 0 7]) /\
  (reach_d lost_ops lost_cfg /\
   (forall t th, nth_error (thr lost_cfg) t = Some th -> finished th /\ Forall (fun r => r = true) (results th)) /\
   dsent (sh lost_cfg) = [] /\ dwire (sh lost_cfg) = [] /\ dpark (sh lost_cfg) = [7]).
Proof.
  split.
  - split.
    { unfold ooo_cfg.
      destruct (run_d (init_d ooo_ops) (map (fun t => (t, false)) ooo_sched)) as [c|] eqn:E.
      + eapply reach_d_run; [apply reach_nf_init|exact E].
      + exfalso. vm_compute in E. discriminate. }
    split.
    { intros [|[|[|t]]] th E; vm_compute in E;
        try (inversion E; subst; split; [split; reflexivity|repeat constructor]).
      destruct t; discriminate. }
    split; vm_compute; reflexivity.
  - split.
    { unfold lost_cfg.
      destruct (run_d (init_d lost_ops) (map (fun t => (t, false)) lost_sched)) as [c|] eqn:E.
      + eapply reach_d_run; [apply reach_nf_init|exact E].
      + exfalso. vm_compute in E. discriminate. }
    split.
    { intros [|[|t]] th E; vm_compute in E;
        try (inversion E; subst; split; [split; reflexivity|repeat constructor]).
      destruct t; discriminate. }
    split; [vm_compute; reflexivity|]. split; vm_compute; reflexivity.
Qed.
