(* C19 - account configuration: serialisation pipeline, key=value printer/parser, load-path
   resolution, and save as a file-operation program over a file-system model.
   Model of  yowsup/config/manager.py, config/v1/{config,serialize}.py, config/base/*.py,
   config/transforms/*.py, common/tools.py (StorageTools).  Definitions only.

   Text = list of code points (N); binary data = list of bytes (N < 256, `bytes_ok`).
   base64 itself is modelled in C19B64.v (b64_encode / b64_decode); the pipeline below is
   written over an arbitrary encoder/decoder pair so that the proofs name exactly which facts
   about base64 they use (round trip on bytes, output in the key=value value domain); the
   published theorems and the executable model instantiate it with C19B64.
   A file's content is identified with its decoded text (the locale codec, UTF-8 here, is
   modelled-not-verified).                                                               *)
From YV Require Import Common.Tac C19.C19Str C19.C19B64.

Definition str := C19Str.str.
Local Open Scope N_scope.

(* ------------------------------------------------------------------ text primitives *)

(* str.isspace() of CPython 3.12 (checked exhaustively against the interpreter by the harness) *)
Definition is_space (c : N) : bool :=
  ((9 <=? c) && (c <=? 13)) || ((28 <=? c) && (c <=? 32)) || (c =? 133) || (c =? 160) ||
  (c =? 5760) || ((8192 <=? c) && (c <=? 8202)) || (c =? 8232) || (c =? 8233) ||
  (c =? 8239) || (c =? 8287) || (c =? 12288).

Fixpoint dropwhile {A} (p : A -> bool) (l : list A) : list A :=
  match l with [] => [] | x :: r => if p x then dropwhile p r else l end.

Fixpoint takewhile {A} (p : A -> bool) (l : list A) : list A :=
  match l with [] => [] | x :: r => if p x then x :: takewhile p r else [] end.

Definition lstrip (l : str) : str := dropwhile is_space l.
Definition rstrip (l : str) : str := rev (dropwhile is_space (rev l)).
Definition strip (l : str) : str := rstrip (lstrip l).            (* str.strip() *)

Fixpoint str_eqb (a b : str) : bool :=
  match a, b with
  | [], [] => true
  | x :: a', y :: b' => (x =? y) && str_eqb a' b'
  | _, _ => false
  end.

(* Python's ordering of str: lexicographic on code points *)
Fixpoint str_leb (a b : str) : bool :=
  match a, b with
  | [], _ => true
  | _ :: _, [] => false
  | x :: a', y :: b' => if x <? y then true else if y <? x then false else str_leb a' b'
  end.

Definition mem (k : str) (l : list str) : bool := existsb (str_eqb k) l.

(* s.split(sep) for a one-character separator *)
Fixpoint split_on (sep : N) (l : str) : list str :=
  match l with
  | [] => [[]]
  | c :: r =>
    if c =? sep then [] :: split_on sep r
    else match split_on sep r with
         | [] => [[c]]
         | h :: t => (c :: h) :: t
         end
  end.

(* sep.join(ls) *)
Fixpoint join (sep : N) (ls : list str) : str :=
  match ls with
  | [] => []
  | x :: r => match r with [] => x | _ :: _ => x ++ sep :: join sep r end
  end.

(* s.split(c, 1)[0] *)
Definition cut_at (c : N) (l : str) : str := takewhile (fun x => negb (x =? c)) l.

(* s.split(c, 1): (before, Some after) or (s, None) when c does not occur *)
Fixpoint split_first (c : N) (l : str) : str * option str :=
  match l with
  | [] => ([], None)
  | x :: r => if x =? c then ([], Some r)
              else let '(a, b) := split_first c r in (x :: a, b)
  end.

(* text-mode read: universal newlines ('\r\n' and '\r' become '\n') *)
Fixpoint unl (l : str) : str :=
  match l with
  | [] => []
  | c :: r =>
    if c =? 13 then
      match r with
      | d :: r' => if d =? 10 then 10 :: unl r' else 10 :: unl r
      | [] => [10]
      end
    else c :: unl r
  end.

Definition lower_ascii (c : N) : N := if (65 <=? c) && (c <=? 90) then c + 32 else c.

(* ------------------------------------------------------------------ Python dicts as
   insertion-ordered association lists *)

Fixpoint upd {V} (d : list (str * V)) (k : str) (v : V) : list (str * V) :=   (* d[k] = v *)
  match d with
  | [] => [(k, v)]
  | (k', v') :: r => if str_eqb k' k then (k', v) :: r else (k', v') :: upd r k v
  end.

Definition build {V} (l : list (str * V)) : list (str * V) :=
  fold_left (fun d kv => upd d (fst kv) (snd kv)) l [].

(* the loop   out = {}; for x in xs: [raise] | [skip] | out[k] = v   *)
Fixpoint collect {X V} (f : X -> option (option (str * V))) (l : list X)
  : option (list (str * V)) :=
  match l with
  | [] => Some []
  | x :: r =>
    match f x with
    | None => None
    | Some o =>
      match collect f r with
      | None => None
      | Some t => Some (match o with None => t | Some kv => kv :: t end)
      end
    end
  end.

Definition dict_comp {X V} (f : X -> option (option (str * V))) (l : list X)
  : option (list (str * V)) := option_map build (collect f l).

Fixpoint lookup {V} (k : str) (d : list (str * V)) : option V :=
  match d with
  | [] => None
  | (k', v) :: r => if str_eqb k' k then Some v else lookup k r
  end.

Definition keys {V} (d : list (str * V)) : list str := map fst d.

Fixpoint insert_kv {V} (kv : str * V) (l : list (str * V)) : list (str * V) :=
  match l with
  | [] => [kv]
  | h :: t => if str_leb (fst kv) (fst h) then kv :: l else h :: insert_kv kv t
  end.

Definition sort_keys {V} (l : list (str * V)) : list (str * V) := fold_right insert_kv [] l.

Definition obind {A B} (o : option A) (f : A -> option B) : option B :=
  match o with None => None | Some a => f a end.

(* ------------------------------------------------------------------ values *)

Inductive jval := JStr (s : str) | JInt (n : N).          (* what json / key=value carry *)

Inductive cval :=                                          (* what a Config attribute holds *)
| CScalar (j : jval)
| CBytes (b : list N)
| CKeyPair (priv pub : list N)                             (* consonance KeyPair *)
| CPub (b : list N).                                       (* consonance PublicKey *)

(* "%s" % n *)
Fixpoint dec_go (fuel : nat) (n : N) (acc : str) : str :=
  match fuel with
  | O => acc
  | S f => let acc' := (48 + n mod 10) :: acc in
           if n <? 10 then acc' else dec_go f (n / 10) acc'
  end.
Definition dec (n : N) : str := dec_go (S (N.to_nat (N.log2 n))) n [].

Definition jtext (v : jval) : str := match v with JStr s => s | JInt n => dec n end.

(* ------------------------------------------------------------------ DictKeyValTransform *)

Definition kv_line (kv : str * jval) : str := fst kv ++ 61 :: jtext (snd kv).   (* "%s=%s" *)

Definition kv_print (d : list (str * jval)) : str := join 10 (map kv_line (sort_keys d)).

Definition dash_us (c : N) : N := if c =? 45 then 95 else c.

(* one iteration of reverse(): None = IndexError (no '='), Some None = line skipped *)
Definition kv_parse_line (l : str) : option (option (str * jval)) :=
  let line := strip l in
  match line with
  | [] => Some None
  | c :: _ =>
    if (c =? 35) || (c =? 59) then Some None
    else
      match split_first 61 (cut_at 59 (cut_at 35 line)) with
      | (k, Some v) => Some (Some (map dash_us (strip k), JStr (strip v)))
      | (_, None) => None
      end
  end.

Definition kv_parse (t : str) : option (list (str * jval)) :=
  dict_comp kv_parse_line (split_on 10 t).

(* ------------------------------------------------------------------ Config *)

Record config := mkConfig {
  c_phone : option cval; c_cc : option cval; c_login : option cval; c_password : option cval;
  c_pushname : option cval; c_id : option cval; c_mcc : option cval; c_mnc : option cval;
  c_sim_mcc : option cval; c_sim_mnc : option cval;
  c_client_static_keypair : option cval; c_server_static_public : option cval;
  c_expid : option cval; c_fdid : option cval; c_edge_routing_info : option cval;
  c_chat_dns_domain : option cval }.

Definition params : list str :=
  [k_phone; k_cc; k_login; k_password; k_pushname; k_id; k_mcc; k_mnc; k_sim_mcc; k_sim_mnc;
   k_client_static_keypair; k_server_static_public; k_expid; k_fdid; k_edge_routing_info;
   k_chat_dns_domain].

Definition us (k : str) : str := 95 :: k.

(* vars(config), in the order __init__ assigns the attributes *)
Definition to_vars (c : config) : list (str * option cval) :=
  [ (us k_version, Some (CScalar (JInt 1)));
    (us k_phone, c_phone c); (us k_cc, c_cc c); (us k_login, c_login c);
    (us k_password, c_password c); (us k_pushname, c_pushname c); (us k_id, c_id c);
    (us k_client_static_keypair, c_client_static_keypair c);
    (us k_server_static_public, c_server_static_public c);
    (us k_expid, c_expid c); (us k_fdid, c_fdid c);
    (us k_mcc, c_mcc c); (us k_mnc, c_mnc c); (us k_sim_mcc, c_sim_mcc c);
    (us k_sim_mnc, c_sim_mnc c); (us k_edge_routing_info, c_edge_routing_info c);
    (us k_chat_dns_domain, c_chat_dns_domain c) ].

Inductive fmt := KeyVal | Json.

Section Pipeline.
  (* external primitives *)
  Variable b64enc : list N -> str.                    (* base64.b64encode(b).decode() *)
  Variable b64dec : str -> option (list N).           (* base64.b64decode(s), None = raises *)
  Variable jdumps : list (str * jval) -> str.         (* json.dumps(d, sort_keys, indent=4) *)
  Variable jloads : str -> option (list (str * jval)). (* json.loads(t) when a flat dict *)

  (* ---- ConfigSerialize.serialize: the five transforms, in order ---- *)
  Definition t_filter (kv : str * option cval) : option (option (str * cval)) :=
    Some (match snd kv with None => None | Some v => Some (fst kv, v) end).

  Definition t_strip (kv : str * cval) : option (option (str * cval)) :=
    Some (Some (tl (fst kv), snd kv)).                                (* key[1:] *)

  Definition is_bytes_key (k : str) : bool :=
    str_eqb k k_id || str_eqb k k_expid || str_eqb k k_edge_routing_info.

  (* None = the lambda raises (wrong attribute type) *)
  Definition enc_field (k : str) (v : cval) : option cval :=
    if str_eqb k k_server_static_public then
      match v with CPub b => Some (CScalar (JStr (b64enc b))) | _ => None end
    else if str_eqb k k_client_static_keypair then
      match v with CKeyPair pr pu => Some (CScalar (JStr (b64enc (pr ++ pu)))) | _ => None end
    else if is_bytes_key k then
      match v with CBytes b => Some (CScalar (JStr (b64enc b))) | _ => None end
    else Some v.

  Definition t_props (kv : str * cval) : option (option (str * cval)) :=
    match enc_field (fst kv) (snd kv) with
    | None => None
    | Some v => Some (Some (fst kv, v))
    end.

  Definition t_meta (kv : str * cval) : option (option (str * cval)) :=
    Some (Some (if str_eqb (fst kv) k_version then k_meta_version else fst kv, snd kv)).

  (* what json.dumps / "%s" accept: scalars only (bytes -> TypeError) *)
  Definition to_j (kv : str * cval) : option (option (str * jval)) :=
    match snd kv with CScalar j => Some (Some (fst kv, j)) | _ => None end.

  Definition serialize (c : config) : option (list (str * jval)) :=
    obind (dict_comp t_filter (to_vars c)) (fun d1 =>
    obind (dict_comp t_strip d1) (fun d2 =>
    obind (dict_comp t_props d2) (fun d3 =>
    obind (dict_comp t_meta d3) (fun d4 =>
    collect to_j d4)))).

  (* ---- ConfigSerialize.deserialize: the reverses, last transform first ---- *)
  Definition r_meta (kv : str * cval) : option (option (str * cval)) :=
    Some (Some (if str_eqb (fst kv) k_meta_version then k_version else fst kv, snd kv)).

  Definition dec_field (k : str) (v : cval) : option cval :=
    if str_eqb k k_server_static_public then
      match v with CScalar (JStr s) => option_map CPub (b64dec s) | _ => None end
    else if str_eqb k k_client_static_keypair then
      match v with
      | CScalar (JStr s) =>
        match b64dec s with
        | Some b => if Nat.eqb (length b) 64%nat        (* KeyPair.from_bytes: ValueError otherwise *)
                    then Some (CKeyPair (firstn 32%nat b) (skipn 32%nat b)) else None
        | None => None
        end
      | _ => None
      end
    else if is_bytes_key k then
      match v with CScalar (JStr s) => option_map CBytes (b64dec s) | _ => None end
    else Some v.

  Definition r_props (kv : str * cval) : option (option (str * cval)) :=
    match dec_field (fst kv) (snd kv) with
    | None => None
    | Some v => Some (Some (fst kv, v))
    end.

  (* MapTransform.reverse: reverse_map is None, the dict is returned unchanged *)

  Definition r_filter (kv : str * cval) : option (option (str * cval)) :=
    Some (if str_eqb (fst kv) k_version then None else Some kv).

  (* str(x) in Config.__init__ for phone and login *)
  Definition coerce_str (o : option cval) : option (option cval) :=
    match o with
    | None => Some None
    | Some (CScalar j) => Some (Some (CScalar (JStr (jtext j))))
    | Some _ => None                                  (* str(bytes/KeyPair): not modelled *)
    end.

  (* Config(kwargs=data): TypeError on an unknown keyword *)
  Definition of_vars (d : list (str * cval)) : option config :=
    if forallb (fun kv => mem (fst kv) params) d then
      match coerce_str (lookup k_phone d), coerce_str (lookup k_login d) with
      | Some ph, Some lg =>
        Some (mkConfig ph (lookup k_cc d) lg (lookup k_password d) (lookup k_pushname d)
                (lookup k_id d) (lookup k_mcc d) (lookup k_mnc d) (lookup k_sim_mcc d)
                (lookup k_sim_mnc d) (lookup k_client_static_keypair d)
                (lookup k_server_static_public d) (lookup k_expid d) (lookup k_fdid d)
                (lookup k_edge_routing_info d) (lookup k_chat_dns_domain d))
      | _, _ => None
      end
    else None.

  Definition deserialize (d : list (str * jval)) : option config :=
    let d0 := map (fun kv => (fst kv, CScalar (snd kv))) d in
    obind (dict_comp r_meta d0) (fun d1 =>
    obind (dict_comp r_props d1) (fun d2 =>
    obind (dict_comp r_filter d2) (fun d3 =>
    of_vars d3))).

  (* ---- ConfigManager: formats ---- *)
  Definition print_as (f : fmt) (d : list (str * jval)) : str :=
    match f with KeyVal => kv_print d | Json => jdumps d end.

  Definition parse_as (f : fmt) (t : str) : option (list (str * jval)) :=
    match f with KeyVal => kv_parse t | Json => jloads t end.

  Definition config_to_str (f : fmt) (c : config) : option str :=
    option_map (print_as f) (serialize c).

  (* os.path.splitext(p)[1][1:] on the reversed path *)
  Definition not_dot_sep (c : N) : bool := negb (c =? 46) && negb (c =? 47).
  Definition ext_of (p : str) : str :=
    let r := rev p in
    match dropwhile not_dot_sep r with
    | c :: before =>
      if c =? 46 then
        if existsb (fun x => negb (x =? 46)) (takewhile (fun x => negb (x =? 47)) before)
        then rev (takewhile not_dot_sep r) else []
      else []
    | [] => []
    end.

  (* MAP_EXT lookup on the lower-cased extension *)
  Definition ext_type (p : str) : option fmt :=
    let e := map lower_ascii (ext_of p) in
    if str_eqb e s_yo then Some KeyVal else if str_eqb e s_json then Some Json else None.

  (* "Trying auto detect config type by parsing": TYPES order = keyval, then json;
     `if transform().reverse(data):` = parsed to a non-empty dict *)
  Definition trial (t : str) : option fmt :=
    match kv_parse t with
    | Some (_ :: _) => Some KeyVal
    | _ => match jloads t with Some (_ :: _) => Some Json | _ => None end
    end.

  Definition guess_type (by_content : bool) (p t : str) : option fmt :=
    match (if by_content then None else ext_type p) with
    | Some f => Some f
    | None => trial t
    end.

  Inductive lres := LNone | LErr | LOk (c : config).   (* returns None | raises | Config *)

  (* ---- file system: files (path -> text) and existing directories ---- *)
  Record fsys := mkFs { files : list (str * str); dirs : list str }.

  Definition fs_read (s : fsys) (p : str) : option str := lookup p (files s).

  Definition load_text (by_content : bool) (p raw : str) : lres :=
    let t := unl raw in
    match guess_type by_content p t with
    | None => LErr                                       (* "Unsupported config type" *)
    | Some f =>
      match parse_as f t with
      | None => LErr
      | Some d => match deserialize d with None => LErr | Some c => LOk c end
      end
    end.

  Definition load_path (s : fsys) (by_content : bool) (p : str) : lres :=
    match fs_read s p with
    | None => LNone
    | Some raw => load_text by_content p raw
    end.

  (* os.path.join(a, b) *)
  Definition starts_slash (b : str) : bool := match b with c :: _ => c =? 47 | [] => false end.
  Definition ends_slash_or_empty (a : str) : bool :=
    match rev a with c :: _ => c =? 47 | [] => true end.
  Definition pjoin (a b : str) : str :=
    if starts_slash b then b else if ends_slash_or_empty a then a ++ b else a ++ 47 :: b.

  Definition profile_dir (root name : str) : str := pjoin root name.

  (* ConfigManager.load with the C19-3 fix: profile files are detected by content *)
  Definition load (s : fsys) (root name : str) (profile_only : bool) : lres :=
    match (if profile_only then LNone else load_path s false name) with
    | LNone =>
      let d := profile_dir root name in
      match fs_read s (pjoin d s_config_yo) with
      | Some _ => load_path s true (pjoin d s_config_yo)
      | None =>
        match fs_read s (pjoin d s_config_json) with
        | Some _ => load_path s true (pjoin d s_config_json)
        | None => LNone
        end
      end
    | r => r
    end.

  (* the loader before the fix: trusts the extension of config.yo / config.json *)
  Definition load_unfixed (s : fsys) (root name : str) : lres :=
    match load_path s false name with
    | LNone =>
      let d := profile_dir root name in
      match fs_read s (pjoin d s_config_yo) with
      | Some _ => load_path s false (pjoin d s_config_yo)
      | None =>
        match fs_read s (pjoin d s_config_json) with
        | Some _ => load_path s false (pjoin d s_config_json)
        | None => LNone
        end
      end
    | r => r
    end.
End Pipeline.

(* ------------------------------------------------------------------ save as a program *)

Inductive op :=
| Mkdir (d : str)
| OpenTrunc (d base : str)            (* open(d/base, O_WRONLY|O_CREAT|O_TRUNC) *)
| Write (p : str) (data : str)
| Fsync (p : str)
| Close (p : str)
| Rename (a b : str).

Fixpoint remove_key {V} (k : str) (d : list (str * V)) : list (str * V) :=
  match d with
  | [] => []
  | (k', v) :: r => if str_eqb k' k then remove_key k r else (k', v) :: remove_key k r
  end.

(* None = the system call fails (the Python call raises, the program stops there) *)
Definition exec (o : op) (s : fsys) : option fsys :=
  match o with
  | Mkdir d => Some (mkFs (files s) (d :: dirs s))
  | OpenTrunc d b =>
    if mem d (dirs s) then Some (mkFs (upd (files s) (pjoin d b) []) (dirs s)) else None
  | Write p data =>
    match lookup p (files s) with
    | Some old => Some (mkFs (upd (files s) p (old ++ data)) (dirs s))
    | None => None
    end
  | Fsync _ | Close _ => Some s
  | Rename a b =>
    match lookup a (files s) with
    | Some c => Some (mkFs (upd (remove_key a (files s)) b c) (dirs s))
    | None => None
    end
  end.

Fixpoint run (p : list op) (s : fsys) : option fsys :=
  match p with
  | [] => Some s
  | o :: r => match exec o s with None => None | Some s' => run r s' end
  end.

(* the process dies: after any number of completed operations, possibly inside a Write
   (any prefix of its data has reached the file); a failing operation also stops it *)
Inductive crash : fsys -> list op -> fsys -> Prop :=
| crash_here : forall s p, crash s p s
| crash_step : forall s o p s' s'', exec o s = Some s' -> crash s' p s'' -> crash s (o :: p) s''
| crash_write : forall s path data k p s',
    exec (Write path (firstn k data)) s = Some s' -> crash s (Write path data :: p) s'.

(* executable form used by the harness: n completed ops, then k units of the next Write *)
Definition crash_at (p : list op) (n k : nat) (s : fsys) : option fsys :=
  match run (firstn n p) s with
  | None => None
  | Some s' =>
    match skipn n p with
    | Write path data :: _ => if Nat.eqb k 0%nat then Some s' else exec (Write path (firstn k data)) s'
    | _ => Some s'
    end
  end.

(* StorageTools.writeProfileData after fixes C19-1 (makedirs) and C19-2 (temp + rename) *)
Definition save_prog (s : fsys) (root name text : str) : list op :=
  let d := profile_dir root name in
  let tmp := pjoin d s_config_json_tmp in
  (if mem d (dirs s) then [] else [Mkdir d]) ++
  [OpenTrunc d s_config_json_tmp; Write tmp text; Fsync tmp; Close tmp;
   Rename tmp (pjoin d s_config_json)].

(* the unrepaired writeProfileData: in-place truncating write, no makedirs *)
Definition save_prog_unfixed (root name text : str) : list op :=
  let d := profile_dir root name in
  let p := pjoin d s_config_json in
  [OpenTrunc d s_config_json; Write p text; Close p].

(* does operation o change what a reader of path w sees? *)
Definition touches (o : op) (w : str) : bool :=
  match o with
  | Mkdir _ | Fsync _ | Close _ => false
  | OpenTrunc d b => str_eqb (pjoin d b) w
  | Write p _ => str_eqb p w
  | Rename a b => str_eqb a w || str_eqb b w
  end.

Definition quiet (watched : list str) (o : op) : bool :=
  forallb (fun w => negb (touches o w)) watched.

(* "writes a fresh name, then renames": nothing but the final rename touches a watched path,
   and the renamed-from name is not watched *)
Definition fresh_then_rename (watched : list str) (p : list op) : bool :=
  match rev p with
  | Rename tmp _ :: rpre => forallb (quiet watched) rpre && negb (mem tmp watched)
  | _ => false
  end.

(* the paths ConfigManager.load(name) reads *)
Definition watched_paths (root name : str) : list str :=
  let d := profile_dir root name in [name; pjoin d s_config_yo; pjoin d s_config_json].

(* ------------------------------------------------------------------ domains *)

Definition value_ok (s : str) : bool :=
  forallb (fun c => negb ((c =? 35) || (c =? 59) || (c =? 10) || (c =? 13))) s &&
  match s with [] => true | c :: _ => negb (is_space c) end &&
  match rev s with [] => true | c :: _ => negb (is_space c) end.

Definition key_char (c : N) : bool := ((97 <=? c) && (c <=? 122)) || (c =? 95).
Definition key_ok (k : str) : bool :=
  match k with [] => false | _ => forallb key_char k end.

Definition jval_ok (v : jval) : bool := match v with JStr s => value_ok s | JInt _ => true end.

Definition is_scalar (o : option cval) : bool :=
  match o with None | Some (CScalar _) => true | _ => false end.
Definition is_strfield (o : option cval) : bool :=
  match o with None | Some (CScalar (JStr _)) => true | _ => false end.
Definition is_bytes (o : option cval) : bool :=
  match o with None => true | Some (CBytes b) => bytes_ok b | _ => false end.
Definition is_keypair (o : option cval) : bool :=
  match o with
  | None => true
  | Some (CKeyPair pr pu) =>
    Nat.eqb (length pr) 32%nat && Nat.eqb (length pu) 32%nat && bytes_ok pr && bytes_ok pu
  | _ => false
  end.
Definition is_pub (o : option cval) : bool :=
  match o with None => true | Some (CPub b) => bytes_ok b | _ => false end.

(* a well-typed configuration: what Config's attributes hold in yowsup; binary attributes are
   byte strings of ANY length (the key pair: 32 + 32 bytes) *)
Definition wf_config (c : config) : bool :=
  is_strfield (c_phone c) && is_scalar (c_cc c) && is_strfield (c_login c) &&
  is_scalar (c_password c) && is_scalar (c_pushname c) && is_bytes (c_id c) &&
  is_scalar (c_mcc c) && is_scalar (c_mnc c) && is_scalar (c_sim_mcc c) &&
  is_scalar (c_sim_mnc c) && is_keypair (c_client_static_keypair c) &&
  is_pub (c_server_static_public c) && is_bytes (c_expid c) && is_scalar (c_fdid c) &&
  is_bytes (c_edge_routing_info c) && is_scalar (c_chat_dns_domain c).

Definition scalar_ok (o : option cval) : bool :=
  match o with Some (CScalar j) => jval_ok j | _ => true end.

(* the key=value domain: every textual value is free of '#', ';', newlines, outer blanks *)
Definition kv_config_ok (c : config) : bool :=
  scalar_ok (c_phone c) && scalar_ok (c_cc c) && scalar_ok (c_login c) &&
  scalar_ok (c_password c) && scalar_ok (c_pushname c) && scalar_ok (c_mcc c) &&
  scalar_ok (c_mnc c) && scalar_ok (c_sim_mcc c) && scalar_ok (c_sim_mnc c) &&
  scalar_ok (c_fdid c) && scalar_ok (c_chat_dns_domain c).

(* key=value is untyped: an int attribute comes back as its decimal text *)
Definition textual (o : option cval) : option cval :=
  match o with Some (CScalar j) => Some (CScalar (JStr (jtext j))) | _ => o end.

Definition textual_config (c : config) : config :=
  mkConfig (textual (c_phone c)) (textual (c_cc c)) (textual (c_login c))
    (textual (c_password c)) (textual (c_pushname c)) (c_id c) (textual (c_mcc c))
    (textual (c_mnc c)) (textual (c_sim_mcc c)) (textual (c_sim_mnc c))
    (c_client_static_keypair c) (c_server_static_public c) (c_expid c) (textual (c_fdid c))
    (c_edge_routing_info c) (textual (c_chat_dns_domain c)).

Definition fmt_view (f : fmt) (c : config) : config :=
  match f with KeyVal => textual_config c | Json => c end.
