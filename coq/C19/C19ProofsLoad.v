(* C19 - formats and load paths: for each format and each way of naming the file, the resolver
   picks the parser matching what save wrote and the loaded configuration equals the saved one;
   and the end-to-end atomic-save statement on configurations. *)
From YV Require Import Common.Tac C19.C19Str C19.C19B64 C19.C19Model C19.C19Lib C19.C19PipeLib
                       C19.C19ProofsKV C19.C19ProofsPipe C19.C19ProofsSave.
From Coq Require Import Permutation.
Local Open Scope N_scope.

Section Load.
  Variable b64enc : list N -> str.
  Variable b64dec : str -> option (list N).
  Variable jdumps : list (str * jval) -> str.
  Variable jloads : str -> option (list (str * jval)).
  Hypothesis b64_rt : forall b, bytes_ok b = true -> b64dec (b64enc b) = Some b.
  (* base64 text is made of [A-Za-z0-9+/=]: no comment character, newline or blank *)
  Hypothesis b64_clean : forall b, value_ok (b64enc b) = true.
  (* json.loads (json.dumps d, sort_keys=True) is d with its keys in sorted order *)
  Hypothesis json_rt : forall d, NoDup (keys d) -> jloads (jdumps d) = Some (sort_keys d).
  (* with indent=4 a non-empty dict is printed as "{" newline ... *)
  Hypothesis json_shape : forall d, d <> [] -> exists rest, jdumps d = 123 :: 10 :: rest.
  (* json.dumps escapes control characters: no raw carriage return *)
  Hypothesis json_no_cr : forall d, forallb (fun c => negb (c =? 13)) (jdumps d) = true.

  Notation jlc := (jl b64enc).

  Lemma jl_nodup : forall c, NoDup (keys (jlc c)).
  Proof. intros c. eapply sub_NoDup; [apply jl_keys|]. apply nodupb_NoDup. vm_compute. reflexivity. Qed.

  Lemma jl_head : forall c, exists r, jlc c = (k_meta_version, JInt 1) :: r.
  Proof. intros c. eexists. reflexivity. Qed.

  Lemma sort_keys_nonempty : forall V (l : list (str * V)), l <> [] -> sort_keys l <> [].
  Proof.
    intros V l H E. pose proof (sort_keys_perm _ l) as P. rewrite E in P.
    apply Permutation_nil in P. contradiction.
  Qed.

  Lemma map_pair_id : forall A B (l : list (A * B)), map (fun kv => (fst kv, snd kv)) l = l.
  Proof. induction l as [|[a b] r IH]; [reflexivity|]. cbn [map fst snd]. rewrite IH. reflexivity. Qed.

  Lemma jlt_id : forall c, jlt b64enc tv_id c = jlc c.
  Proof. intros c. unfold jlt, tv_id. apply map_pair_id. Qed.

  (* ---- pipeline alone ---- *)
  Theorem pipeline_rt_thm : forall c, wf_config c = true ->
    exists d, serialize b64enc c = Some d /\ deserialize b64dec d = Some c.
  Proof.
    intros c WF. exists (jlc c). split; [apply serialize_spec; exact WF|].
    rewrite <- (view_id c) at 2. apply (deserialize_perm_thm b64enc b64dec b64_rt tv_id (fun s => eq_refl) c _ WF).
    rewrite jlt_id. apply Permutation_refl.
  Qed.

  (* ---- every serialised entry is in the key=value domain ---- *)
  Lemma Forall_fmap : forall X A (G : X -> option A) (P : A -> Prop) l,
    Forall (fun x => forall y, G x = Some y -> P y) l -> Forall P (fmap G l).
  Proof.
    intros X A G P l H. induction H as [|x r Hx Hr IH]; [constructor|]. unfold fmap in *. cbn [flat_map].
    apply Forall_app. split; [|exact IH]. destruct (G x) as [y|]; cbn [olist]; [|constructor].
    constructor; [apply Hx; reflexivity | constructor].
  Qed.

  Ltac kv_split H :=
    unfold kv_config_ok in H;
    repeat (let H' := fresh "V" in apply andb_true_iff in H; destruct H as [H H']).

  Ltac wf_split H :=
    unfold wf_config in H;
    repeat (let H' := fresh "W" in apply andb_true_iff in H; destruct H as [H H']).

  Ltac entry_case :=
    match goal with
    | |- forall y, Gs _ (_, ?f) = Some y -> _ =>
      let y := fresh "y" in let E := fresh "E" in
      intros y E; destruct f as [[?|?|? ?|?]|] eqn:Ef; cbn in E; try discriminate E;
      apply Some_inj in E; subst y; split; [reflexivity | cbn [snd jval_ok]; try apply b64_clean]
    end.

  Lemma jl_entries_ok : forall c, wf_config c = true -> kv_config_ok c = true -> Forall entry_ok (jlc c).
  Proof.
    intros c WF KV. unfold jl. apply Forall_fmap. unfold to_vars.
    kv_split KV.
    repeat match goal with |- Forall _ (_ :: _) => constructor | |- Forall _ [] => constructor end.
    1: { intros y E. cbn in E. apply Some_inj in E. subst y. split; reflexivity. }
    all: entry_case.
    all: match goal with V : scalar_ok (Some (CScalar ?j)) = true |- jval_ok ?j = true => exact V end.
  Qed.

  (* ---- text level: print, parse, deserialize ---- *)
  Theorem format_rt_thm : forall f c, wf_config c = true -> (f = KeyVal -> kv_config_ok c = true) ->
    exists t d, config_to_str b64enc jdumps f c = Some t /\ parse_as jloads f t = Some d /\ d <> [] /\
                deserialize b64dec d = Some (fmt_view f c).
  Proof.
    intros f c WF KV. unfold config_to_str. rewrite (serialize_spec b64enc c WF). cbn [option_map].
    destruct (jl_head c) as [r Hr].
    assert (NE : jlc c <> []) by (rewrite Hr; discriminate).
    destruct f; cbn [print_as parse_as fmt_view].
    - exists (kv_print (jlc c)), (map as_text (sort_keys (jlc c))). split; [reflexivity|]. split; [|split].
      + apply keyval_rt_thm; [apply jl_nodup | apply jl_entries_ok; auto].
      + intros E. apply map_eq_nil in E. revert E. apply sort_keys_nonempty. exact NE.
      + rewrite <- view_text.
        apply (deserialize_perm_thm b64enc b64dec b64_rt tv_text (fun s => eq_refl) c _ WF).
        unfold jlt. apply Permutation_map. apply sort_keys_perm.
    - exists (jdumps (jlc c)), (sort_keys (jlc c)). split; [reflexivity|]. split; [|split].
      + apply json_rt. apply jl_nodup.
      + apply sort_keys_nonempty. exact NE.
      + rewrite <- (view_id c) at 2.
        apply (deserialize_perm_thm b64enc b64dec b64_rt tv_id (fun s => eq_refl) c _ WF).
        rewrite jlt_id. apply sort_keys_perm.
  Qed.

  (* ---- the key=value parser refuses JSON text (so trial parsing falls through to json) ---- *)
  Lemma kv_parse_json_none : forall rest, kv_parse (123 :: 10 :: rest) = None.
  Proof.
    intros rest. unfold kv_parse, dict_comp. change (123 :: 10 :: rest) with ([123] ++ 10 :: rest).
    rewrite split_on_app by reflexivity. cbn [collect].
    change (kv_parse_line [123]) with (@None (option (str * jval))). reflexivity.
  Qed.

  (* ---- no carriage return in what save writes ---- *)
  Lemma join_no : forall x ls, Forall (fun l => forallb (fun c => negb (c =? x)) l = true) ls ->
    negb (10 =? x) = true -> forallb (fun c => negb (c =? x)) (join 10 ls) = true.
  Proof.
    intros x ls H Hx. induction H as [|l r Hl Hr IH]; [reflexivity|]. cbn [join]. destruct r as [|l' r']; [exact Hl|].
    rewrite forallb_app. cbn [forallb]. rewrite Hl, Hx. exact IH.
  Qed.

  Lemma kv_print_no_cr : forall d, Forall entry_ok d -> forallb (fun c => negb (c =? 13)) (kv_print d) = true.
  Proof.
    intros d F. unfold kv_print. apply join_no; [|reflexivity].
    apply Forall_forall. intros ln Hin. apply in_map_iff in Hin. destruct Hin as [[k v] [<- Hin]].
    assert (E : entry_ok (k, v)).
    { eapply Forall_forall; [|exact Hin]. eapply Permutation_Forall; [|exact F]. apply Permutation_sym, sort_keys_perm. }
    destruct E as [Hk Hv]. cbn [fst snd] in *. unfold kv_line. cbn [fst snd]. rewrite forallb_app. cbn [forallb].
    apply jtext_ok in Hv. rewrite (value_no _ 13 Hv) by lia.
    unfold key_ok in Hk. destruct k as [|c0 k']; [discriminate|].
    assert (K13 : forallb (fun c => negb (c =? 13)) (c0 :: k') = true).
    { eapply forallb_impl; [|exact Hk]. intros c Hc. apply key_char_facts in Hc. unfold is_space in Hc. lia. }
    rewrite K13. reflexivity.
  Qed.

  (* ---- the resolver ---- *)
  (* how the file is named: an extension the code maps to the format that was written, or any
     name whose extension is not in MAP_EXT (incl. none), or a profile's config file *)
  Definition path_matches (by_content : bool) (p : str) (f : fmt) : Prop :=
    by_content = true \/ ext_type p = None \/ ext_type p = Some f.

  Theorem load_text_thm : forall f c bc p, wf_config c = true -> (f = KeyVal -> kv_config_ok c = true) ->
    path_matches bc p f ->
    exists t, config_to_str b64enc jdumps f c = Some t /\
              load_text b64dec jloads bc p t = LOk (fmt_view f c).
  Proof.
    intros f c bc p WF KV PM.
    destruct (format_rt_thm f c WF KV) as [t [d [Ht [Hp [Hne Hd]]]]].
    exists t. split; [exact Ht|].
    assert (U : unl t = t).
    { apply unl_id. unfold config_to_str in Ht. rewrite (serialize_spec b64enc c WF) in Ht. cbn [option_map] in Ht.
      apply Some_inj in Ht. subst t. destruct f; cbn [print_as].
      - apply kv_print_no_cr. apply jl_entries_ok; auto.
      - apply json_no_cr. }
    unfold load_text. rewrite U.
    assert (T : trial jloads t = Some f).
    { unfold trial. destruct f; cbn [parse_as] in Hp.
      - rewrite Hp. destruct d; [congruence | reflexivity].
      - unfold config_to_str in Ht. rewrite (serialize_spec b64enc c WF) in Ht. cbn [option_map print_as] in Ht.
        apply Some_inj in Ht. destruct (jl_head c) as [r Hr].
        destruct (json_shape (jlc c)) as [rest Hrest]; [rewrite Hr; discriminate|].
        rewrite <- Ht, Hrest. rewrite kv_parse_json_none. rewrite <- Hrest, Ht, Hp.
        destruct d; [congruence | reflexivity]. }
    assert (G : guess_type jloads bc p t = Some f).
    { unfold guess_type. destruct PM as [-> | [E | E]].
      - exact T.
      - destruct bc; rewrite ?E; exact T.
      - destruct bc; [exact T | rewrite E; reflexivity]. }
    rewrite G, Hp, Hd. reflexivity.
  Qed.

  (* ---- load by path and by profile name, on a file system holding what save wrote ---- *)
  Theorem load_paths_thm : forall f c s root name t,
    wf_config c = true -> (f = KeyVal -> kv_config_ok c = true) ->
    config_to_str b64enc jdumps f c = Some t ->
    (* by path: the file is at `name`, named with a matching or an unmapped extension *)
    (fs_read s name = Some t -> (ext_type name = None \/ ext_type name = Some f) ->
       load b64dec jloads s root name false = LOk (fmt_view f c)) /\
    (* by profile name (also right after the first save of a never-used profile) *)
    (fs_read s name = None -> fs_read s (pjoin (profile_dir root name) s_config_yo) = None ->
     fs_read s (pjoin (profile_dir root name) s_config_json) = Some t ->
       load b64dec jloads s root name false = LOk (fmt_view f c)).
  Proof.
    intros f c s root name t WF KV Ht. split.
    - intros R E. unfold load, load_path. rewrite R.
      destruct (load_text_thm f c false name WF KV (or_intror E)) as [t' [Ht' L]].
      rewrite Ht in Ht'. apply Some_inj in Ht'. subst t'. rewrite L. reflexivity.
    - intros R0 R1 R2. unfold load, load_path. rewrite R0, R1, R2.
      destruct (load_text_thm f c true (pjoin (profile_dir root name) s_config_json) WF KV (or_introl eq_refl))
        as [t' [Ht' L]].
      rewrite Ht in Ht'. apply Some_inj in Ht'. subst t'. exact L.
  Qed.

  (* ---- atomic save, end to end: whenever the process dies during the (repaired) save of a
     configuration, the profile loads as exactly what it loaded as before, or as the new
     configuration ---- *)
  Theorem atomic_save_thm : forall f c s s' root name t,
    wf_config c = true -> (f = KeyVal -> kv_config_ok c = true) ->
    config_to_str b64enc jdumps f c = Some t ->
    fs_read s name = None -> fs_read s (pjoin (profile_dir root name) s_config_yo) = None ->
    crash s (save_prog s root name t) s' ->
    load b64dec jloads s' root name false = load b64dec jloads s root name false \/
    load b64dec jloads s' root name false = LOk (fmt_view f c).
  Proof.
    intros f c s s' root name t WF KV Ht R0 R1 C.
    destruct (atomic_save_files_thm root name t s s' C) as [Same | [Rt [Rn Ry]]].
    - left. unfold load, load_path.
      assert (E0 : fs_read s' name = fs_read s name) by (apply Same; cbn; auto).
      assert (E1 : fs_read s' (pjoin (profile_dir root name) s_config_yo) = fs_read s (pjoin (profile_dir root name) s_config_yo))
        by (apply Same; cbn; auto).
      assert (E2 : fs_read s' (pjoin (profile_dir root name) s_config_json) = fs_read s (pjoin (profile_dir root name) s_config_json))
        by (apply Same; cbn; auto).
      rewrite E0, E1, E2. reflexivity.
    - right. destruct (load_paths_thm f c s' root name t WF KV Ht) as [_ L]. apply L; congruence.
  Qed.

  (* ---- the unrepaired loader trusted the .json extension of the profile file ---- *)
  Lemma load_unfixed_keyval_shape : forall s root name t,
    fs_read s name = None -> fs_read s (pjoin (profile_dir root name) s_config_yo) = None ->
    fs_read s (pjoin (profile_dir root name) s_config_json) = Some t ->
    ext_type (pjoin (profile_dir root name) s_config_json) = Some Json ->
    jloads (unl t) = None ->
    load_unfixed b64dec jloads s root name = LErr.
  Proof.
    intros s root name t R0 R1 R2 E J. unfold load_unfixed, load_path. rewrite R0, R1, R2.
    unfold load_text, guess_type. rewrite E. cbn [parse_as]. rewrite J. reflexivity.
  Qed.
End Load.

(* concrete file names: the extension logic picks the intended format *)
Example ext_examples :
  ext_type [47; 116; 109; 112; 47; 97; 46; 106; 115; 111; 110] = Some Json /\      (* /tmp/a.json *)
  ext_type [97; 46; 74; 83; 79; 78] = Some Json /\                                 (* a.JSON *)
  ext_type [99; 111; 110; 102; 46; 121; 111] = Some KeyVal /\                      (* conf.yo *)
  ext_type [99; 111; 110; 102; 105; 103] = None /\                                 (* config *)
  ext_type [47; 97; 46; 98; 47; 99; 111; 110; 102; 105; 103] = None /\             (* /a.b/config *)
  ext_type [46; 106; 115; 111; 110] = None /\                                      (* .json (a dot file) *)
  ext_type [97; 46; 116; 120; 116] = None.                                         (* a.txt *)
Proof. vm_compute. repeat split. Qed.

(* the profile file of profile "p" under root "r" has the extension json *)
Example profile_file_ext_example : ext_type (pjoin (profile_dir [114] [112]) s_config_json) = Some Json.
Proof. vm_compute. reflexivity. Qed.
