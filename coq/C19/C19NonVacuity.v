(* C19 - non-vacuity: the hypotheses and domains of the theorems are satisfiable. *)
From YV Require Import Common.Tac C19.C19Str C19.C19Model C19.C19Lib C19.C19ProofsKV.
Local Open Scope N_scope.

(* non-vacuity of the base64 hypotheses: a (toy) encoder satisfying b64_rt and b64_clean *)
Definition toy_enc (b : list N) : str := map (fun x => x + 20000) b.
Definition toy_dec (s : str) : option (list N) := Some (map (fun y => y - 20000) s).

Lemma toy_char : forall x, is_space (x + 20000) = false /\
  negb ((x + 20000 =? 35) || (x + 20000 =? 59) || (x + 20000 =? 10) || (x + 20000 =? 13)) = true.
Proof. intros x. unfold is_space. lia. Qed.

Example b64_hypotheses_satisfiable :
  (forall b, toy_dec (toy_enc b) = Some b) /\ (forall b, value_ok (toy_enc b) = true).
Proof.
  split; intros b.
  - unfold toy_dec, toy_enc. rewrite map_map. f_equal. rewrite <- (map_id b) at 2. apply map_ext. intros x. lia.
  - unfold value_ok, toy_enc. apply andb_true_iff. split; [apply andb_true_iff; split|].
    + induction b as [|x r IH]; [reflexivity|]. cbn [map forallb]. rewrite IH.
      destruct (toy_char x) as [_ H]. rewrite H. reflexivity.
    + destruct b as [|x r]; [reflexivity|]. cbn [map]. destruct (toy_char x) as [H _]. rewrite H. reflexivity.
    + rewrite <- map_rev. destruct (rev b) as [|x r]; [reflexivity|]. cbn [map].
      destruct (toy_char x) as [H _]. rewrite H. reflexivity.
Qed.

(* non-vacuity of the configuration domain: a configuration with every kind of attribute *)
Example wf_config_nonvacuous :
  let c := mkConfig (Some (CScalar (JStr [52; 57]))) (Some (CScalar (JInt 49))) None None
                    (Some (CScalar (JStr [97; 61; 98]))) (Some (CBytes [1; 2; 3])) None None None None
                    (Some (CKeyPair (repeat 7 32) (repeat 9 32))) (Some (CPub (repeat 1 32)))
                    None None (Some (CBytes [])) None in
  wf_config c = true /\ kv_config_ok c = true.
Proof. vm_compute. split; reflexivity. Qed.
