(* C19 - non-vacuity: the hypotheses and domains of the theorems are satisfiable. *)
From YV Require Import Common.Tac C19.C19Str C19.C19B64 C19.C19Model C19.C19Lib C19.C19ProofsKV C19.C19ProofsB64.
Local Open Scope N_scope.

(* non-vacuity of the base64 hypotheses of the generic (Section) lemmas: the modelled base64 of
   C19B64.v satisfies them (C19ProofsB64) - the published theorems have no base64 hypothesis *)
Example b64_hypotheses_satisfiable :
  (forall b, bytes_ok b = true -> b64_decode (b64_encode b) = Some b) /\
  (forall b, value_ok (b64_encode b) = true).
Proof. split; [exact b64_rt_thm | exact b64_encode_clean_thm]. Qed.

(* non-vacuity of the configuration domain: a configuration with every kind of attribute *)
Example wf_config_nonvacuous :
  let c := mkConfig (Some (CScalar (JStr [52; 57]))) (Some (CScalar (JInt 49))) None None
                    (Some (CScalar (JStr [97; 61; 98]))) (Some (CBytes [1; 2; 3])) None None None None
                    (Some (CKeyPair (repeat 7 32) (repeat 9 32))) (Some (CPub (repeat 1 32)))
                    None None (Some (CBytes [])) None in
  wf_config c = true /\ kv_config_ok c = true.
Proof. vm_compute. split; reflexivity. Qed.
