(* C19 - base64 as the configuration code uses it, over bytes.  Definitions only.

   b64_encode b   =  base64.b64encode(b).decode()          (binascii.b2a_base64, newline=False)
   b64_decode s   =  base64.b64decode(s) for a str s        (None = raises): the ASCII check of
                     base64._bytes_from_decode_data followed by the NON-strict state machine of
                     CPython 3.12 binascii.a2b_base64 (characters outside the alphabet are
                     skipped, '=' ends the data once the quad holds >= 2 sextets and the pads
                     complete it, a dangling quad raises)
   b64_mime b     =  base64.encodebytes(b).decode().strip()  (MIME flavour: a newline after every
                     76 output characters) - NOT what the code uses; kept as the regression
                     witness for "a line-breaking encoder destroys the key=value format".

   Text = list of code points, bytes = list of N below 256.  Both functions are compared with
   the interpreter's base64 module on every run of the check (all lengths 0..200 and long
   inputs for the encoder; canonical, line-broken, truncated and junk texts for the decoder). *)
From YV Require Import Common.Tac C19.C19Str.
Local Open Scope N_scope.

Definition bytes_ok (b : list N) : bool := forallb (fun x => x <? 256) b.

(* the 64 digits: A-Z a-z 0-9 + /  (total: every sextet value >= 63 prints as '/') *)
Definition b64_digit (i : N) : N :=
  if i <? 26 then 65 + i
  else if i <? 52 then 71 + i
  else if i <? 62 then i - 4
  else if i =? 62 then 43 else 47.

(* binascii's table_a2b_base64: the value of a digit, None for every other character *)
Definition b64_value (c : N) : option N :=
  if (65 <=? c) && (c <=? 90) then Some (c - 65)
  else if (97 <=? c) && (c <=? 122) then Some (c - 71)
  else if (48 <=? c) && (c <=? 57) then Some (c + 4)
  else if c =? 43 then Some 62
  else if c =? 47 then Some 63
  else None.

(* the 65-character alphabet of base64 text: the digits and the pad '=' *)
Definition b64_char (c : N) : bool :=
  match b64_value c with Some _ => true | None => c =? 61 end.

Fixpoint b64_encode (b : list N) : str :=
  match b with
  | [] => []
  | x :: [] => [b64_digit (x / 4); b64_digit ((x mod 4) * 16); 61; 61]
  | x :: y :: [] =>
    [b64_digit (x / 4); b64_digit ((x mod 4) * 16 + y / 16); b64_digit ((y mod 16) * 4); 61]
  | x :: y :: z :: r =>
    b64_digit (x / 4) :: b64_digit ((x mod 4) * 16 + y / 16) ::
    b64_digit ((y mod 16) * 4 + z / 64) :: b64_digit (z mod 64) :: b64_encode r
  end.

Inductive qpos := Q0 | Q1 | Q2 | Q3.
Definition q_ge2 (q : qpos) : bool := match q with Q2 | Q3 => true | _ => false end.
Definition q_num (q : qpos) : N := match q with Q0 => 0 | Q1 => 1 | Q2 => 2 | Q3 => 3 end.

(* the loop of binascii.a2b_base64 (strict_mode = 0): quad position, left-over bits, number of
   consecutive pads seen in this quad *)
Fixpoint a2b (l : str) (q : qpos) (left pads : N) : option (list N) :=
  match l with
  | [] => match q with Q0 => Some [] | _ => None end    (* dangling quad: binascii.Error *)
  | c :: r =>
    if c =? 61 then
      if q_ge2 q then
        if 4 <=? q_num q + (pads + 1) then Some []        (* goto done: the rest is ignored *)
        else a2b r q left (pads + 1)
      else a2b r q left pads
    else
      match b64_value c with
      | None => a2b r q left pads                         (* not a digit: skipped *)
      | Some v =>
        match q with
        | Q0 => a2b r Q1 v 0
        | Q1 => option_map (cons (left * 4 + v / 16)) (a2b r Q2 (v mod 16) 0)
        | Q2 => option_map (cons (left * 16 + v / 4)) (a2b r Q3 (v mod 4) 0)
        | Q3 => option_map (cons (left * 64 + v)) (a2b r Q0 0 0)
        end
      end
  end.

Definition b64_decode (s : str) : option (list N) :=
  if forallb (fun c => c <? 128) s then a2b s Q0 0 0 else None.   (* non-ASCII str: ValueError *)

(* ---- the MIME flavour (base64.encodebytes): lines of at most 76 characters ---- *)
Fixpoint chunks_go (fuel n : nat) (l : str) : list str :=
  match fuel with
  | O => []
  | S f => match l with
           | [] => []
           | _ :: _ => firstn n l :: chunks_go f n (skipn n l)
           end
  end.
Definition chunks (n : nat) (l : str) : list str := chunks_go (length l) n l.

Fixpoint join_nl (ls : list str) : str :=
  match ls with
  | [] => []
  | x :: r => match r with [] => x | _ :: _ => x ++ 10 :: join_nl r end
  end.

Definition b64_mime (b : list N) : str := join_nl (chunks 76 (b64_encode b)).
