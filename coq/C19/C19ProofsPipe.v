(* C19 - the transform pipeline: deserialize (any reordering of (serialize c)) = c, for every
   well-typed configuration (all 2^16 field subsets, all values, binary attributes of any length),
   under  b64dec (b64enc b) = b  for byte strings b. *)
From YV Require Import Common.Tac C19.C19Str C19.C19B64 C19.C19Model C19.C19Lib C19.C19PipeLib.
From Coq Require Import Permutation.
Local Open Scope N_scope.

Definition ren (k : str) : str := if str_eqb k k_version then k_meta_version else k.
Definition unren (k : str) : str := if str_eqb k k_meta_version then k_version else k.

Definition lift (d : list (str * jval)) : list (str * cval) :=
  map (fun kv => (fst kv, CScalar (snd kv))) d.

(* value view of a format: identity for JSON, text for key=value *)
Definition tvo (tv : jval -> jval) (o : option cval) : option cval :=
  match o with Some (CScalar j) => Some (CScalar (tv j)) | _ => o end.

Definition view (tv : jval -> jval) (c : config) : config :=
  mkConfig (tvo tv (c_phone c)) (tvo tv (c_cc c)) (tvo tv (c_login c))
    (tvo tv (c_password c)) (tvo tv (c_pushname c)) (c_id c) (tvo tv (c_mcc c))
    (tvo tv (c_mnc c)) (tvo tv (c_sim_mcc c)) (tvo tv (c_sim_mnc c))
    (c_client_static_keypair c) (c_server_static_public c) (c_expid c) (tvo tv (c_fdid c))
    (c_edge_routing_info c) (tvo tv (c_chat_dns_domain c)).

Definition tv_text (j : jval) : jval := JStr (jtext j).
Definition tv_id (j : jval) : jval := j.

Lemma view_text : forall c, view tv_text c = textual_config c.
Proof. reflexivity. Qed.

Lemma tvo_id : forall o, tvo tv_id o = o.
Proof. intros [[j|b|pr pu|b]|]; reflexivity. Qed.

Lemma view_id : forall c, view tv_id c = c.
Proof. intros c. unfold view. rewrite !tvo_id. destruct c; reflexivity. Qed.

Section Pipe.
  Variable b64enc : list N -> str.
  Variable b64dec : str -> option (list N).
  Hypothesis b64_rt : forall b, bytes_ok b = true -> b64dec (b64enc b) = Some b.

  (* ---- key functions of the stages ---- *)
  Lemma kf_filter : keyfun t_filter (fun x => fst x).
  Proof. intros [k [v|]] kv H; cbn in H; [|discriminate]. apply Some_inj, Some_inj in H. subst. reflexivity. Qed.
  Lemma kf_strip : keyfun t_strip (fun kv => tl (fst kv)).
  Proof. intros [k v] kv H. cbn in H. apply Some_inj, Some_inj in H. subst. reflexivity. Qed.
  Lemma kf_props : keyfun (t_props b64enc) (fun kv => fst kv).
  Proof.
    intros [k v] kv H. unfold t_props in H. cbn [fst snd] in H. destruct (enc_field b64enc k v); [|discriminate].
    apply Some_inj, Some_inj in H. subst. reflexivity.
  Qed.
  Lemma kf_meta : keyfun t_meta (fun kv => ren (fst kv)).
  Proof. intros [k v] kv H. unfold t_meta in H. apply Some_inj, Some_inj in H. subst. reflexivity. Qed.
  Lemma kf_rmeta : keyfun r_meta (fun kv => unren (fst kv)).
  Proof. intros [k v] kv H. unfold r_meta in H. apply Some_inj, Some_inj in H. subst. reflexivity. Qed.
  Lemma kf_rprops : keyfun (r_props b64dec) (fun kv => fst kv).
  Proof.
    intros [k v] kv H. unfold r_props in H. cbn [fst snd] in H. destruct (dec_field b64dec k v); [|discriminate].
    apply Some_inj, Some_inj in H. subst. reflexivity.
  Qed.
  Lemma kf_rfilter : keyfun r_filter (fun kv => fst kv).
  Proof.
    intros [k v] kv H. unfold r_filter in H. cbn [fst] in H. destruct (str_eqb k k_version); [discriminate|].
    apply Some_inj, Some_inj in H. subst. reflexivity.
  Qed.

  (* ---- serialize as one fused comprehension over vars(config) ---- *)
  Definition Fs := kcomp (kcomp (kcomp (kcomp t_filter t_strip) (t_props b64enc)) t_meta) to_j.

  Lemma serialize_fused : forall c, serialize b64enc c = collect Fs (to_vars c).
  Proof.
    intros c. unfold serialize, Fs.
    rewrite (chain_first _ _ t_filter (fun x => fst x)); [|apply kf_filter | apply nodupb_NoDup; vm_compute; reflexivity].
    rewrite (chain_step _ _ _ _ t_filter t_strip (fun x => fst x) (@tl N));
      [|apply kf_filter | apply kf_strip | apply nodupb_NoDup; vm_compute; reflexivity].
    rewrite (chain_step _ _ _ _ (kcomp t_filter t_strip) (t_props b64enc) (fun x => tl (fst x)) (fun k => k));
      [|apply (keyfun_kcomp _ _ _ t_filter t_strip (fun x => fst x) (@tl N)); [apply kf_filter | apply kf_strip]
       | apply kf_props | apply nodupb_NoDup; vm_compute; reflexivity].
    rewrite (chain_step _ _ _ _ (kcomp (kcomp t_filter t_strip) (t_props b64enc)) t_meta (fun x => tl (fst x)) ren);
      [|apply (keyfun_kcomp _ _ _ (kcomp t_filter t_strip) (t_props b64enc) (fun x => tl (fst x)) (fun k => k));
         [apply (keyfun_kcomp _ _ _ t_filter t_strip (fun x => fst x) (@tl N)); [apply kf_filter | apply kf_strip]
         | apply kf_props]
       | apply kf_meta | apply nodupb_NoDup; vm_compute; reflexivity].
    apply chain_last.
  Qed.

  (* what serialize produces for one attribute *)
  Definition Gs (x : str * option cval) : option (str * jval) :=
    match snd x with
    | None => None
    | Some v => match enc_field b64enc (tl (fst x)) v with
                | Some (CScalar j) => Some (ren (tl (fst x)), j)
                | _ => None
                end
    end.

  Ltac wf_split H :=
    unfold wf_config in H;
    repeat (let H' := fresh "W" in apply andb_true_iff in H; destruct H as [H H']).

  Ltac field_case :=
    match goal with
    | |- _ (_, ?f) = _ =>
      match goal with
      | W : _ f = true |- _ =>
        revert W; destruct f as [[?|?|? ?|?]|]; intros W; try discriminate W; reflexivity
      end
    end.

  Lemma Fs_simple : forall c, wf_config c = true -> Forall (fun x => Fs x = Some (Gs x)) (to_vars c).
  Proof.
    intros c H. wf_split H. unfold to_vars.
    repeat match goal with |- Forall _ (_ :: _) => constructor | |- Forall _ [] => constructor end.
    1: reflexivity.
    all: field_case.
  Qed.

  Definition jl (c : config) : list (str * jval) := fmap Gs (to_vars c).

  Theorem serialize_spec : forall c, wf_config c = true -> serialize b64enc c = Some (jl c).
  Proof. intros c H. rewrite serialize_fused. apply collect_simple. apply Fs_simple. exact H. Qed.

  (* the serialised keys are among the 17 known names, each at most once *)
  Definition K2 : list str := map (fun x => ren (tl (fst x))) (to_vars (mkConfig None None None None None None None None None None None None None None None None)).

  Lemma fmap_keys_sub : forall X V (G : X -> option (str * V)) kf l,
    (forall x kv, G x = Some kv -> fst kv = kf x) -> sub (keys (fmap G l)) (map kf l).
  Proof.
    intros X V G kf l H. induction l as [|x r IH]; [constructor|]. unfold fmap in *. cbn [flat_map map].
    destruct (G x) as [kv|] eqn:E; cbn [olist app keys map].
    - rewrite (H _ _ E). apply sub_keep. exact IH.
    - apply sub_skip. exact IH.
  Qed.

  Lemma jl_keys : forall c, sub (keys (jl c)) K2.
  Proof.
    intros c. unfold jl. change K2 with (map (fun x : str * option cval => ren (tl (fst x))) (to_vars c)).
    apply fmap_keys_sub. intros [k o] kv H. unfold Gs in H. cbn [fst snd] in *.
    destruct o as [v|]; [|discriminate]. destruct (enc_field b64enc (tl k) v) as [[j|?|? ?|?]|]; try discriminate.
    apply Some_inj in H. subst. reflexivity.
  Qed.

  (* ---- deserialize as one fused comprehension ---- *)
  Definition Fr := kcomp (kcomp r_meta (r_props b64dec)) r_filter.

  Lemma deserialize_fused : forall d, NoDup (map unren (keys d)) ->
    deserialize b64dec d = obind (collect Fr (lift d)) of_vars.
  Proof.
    intros d N. unfold deserialize, Fr. fold (lift d).
    assert (N' : NoDup (map (fun x : str * cval => unren (fst x)) (lift d))).
    { unfold lift. rewrite map_map. cbn [fst]. unfold keys in N. rewrite map_map in N. exact N. }
    rewrite (chain_first _ _ r_meta (fun x => unren (fst x))); [|apply kf_rmeta | exact N'].
    rewrite (chain_step _ _ _ _ r_meta (r_props b64dec) (fun x => unren (fst x)) (fun k => k));
      [|apply kf_rmeta | apply kf_rprops | exact N'].
    rewrite (chain_step _ _ _ _ (kcomp r_meta (r_props b64dec)) r_filter (fun x => unren (fst x)) (fun k => k));
      [|apply (keyfun_kcomp _ _ _ r_meta (r_props b64dec) (fun x => unren (fst x)) (fun k => k));
         [apply kf_rmeta | apply kf_rprops]
       | apply kf_rfilter | exact N'].
    reflexivity.
  Qed.

  (* ---- the composite on one attribute, through a value view tv ---- *)
  Variable tv : jval -> jval.
  Hypothesis tv_str : forall s, tv (JStr s) = JStr s.

  Definition jlt (c : config) : list (str * jval) := map (fun kv => (fst kv, tv (snd kv))) (jl c).

  Definition Hc (x : str * option cval) : option (option (str * cval)) :=
    match option_map (fun kv : str * jval => (fst kv, CScalar (tv (snd kv)))) (Gs x) with
    | None => Some None
    | Some y => Fr y
    end.

  Definition Gfin (x : str * option cval) : option (str * cval) :=
    if str_eqb (tl (fst x)) k_version then None
    else option_map (pair (tl (fst x))) (tvo tv (snd x)).

  Lemma keypair_back : forall pr pu, length pr = 32%nat -> length pu = 32%nat ->
    (if Nat.eqb (length (pr ++ pu)) 64 then Some (CKeyPair (firstn 32 (pr ++ pu)) (skipn 32 (pr ++ pu))) else None)
    = Some (CKeyPair pr pu).
  Proof.
    intros pr pu H1 H2. rewrite app_length, H1, H2. cbn [Nat.add Nat.eqb].
    rewrite <- H1 at 1 2. rewrite firstn_app, Nat.sub_diag, firstn_all, firstn_O, app_nil_r.
    rewrite skipn_app, Nat.sub_diag, skipn_all, skipn_O. reflexivity.
  Qed.

  Ltac field_case2 :=
    match goal with
    | |- _ (_, ?f) = _ =>
      match goal with
      | W : _ f = true |- _ =>
        revert W; destruct f as [[[?|?]|?|? ?|?]|]; intros W; try discriminate W;
        unfold Hc, Gfin, Gs, Fr, kcomp; cbn; rewrite ?tv_str; cbn; try reflexivity;
        unfold r_props, dec_field, is_bytes_key, r_filter; cbn -[firstn skipn length Nat.eqb];
        try rewrite (b64_rt _ W); cbn -[firstn skipn length Nat.eqb]; try reflexivity
      end
    end.

  Lemma Hc_simple : forall c, wf_config c = true -> Forall (fun x => Hc x = Some (Gfin x)) (to_vars c).
  Proof.
    intros c H. wf_split H. unfold to_vars.
    repeat match goal with |- Forall _ (_ :: _) => constructor | |- Forall _ [] => constructor end.
    1: { unfold Hc, Gfin, Gs, Fr, kcomp. cbn. destruct (tv (JInt 1)); reflexivity. }
    all: field_case2.
    (* the key pair: 64 bytes split at 32 *)
    match goal with W : is_keypair _ = true |- _ =>
      unfold is_keypair in W; apply andb_true_iff in W; destruct W as [W B2];
      apply andb_true_iff in W; destruct W as [W B1];
      apply andb_true_iff in W; destruct W as [L1 L2] end.
    apply Nat.eqb_eq in L1. apply Nat.eqb_eq in L2.
    rewrite b64_rt by (unfold bytes_ok in *; rewrite forallb_app, B1, B2; reflexivity).
    cbn -[firstn skipn length Nat.eqb].
    match goal with |- context [length (?a ++ ?b)] => rewrite (keypair_back a b L1 L2) end.
    reflexivity.
  Qed.

  Lemma collect_lift_jlt : forall c, wf_config c = true ->
    collect Fr (lift (jlt c)) = Some (fmap Gfin (to_vars c)).
  Proof.
    intros c H. unfold lift, jlt, jl. rewrite map_map. cbn [fst snd].
    rewrite (fmap_map _ _ _ Gs (fun kv : str * jval => (fst kv, CScalar (tv (snd kv))))).
    rewrite collect_fmap. apply (collect_simple _ _ _ Gfin). apply Hc_simple. exact H.
  Qed.

  (* the attributes as an association list with concrete keys *)
  Definition Ec (c : config) : list (str * option cval) :=
    [ (k_phone, tvo tv (c_phone c)); (k_cc, tvo tv (c_cc c)); (k_login, tvo tv (c_login c));
      (k_password, tvo tv (c_password c)); (k_pushname, tvo tv (c_pushname c)); (k_id, tvo tv (c_id c));
      (k_client_static_keypair, tvo tv (c_client_static_keypair c));
      (k_server_static_public, tvo tv (c_server_static_public c));
      (k_expid, tvo tv (c_expid c)); (k_fdid, tvo tv (c_fdid c));
      (k_mcc, tvo tv (c_mcc c)); (k_mnc, tvo tv (c_mnc c)); (k_sim_mcc, tvo tv (c_sim_mcc c));
      (k_sim_mnc, tvo tv (c_sim_mnc c)); (k_edge_routing_info, tvo tv (c_edge_routing_info c));
      (k_chat_dns_domain, tvo tv (c_chat_dns_domain c)) ].

  Lemma fmap_Gfin : forall c, fmap Gfin (to_vars c) = compact (Ec c).
  Proof. intros c. reflexivity. Qed.

  Lemma coerce_strfield : forall o, is_strfield o = true -> coerce_str (tvo tv o) = Some (tvo tv o).
  Proof.
    intros [[[s|n]|b|pr pu|b]|] H; try discriminate H; cbn [tvo]; rewrite ?tv_str; reflexivity.
  Qed.
  Lemma tvo_bytes : forall o, is_bytes o = true -> tvo tv o = o.
  Proof. intros [[j|b|pr pu|b]|] H; try discriminate H; reflexivity. Qed.
  Lemma tvo_keypair : forall o, is_keypair o = true -> tvo tv o = o.
  Proof. intros [[j|b|pr pu|b]|] H; try discriminate H; reflexivity. Qed.
  Lemma tvo_pub : forall o, is_pub o = true -> tvo tv o = o.
  Proof. intros [[j|b|pr pu|b]|] H; try discriminate H; reflexivity. Qed.

  Lemma Ec_keys_nodup : forall c, NoDup (keys (Ec c)).
  Proof. intros c. apply nodupb_NoDup. vm_compute. reflexivity. Qed.

  Lemma Ec_keys_known : forall c k, In k (keys (Ec c)) -> mem k params = true.
  Proof.
    intros c k H. assert (F : forallb (fun k => mem k params) (keys (Ec c)) = true) by (vm_compute; reflexivity).
    rewrite forallb_forall in F. apply F. exact H.
  Qed.

  (* deserialize of ANY reordering of the (viewed) serialised dictionary gives the (viewed) config *)
  Theorem deserialize_perm_thm : forall c d, wf_config c = true -> Permutation d (jlt c) ->
    deserialize b64dec d = Some (view tv c).
  Proof.
    intros c d WF P.
    assert (KJ : keys (jlt c) = keys (jl c)).
    { unfold jlt, keys. rewrite map_map. reflexivity. }
    assert (N : NoDup (map unren (keys d))).
    { eapply Permutation_NoDup; [apply Permutation_map, Permutation_map, Permutation_sym; exact P|].
      fold (keys (jlt c)). rewrite KJ. eapply sub_NoDup; [apply sub_map, jl_keys|].
      apply nodupb_NoDup. vm_compute. reflexivity. }
    rewrite (deserialize_fused d N).
    pose proof (collect_lift_jlt c WF) as C0. rewrite fmap_Gfin in C0.
    assert (PL : Permutation (lift (jlt c)) (lift d)).
    { unfold lift. apply Permutation_map, Permutation_sym. exact P. }
    destruct (collect_perm _ _ Fr _ _ _ PL C0) as [D' [CD PD]]. rewrite CD. cbn [obind].
    assert (ND : NoDup (keys (compact (Ec c)))).
    { eapply sub_NoDup; [apply keys_compact_sub | apply Ec_keys_nodup]. }
    assert (L : forall k, lookup k D' = match lookup k (Ec c) with Some o => o | None => None end).
    { intros k. rewrite <- (lookup_perm _ _ _ k PD ND). apply lookup_compact. apply Ec_keys_nodup. }
    assert (KN : forallb (fun kv : str * cval => mem (fst kv) params) D' = true).
    { apply forallb_forall. intros [k v] Hin. cbn [fst].
      apply (Ec_keys_known c). eapply sub_In; [apply keys_compact_sub|].
      apply (Permutation_in _ (Permutation_sym PD)) in Hin. unfold keys. apply in_map_iff. exists (k, v). auto. }
    unfold of_vars. rewrite KN. rewrite !L.
    change (lookup k_phone (Ec c)) with (Some (tvo tv (c_phone c))).
    change (lookup k_login (Ec c)) with (Some (tvo tv (c_login c))).
    wf_split WF.
    rewrite (coerce_strfield (c_phone c)) by assumption.
    rewrite (coerce_strfield (c_login c)) by assumption.
    unfold view. f_equal. f_equal; try reflexivity.
    - change (lookup k_id (Ec c)) with (Some (tvo tv (c_id c))). apply tvo_bytes. assumption.
    - change (lookup k_client_static_keypair (Ec c)) with (Some (tvo tv (c_client_static_keypair c))).
      apply tvo_keypair. assumption.
    - change (lookup k_server_static_public (Ec c)) with (Some (tvo tv (c_server_static_public c))).
      apply tvo_pub. assumption.
    - change (lookup k_expid (Ec c)) with (Some (tvo tv (c_expid c))). apply tvo_bytes. assumption.
    - change (lookup k_edge_routing_info (Ec c)) with (Some (tvo tv (c_edge_routing_info c))).
      apply tvo_bytes. assumption.
  Qed.
End Pipe.
