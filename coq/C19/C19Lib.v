(* Generic lemmas for the C19 model: string equality, association lists, take/drop-while,
   split/join, strip. *)
From YV Require Import Common.Tac C19.C19Str C19.C19Model.
From Coq Require Import Permutation.
Local Open Scope N_scope.

(* ---------------------------------------------------------------- str_eqb *)
Lemma str_eqb_eq : forall a b, str_eqb a b = true <-> a = b.
Proof.
  induction a as [|x a IH]; destruct b as [|y b]; cbn [str_eqb]; split; intros H;
    try reflexivity; try discriminate.
  - apply andb_true_iff in H. destruct H as [H1 H2]. apply N.eqb_eq in H1. apply IH in H2.
    subst. reflexivity.
  - apply cons_inj in H. destruct H as [-> ->]. apply andb_true_iff. split.
    + apply N.eqb_refl. + apply IH. reflexivity.
Qed.

Lemma str_eqb_refl : forall a, str_eqb a a = true.
Proof. intros a. apply str_eqb_eq. reflexivity. Qed.

Lemma str_eqb_neq : forall a b, str_eqb a b = false <-> a <> b.
Proof.
  intros a b. split.
  - intros H E. apply str_eqb_eq in E. congruence.
  - intros H. destruct (str_eqb a b) eqn:E; [|reflexivity]. apply str_eqb_eq in E. contradiction.
Qed.

Lemma str_eqb_sym : forall a b, str_eqb a b = str_eqb b a.
Proof.
  intros a b. destruct (str_eqb a b) eqn:E; symmetry.
  - apply str_eqb_eq in E. subst. apply str_eqb_refl.
  - apply str_eqb_neq. apply str_eqb_neq in E. congruence.
Qed.

Lemma str_eqb_len : forall a b, length a <> length b -> str_eqb a b = false.
Proof. intros a b H. apply str_eqb_neq. intros E. subst. contradiction. Qed.

Lemma str_eqb_app_l : forall p a b, str_eqb (p ++ a) (p ++ b) = str_eqb a b.
Proof.
  intros p a b. destruct (str_eqb a b) eqn:E.
  - apply str_eqb_eq in E. subst. apply str_eqb_refl.
  - apply str_eqb_neq. apply str_eqb_neq in E. intros H. apply app_inv_head in H. contradiction.
Qed.

Lemma mem_In : forall k l, mem k l = true <-> In k l.
Proof.
  intros k l. unfold mem. rewrite existsb_exists. split.
  - intros [x [Hx E]]. apply str_eqb_eq in E. subst. exact Hx.
  - intros H. exists k. split; [exact H | apply str_eqb_refl].
Qed.

(* ---------------------------------------------------------------- lookup / upd *)
Lemma lookup_upd_same : forall V (d : list (str * V)) k v, lookup k (upd d k v) = Some v.
Proof.
  induction d as [|[k' v'] r IH]; intros k v; cbn [upd lookup].
  - rewrite str_eqb_refl. reflexivity.
  - destruct (str_eqb k' k) eqn:E; cbn [lookup]; rewrite E; [reflexivity | apply IH].
Qed.

Lemma lookup_upd_other : forall V (d : list (str * V)) k v w,
  str_eqb k w = false -> lookup w (upd d k v) = lookup w d.
Proof.
  induction d as [|[k' v'] r IH]; intros k v w H; cbn [upd lookup].
  - rewrite H. reflexivity.
  - destruct (str_eqb k' k) eqn:E; cbn [lookup].
    + apply str_eqb_eq in E. subst k'. rewrite H. reflexivity.
    + destruct (str_eqb k' w); [reflexivity | apply IH; exact H].
Qed.

Lemma lookup_remove_other : forall V (d : list (str * V)) k w,
  str_eqb k w = false -> lookup w (remove_key k d) = lookup w d.
Proof.
  induction d as [|[k' v'] r IH]; intros k w H; cbn [remove_key lookup]; [reflexivity|].
  destruct (str_eqb k' k) eqn:E.
  - apply str_eqb_eq in E. subst k'. rewrite H. apply IH. exact H.
  - cbn [lookup]. destruct (str_eqb k' w); [reflexivity | apply IH; exact H].
Qed.

Lemma lookup_not_in : forall V (d : list (str * V)) k, ~ In k (keys d) -> lookup k d = None.
Proof.
  induction d as [|[k' v] r IH]; intros k H; cbn [lookup]; [reflexivity|].
  destruct (str_eqb k' k) eqn:E.
  - apply str_eqb_eq in E. subst. exfalso. apply H. left. reflexivity.
  - apply IH. intros Hin. apply H. right. exact Hin.
Qed.

Lemma upd_not_in : forall V (d : list (str * V)) k v, ~ In k (keys d) -> upd d k v = d ++ [(k, v)].
Proof.
  induction d as [|[k' v'] r IH]; intros k v H; cbn [upd app]; [reflexivity|].
  destruct (str_eqb k' k) eqn:E.
  - apply str_eqb_eq in E. subst. exfalso. apply H. left. reflexivity.
  - rewrite IH; [reflexivity|]. intros Hin. apply H. right. exact Hin.
Qed.

Lemma build_acc : forall V (l acc : list (str * V)),
  NoDup (keys (acc ++ l)) ->
  fold_left (fun d kv => upd d (fst kv) (snd kv)) l acc = acc ++ l.
Proof.
  induction l as [|[k v] r IH]; intros acc H; cbn [fold_left].
  - rewrite app_nil_r. reflexivity.
  - cbn [fst snd]. rewrite upd_not_in.
    + rewrite IH; rewrite <- app_assoc; cbn [app]; [reflexivity | exact H].
    + unfold keys in *. rewrite map_app in H. cbn [map fst] in H.
      apply NoDup_remove_2 in H. intros Hin. apply H. apply in_or_app. left. exact Hin.
Qed.

(* a dict comprehension whose produced keys are distinct is just the produced list *)
Lemma build_nodup : forall V (l : list (str * V)), NoDup (keys l) -> build l = l.
Proof. intros V l H. unfold build. rewrite build_acc; [reflexivity | exact H]. Qed.

Lemma dict_comp_nodup : forall X V (f : X -> option (option (str * V))) l d,
  collect f l = Some d -> NoDup (keys d) -> dict_comp f l = Some d.
Proof. intros X V f l d H N. unfold dict_comp. rewrite H. cbn. rewrite build_nodup; auto. Qed.

(* ---------------------------------------------------------------- takewhile / dropwhile *)
Lemma dropwhile_all : forall A (p : A -> bool) l, forallb p l = true -> dropwhile p l = [].
Proof.
  induction l as [|x r IH]; cbn [forallb dropwhile]; intros H; [reflexivity|].
  apply andb_true_iff in H. destruct H as [H1 H2]. rewrite H1. apply IH. exact H2.
Qed.

Lemma takewhile_all : forall A (p : A -> bool) l, forallb p l = true -> takewhile p l = l.
Proof.
  induction l as [|x r IH]; cbn [forallb takewhile]; intros H; [reflexivity|].
  apply andb_true_iff in H. destruct H as [H1 H2]. rewrite H1. f_equal. apply IH. exact H2.
Qed.

Lemma takewhile_app_stop : forall A (p : A -> bool) l x r,
  forallb p l = true -> p x = false -> takewhile p (l ++ x :: r) = l.
Proof.
  induction l as [|y l IH]; cbn [forallb takewhile app]; intros x r H Hx.
  - rewrite Hx. reflexivity.
  - apply andb_true_iff in H. destruct H as [H1 H2]. rewrite H1. f_equal. apply IH; assumption.
Qed.

Lemma dropwhile_app_stop : forall A (p : A -> bool) l x r,
  forallb p l = true -> p x = false -> dropwhile p (l ++ x :: r) = x :: r.
Proof.
  induction l as [|y l IH]; cbn [forallb dropwhile app]; intros x r H Hx.
  - rewrite Hx. reflexivity.
  - apply andb_true_iff in H. destruct H as [H1 H2]. rewrite H1. apply IH; assumption.
Qed.

Lemma forallb_rev : forall A (p : A -> bool) l, forallb p (rev l) = forallb p l.
Proof.
  intros A p l. induction l as [|x r IH]; [reflexivity|].
  cbn [rev forallb]. rewrite forallb_app. cbn [forallb]. rewrite IH.
  rewrite andb_true_r. apply andb_comm.
Qed.

(* ---------------------------------------------------------------- strip *)
Lemma lstrip_id : forall l,
  match l with [] => true | c :: _ => negb (is_space c) end = true -> lstrip l = l.
Proof.
  intros [|c r] H; [reflexivity|]. unfold lstrip. cbn [dropwhile].
  apply negb_true_iff in H. rewrite H. reflexivity.
Qed.

Lemma rstrip_id : forall l,
  match rev l with [] => true | c :: _ => negb (is_space c) end = true -> rstrip l = l.
Proof.
  intros l H. unfold rstrip. destruct (rev l) as [|c r] eqn:E.
  - cbn. apply (f_equal (@rev N)) in E. rewrite rev_involutive in E. cbn in E. congruence.
  - cbn [dropwhile]. apply negb_true_iff in H. rewrite H. rewrite <- E. apply rev_involutive.
Qed.

Lemma strip_id : forall l,
  match l with [] => true | c :: _ => negb (is_space c) end = true ->
  match rev l with [] => true | c :: _ => negb (is_space c) end = true -> strip l = l.
Proof. intros l H1 H2. unfold strip. rewrite lstrip_id by exact H1. apply rstrip_id. exact H2. Qed.

(* ---------------------------------------------------------------- split / join *)
Lemma split_on_no_sep : forall sep l, forallb (fun c => negb (c =? sep)) l = true ->
  split_on sep l = [l].
Proof.
  induction l as [|c r IH]; cbn [forallb split_on]; intros H; [reflexivity|].
  apply andb_true_iff in H. destruct H as [H1 H2]. apply negb_true_iff in H1. rewrite H1.
  rewrite IH by exact H2. reflexivity.
Qed.

Lemma split_on_app : forall sep l r, forallb (fun c => negb (c =? sep)) l = true ->
  split_on sep (l ++ sep :: r) = l :: split_on sep r.
Proof.
  induction l as [|c l IH]; cbn [forallb split_on app]; intros r H.
  - rewrite N.eqb_refl. reflexivity.
  - apply andb_true_iff in H. destruct H as [H1 H2]. apply negb_true_iff in H1. rewrite H1.
    rewrite IH by exact H2. reflexivity.
Qed.

Lemma split_join : forall sep ls,
  ls <> [] -> Forall (fun l => forallb (fun c => negb (c =? sep)) l = true) ls ->
  split_on sep (join sep ls) = ls.
Proof.
  induction ls as [|x r IH]; intros Hne HF; [congruence|].
  inversion HF as [|? ? Hx Hr]; subst. cbn [join]. destruct r as [|y r'].
  - apply split_on_no_sep. exact Hx.
  - rewrite split_on_app by exact Hx. f_equal. apply IH; [discriminate | exact Hr].
Qed.

Lemma split_first_app : forall c a b, forallb (fun x => negb (x =? c)) a = true ->
  split_first c (a ++ c :: b) = (a, Some b).
Proof.
  induction a as [|x a IH]; cbn [forallb split_first app]; intros b H.
  - rewrite N.eqb_refl. reflexivity.
  - apply andb_true_iff in H. destruct H as [H1 H2]. apply negb_true_iff in H1. rewrite H1.
    rewrite IH by exact H2. reflexivity.
Qed.

Lemma cut_at_none : forall c l, forallb (fun x => negb (x =? c)) l = true -> cut_at c l = l.
Proof. intros c l H. unfold cut_at. apply takewhile_all. exact H. Qed.

Lemma unl_id : forall l, forallb (fun c => negb (c =? 13)) l = true -> unl l = l.
Proof.
  induction l as [|c r IH]; cbn [forallb unl]; intros H; [reflexivity|].
  apply andb_true_iff in H. destruct H as [H1 H2]. apply negb_true_iff in H1. rewrite H1.
  f_equal. apply IH. exact H2.
Qed.

(* ---------------------------------------------------------------- sort_keys *)
Lemma insert_kv_perm : forall V (kv : str * V) l, Permutation (insert_kv kv l) (kv :: l).
Proof.
  induction l as [|h t IH]; cbn [insert_kv]; [apply Permutation_refl|].
  destruct (str_leb (fst kv) (fst h)); [apply Permutation_refl|].
  eapply perm_trans; [apply perm_skip; exact IH | apply perm_swap].
Qed.

Lemma sort_keys_perm : forall V (l : list (str * V)), Permutation (sort_keys l) l.
Proof.
  induction l as [|h t IH]; cbn [sort_keys fold_right]; [apply perm_nil|].
  eapply perm_trans; [apply insert_kv_perm | apply perm_skip; exact IH].
Qed.

Lemma lookup_perm : forall V (a b : list (str * V)) k,
  Permutation a b -> NoDup (keys a) -> lookup k a = lookup k b.
Proof.
  intros V a b k P. induction P as [| [k1 v1] l l' P IH | [k1 v1] [k2 v2] l | l l' l'' P1 IH1 P2 IH2];
    intros N.
  - reflexivity.
  - cbn [lookup]. destruct (str_eqb k1 k); [reflexivity|]. apply IH.
    cbn in N. inversion N; assumption.
  - cbn [lookup]. destruct (str_eqb k2 k) eqn:E2; destruct (str_eqb k1 k) eqn:E1; try reflexivity.
    apply str_eqb_eq in E1. apply str_eqb_eq in E2. subst. cbn in N. inversion N as [|? ? Hn _].
    exfalso. apply Hn. left. reflexivity.
  - rewrite IH1 by exact N. apply IH2. unfold keys in *.
    eapply Permutation_NoDup; [apply Permutation_map; exact P1 | exact N].
Qed.
