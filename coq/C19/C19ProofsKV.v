(* C19 - DictKeyValTransform: reverse (transform d) gives back d (as text), for every
   dictionary in the stated domain. *)
From YV Require Import Common.Tac C19.C19Str C19.C19Model C19.C19Lib.
From Coq Require Import Permutation.
Local Open Scope N_scope.

Lemma forallb_impl : forall A (p q : A -> bool) l,
  (forall x, p x = true -> q x = true) -> forallb p l = true -> forallb q l = true.
Proof.
  intros A p q l H. induction l as [|x r IH]; cbn [forallb]; intros F; [reflexivity|].
  apply andb_true_iff in F. destruct F as [F1 F2]. rewrite (H _ F1), (IH F2). reflexivity.
Qed.

(* ---- characters of keys ---- *)
Lemma key_char_facts : forall c, key_char c = true ->
  is_space c = false /\ c <> 35 /\ c <> 59 /\ c <> 61 /\ c <> 45 /\ c <> 10.
Proof. intros c H. unfold key_char in H. unfold is_space. lia. Qed.

Lemma key_char_ne : forall c x, key_char c = true ->
  (x = 35 \/ x = 59 \/ x = 61 \/ x = 10) -> negb (c =? x) = true.
Proof. intros c x H Hx. apply key_char_facts in H. lia. Qed.

(* ---- decimal text ---- *)
Definition is_digit (c : N) : bool := (48 <=? c) && (c <=? 57).

Lemma dec_go_digits : forall fuel n acc,
  forallb is_digit acc = true -> forallb is_digit (dec_go fuel n acc) = true.
Proof.
  induction fuel as [|f IH]; intros n acc H; cbn [dec_go]; [exact H|].
  assert (D : forallb is_digit ((48 + n mod 10) :: acc) = true).
  { cbn [forallb]. rewrite H. unfold is_digit. lia. }
  destruct (n <? 10); [exact D | apply IH; exact D].
Qed.

Lemma dec_digits : forall n, forallb is_digit (dec n) = true.
Proof. intros n. unfold dec. apply dec_go_digits. reflexivity. Qed.

Lemma digit_facts : forall c, is_digit c = true ->
  is_space c = false /\ negb ((c =? 35) || (c =? 59) || (c =? 10) || (c =? 13)) = true.
Proof. intros c H. unfold is_digit in H. unfold is_space. lia. Qed.

Lemma digits_value_ok : forall s, forallb is_digit s = true -> value_ok s = true.
Proof.
  intros s H. unfold value_ok. apply andb_true_iff. split; [apply andb_true_iff; split|].
  - eapply forallb_impl; [|exact H]. intros x Hx. apply digit_facts in Hx. apply Hx.
  - destruct s as [|c r]; [reflexivity|]. cbn [forallb] in H. apply andb_true_iff in H.
    destruct H as [H _]. apply digit_facts in H. destruct H as [H _]. rewrite H. reflexivity.
  - rewrite <- forallb_rev in H. destruct (rev s) as [|c r]; [reflexivity|]. cbn [forallb] in H.
    apply andb_true_iff in H. destruct H as [H _]. apply digit_facts in H. destruct H as [H _].
    rewrite H. reflexivity.
Qed.

Lemma jtext_ok : forall v, jval_ok v = true -> value_ok (jtext v) = true.
Proof. intros [s|n] H; cbn [jtext jval_ok] in *; [exact H | apply digits_value_ok, dec_digits]. Qed.

(* ---- one line ---- *)
Lemma value_ok_parts : forall v, value_ok v = true ->
  forallb (fun c => negb ((c =? 35) || (c =? 59) || (c =? 10) || (c =? 13))) v = true /\
  match v with [] => true | c :: _ => negb (is_space c) end = true /\
  match rev v with [] => true | c :: _ => negb (is_space c) end = true.
Proof.
  intros v H. unfold value_ok in H. apply andb_true_iff in H. destruct H as [H H3].
  apply andb_true_iff in H. destruct H as [H1 H2]. auto.
Qed.

Lemma value_no : forall v x, value_ok v = true -> (x = 35 \/ x = 59 \/ x = 10 \/ x = 13) ->
  forallb (fun c => negb (c =? x)) v = true.
Proof.
  intros v x H Hx. apply value_ok_parts in H. destruct H as [H _].
  eapply forallb_impl; [|exact H]. intros c Hc. cbn beta in Hc. lia.
Qed.

Lemma key_no : forall k x, forallb key_char k = true -> (x = 35 \/ x = 59 \/ x = 61 \/ x = 10) ->
  forallb (fun c => negb (c =? x)) k = true.
Proof.
  intros k x H Hx. eapply forallb_impl; [|exact H]. intros c Hc. apply key_char_ne; assumption.
Qed.

Lemma line_no : forall k v x, forallb key_char k = true -> value_ok v = true ->
  (x = 35 \/ x = 59 \/ x = 10) -> forallb (fun c => negb (c =? x)) (k ++ 61 :: v) = true.
Proof.
  intros k v x Hk Hv Hx. rewrite forallb_app. cbn [forallb].
  rewrite (key_no k x Hk) by lia. rewrite (value_no v x Hv) by lia.
  assert (negb (61 =? x) = true) by lia. rewrite H. reflexivity.
Qed.

Lemma strip_key : forall k, key_ok k = true -> strip k = k.
Proof.
  intros k H. unfold key_ok in H. destruct k as [|c r]; [discriminate|].
  apply strip_id.
  - cbn [forallb] in H. apply andb_true_iff in H. destruct H as [H _].
    apply key_char_facts in H. destruct H as [H _]. rewrite H. reflexivity.
  - rewrite <- forallb_rev in H. destruct (rev (c :: r)) as [|x t]; [reflexivity|].
    cbn [forallb] in H. apply andb_true_iff in H. destruct H as [H _].
    apply key_char_facts in H. destruct H as [H _]. rewrite H. reflexivity.
Qed.

Lemma dash_key : forall k, forallb key_char k = true -> map dash_us k = k.
Proof.
  induction k as [|c r IH]; cbn [forallb map]; intros H; [reflexivity|].
  apply andb_true_iff in H. destruct H as [H1 H2]. rewrite IH by exact H2.
  apply key_char_facts in H1. unfold dash_us. assert (E : (c =? 45) = false) by lia.
  rewrite E. reflexivity.
Qed.

Lemma parse_line_shape : forall c r,
  ((c =? 35) || (c =? 59)) = false -> strip (c :: r) = c :: r ->
  kv_parse_line (c :: r) =
  match split_first 61 (cut_at 59 (cut_at 35 (c :: r))) with
  | (k, Some v) => Some (Some (map dash_us (strip k), JStr (strip v)))
  | (_, None) => None
  end.
Proof.
  intros c r Hc Hs. unfold kv_parse_line. cbv zeta. rewrite Hs. cbv iota beta. rewrite Hc. reflexivity.
Qed.

Lemma parse_line_ok : forall k v, key_ok k = true -> value_ok v = true ->
  kv_parse_line (k ++ 61 :: v) = Some (Some (k, JStr v)).
Proof.
  intros k v Hk0 Hv. pose proof Hk0 as Hk. unfold key_ok in Hk. destruct k as [|c r]; [discriminate|].
  assert (Hc : key_char c = true).
  { cbn [forallb] in Hk. apply andb_true_iff in Hk. apply Hk. }
  set (k := c :: r) in *.
  assert (S1 : strip (k ++ 61 :: v) = k ++ 61 :: v).
  { apply strip_id.
    - unfold k. cbn [app]. apply key_char_facts in Hc. destruct Hc as [Hc _]. rewrite Hc. reflexivity.
    - rewrite rev_app_distr. cbn [rev]. rewrite <- app_assoc. cbn [app].
      apply value_ok_parts in Hv. destruct Hv as [_ [_ Hv]].
      destruct (rev v) as [|x t]; [reflexivity | exact Hv]. }
  assert (E : ((c =? 35) || (c =? 59)) = false).
  { apply key_char_facts in Hc. lia. }
  change (k ++ 61 :: v) with (c :: (r ++ 61 :: v)) in *.
  rewrite (parse_line_shape c (r ++ 61 :: v) E S1).
  change (c :: (r ++ 61 :: v)) with (k ++ 61 :: v).
  rewrite (cut_at_none 35) by (apply line_no; auto; lia).
  rewrite (cut_at_none 59) by (apply line_no; auto; lia).
  rewrite split_first_app by (apply key_no; auto; lia).
  rewrite strip_key by exact Hk0. rewrite dash_key by exact Hk.
  apply value_ok_parts in Hv. destruct Hv as [_ [Hv1 Hv2]].
  rewrite (strip_id v Hv1 Hv2). reflexivity.
Qed.

(* ---- the domain of the theorem ---- *)
Definition entry_ok (kv : str * jval) : Prop := key_ok (fst kv) = true /\ jval_ok (snd kv) = true.

Definition as_text (kv : str * jval) : str * jval := (fst kv, JStr (jtext (snd kv))).

Lemma collect_lines : forall l, Forall entry_ok l ->
  collect kv_parse_line (map kv_line l) = Some (map as_text l).
Proof.
  induction l as [|[k v] r IH]; intros F; [reflexivity|].
  inversion F as [|? ? [Hk Hv] Fr]; subst. cbn [map collect]. unfold kv_line at 1. cbn [fst snd] in *.
  rewrite parse_line_ok by (auto using jtext_ok). rewrite IH by exact Fr. reflexivity.
Qed.

Lemma keys_as_text : forall l, keys (map as_text l) = keys l.
Proof. intros l. unfold keys. rewrite map_map. reflexivity. Qed.

Lemma kv_line_no_nl : forall kv, entry_ok kv -> forallb (fun c => negb (c =? 10)) (kv_line kv) = true.
Proof.
  intros [k v] [Hk Hv]. unfold kv_line. cbn [fst snd] in *. apply line_no; [|apply jtext_ok; exact Hv|lia].
  unfold key_ok in Hk. destruct k; [discriminate | exact Hk].
Qed.

(* parse of the printed lines of an already ordered list *)
Lemma kv_parse_lines : forall l, NoDup (keys l) -> Forall entry_ok l ->
  kv_parse (join 10 (map kv_line l)) = Some (map as_text l).
Proof.
  intros l N F. unfold kv_parse. destruct l as [|x r] eqn:E.
  - reflexivity.
  - rewrite <- E in *. rewrite split_join.
    + apply dict_comp_nodup; [apply collect_lines; exact F | rewrite keys_as_text; exact N].
    + rewrite E. discriminate.
    + apply Forall_forall. intros ln Hin. apply in_map_iff in Hin. destruct Hin as [kv [<- Hin]].
      apply kv_line_no_nl. rewrite Forall_forall in F. apply F. exact Hin.
Qed.

Theorem keyval_rt_thm : forall d, NoDup (keys d) -> Forall entry_ok d ->
  kv_parse (kv_print d) = Some (map as_text (sort_keys d)).
Proof.
  intros d N F. unfold kv_print. apply kv_parse_lines.
  - unfold keys. eapply Permutation_NoDup; [|exact N]. apply Permutation_map, Permutation_sym, sort_keys_perm.
  - eapply Permutation_Forall; [|exact F]. apply Permutation_sym, sort_keys_perm.
Qed.

(* the parsed dictionary holds exactly the text of every value of d, and nothing else *)
Corollary keyval_rt_lookup_thm : forall d k, NoDup (keys d) -> Forall entry_ok d ->
  exists d', kv_parse (kv_print d) = Some d' /\
             lookup k d' = option_map (fun v => JStr (jtext v)) (lookup k d).
Proof.
  intros d k N F. eexists. split; [apply keyval_rt_thm; assumption|].
  assert (P : Permutation (sort_keys d) d) by apply sort_keys_perm.
  assert (N' : NoDup (keys (sort_keys d))).
  { unfold keys. eapply Permutation_NoDup; [|exact N]. apply Permutation_map, Permutation_sym, P. }
  assert (L : forall l : list (str * jval), lookup k (map as_text l) = option_map (fun v => JStr (jtext v)) (lookup k l)).
  { induction l as [|[k' v'] r IH]; [reflexivity|]. cbn [map lookup as_text fst snd].
    destruct (str_eqb k' k); [reflexivity | apply IH]. }
  rewrite L. f_equal. apply lookup_perm; assumption.
Qed.

(* non-vacuity: a dictionary in the domain whose values contain '=' and an int *)
Example keyval_rt_nonvacuous :
  let d := [ (k_pushname, JStr [97; 61; 98; 32; 61]) ; (k_cc, JInt 49) ;
             (k_client_static_keypair, JStr [65; 65; 61; 61]) ] in
  NoDup (keys d) /\ Forall entry_ok d /\
  kv_parse (kv_print d) = Some [ (k_cc, JStr [52; 57]) ; (k_client_static_keypair, JStr [65; 65; 61; 61]) ;
                                 (k_pushname, JStr [97; 61; 98; 32; 61]) ].
Proof.
  cbn zeta. split; [|split].
  - repeat constructor; cbn; intuition discriminate.
  - repeat constructor.
  - vm_compute. reflexivity.
Qed.

(* outside the domain the round trip is lost: a value containing '#' is cut *)
Example keyval_comment_char_refuted :
  kv_parse (kv_print [(k_pushname, JStr [97; 35; 98])]) = Some [(k_pushname, JStr [97])].
Proof. vm_compute. reflexivity. Qed.
