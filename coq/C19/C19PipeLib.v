(* Generic lemmas about dict comprehensions (collect / dict_comp): fusion of consecutive
   comprehensions, key bookkeeping, permutation invariance, lookup in a compacted list. *)
From YV Require Import Common.Tac C19.C19Str C19.C19Model C19.C19Lib.
From Coq Require Import Permutation.
Local Open Scope N_scope.

(* ---- sublists ---- *)
Inductive sub {A} : list A -> list A -> Prop :=
| sub_nil : sub [] []
| sub_skip : forall a l x, sub a l -> sub a (x :: l)
| sub_keep : forall a l x, sub a l -> sub (x :: a) (x :: l).

Lemma sub_In : forall A (a l : list A) x, sub a l -> In x a -> In x l.
Proof.
  intros A a l x S. induction S as [|a l y S IH|a l y S IH]; intros H.
  - exact H.
  - right. apply IH. exact H.
  - destruct H as [H|H]; [left; exact H | right; apply IH; exact H].
Qed.

Lemma sub_NoDup : forall A (a l : list A), sub a l -> NoDup l -> NoDup a.
Proof.
  intros A a l S. induction S as [|a l y S IH|a l y S IH]; intros N.
  - constructor.
  - inversion N; subst. apply IH. assumption.
  - inversion N as [|? ? Hn N']; subst. constructor; [|apply IH; exact N'].
    intros Hin. apply Hn. eapply sub_In; eauto.
Qed.

Lemma sub_map : forall A B (f : A -> B) a l, sub a l -> sub (map f a) (map f l).
Proof. intros A B f a l S. induction S; cbn [map]; constructor; assumption. Qed.

Lemma sub_refl : forall A (l : list A), sub l l.
Proof. induction l; constructor; assumption. Qed.

(* ---- key functions ---- *)
Definition keyfun {X V} (f : X -> option (option (str * V))) (kf : X -> str) : Prop :=
  forall x kv, f x = Some (Some kv) -> fst kv = kf x.

Lemma collect_keys_sub : forall X V (f : X -> option (option (str * V))) kf l d,
  keyfun f kf -> collect f l = Some d -> sub (keys d) (map kf l).
Proof.
  intros X V f kf l. induction l as [|x r IH]; intros d K C; cbn [collect] in C.
  - apply Some_inj in C. subst. constructor.
  - destruct (f x) as [o|] eqn:E; [|discriminate]. destruct (collect f r) as [t|]; [|discriminate].
    apply Some_inj in C. subst d. cbn [map]. destruct o as [kv|].
    + cbn [keys map]. rewrite <- (K _ _ E). apply sub_keep. apply IH; auto.
    + apply sub_skip. apply IH; auto.
Qed.

(* ---- fusion ---- *)
Definition kcomp {X Y Z} (f : X -> option (option (str * Y)))
           (g : str * Y -> option (option (str * Z))) (x : X) : option (option (str * Z)) :=
  match f x with
  | None => None
  | Some None => Some None
  | Some (Some kv) => g kv
  end.

Lemma collect_fuse : forall X Y Z (f : X -> option (option (str * Y))) (g : str * Y -> option (option (str * Z))) l d,
  collect f l = Some d -> collect g d = collect (kcomp f g) l.
Proof.
  intros X Y Z f g l. induction l as [|x r IH]; intros d C; cbn [collect] in C.
  - apply Some_inj in C. subst. reflexivity.
  - destruct (f x) as [o|] eqn:E; [|discriminate]. destruct (collect f r) as [t|] eqn:Er; [|discriminate].
    apply Some_inj in C. subst d. cbn [collect]. unfold kcomp at 1. rewrite E. destruct o as [kv|].
    + cbn [collect]. rewrite (IH t eq_refl). reflexivity.
    + rewrite (IH t eq_refl). destruct (collect (kcomp f g) r); reflexivity.
Qed.

Lemma collect_fuse_none : forall X Y Z (f : X -> option (option (str * Y))) (g : str * Y -> option (option (str * Z))) l,
  collect f l = None -> collect (kcomp f g) l = None.
Proof.
  intros X Y Z f g l. induction l as [|x r IH]; intros C; cbn [collect] in C; [discriminate|].
  cbn [collect]. unfold kcomp at 1. destruct (f x) as [o|] eqn:E; [|reflexivity].
  destruct (collect f r) as [t|] eqn:Er.
  - destruct o; discriminate.
  - rewrite (IH eq_refl). destruct o as [kv|]; [destruct (g kv); reflexivity | reflexivity].
Qed.

Lemma keyfun_kcomp : forall X Y Z (f : X -> option (option (str * Y))) (g : str * Y -> option (option (str * Z))) kf kg,
  keyfun f kf -> keyfun g (fun kv => kg (fst kv)) -> keyfun (kcomp f g) (fun x => kg (kf x)).
Proof.
  intros X Y Z f g kf kg Kf Kg x kv H. unfold kcomp in H. destruct (f x) as [[kv0|]|] eqn:E; try discriminate.
  rewrite (Kg _ _ H). rewrite (Kf _ _ E). reflexivity.
Qed.

(* a comprehension over the result of a comprehension, when no two produced keys collide *)
Lemma chain_step : forall X Y Z W (F : X -> option (option (str * Y))) (f : str * Y -> option (option (str * Z)))
    KF kf (l : list X) (K : list (str * Z) -> option W),
  keyfun F KF -> keyfun f (fun kv => kf (fst kv)) ->
  NoDup (map (fun x => kf (KF x)) l) ->
  obind (collect F l) (fun d => obind (dict_comp f d) K) = obind (collect (kcomp F f) l) K.
Proof.
  intros X Y Z W F f KF kf l K HF Hf N. destruct (collect F l) as [d|] eqn:E; cbn [obind].
  - unfold dict_comp. rewrite (collect_fuse _ _ _ F f l d E).
    destruct (collect (kcomp F f) l) as [d'|] eqn:E'; cbn [option_map obind]; [|reflexivity].
    rewrite build_nodup; [reflexivity|].
    eapply sub_NoDup; [|exact N].
    apply (collect_keys_sub _ _ (kcomp F f) (fun x => kf (KF x)) l d'); [|exact E'].
    apply keyfun_kcomp; assumption.
  - rewrite collect_fuse_none by exact E. reflexivity.
Qed.

Lemma chain_last : forall X Y Z (F : X -> option (option (str * Y))) (g : str * Y -> option (option (str * Z))) l,
  obind (collect F l) (collect g) = collect (kcomp F g) l.
Proof.
  intros X Y Z F g l. destruct (collect F l) as [d|] eqn:E; cbn [obind].
  - apply collect_fuse. exact E.
  - symmetry. apply collect_fuse_none. exact E.
Qed.

Lemma chain_first : forall X Y (f : X -> option (option (str * Y))) kf l,
  keyfun f kf -> NoDup (map kf l) -> dict_comp f l = collect f l.
Proof.
  intros X Y f kf l K N. unfold dict_comp. destruct (collect f l) as [d|] eqn:E; cbn [option_map]; [|reflexivity].
  rewrite build_nodup; [reflexivity|]. eapply sub_NoDup; [|exact N]. eapply collect_keys_sub; eauto.
Qed.

(* ---- entry-wise simple functions ---- *)
Definition olist {A} (o : option A) : list A := match o with Some a => [a] | None => [] end.
Definition fmap {X A} (G : X -> option A) (l : list X) : list A := flat_map (fun x => olist (G x)) l.

Lemma collect_simple : forall X V (F : X -> option (option (str * V))) G l,
  Forall (fun x => F x = Some (G x)) l -> collect F l = Some (fmap G l).
Proof.
  intros X V F G l H. induction H as [|x r Hx Hr IH]; [reflexivity|].
  cbn [collect fmap flat_map]. rewrite Hx. unfold fmap in IH. rewrite IH. destruct (G x); reflexivity.
Qed.

Lemma collect_ext : forall X V (F F' : X -> option (option (str * V))) l,
  Forall (fun x => F x = F' x) l -> collect F l = collect F' l.
Proof.
  intros X V F F' l H. induction H as [|x r Hx Hr IH]; [reflexivity|].
  cbn [collect]. rewrite Hx, IH. reflexivity.
Qed.

(* ---- permutations ---- *)
Lemma collect_perm : forall X V (F : X -> option (option (str * V))) l l' d,
  Permutation l l' -> collect F l = Some d -> exists d', collect F l' = Some d' /\ Permutation d d'.
Proof.
  intros X V F l l' d P. revert d. induction P as [|x l l' P IH|x y l|l l' l'' P1 IH1 P2 IH2]; intros d C.
  - exists d. split; [exact C | apply Permutation_refl].
  - cbn [collect] in *. destruct (F x) as [o|]; [|discriminate].
    destruct (collect F l) as [t|]; [|discriminate]. apply Some_inj in C. subst d.
    destruct (IH t eq_refl) as [t' [E P']]. rewrite E. eexists. split; [reflexivity|].
    destruct o; [apply perm_skip|]; exact P'.
  - cbn [collect] in *. destruct (F y) as [oy|]; [|discriminate]. destruct (F x) as [ox|]; [|discriminate].
    destruct (collect F l) as [t|]; [|discriminate]. apply Some_inj in C. subst d.
    eexists. split; [reflexivity|]. destruct ox, oy; try apply Permutation_refl. apply perm_swap.
  - destruct (IH1 d C) as [d1 [E1 Pd1]]. destruct (IH2 d1 E1) as [d2 [E2 Pd2]].
    exists d2. split; [exact E2 | eapply perm_trans; eauto].
Qed.

(* ---- lookup in a compacted association list ---- *)
Definition compact {V} (E : list (str * option V)) : list (str * V) :=
  fmap (fun kv => option_map (pair (fst kv)) (snd kv)) E.

Lemma keys_compact_sub : forall V (E : list (str * option V)), sub (keys (compact E)) (keys E).
Proof.
  induction E as [|[k o] r IH]; [constructor|]. unfold compact, fmap in *. cbn [flat_map keys map fst snd].
  destruct o; cbn [option_map olist app map fst]; [apply sub_keep | apply sub_skip]; exact IH.
Qed.

Lemma lookup_compact : forall V (E : list (str * option V)) p, NoDup (keys E) ->
  lookup p (compact E) = match lookup p E with Some o => o | None => None end.
Proof.
  induction E as [|[k o] r IH]; intros p N; [reflexivity|].
  cbn [keys map fst] in N. inversion N as [|? ? Hn N']; subst.
  unfold compact, fmap in *. cbn [flat_map fst snd lookup]. destruct (str_eqb k p) eqn:Ek.
  - apply str_eqb_eq in Ek. subst p. destruct o as [v|]; cbn [option_map olist app lookup].
    + rewrite str_eqb_refl. reflexivity.
    + apply lookup_not_in. intros Hin. apply Hn. eapply sub_In; [apply keys_compact_sub | exact Hin].
  - destruct o as [v|]; cbn [option_map olist app lookup]; [rewrite Ek|]; apply IH; exact N'.
Qed.

(* ---- decidable NoDup for concrete key lists ---- *)
Fixpoint nodupb (l : list str) : bool :=
  match l with [] => true | x :: r => negb (mem x r) && nodupb r end.

Lemma nodupb_NoDup : forall l, nodupb l = true -> NoDup l.
Proof.
  induction l as [|x r IH]; cbn [nodupb]; intros H; constructor.
  - apply andb_true_iff in H. destruct H as [H _]. intros Hin. apply mem_In in Hin.
    rewrite Hin in H. discriminate.
  - apply IH. apply andb_true_iff in H. apply H.
Qed.

Lemma fmap_map : forall X A B (G : X -> option A) (h : A -> B) l,
  map h (fmap G l) = fmap (fun x => option_map h (G x)) l.
Proof.
  intros X A B G h l. induction l as [|x r IH]; [reflexivity|]. unfold fmap in *. cbn [flat_map].
  rewrite map_app, IH. destruct (G x); reflexivity.
Qed.

Lemma collect_fmap : forall X Y V (G : X -> option Y) (F : Y -> option (option (str * V))) l,
  collect F (fmap G l) = collect (fun x => match G x with None => Some None | Some y => F y end) l.
Proof.
  intros X Y V G F l. induction l as [|x r IH]; [reflexivity|]. unfold fmap in *. cbn [flat_map collect].
  destruct (G x) as [y|]; cbn [olist app collect]; rewrite IH; [reflexivity|].
  destruct (collect _ r); reflexivity.
Qed.
