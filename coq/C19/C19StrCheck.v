(* Each numeric constant of C19Str.v is the text it claims to be (not extracted). *)
From Coq Require Import NArith List String Ascii.
From YV Require Import C19.C19Str.
Import ListNotations.

Definition lit (x : string) : C19Str.str := map N_of_ascii (list_ascii_of_string x).

Example k_phone_ok : k_phone = lit "phone". Proof. reflexivity. Qed.
Example k_cc_ok : k_cc = lit "cc". Proof. reflexivity. Qed.
Example k_login_ok : k_login = lit "login". Proof. reflexivity. Qed.
Example k_password_ok : k_password = lit "password". Proof. reflexivity. Qed.
Example k_pushname_ok : k_pushname = lit "pushname". Proof. reflexivity. Qed.
Example k_id_ok : k_id = lit "id". Proof. reflexivity. Qed.
Example k_mcc_ok : k_mcc = lit "mcc". Proof. reflexivity. Qed.
Example k_mnc_ok : k_mnc = lit "mnc". Proof. reflexivity. Qed.
Example k_sim_mcc_ok : k_sim_mcc = lit "sim_mcc". Proof. reflexivity. Qed.
Example k_sim_mnc_ok : k_sim_mnc = lit "sim_mnc". Proof. reflexivity. Qed.
Example k_client_static_keypair_ok : k_client_static_keypair = lit "client_static_keypair". Proof. reflexivity. Qed.
Example k_server_static_public_ok : k_server_static_public = lit "server_static_public". Proof. reflexivity. Qed.
Example k_expid_ok : k_expid = lit "expid". Proof. reflexivity. Qed.
Example k_fdid_ok : k_fdid = lit "fdid". Proof. reflexivity. Qed.
Example k_edge_routing_info_ok : k_edge_routing_info = lit "edge_routing_info". Proof. reflexivity. Qed.
Example k_chat_dns_domain_ok : k_chat_dns_domain = lit "chat_dns_domain". Proof. reflexivity. Qed.
Example k_version_ok : k_version = lit "version". Proof. reflexivity. Qed.
Example k_meta_version_ok : k_meta_version = lit "__version__". Proof. reflexivity. Qed.
Example s_yo_ok : s_yo = lit "yo". Proof. reflexivity. Qed.
Example s_json_ok : s_json = lit "json". Proof. reflexivity. Qed.
Example s_config_yo_ok : s_config_yo = lit "config.yo". Proof. reflexivity. Qed.
Example s_config_json_ok : s_config_json = lit "config.json". Proof. reflexivity. Qed.
Example s_config_json_tmp_ok : s_config_json_tmp = lit "config.json.tmp". Proof. reflexivity. Qed.
