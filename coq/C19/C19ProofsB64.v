(* C19 - base64 (C19B64.v): the encoder's output is over the 65-character alphabet (hence
   contains no newline, no comment character, no blank: it is a legal key=value value and stays
   on ONE line whatever the length of the data), and the interpreter's lenient decoder gives the
   bytes back - for byte strings of EVERY length.  Then the published C19 theorems instantiated
   with this base64 (no hypothesis about base64 is left), and the regression witness for the
   MIME flavour (base64.encodebytes), whose line breaks destroy the key=value format. *)
From YV Require Import Common.Tac C19.C19Str C19.C19B64 C19.C19Model C19.C19Lib
                       C19.C19ProofsKV C19.C19ProofsPipe C19.C19ProofsLoad.
Local Open Scope N_scope.

(* ------------------------------------------------------------------ digits *)

Lemma digit_value : forall i, i < 64 -> b64_value (b64_digit i) = Some i.
Proof.
  intros i H. unfold b64_digit.
  destruct (i <? 26) eqn:E1; [|destruct (i <? 52) eqn:E2; [|destruct (i <? 62) eqn:E3; [|destruct (i =? 62) eqn:E4]]];
    unfold b64_value.
  - assert (A : ((65 <=? 65 + i) && (65 + i <=? 90)) = true) by lia. rewrite A. f_equal. lia.
  - assert (A : ((65 <=? 71 + i) && (71 + i <=? 90)) = false) by lia.
    assert (B : ((97 <=? 71 + i) && (71 + i <=? 122)) = true) by lia. rewrite A, B. f_equal. lia.
  - assert (A : ((65 <=? i - 4) && (i - 4 <=? 90)) = false) by lia.
    assert (B : ((97 <=? i - 4) && (i - 4 <=? 122)) = false) by lia.
    assert (C : ((48 <=? i - 4) && (i - 4 <=? 57)) = true) by lia. rewrite A, B, C. f_equal. lia.
  - assert (I : i = 62) by lia. subst i. reflexivity.
  - assert (I : i = 63) by lia. subst i. reflexivity.
Qed.

(* every digit - for ANY sextet value - is one of the 64 digits, is not the pad, is ASCII *)
Lemma digit_is_digit : forall i, exists v, b64_value (b64_digit i) = Some v.
Proof.
  intros i. unfold b64_digit.
  destruct (i <? 26) eqn:E1; [|destruct (i <? 52) eqn:E2; [|destruct (i <? 62) eqn:E3; [|destruct (i =? 62) eqn:E4]]];
    unfold b64_value.
  - assert (A : ((65 <=? 65 + i) && (65 + i <=? 90)) = true) by lia. rewrite A. eauto.
  - assert (A : ((65 <=? 71 + i) && (71 + i <=? 90)) = false) by lia.
    assert (B : ((97 <=? 71 + i) && (71 + i <=? 122)) = true) by lia. rewrite A, B. eauto.
  - assert (A : ((65 <=? i - 4) && (i - 4 <=? 90)) = false) by lia.
    assert (B : ((97 <=? i - 4) && (i - 4 <=? 122)) = false) by lia.
    assert (C : ((48 <=? i - 4) && (i - 4 <=? 57)) = true) by lia. rewrite A, B, C. eauto.
  - eexists. reflexivity.
  - eexists. reflexivity.
Qed.

Lemma digit_char : forall i, b64_char (b64_digit i) = true.
Proof. intros i. unfold b64_char. destruct (digit_is_digit i) as [v ->]. reflexivity. Qed.

Lemma digit_not_pad : forall i, (b64_digit i =? 61) = false.
Proof.
  intros i. unfold b64_digit.
  destruct (i <? 26) eqn:E1; [|destruct (i <? 52) eqn:E2; [|destruct (i <? 62) eqn:E3; [|destruct (i =? 62) eqn:E4]]];
    lia.
Qed.

(* what a character of the base64 alphabet is NOT *)
Lemma b64_char_facts : forall c, b64_char c = true ->
  c < 128 /\ is_space c = false /\ c <> 10 /\ c <> 13 /\ c <> 35 /\ c <> 59 /\ c <> 32.
Proof.
  intros c H. unfold b64_char, b64_value in H. unfold is_space.
  destruct ((65 <=? c) && (c <=? 90)) eqn:E1; [lia|].
  destruct ((97 <=? c) && (c <=? 122)) eqn:E2; [lia|].
  destruct ((48 <=? c) && (c <=? 57)) eqn:E3; [lia|].
  destruct (c =? 43) eqn:E4; [lia|]. destruct (c =? 47) eqn:E5; [lia|]. lia.
Qed.

(* ------------------------------------------------------------------ lists, three at a time *)

Lemma list_ind3 : forall (A : Type) (P : list A -> Prop),
  P [] -> (forall x, P [x]) -> (forall x y, P [x; y]) ->
  (forall x y z r, P r -> P (x :: y :: z :: r)) -> forall l, P l.
Proof.
  intros A P H0 H1 H2 H3.
  assert (G : forall l, P l /\ (forall x, P (x :: l)) /\ (forall x y, P (x :: y :: l))).
  { induction l as [|a l [IH0 [IH1 IH2]]].
    - repeat split; auto.
    - repeat split; auto. }
  intros l. apply G.
Qed.

(* ------------------------------------------------------------------ the alphabet lemma *)

(* every character base64.b64encode produces is one of A-Z a-z 0-9 + / = : for ALL inputs *)
Theorem b64_encode_alphabet_thm : forall b, forallb b64_char (b64_encode b) = true.
Proof.
  induction b as [| x | x y | x y z r IH] using list_ind3.
  - reflexivity.
  - cbn [b64_encode forallb]. rewrite !digit_char. reflexivity.
  - cbn [b64_encode forallb]. rewrite !digit_char. reflexivity.
  - cbn [b64_encode forallb]. rewrite !digit_char, IH. reflexivity.
Qed.

Lemma forallb_rev : forall A (p : A -> bool) l, forallb p l = true -> forallb p (rev l) = true.
Proof.
  intros A p l H. apply forallb_forall. intros x Hin. apply in_rev in Hin.
  rewrite forallb_forall in H. apply H. exact Hin.
Qed.

(* text over the base64 alphabet is in the key=value value domain: no '#', ';', newline,
   carriage return, no leading or trailing blank *)
Lemma b64_text_value_ok : forall s, forallb b64_char s = true -> value_ok s = true.
Proof.
  intros s H. unfold value_ok. apply andb_true_iff. split; [apply andb_true_iff; split|].
  - eapply forallb_impl; [|exact H]. intros c Hc. apply b64_char_facts in Hc. lia.
  - destruct s as [|c r]; [reflexivity|]. cbn [forallb] in H. apply andb_true_iff in H.
    destruct H as [Hc _]. apply b64_char_facts in Hc. destruct Hc as [_ [Hc _]]. rewrite Hc. reflexivity.
  - apply forallb_rev in H. destruct (rev s) as [|c r]; [reflexivity|]. cbn [forallb] in H.
    apply andb_true_iff in H. destruct H as [Hc _]. apply b64_char_facts in Hc.
    destruct Hc as [_ [Hc _]]. rewrite Hc. reflexivity.
Qed.

Theorem b64_encode_clean_thm : forall b, value_ok (b64_encode b) = true.
Proof. intros b. apply b64_text_value_ok, b64_encode_alphabet_thm. Qed.

(* in particular: the encoded text of a binary attribute never contains a line break *)
Theorem b64_encode_one_line_thm : forall b,
  forallb (fun c => negb ((c =? 10) || (c =? 13))) (b64_encode b) = true.
Proof.
  intros b. eapply forallb_impl; [|apply b64_encode_alphabet_thm].
  intros c Hc. apply b64_char_facts in Hc. lia.
Qed.

(* ------------------------------------------------------------------ the decoder on digits *)

Lemma a2b_digit : forall i r q left pads, i < 64 ->
  a2b (b64_digit i :: r) q left pads =
  match q with
  | Q0 => a2b r Q1 i 0
  | Q1 => option_map (cons (left * 4 + i / 16)) (a2b r Q2 (i mod 16) 0)
  | Q2 => option_map (cons (left * 16 + i / 4)) (a2b r Q3 (i mod 4) 0)
  | Q3 => option_map (cons (left * 64 + i)) (a2b r Q0 0 0)
  end.
Proof.
  intros i r q left pads H. cbn [a2b]. rewrite digit_not_pad, (digit_value i H). reflexivity.
Qed.

Lemma a2b_pad2 : forall left, a2b [61; 61] Q2 left 0 = Some [].
Proof. intros left. reflexivity. Qed.

Lemma a2b_pad1 : forall left, a2b [61] Q3 left 0 = Some [].
Proof. intros left. reflexivity. Qed.

(* byte arithmetic of the three cases *)
Lemma sextets : forall x y z, x < 256 -> y < 256 -> z < 256 ->
  x / 4 < 64 /\ (x mod 4) * 16 + y / 16 < 64 /\ (y mod 16) * 4 + z / 64 < 64 /\ z mod 64 < 64 /\
  (x mod 4) * 16 < 64 /\ (y mod 16) * 4 < 64.
Proof. intros x y z Hx Hy Hz. repeat split; lia. Qed.

Lemma bytes_back : forall x y z, x < 256 -> y < 256 -> z < 256 ->
  (x / 4) * 4 + ((x mod 4) * 16 + y / 16) / 16 = x /\
  (((x mod 4) * 16 + y / 16) mod 16) * 16 + ((y mod 16) * 4 + z / 64) / 4 = y /\
  (((y mod 16) * 4 + z / 64) mod 4) * 64 + z mod 64 = z.
Proof. intros x y z Hx Hy Hz. repeat split; lia. Qed.

Lemma bytes_ok_cons : forall x r, bytes_ok (x :: r) = true -> x < 256 /\ bytes_ok r = true.
Proof.
  intros x r H. unfold bytes_ok in *. cbn [forallb] in H. apply andb_true_iff in H.
  destruct H as [H1 H2]. split; [lia | exact H2].
Qed.

Theorem a2b_encode_thm : forall b, bytes_ok b = true -> a2b (b64_encode b) Q0 0 0 = Some b.
Proof.
  induction b as [| x | x y | x y z r IH] using list_ind3; intros B.
  - reflexivity.
  - apply bytes_ok_cons in B. destruct B as [Hx _].
    destruct (sextets x 0 0 Hx) as [S1 [_ [_ [_ [S2 _]]]]]; [lia | lia |].
    destruct (bytes_back x 0 0 Hx) as [B1 _]; [lia | lia |].
    cbn [b64_encode]. rewrite (a2b_digit _ _ Q0) by exact S1. rewrite (a2b_digit _ _ Q1) by exact S2.
    rewrite a2b_pad2. cbn [option_map]. do 2 f_equal.
    replace (0 / 16) with 0 in B1 by reflexivity. rewrite N.add_0_r in B1. exact B1.
  - apply bytes_ok_cons in B. destruct B as [Hx B]. apply bytes_ok_cons in B. destruct B as [Hy _].
    destruct (sextets x y 0 Hx Hy) as [S1 [S2 [_ [_ [_ S3]]]]]; [lia |].
    destruct (bytes_back x y 0 Hx Hy) as [B1 [B2 _]]; [lia |].
    cbn [b64_encode]. rewrite (a2b_digit _ _ Q0) by exact S1. rewrite (a2b_digit _ _ Q1) by exact S2.
    rewrite (a2b_digit _ _ Q2) by exact S3. rewrite a2b_pad1. cbn [option_map].
    replace (0 / 64) with 0 in B2 by reflexivity. rewrite N.add_0_r in B2.
    rewrite B1, B2. reflexivity.
  - apply bytes_ok_cons in B. destruct B as [Hx B]. apply bytes_ok_cons in B. destruct B as [Hy B].
    apply bytes_ok_cons in B. destruct B as [Hz B].
    destruct (sextets x y z Hx Hy Hz) as [S1 [S2 [S3 [S4 _]]]].
    destruct (bytes_back x y z Hx Hy Hz) as [B1 [B2 B3]].
    cbn [b64_encode]. rewrite (a2b_digit _ _ Q0) by exact S1. rewrite (a2b_digit _ _ Q1) by exact S2.
    rewrite (a2b_digit _ _ Q2) by exact S3. rewrite (a2b_digit _ _ Q3) by exact S4.
    rewrite (IH B). cbn [option_map]. rewrite B1, B2, B3. reflexivity.
Qed.

(* base64.b64decode(base64.b64encode(b).decode()) == b, for byte strings of every length *)
Theorem b64_rt_thm : forall b, bytes_ok b = true -> b64_decode (b64_encode b) = Some b.
Proof.
  intros b B. unfold b64_decode.
  assert (A : forallb (fun c => c <? 128) (b64_encode b) = true).
  { eapply forallb_impl; [|apply b64_encode_alphabet_thm]. intros c Hc. apply b64_char_facts in Hc. lia. }
  rewrite A. apply a2b_encode_thm. exact B.
Qed.

(* length of the text: 4 characters per started group of 3 bytes - a 58-byte value gives 80
   characters on one line (the MIME flavour would break it after 76) *)
Theorem b64_encode_length_thm : forall b,
  N.of_nat (length (b64_encode b)) = 4 * ((N.of_nat (length b) + 2) / 3).
Proof.
  induction b as [| x | x y | x y z r IH] using list_ind3.
  - reflexivity.
  - reflexivity.
  - reflexivity.
  - cbn [b64_encode length]. rewrite !Nat2N.inj_succ. rewrite IH. lia.
Qed.

Theorem b64_encode_keyval_safe_thm : forall b : list N,
  value_ok (b64_encode b) = true /\
  forallb (fun c => negb ((c =? 10) || (c =? 13))) (b64_encode b) = true /\
  N.of_nat (length (b64_encode b)) = 4 * ((N.of_nat (length b) + 2) / 3).
Proof.
  intros b. split; [apply b64_encode_clean_thm | split; [apply b64_encode_one_line_thm | apply b64_encode_length_thm]].
Qed.

(* ------------------------------------------------------------------ one key=value line *)

(* the line "key=<base64 of b>" is read back as exactly (key, that text), whatever the length
   of b: the parser splits at the FIRST '=', so the pad characters stay in the value *)
Theorem b64_line_rt_thm : forall k b, key_ok k = true ->
  kv_parse_line (k ++ 61 :: b64_encode b) = Some (Some (k, JStr (b64_encode b))).
Proof. intros k b Hk. apply parse_line_ok; [exact Hk | apply b64_encode_clean_thm]. Qed.

(* ------------------------------------------------------------------ the C19 theorems with
   the modelled base64 plugged in *)

Section WithJson.
  Variable jdumps : list (str * jval) -> str.
  Variable jloads : str -> option (list (str * jval)).
  Hypothesis json_rt : forall d, NoDup (keys d) -> jloads (jdumps d) = Some (sort_keys d).
  Hypothesis json_shape : forall d, d <> [] -> exists rest, jdumps d = 123 :: 10 :: rest.
  Hypothesis json_no_cr : forall d, forallb (fun c => negb (c =? 13)) (jdumps d) = true.

  Theorem pipeline_rt_b64_thm : forall c, wf_config c = true ->
    exists d, serialize b64_encode c = Some d /\ deserialize b64_decode d = Some c.
  Proof. exact (pipeline_rt_thm b64_encode b64_decode b64_rt_thm). Qed.

  Theorem format_rt_b64_thm : forall f c, wf_config c = true -> (f = KeyVal -> kv_config_ok c = true) ->
    exists t d, config_to_str b64_encode jdumps f c = Some t /\ parse_as jloads f t = Some d /\ d <> [] /\
                deserialize b64_decode d = Some (fmt_view f c).
  Proof. exact (format_rt_thm b64_encode b64_decode jdumps jloads b64_rt_thm b64_encode_clean_thm json_rt). Qed.

  Theorem load_paths_b64_thm : forall f c s root name t,
    wf_config c = true -> (f = KeyVal -> kv_config_ok c = true) ->
    config_to_str b64_encode jdumps f c = Some t ->
    (fs_read s name = Some t -> (ext_type name = None \/ ext_type name = Some f) ->
       load b64_decode jloads s root name false = LOk (fmt_view f c)) /\
    (fs_read s name = None -> fs_read s (pjoin (profile_dir root name) s_config_yo) = None ->
     fs_read s (pjoin (profile_dir root name) s_config_json) = Some t ->
       load b64_decode jloads s root name false = LOk (fmt_view f c)).
  Proof.
    exact (load_paths_thm b64_encode b64_decode jdumps jloads b64_rt_thm b64_encode_clean_thm
                          json_rt json_shape json_no_cr).
  Qed.

  Theorem atomic_save_b64_thm : forall f c s s' root name t,
    wf_config c = true -> (f = KeyVal -> kv_config_ok c = true) ->
    config_to_str b64_encode jdumps f c = Some t ->
    fs_read s name = None -> fs_read s (pjoin (profile_dir root name) s_config_yo) = None ->
    crash s (save_prog s root name t) s' ->
    load b64_decode jloads s' root name false = load b64_decode jloads s root name false \/
    load b64_decode jloads s' root name false = LOk (fmt_view f c).
  Proof.
    exact (atomic_save_thm b64_encode b64_decode jdumps jloads b64_rt_thm b64_encode_clean_thm
                           json_rt json_shape json_no_cr).
  Qed.
End WithJson.

(* key=value alone needs nothing about JSON: the whole file-format statement, closed.
   For every well-typed configuration (any subset of the attributes, binary attributes of any
   length) whose textual values are in the key=value domain: the printed file parses, and
   deserialising what was parsed gives the configuration back (ints as their decimal text). *)
Theorem keyval_config_rt_thm : forall c, wf_config c = true -> kv_config_ok c = true ->
  exists d p, serialize b64_encode c = Some d /\ kv_parse (kv_print d) = Some p /\ p <> [] /\
              deserialize b64_decode p = Some (textual_config c).
Proof.
  intros c WF KV. exists (jl b64_encode c), (map as_text (sort_keys (jl b64_encode c))).
  split; [apply serialize_spec; exact WF|]. split; [|split].
  - apply keyval_rt_thm; [apply jl_nodup | apply jl_entries_ok; auto using b64_encode_clean_thm].
  - intros E. apply map_eq_nil in E. revert E. apply sort_keys_nonempty.
    destruct (jl_head b64_encode c) as [r Hr]. rewrite Hr. discriminate.
  - rewrite <- view_text.
    apply (deserialize_perm_thm b64_encode b64_decode b64_rt_thm tv_text (fun s => eq_refl) c _ WF).
    unfold jlt. apply Permutation.Permutation_map. apply sort_keys_perm.
Qed.

(* non-vacuity + the seeded shape, concretely: a configuration whose edge_routing_info is 58
   bytes long (the first length at which the MIME flavour breaks the line), an id of 1000
   bytes, a push name containing '=', round-trips through the key=value text *)
Definition long_cfg : config :=
  mkConfig (Some (CScalar (JStr [52; 57]))) (Some (CScalar (JInt 49))) None None
           (Some (CScalar (JStr [97; 61; 98]))) (Some (CBytes (repeat 200 1000))) None None None None
           (Some (CKeyPair (repeat 7 32) (repeat 9 32))) (Some (CPub (repeat 1 32)))
           (Some (CBytes [])) None (Some (CBytes (repeat 255 58))) None.

Example long_cfg_in_domain : wf_config long_cfg = true /\ kv_config_ok long_cfg = true.
Proof. vm_compute. split; reflexivity. Qed.

Example long_cfg_keyval_rt :
  obind (option_map kv_print (serialize b64_encode long_cfg))
        (fun t => obind (kv_parse t) (deserialize b64_decode)) = Some (textual_config long_cfg).
Proof. vm_compute. reflexivity. Qed.

(* ------------------------------------------------------------------ the MIME flavour, refuted.
   With base64.encodebytes(..).decode().strip() in place of b64encode for edge_routing_info (any
   binary attribute would do) the dictionary level - and therefore JSON - still round-trips,
   because the decoder skips the newline; but the key=value text of the same configuration no
   longer loads: the continuation line "....==" is read as an entry of its own. *)
Theorem mime_b64_refuted_thm :
  wf_config long_cfg = true /\ kv_config_ok long_cfg = true /\
  (* 57 bytes: same text as the plain encoder *)
  b64_mime (repeat 255 57) = b64_encode (repeat 255 57) /\
  (* 58 bytes: a line break inside the value *)
  In 10 (b64_mime (repeat 255 58)) /\
  (* the decoder does not mind ... *)
  b64_decode (b64_mime (repeat 255 58)) = Some (repeat 255 58) /\
  (* ... but as the value of a key=value line it splits the entry: the file does not load *)
  obind (kv_parse (k_edge_routing_info ++ 61 :: b64_mime (repeat 255 58)))
        (deserialize b64_decode) = None /\
  (* whereas the encoder the code uses keeps the same entry on one line, and it loads *)
  obind (kv_parse (k_edge_routing_info ++ 61 :: b64_encode (repeat 255 58)))
        (deserialize b64_decode) =
  Some (mkConfig None None None None None None None None None None None None None None
                 (Some (CBytes (repeat 255 58))) None).
Proof. vm_compute. repeat split; try reflexivity. do 76 right. left. reflexivity. Qed.
