(* Glue between the sx line format and the C19 model (unverified, trusted, small).
   text  = ( N<cp> ... )        bytes = B<hex>
   jval  = (N0 text) | (N1 N<n>)
   cval  = (N0 text) | (N1 N<n>) | (N2 bytes) | (N3 priv pub) | (N4 bytes)
   opt x = () | (x)
   config = 16 opt cval in constructor-parameter order
   dict  = ((text jval) ...)
   fs    = (((path text) ...) (dir ...))
   op    = (N0 d) | (N1 d base) | (N2 p data) | (N3 p) | (N4 p) | (N5 a b)
   lres  = (N0) none | (N1) raised | (N2 config)
   oracle requests: (N3 dict)->text  (N4 text)->opt dict     (json only; base64 is the modelled
   b64_encode / b64_decode of C19B64.v - requests 1 and 2 are no longer issued) *)
From YV Require Import Common.Tac Common.Sx C19.C19Str C19.C19B64 C19.C19Model.
Local Open Scope N_scope.

Definition x_text (s : str) : sx := SL (map SN s).
Definition g_text (x : sx) : str := map sx_get_n (sx_get_l x).

Definition x_jval (v : jval) : sx :=
  match v with JStr s => SL [SN 0; x_text s] | JInt n => SL [SN 1; SN n] end.
Definition g_jval (x : sx) : jval :=
  if sx_get_n (sx_nth x 0) =? 0 then JStr (g_text (sx_nth x 1)) else JInt (sx_get_n (sx_nth x 1)).

Definition x_cval (v : cval) : sx :=
  match v with
  | CScalar j => x_jval j
  | CBytes b => SL [SN 2; SB b]
  | CKeyPair pr pu => SL [SN 3; SB pr; SB pu]
  | CPub b => SL [SN 4; SB b]
  end.
Definition g_cval (x : sx) : cval :=
  let t := sx_get_n (sx_nth x 0) in
  if t <=? 1 then CScalar (g_jval x)
  else if t =? 2 then CBytes (sx_get_b (sx_nth x 1))
  else if t =? 3 then CKeyPair (sx_get_b (sx_nth x 1)) (sx_get_b (sx_nth x 2))
  else CPub (sx_get_b (sx_nth x 1)).

Definition g_opt {A} (g : sx -> A) (x : sx) : option A :=
  match sx_get_l x with [] => None | y :: _ => Some (g y) end.

Definition x_config (c : config) : sx :=
  SL (map (sx_opt x_cval)
    [c_phone c; c_cc c; c_login c; c_password c; c_pushname c; c_id c; c_mcc c; c_mnc c;
     c_sim_mcc c; c_sim_mnc c; c_client_static_keypair c; c_server_static_public c;
     c_expid c; c_fdid c; c_edge_routing_info c; c_chat_dns_domain c]).
Definition g_config (x : sx) : config :=
  let f i := g_opt g_cval (sx_nth x i) in
  mkConfig (f 0%nat) (f 1%nat) (f 2%nat) (f 3%nat) (f 4%nat) (f 5%nat) (f 6%nat) (f 7%nat)
           (f 8%nat) (f 9%nat) (f 10%nat) (f 11%nat) (f 12%nat) (f 13%nat) (f 14%nat) (f 15%nat).

Definition x_dict (d : list (str * jval)) : sx :=
  SL (map (fun kv => SL [x_text (fst kv); x_jval (snd kv)]) d).
Definition g_dict (x : sx) : list (str * jval) :=
  map (fun e => (g_text (sx_nth e 0), g_jval (sx_nth e 1))) (sx_get_l x).

Definition x_fs (s : fsys) : sx :=
  SL [SL (map (fun kv => SL [x_text (fst kv); x_text (snd kv)]) (files s)); SL (map x_text (dirs s))].
Definition g_fs (x : sx) : fsys :=
  mkFs (map (fun e => (g_text (sx_nth e 0), g_text (sx_nth e 1))) (sx_get_l (sx_nth x 0)))
       (map g_text (sx_get_l (sx_nth x 1))).

Definition x_op (o : op) : sx :=
  match o with
  | Mkdir d => SL [SN 0; x_text d]
  | OpenTrunc d b => SL [SN 1; x_text d; x_text b]
  | Write p data => SL [SN 2; x_text p; x_text data]
  | Fsync p => SL [SN 3; x_text p]
  | Close p => SL [SN 4; x_text p]
  | Rename a b => SL [SN 5; x_text a; x_text b]
  end.
Definition g_op (x : sx) : op :=
  let t := sx_get_n (sx_nth x 0) in
  let a := g_text (sx_nth x 1) in
  let b := g_text (sx_nth x 2) in
  if t =? 0 then Mkdir a else if t =? 1 then OpenTrunc a b else if t =? 2 then Write a b
  else if t =? 3 then Fsync a else if t =? 4 then Close a else Rename a b.

Definition x_fmt (f : fmt) : sx := SN (match f with KeyVal => 1 | Json => 2 end).
Definition g_fmt (x : sx) : fmt := if sx_get_n x =? 1 then KeyVal else Json.

Definition x_lres (r : lres) : sx :=
  match r with LNone => SL [SN 0] | LErr => SL [SN 1] | LOk c => SL [SN 2; x_config c] end.

(* primitives answered by the harness with the real json *)
Definition o_jdumps (oracle : sx -> sx) (d : list (str * jval)) : str :=
  g_text (oracle (SL [SN 3; x_dict d])).
Definition o_jloads (oracle : sx -> sx) (t : str) : option (list (str * jval)) :=
  g_opt g_dict (oracle (SL [SN 4; x_text t])).

(* ---- entries ---- *)
Definition run_is_space (arg : sx) : sx := SL (map (fun c => sx_bool (is_space (sx_get_n c))) (sx_get_l arg)).
Definition run_strip (arg : sx) : sx := x_text (strip (g_text arg)).
Definition run_dec (arg : sx) : sx := x_text (dec (sx_get_n arg)).
Definition run_kv_print (arg : sx) : sx := x_text (kv_print (g_dict arg)).
Definition run_kv_parse (arg : sx) : sx := sx_opt x_dict (kv_parse (g_text arg)).
Definition run_unl (arg : sx) : sx := x_text (unl (g_text arg)).
Definition run_ext_type (arg : sx) : sx := sx_opt x_fmt (ext_type (g_text arg)).
Definition run_pjoin (arg : sx) : sx := x_text (pjoin (g_text (sx_nth arg 0)) (g_text (sx_nth arg 1))).

(* base64, directly: bytes -> text, text -> opt bytes, bytes -> text (MIME flavour) *)
Definition run_b64enc (arg : sx) : sx := x_text (b64_encode (sx_get_b arg)).
Definition run_b64dec (arg : sx) : sx := sx_opt SB (b64_decode (g_text arg)).
Definition run_b64mime (arg : sx) : sx := x_text (b64_mime (sx_get_b arg)).
(* text -> (all characters in the 65-character alphabet?  legal key=value value?) *)
Definition run_b64_text_ok (arg : sx) : sx :=
  SL [sx_bool (forallb b64_char (g_text arg)); sx_bool (value_ok (g_text arg))].
(* one key=value line: text -> () raises | (()) skipped | ((key jval)) *)
Definition run_kv_parse_line (arg : sx) : sx :=
  sx_opt (sx_opt (fun kv => SL [x_text (fst kv); x_jval (snd kv)])) (kv_parse_line (g_text arg)).

Definition run_serialize (arg : sx) : sx :=
  sx_opt x_dict (serialize b64_encode (g_config arg)).
Definition run_deserialize (arg : sx) : sx :=
  sx_opt x_config (deserialize b64_decode (g_dict arg)).
(* key=value end to end without any oracle: config -> opt text;  text -> opt config *)
Definition run_kv_to_str (arg : sx) : sx :=
  sx_opt x_text (option_map kv_print (serialize b64_encode (g_config arg))).
Definition run_kv_load_text (arg : sx) : sx :=
  sx_opt x_config (obind (kv_parse (unl (g_text arg))) (deserialize b64_decode)).
(* (fmt config) -> opt text *)
Definition orun_to_str (oracle : sx -> sx) (arg : sx) : sx :=
  sx_opt x_text (config_to_str b64_encode (o_jdumps oracle) (g_fmt (sx_nth arg 0))
                               (g_config (sx_nth arg 1))).
(* (by_content path text) -> lres *)
Definition orun_load_text (oracle : sx -> sx) (arg : sx) : sx :=
  x_lres (load_text b64_decode (o_jloads oracle) (sx_get_bool (sx_nth arg 0))
                    (g_text (sx_nth arg 1)) (g_text (sx_nth arg 2))).
(* (fs root name profile_only) -> lres *)
Definition orun_load (oracle : sx -> sx) (arg : sx) : sx :=
  x_lres (load b64_decode (o_jloads oracle) (g_fs (sx_nth arg 0)) (g_text (sx_nth arg 1))
               (g_text (sx_nth arg 2)) (sx_get_bool (sx_nth arg 3))).
Definition orun_load_unfixed (oracle : sx -> sx) (arg : sx) : sx :=
  x_lres (load_unfixed b64_decode (o_jloads oracle) (g_fs (sx_nth arg 0))
                       (g_text (sx_nth arg 1)) (g_text (sx_nth arg 2))).
(* (fs root name text) -> (op ...) *)
Definition run_save_prog (arg : sx) : sx :=
  SL (map x_op (save_prog (g_fs (sx_nth arg 0)) (g_text (sx_nth arg 1)) (g_text (sx_nth arg 2))
                          (g_text (sx_nth arg 3)))).
Definition run_save_prog_unfixed (arg : sx) : sx :=
  SL (map x_op (save_prog_unfixed (g_text (sx_nth arg 0)) (g_text (sx_nth arg 1))
                                  (g_text (sx_nth arg 2)))).
(* (fs (op ...) n k) -> opt fs *)
Definition run_crash_at (arg : sx) : sx :=
  sx_opt x_fs (crash_at (map g_op (sx_get_l (sx_nth arg 1))) (N.to_nat (sx_get_n (sx_nth arg 2)))
                        (N.to_nat (sx_get_n (sx_nth arg 3))) (g_fs (sx_nth arg 0))).
(* ((watched ...) (op ...)) -> bool *)
Definition run_fresh_then_rename (arg : sx) : sx :=
  sx_bool (fresh_then_rename (map g_text (sx_get_l (sx_nth arg 0))) (map g_op (sx_get_l (sx_nth arg 1)))).
Definition run_watched (arg : sx) : sx :=
  SL (map x_text (watched_paths (g_text (sx_nth arg 0)) (g_text (sx_nth arg 1)))).
Definition run_wf (arg : sx) : sx :=
  SL [sx_bool (wf_config (g_config arg)); sx_bool (kv_config_ok (g_config arg))].
