(* C19 - atomic save: generic all-or-nothing theorem for programs that write a fresh name and
   then rename, its instance for the repaired writeProfileData, and the refutation of the
   in-place truncating write. *)
From YV Require Import Common.Tac C19.C19Str C19.C19Model C19.C19Lib.
Local Open Scope N_scope.

Definition same_on (watched : list str) (s s' : fsys) : Prop :=
  forall w, In w watched -> fs_read s' w = fs_read s w.

Lemma same_on_refl : forall ws s, same_on ws s s.
Proof. intros ws s w _. reflexivity. Qed.

Lemma same_on_trans : forall ws a b c, same_on ws a b -> same_on ws b c -> same_on ws a c.
Proof. intros ws a b c H1 H2 w Hw. rewrite (H2 w Hw). apply H1. exact Hw. Qed.

Lemma quiet_untouched : forall ws o w, quiet ws o = true -> In w ws -> touches o w = false.
Proof.
  intros ws o w H Hin. unfold quiet in H. rewrite forallb_forall in H.
  apply negb_true_iff. apply H. exact Hin.
Qed.

Lemma exec_untouched : forall o s s' w,
  touches o w = false -> exec o s = Some s' -> fs_read s' w = fs_read s w.
Proof.
  intros o s s' w T E. unfold fs_read. destruct o as [d|d b|p data|p|p|a b]; cbn [exec touches] in *.
  - apply Some_inj in E. subst s'. reflexivity.
  - destruct (mem d (dirs s)); [|discriminate]. apply Some_inj in E. subst s'. cbn [files].
    apply lookup_upd_other. exact T.
  - destruct (lookup p (files s)); [|discriminate]. apply Some_inj in E. subst s'. cbn [files].
    apply lookup_upd_other. exact T.
  - apply Some_inj in E. subst s'. reflexivity.
  - apply Some_inj in E. subst s'. reflexivity.
  - destruct (lookup a (files s)); [|discriminate]. apply Some_inj in E. subst s'. cbn [files].
    apply orb_false_iff in T. destruct T as [Ta Tb].
    rewrite lookup_upd_other by exact Tb. apply lookup_remove_other. exact Ta.
Qed.

Lemma exec_quiet : forall ws o s s', quiet ws o = true -> exec o s = Some s' -> same_on ws s s'.
Proof.
  intros ws o s s' Q E w Hw. eapply exec_untouched; [|exact E]. eapply quiet_untouched; eauto.
Qed.

Lemma crash_quiet : forall ws s p s',
  crash s p s' -> forallb (quiet ws) p = true -> same_on ws s s'.
Proof.
  intros ws s p s' C. induction C as [s p | s o p s1 s2 E C IH | s path data k p s1 E]; intros Q.
  - apply same_on_refl.
  - cbn [forallb] in Q. apply andb_true_iff in Q. destruct Q as [Q1 Q2].
    eapply same_on_trans; [eapply exec_quiet; eauto | apply IH; exact Q2].
  - cbn [forallb] in Q. apply andb_true_iff in Q. destruct Q as [Q1 _].
    eapply exec_quiet; [|exact E]. exact Q1.
Qed.

Lemma run_quiet : forall ws p s s', run p s = Some s' -> forallb (quiet ws) p = true -> same_on ws s s'.
Proof.
  intros ws p. induction p as [|o r IH]; intros s s' R Q; cbn [run] in R.
  - apply Some_inj in R. subst. apply same_on_refl.
  - destruct (exec o s) as [s1|] eqn:E; [|discriminate]. cbn [forallb] in Q.
    apply andb_true_iff in Q. destruct Q as [Q1 Q2].
    eapply same_on_trans; [eapply exec_quiet; eauto | eapply IH; eauto].
Qed.

Lemma run_app : forall p q s, run (p ++ q) s = obind (run p s) (run q).
Proof.
  induction p as [|o r IH]; intros q s; cbn [app run obind]; [reflexivity|].
  destruct (exec o s); [apply IH | reflexivity].
Qed.

Lemma crash_nil : forall s s', crash s [] s' -> s' = s.
Proof. intros s s' C. inversion C; subst; reflexivity. Qed.

(* a crash inside  pre ++ [o]  is a crash inside pre, or pre completed and then a crash in [o] *)
Lemma crash_snoc : forall pre o s s',
  crash s (pre ++ [o]) s' ->
  crash s pre s' \/ exists s1, run pre s = Some s1 /\ crash s1 [o] s'.
Proof.
  induction pre as [|x pre IH]; intros o s s' C; cbn [app] in C.
  - right. exists s. split; [reflexivity | exact C].
  - inversion C as [s0 p0 | s0 o0 p0 s1 s2 E C' | s0 path data k p0 s1 E]; subst.
    + left. apply crash_here.
    + apply IH in C'. destruct C' as [C' | [s3 [R C']]].
      * left. eapply crash_step; eauto.
      * right. exists s3. split; [cbn [run]; rewrite E; exact R | exact C'].
    + left. eapply crash_write; eauto.
Qed.

(* ---- the generic theorem: every crash state either shows the old contents of every watched
   path, or is the state after the complete program ---- *)
Theorem atomic_generic_thm : forall watched p s s',
  fresh_then_rename watched p = true ->
  crash s p s' ->
  same_on watched s s' \/ run p s = Some s'.
Proof.
  intros ws p s s' F C. unfold fresh_then_rename in F.
  destruct (rev p) as [|o rpre] eqn:E; [discriminate|].
  destruct o as [d|d b|q data|q|q|tmp tgt]; try discriminate.
  apply andb_true_iff in F. destruct F as [Q _].
  assert (P : p = rev rpre ++ [Rename tmp tgt]).
  { apply (f_equal (@rev op)) in E. rewrite rev_involutive in E. cbn [rev] in E. exact E. }
  subst p. rewrite <- forallb_rev in Q.
  apply crash_snoc in C. destruct C as [C | [s1 [R C]]].
  - left. eapply crash_quiet; eauto.
  - inversion C; subst.
    + left. eapply run_quiet; eauto.
    + right. match goal with H : crash _ [] _ |- _ => apply crash_nil in H; subst end.
      rewrite run_app, R. cbn [obind run].
      match goal with H : exec _ _ = Some _ |- _ => rewrite H end. reflexivity.
Qed.

(* ---- path facts ---- *)
Definition pre_of (a : str) : str := if ends_slash_or_empty a then a else a ++ [47].

Lemma pjoin_rel : forall a b, starts_slash b = false -> pjoin a b = pre_of a ++ b.
Proof.
  intros a b H. unfold pjoin, pre_of. rewrite H.
  destruct (ends_slash_or_empty a); [reflexivity|]. rewrite <- app_assoc. reflexivity.
Qed.

Lemma length_pre_of : forall a, (length a <= length (pre_of a))%nat.
Proof.
  intros a. unfold pre_of. destruct (ends_slash_or_empty a); [lia|]. rewrite app_length. lia.
Qed.

Lemma length_pjoin : forall a b, (length b <= length (pjoin a b))%nat.
Proof.
  intros a b. unfold pjoin. destruct (starts_slash b); [lia|].
  destruct (ends_slash_or_empty a); rewrite app_length; cbn [length]; lia.
Qed.

Section SaveFacts.
  Variables root name : str.
  Let d := profile_dir root name.
  Let tmp := pjoin d s_config_json_tmp.
  Let tgt := pjoin d s_config_json.
  Let yo := pjoin d s_config_yo.

  Lemma tmp_eq : tmp = pre_of d ++ s_config_json_tmp.
  Proof. apply pjoin_rel. reflexivity. Qed.
  Lemma tgt_eq : tgt = pre_of d ++ s_config_json.
  Proof. apply pjoin_rel. reflexivity. Qed.
  Lemma yo_eq : yo = pre_of d ++ s_config_yo.
  Proof. apply pjoin_rel. reflexivity. Qed.

  Lemma tmp_tgt : str_eqb tmp tgt = false.
  Proof. rewrite tmp_eq, tgt_eq, str_eqb_app_l. reflexivity. Qed.
  Lemma tmp_yo : str_eqb tmp yo = false.
  Proof. rewrite tmp_eq, yo_eq, str_eqb_app_l. reflexivity. Qed.
  Lemma tgt_yo : str_eqb tgt yo = false.
  Proof. rewrite tgt_eq, yo_eq, str_eqb_app_l. reflexivity. Qed.

  Lemma longer_than_name : forall b, (0 < length b)%nat -> str_eqb (pre_of d ++ b) name = false.
  Proof.
    intros b Hb. apply str_eqb_len. rewrite app_length.
    pose proof (length_pre_of d). pose proof (length_pjoin root name).
    unfold d, profile_dir in *. lia.
  Qed.

  Lemma tmp_name : str_eqb tmp name = false.
  Proof. rewrite tmp_eq. apply longer_than_name. cbn. lia. Qed.
  Lemma tgt_name : str_eqb tgt name = false.
  Proof. rewrite tgt_eq. apply longer_than_name. cbn. lia. Qed.
  Lemma yo_name : str_eqb yo name = false.
  Proof. rewrite yo_eq. apply longer_than_name. cbn. lia. Qed.

  (* the repaired save has the write-fresh-then-rename shape w.r.t. everything load() reads *)
  Lemma save_prog_shape : forall s text,
    fresh_then_rename (watched_paths root name) (save_prog s root name text) = true.
  Proof.
    intros s text. unfold save_prog, watched_paths. fold d. fold tmp. fold tgt. fold yo.
    unfold fresh_then_rename.
    assert (Q : forall pre, forallb (quiet [name; yo; tgt]) pre = true ->
      match rev (pre ++ [OpenTrunc d s_config_json_tmp; Write tmp text; Fsync tmp; Close tmp; Rename tmp tgt]) with
      | Rename t _ :: rpre => forallb (quiet [name; yo; tgt]) rpre && negb (mem t [name; yo; tgt])
      | _ => false end = true).
    { intros pre Hpre. rewrite rev_app_distr. cbn [rev app]. cbn [forallb].
      rewrite forallb_rev, Hpre. unfold quiet, mem. cbn [forallb existsb touches].
      fold tmp. rewrite tmp_name, tmp_yo, tmp_tgt. reflexivity. }
    destruct (mem d (dirs s)); apply Q; reflexivity.
  Qed.

  (* and it runs to completion from any state (also for a never-used profile), leaving the
     new text at config.json and everything else load() reads untouched *)
  Lemma save_prog_completes : forall s text,
    exists s', run (save_prog s root name text) s = Some s' /\
               fs_read s' tgt = Some text /\
               fs_read s' name = fs_read s name /\ fs_read s' yo = fs_read s yo.
  Proof.
    intros s text. unfold save_prog. fold d. fold tmp. fold tgt.
    set (s0 := if mem d (dirs s) then s else mkFs (files s) (d :: dirs s)).
    assert (R0 : run ((if mem d (dirs s) then [] else [Mkdir d]) ++
                      [OpenTrunc d s_config_json_tmp; Write tmp text; Fsync tmp; Close tmp; Rename tmp tgt]) s
                 = run [OpenTrunc d s_config_json_tmp; Write tmp text; Fsync tmp; Close tmp; Rename tmp tgt] s0).
    { unfold s0. destruct (mem d (dirs s)); reflexivity. }
    assert (D0 : mem d (dirs s0) = true).
    { unfold s0. destruct (mem d (dirs s)) eqn:E; [exact E|]. cbn [dirs mem existsb].
      rewrite str_eqb_refl. reflexivity. }
    assert (F0 : files s0 = files s). { unfold s0. destruct (mem d (dirs s)); reflexivity. }
    rewrite R0. cbn [run exec]. rewrite D0. fold tmp. cbn [files dirs].
    rewrite lookup_upd_same. cbn [files dirs app]. rewrite lookup_upd_same.
    eexists. split; [reflexivity|]. unfold fs_read. cbn [files]. rewrite F0.
    split; [apply lookup_upd_same|].
    split.
    - rewrite lookup_upd_other by apply tgt_name.
      rewrite lookup_remove_other by apply tmp_name.
      rewrite lookup_upd_other by apply tmp_name.
      rewrite lookup_upd_other by apply tmp_name. reflexivity.
    - rewrite lookup_upd_other by apply tgt_yo.
      rewrite lookup_remove_other by apply tmp_yo.
      rewrite lookup_upd_other by apply tmp_yo.
      rewrite lookup_upd_other by apply tmp_yo. reflexivity.
  Qed.
End SaveFacts.

(* ---- atomic save at the file level: every crash state of the repaired save shows, on every
   path load() reads, either exactly the old contents or exactly the completed save ---- *)
Theorem atomic_save_files_thm : forall root name text s s',
  crash s (save_prog s root name text) s' ->
  same_on (watched_paths root name) s s' \/
  (fs_read s' (pjoin (profile_dir root name) s_config_json) = Some text /\
   fs_read s' name = fs_read s name /\
   fs_read s' (pjoin (profile_dir root name) s_config_yo) = fs_read s (pjoin (profile_dir root name) s_config_yo)).
Proof.
  intros root name text s s' C.
  destruct (atomic_generic_thm _ _ _ _ (save_prog_shape root name s text) C) as [H | H].
  - left. exact H.
  - right. destruct (save_prog_completes root name s text) as [s2 [R2 H2]].
    rewrite R2 in H. apply Some_inj in H. subst s2. exact H2.
Qed.

(* ---- the unrepaired in-place truncating write is NOT atomic: a crash right after the open
   leaves an empty config.json, which is neither the old nor the new text ---- *)
Theorem truncating_refuted_thm : exists root name old new s s',
  fs_read s (pjoin (profile_dir root name) s_config_json) = Some old /\
  crash s (save_prog_unfixed root name new) s' /\
  fs_read s' (pjoin (profile_dir root name) s_config_json) <> Some old /\
  fs_read s' (pjoin (profile_dir root name) s_config_json) <> Some new /\
  fresh_then_rename (watched_paths root name) (save_prog_unfixed root name new) = false.
Proof.
  exists [114], [112], [111], [110].
  exists (mkFs [(pjoin (profile_dir [114] [112]) s_config_json, [111])] [profile_dir [114] [112]]).
  eexists. split; [vm_compute; reflexivity|]. split.
  - eapply crash_step; [vm_compute; reflexivity | apply crash_here].
  - vm_compute. repeat split; congruence.
Qed.

(* and for a never-used profile (directory absent) it cannot even start *)
Theorem unfixed_new_profile_refuted_thm : exists root name new s,
  run (save_prog_unfixed root name new) s = None /\
  exists s', run (save_prog s root name new) s = Some s' /\
             fs_read s' (pjoin (profile_dir root name) s_config_json) = Some new.
Proof.
  exists [114], [112], [110], (mkFs [] [[114]]). split; [vm_compute; reflexivity|].
  eexists. split; vm_compute; reflexivity.
Qed.
