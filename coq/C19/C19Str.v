(* String constants of the C19 model.  Text is a list of code points (N).  The constants are
   spelled as numbers so that the extracted model does not pull in Coq's String library (its
   OCaml module name would shadow Stdlib.String in the driver); C19StrCheck.v proves that each
   list is the text named in its comment.  Generated once by a script; edit both together. *)
From Coq Require Import NArith List.
Import ListNotations.
Local Open Scope N_scope.

Definition str := list N.

Definition k_phone : str := [112; 104; 111; 110; 101].   (* "phone" *)
Definition k_cc : str := [99; 99].   (* "cc" *)
Definition k_login : str := [108; 111; 103; 105; 110].   (* "login" *)
Definition k_password : str := [112; 97; 115; 115; 119; 111; 114; 100].   (* "password" *)
Definition k_pushname : str := [112; 117; 115; 104; 110; 97; 109; 101].   (* "pushname" *)
Definition k_id : str := [105; 100].   (* "id" *)
Definition k_mcc : str := [109; 99; 99].   (* "mcc" *)
Definition k_mnc : str := [109; 110; 99].   (* "mnc" *)
Definition k_sim_mcc : str := [115; 105; 109; 95; 109; 99; 99].   (* "sim_mcc" *)
Definition k_sim_mnc : str := [115; 105; 109; 95; 109; 110; 99].   (* "sim_mnc" *)
Definition k_client_static_keypair : str := [99; 108; 105; 101; 110; 116; 95; 115; 116; 97; 116; 105; 99; 95; 107; 101; 121; 112; 97; 105; 114].   (* "client_static_keypair" *)
Definition k_server_static_public : str := [115; 101; 114; 118; 101; 114; 95; 115; 116; 97; 116; 105; 99; 95; 112; 117; 98; 108; 105; 99].   (* "server_static_public" *)
Definition k_expid : str := [101; 120; 112; 105; 100].   (* "expid" *)
Definition k_fdid : str := [102; 100; 105; 100].   (* "fdid" *)
Definition k_edge_routing_info : str := [101; 100; 103; 101; 95; 114; 111; 117; 116; 105; 110; 103; 95; 105; 110; 102; 111].   (* "edge_routing_info" *)
Definition k_chat_dns_domain : str := [99; 104; 97; 116; 95; 100; 110; 115; 95; 100; 111; 109; 97; 105; 110].   (* "chat_dns_domain" *)
Definition k_version : str := [118; 101; 114; 115; 105; 111; 110].   (* "version" *)
Definition k_meta_version : str := [95; 95; 118; 101; 114; 115; 105; 111; 110; 95; 95].   (* "__version__" *)
Definition s_yo : str := [121; 111].   (* "yo" *)
Definition s_json : str := [106; 115; 111; 110].   (* "json" *)
Definition s_config_yo : str := [99; 111; 110; 102; 105; 103; 46; 121; 111].   (* "config.yo" *)
Definition s_config_json : str := [99; 111; 110; 102; 105; 103; 46; 106; 115; 111; 110].   (* "config.json" *)
Definition s_config_json_tmp : str := [99; 111; 110; 102; 105; 103; 46; 106; 115; 111; 110; 46; 116; 109; 112].   (* "config.json.tmp" *)
