(* C03 - a RE-DISTRIBUTION of a sender key leaves the recipient's chain position alone.

   The converse of C03Chain.v.  A sender re-sends its key with every group retry answer, and a distribution message
   always names the sender's CURRENT position.  python-axolotl 0.2.2 GroupSessionBuilder.process APPENDS the new state
   and GroupCipher looks the state up first-match by key id (yowsup never rotates the id), so the state of the FIRST
   distribution message processed stays the one in use.  In the model: C03Model.process_skdm (`old ++ [mkK it []]`) and
   C03Model.decrypt_sk (matches on the HEAD of the list) - for an existing chain a re-distribution is a no-op as far
   as decryption goes; the world model (C03WorldModel) inherits it through `step`.

   redistribution_keeps_chain_thm      a recipient that holds a chain (k :: older) for (g, s) and reads a stanza whose
                                       pairwise ciphertext carries the distribution message (g, it'): afterwards it
                                       holds (k :: older ++ [mkK it' []]) - same state in use, same position
   redistribution_keeps_position_thm   ... and every intact sender-key-only stanza of s in g at or above the chain's
                                       start that was not decrypted yet is still shown - one entity and the delivery
                                       receipt - whatever it' is; (a second copy is then only re-acknowledged:
                                       C03Proofs.duplicate_not_shown_senderkey_thm)
   restart_loses_position_refuted      the variant that restarts the chain at it' ("the newest distribution message
                                       wins"): every intact stanza below it' is acknowledged and NOT shown *)
From YV Require Import Common.Tac C03.C03Model C03.C03Proofs C03.C03ChainModel C03.C03Chain.
Local Open Scope N_scope.

(* the variant: the stored record is wiped before the distribution message is processed *)
Definition process_skdm_restart (a : acct) (s : N) (d : N * N) : acct :=
  let '(g, it) := d in set_skpeer a (upd (pairkey g s) [mkK it []] (a_skpeer a)).

Lemma process_skdm_keeps_head b s g it' k older :
  lookup (pairkey g s) (a_skpeer b) = Some (k :: older) ->
  lookup (pairkey g s) (a_skpeer (process_skdm b s (g, it'))) = Some (k :: older ++ [mkK it' []]).
Proof.
  intros H. unfold process_skdm. cbn [a_skpeer set_skpeer]. rewrite lookup_upd, N.eqb_refl, H. reflexivity.
Qed.

(* what handling the re-distribution stanza (pairwise ciphertext only: the directed answer to a retry receipt) does *)
Lemma handle_redistribution b im e b1 p g s it' :
  i_from im = g -> sender_of im = s -> i_pw im = Some e -> i_sk im = None ->
  decrypt_pw b s e = (b1, DOk p) -> p_skdm p = Some (g, it') ->
  handle_enc b im = (reset_retries (process_skdm b1 s (g, it')) (i_id im),
                     dispatch_up (process_skdm b1 s (g, it')) im p ++ []).
Proof.
  intros Hg Hs Hpw Hsk D Hd. unfold handle_enc, handle_sk. rewrite Hpw, Hs, D, Hd, Hsk. reflexivity.
Qed.

Theorem redistribution_keeps_chain_thm : forall b im e b1 p g s it' k older,
  lookup (pairkey g s) (a_skpeer b) = Some (k :: older) ->
  i_from im = g -> sender_of im = s -> i_pw im = Some e -> i_sk im = None ->
  decrypt_pw b s e = (b1, DOk p) -> p_skdm p = Some (g, it') ->
  lookup (pairkey g s) (a_skpeer (fst (handle_enc b im))) = Some (k :: older ++ [mkK it' []]).
Proof.
  intros b im e b1 p g s it' k older L Hg Hs Hpw Hsk D Hd.
  rewrite (handle_redistribution b im e b1 p g s it' Hg Hs Hpw Hsk D Hd). cbn [fst].
  change (a_skpeer (reset_retries (process_skdm b1 s (g, it')) (i_id im)))
    with (a_skpeer (process_skdm b1 s (g, it'))).
  apply process_skdm_keeps_head.
  pose proof (skpeer_decrypt_pw b s e) as Hk. rewrite D in Hk. cbn [fst] in Hk. rewrite Hk. exact L.
Qed.

Lemma dispatch_guard a a' im p : a_guard a = a_guard a' -> dispatch_up a im p = dispatch_up a' im p.
Proof. intros H. unfold dispatch_up. rewrite H. reflexivity. Qed.

(* a stanza type the protocol layers know: text without mediatype, or media with one *)
Definition typed (im : inmsg) : Prop := (i_ty im = 0 /\ i_mt im = 0) \/ (i_ty im = 1 /\ i_mt im <> 0).

Lemma dispatch_content_once a im c :
  typed im -> dispatch_up a im (mkP None (Some c)) =
              [ODeliver (i_from im) (i_part im) (i_id im) (i_ty im) (i_mt im) (Some c);
               OReceipt (i_from im) (i_part im) (i_id im)].
Proof.
  intros [[Ht Hm] | [Ht Hm]]; unfold dispatch_up; cbn [p_content p_skdm]; rewrite Ht.
  - rewrite Hm. reflexivity.
  - destruct (i_mt im =? 0) eqn:E; [apply N.eqb_eq in E; contradiction|]. reflexivity.
Qed.

(* a sender-key-only stanza the chain in use can read: shown, acknowledged, nothing else *)
Lemma readable_shown b im2 e2 k older :
  i_pw im2 = None -> i_sk im2 = Some e2 -> typed im2 ->
  lookup (pairkey (i_from im2) (sender_of im2)) (a_skpeer b) = Some (k :: older) ->
  se_corrupt e2 = false -> k_start k <= se_iter e2 -> memN (se_iter e2) (k_seen k) = false ->
  snd (handle_enc b im2) =
  [ODeliver (i_from im2) (i_part im2) (i_id im2) (i_ty im2) (i_mt im2) (Some (se_content e2));
   OReceipt (i_from im2) (i_part im2) (i_id im2)].
Proof.
  intros Hpw Hsk Ht L Hc Hge Hns. unfold handle_enc, handle_sk. rewrite Hpw, Hsk. unfold decrypt_sk. rewrite L, Hc.
  assert (Hlt : (se_iter e2 <? k_start k) = false) by (apply N.ltb_ge; exact Hge).
  rewrite Hlt, Hns. cbn [orb snd]. apply dispatch_content_once. exact Ht.
Qed.

(* THE PROPERTY: B holds a chain for (g, s); it reads a re-distribution (g, it') - any it', in particular one far
   above its position; every intact, typed, not yet decrypted sender-key-only stanza of s in g at or above the
   chain's start is then still shown exactly as it would have been before: one entity + the delivery receipt *)
Theorem redistribution_keeps_position_thm : forall b im e b1 p g s it' k older im2 e2,
  lookup (pairkey g s) (a_skpeer b) = Some (k :: older) ->
  i_from im = g -> sender_of im = s -> i_pw im = Some e -> i_sk im = None ->
  decrypt_pw b s e = (b1, DOk p) -> p_skdm p = Some (g, it') ->
  i_from im2 = g -> sender_of im2 = s -> i_pw im2 = None -> i_sk im2 = Some e2 -> typed im2 ->
  se_corrupt e2 = false -> k_start k <= se_iter e2 -> memN (se_iter e2) (k_seen k) = false ->
  snd (handle_enc (fst (handle_enc b im)) im2) =
  [ODeliver (i_from im2) (i_part im2) (i_id im2) (i_ty im2) (i_mt im2) (Some (se_content e2));
   OReceipt (i_from im2) (i_part im2) (i_id im2)].
Proof.
  intros b im e b1 p g s it' k older im2 e2 L Hg Hs Hpw Hsk D Hd Hg2 Hs2 Hpw2 Hsk2 Ht Hc Hge Hns.
  pose proof (redistribution_keeps_chain_thm b im e b1 p g s it' k older L Hg Hs Hpw Hsk D Hd) as L'.
  apply (readable_shown _ im2 e2 k (older ++ [mkK it' []])); auto. rewrite Hg2, Hs2. exact L'.
Qed.

(* REFUTED for the restarting variant: whatever chain B held, after `process_skdm_restart` every intact stanza below
   it' is classified duplicate: a delivery receipt goes to the sender, the application is shown nothing *)
Lemma restart_lookup b s g it' :
  lookup (pairkey g s) (a_skpeer (process_skdm_restart b s (g, it'))) = Some [mkK it' []].
Proof. unfold process_skdm_restart. cbn [a_skpeer set_skpeer]. rewrite lookup_upd, N.eqb_refl. reflexivity. Qed.

Theorem restart_loses_position_refuted : forall b s g it' im2 e2,
  i_from im2 = g -> sender_of im2 = s -> i_pw im2 = None -> i_sk im2 = Some e2 ->
  se_corrupt e2 = false -> se_iter e2 < it' ->
  snd (handle_enc (process_skdm_restart b s (g, it')) im2) = [OReceipt (i_from im2) (i_part im2) (i_id im2)].
Proof.
  intros b s g it' im2 e2 Hg Hs Hpw Hsk Hc Hlt.
  assert (H : (se_iter e2 <? it') = true) by (apply N.ltb_lt; exact Hlt).
  subst g s. pose proof (restart_lookup b (sender_of im2) (i_from im2) it') as L.
  unfold handle_enc, handle_sk. rewrite Hpw, Hsk. unfold decrypt_sk. rewrite L, Hc.
  cbn [k_start k_seen memN]. rewrite H. reflexivity.
Qed.

(* ... on the very history of the directed case redist-2-text-first (harness/props/C03.py): B = account 1 holds A's
   chain from group message 1 (start 0, iteration 0 decrypted); A's burst 2, 3 has iterations 1, 2; 2 was corrupted,
   the answer to B's retry receipt carries (1000, 3) + content 2; then the held stanza of 3 (iteration 2) arrives *)
Definition rd_b : acct := set_sess (set_skpeer (init 1 true) [(pairkey 1000 0, [mkK 0 [0]])]) [(0, [mkS 7 false 0 [0]])].
Definition rd_answer : inmsg := mkI 1000 (Some 0) 2 0 0 (Some (mkPE false 7 1 true false (mkP (Some (1000, 3)) (Some 2)))) None.
Definition rd_g3 : inmsg := mkI 1000 (Some 0) 3 0 0 None (Some (mkSE 2 false 3)).

Example redistribution_history_example :
  snd (handle_enc rd_b rd_answer) = [ODeliver 1000 (Some 0) 2 0 0 (Some 2); OReceipt 1000 (Some 0) 2] /\
  snd (handle_enc (fst (handle_enc rd_b rd_answer)) rd_g3) =
    [ODeliver 1000 (Some 0) 3 0 0 (Some 3); OReceipt 1000 (Some 0) 3] /\
  snd (handle_enc (process_skdm_restart (fst (handle_enc rd_b rd_answer)) 0 (1000, 3)) rd_g3) =
    [OReceipt 1000 (Some 0) 3].
Proof. vm_compute. repeat split; reflexivity. Qed.
