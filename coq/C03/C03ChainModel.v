(* C03 - the chain position a sender-key DISTRIBUTION message carries.   Definitions only.

   manager.py group_create_skmsg -> GroupSessionBuilder.create(senderKeyName) loads the own sender-key record and
   builds the distribution message from its CURRENT state: key id, signing key, chain key and ITERATION.  The
   iteration advances with every group message encrypted (GroupCipher.encrypt stores the next chain key).  In
   C03Model.send_to_group_with_sessions this is `it := lookup g (a_skown a0)`: the distribution message built after k
   group messages names iteration k, and C03Model.process_skdm starts the recipient's chain there.

   To state what would go wrong otherwise, the send path is repeated here with the position as a parameter
   `pos : acct -> N -> N` (state of the sender, group |-> iteration written into the distribution message):
     pos_fresh  = own_iter           the code as it is (C03Chain.step_v_fresh: step_v pos_fresh = C03Model.step)
     pos_cached = fun _ _ => 0       the distribution message built once, at first use, and kept (memoised per
                                     group): chain start 0 whatever the sender has sent since
   Everything except the one line `it := pos a0 g` is C03Model's text. *)
From YV Require Import Common.Tac C03.C03Model C03.C03WorldModel.
Local Open Scope N_scope.

(* how many group messages this account has encrypted for g = the next iteration of its own sender key *)
Definition own_iter (a : acct) (g : N) : N := match lookup g (a_skown a) with Some i => i | None => 0 end.

(* where a recipient's chain for (group g, sender s) starts: the head state is the one python-axolotl uses *)
Definition chain_start (b : acct) (g s : N) : option N :=
  match lookup (pairkey g s) (a_skpeer b) with Some (k :: _) => Some (k_start k) | _ => None end.

Definition pos_fresh : acct -> N -> N := own_iter.
Definition pos_cached : acct -> N -> N := fun _ _ => 0.

Section Variant.
  Variable pos : acct -> N -> N.

  Definition sgws_v (a : acct) (nd : node) (js : list N) (retry : N) : acct * list output :=
    let g := n_to nd in
    let directed := match js with [_] => 0 <? retry | _ => false end in
    let part := if directed then hd_error js else None in
    let a0 := match js with
              | [] => a
              | _ => match lookup g (a_skown a) with Some _ => a | None => set_skown a (upd g 0 (a_skown a)) end
              end in
    let it := pos a0 g in
    let pay := mkP (Some (g, it)) (if 0 <? retry then Some (n_content nd) else None) in
    let '(a1, es) := enc_for_jids a0 js pay (n_mt nd) directed in
    if 0 <? retry then send_enc_entities a1 nd es part
    else
      match lookup g (a_skown a1) with
      | None => (a1, [])
      | Some i =>
        let a2 := set_skown a1 (upd g (i + 1) (a_skown a1)) in
        send_enc_entities a2 nd (es ++ [OES i (n_content nd) (n_mt nd)]) part
      end.

  Definition ensure_v (a : acct) (nd : node) (js : list N) : acct * list output :=
    match filter (fun j => negb (session_exists a j)) js with
    | [] => sgws_v a nd js 0
    | nos => get_keys a nos (KGroupKeys nd)
    end.

  Definition send_to_group_v (a : acct) (nd : node) (retry : option (N * N)) : acct * list output :=
    match lookup (n_to nd) (a_skown a) with
    | None => (set_iqs a ((a_iqctr a, (KGroupInfo nd, [])) :: a_iqs a) (a_iqctr a + 1),
               [OGroupInfo (a_iqctr a) (n_to nd)])
    | Some _ =>
      match retry with
      | None => sgws_v a nd [] 0
      | Some (c, cnt) => sgws_v a nd [c] cnt
      end
    end.

  Definition plaintext_send_v (a : acct) (nd : node) (retry : option (N * N)) : acct * list output :=
    if is_group (n_to nd) then send_to_group_v a nd retry
    else if session_exists a (n_to nd) then send_to_contact a nd
    else get_keys a [n_to nd] (KSend nd).

  Definition app_send_v (a : acct) (nd : node) : acct * list output :=
    if memN (n_to nd) (a_skip a) then (a, [OPlain nd]) else plaintext_send_v a nd None.

  Definition keys_result_v (a : acct) (k : cont) (js : list N) (res : list (N * N)) : acct * list output :=
    let '(a1, ok) := create_sessions a js res in
    match k with
    | KSend nd => match ok with [_] => send_to_contact a1 nd | _ => (a1, []) end
    | KRetry c nd cnt => match ok with [_] => plaintext_send_v a1 nd (Some (c, cnt)) | _ => (a1, []) end
    | KIncoming conv =>
      match ok with
      | [] => (a1, [])
      | _ =>
        match filter (fun x => conv_eqb (fst x) conv) (a_pend a1) with
        | (_, l) :: _ =>
          let '(a2, o) := process_pending a1 l in
          (set_pend a2 (filter (fun x => negb (conv_eqb (fst x) conv)) (a_pend a2)), o)
        | [] => (a1, [])
        end
      end
    | KGroupKeys nd => sgws_v a1 nd ok 0
    | KGroupInfo _ => (a1, [])
    end.

  Definition step_v (a : acct) (i : input) : acct * list output :=
    match i with
    | IAppSend nd => app_send_v a nd
    | IKeys iq res =>
      match lookup iq (a_iqs a) with
      | Some (k, js) => keys_result_v (set_iqs a (remove_key iq (a_iqs a)) (a_iqctr a)) k js res
      | None => (a, [])
      end
    | IGroupInfo iq parts =>
      match lookup iq (a_iqs a) with
      | Some (KGroupInfo nd, _) =>
        ensure_v (set_iqs a (remove_key iq (a_iqs a)) (a_iqctr a)) nd
          (filter (fun j => negb (j =? a_me a)) parts)
      | _ => (a, [])
      end
    | IMsg im => handle_enc a im
    | IReceipt frm part m retry => on_receipt a frm part m retry
    | IRestart => (restart a, [])
    end.

  (* ---- the world over step_v: C03WorldModel's feed / wstep / wrun, same router, same faults ---- *)
  Section W.
    Variable groups : list (N * list N).

    Definition feed_v (w : world) (r : N) (i : input) : world * list output :=
      match lookup r (w_accts w) with
      | None => (w, [])
      | Some a =>
        let '(a', os) := step_v a i in
        let '(q, c) := route_all groups r (w_ctr w) os in
        (mkW (upd r a' (w_accts w)) (w_queue w ++ q) c, os)
      end.

    Definition wstep_v (w : world) (act : waction) : world * (N * list output) :=
      match act with
      | WSend s nd => let '(w', os) := feed_v w s (IAppSend nd) in (w', (s, os))
      | WDeliver k =>
        match nth_error (w_queue w) k with
        | None => (w, (0, []))
        | Some (r, i) =>
          let '(w', os) := feed_v (mkW (w_accts w) (remove_nth k (w_queue w)) (w_ctr w)) r i in (w', (r, os))
        end
      | WDup k =>
        match nth_error (w_queue w) k with
        | Some (r, IMsg im) => (mkW (w_accts w) (w_queue w ++ [(r, IMsg im)]) (w_ctr w), (0, []))
        | _ => (w, (0, []))
        end
      | WCorrupt k sk =>
        match nth_error (w_queue w) k with
        | Some (r, i) =>
          (mkW (w_accts w) (firstn k (w_queue w) ++ (r, corrupt_input sk i) :: skipn (S k) (w_queue w)) (w_ctr w),
           (0, []))
        | None => (w, (0, []))
        end
      | WRestart s => let '(w', os) := feed_v w s IRestart in (w', (s, os))
      end.

    Fixpoint wrun_v (w : world) (acts : list waction) : world * list (N * list output) :=
      match acts with
      | [] => (w, [])
      | a :: r => let '(w1, o) := wstep_v w a in let '(w2, os) := wrun_v w1 r in (w2, o :: os)
      end.
  End W.
End Variant.

(* ---- the late-key history (harness/props/C03.py late_key_cases, "late-dup-3-text-right-after"):
   accounts 0 and 1 talk 1:1 (ids 1, 2); 0 sends text 3 to group 1000 = {0,1,2}: 2 has no session, so the sender key
   goes to 2 only and 1 gets the sender-key-only stanza; the server DUPLICATES 1's stanza and holds the copy; 1 asks
   for a retry, 0 fetches 1's keys and re-encrypts 3 for 1 alone (with the distribution message), 1 is shown 3;
   then the copy of the original stanza is delivered to 1; everything else drains FIFO. *)
Definition lk_groups : list (N * list N) := [(1000, [0; 1; 2])].
Definition lk_acts : list waction :=
  [WSend 0 (mkN 1 1 0 0 1); WDeliver 0; WDeliver 0; WDeliver 0;
   WSend 1 (mkN 2 0 0 0 2); WDeliver 0; WDeliver 0;
   WSend 0 (mkN 3 1000 0 0 3); WDeliver 0; WDeliver 0;
   WDup 0;                       (* queue: [1: skmsg only] [2: pkmsg + skmsg] [1: the copy] *)
   WDeliver 0;                   (* 1 cannot read it: retry receipt *)
   WDeliver 2; WDeliver 2;       (* 0: retry receipt -> key request -> directed re-encryption *)
   WDeliver 2;                   (* 1 is shown message 3 *)
   WDeliver 1]                   (* #15: the held copy of the original stanza reaches 1 *)
  ++ repeat (WDeliver 0) 4.

(* the same with a second group message (id 4, iteration 1) sent and delivered everywhere BEFORE the copy arrives *)
Definition lk_acts_traffic : list waction :=
  [WSend 0 (mkN 1 1 0 0 1); WDeliver 0; WDeliver 0; WDeliver 0;
   WSend 1 (mkN 2 0 0 0 2); WDeliver 0; WDeliver 0;
   WSend 0 (mkN 3 1000 0 0 3); WDeliver 0; WDeliver 0;
   WDup 0; WDeliver 0; WDeliver 2; WDeliver 2; WDeliver 2;
   WDeliver 0; WDeliver 1; WDeliver 1;                    (* 2's stanza, both delivery receipts *)
   WSend 0 (mkN 4 1000 0 0 4); WDeliver 1; WDeliver 1; WDeliver 1; WDeliver 1;
   WDeliver 0]                   (* #23: the held copy *)
  ++ [WDeliver 0].

(* what the application of account r was shown, in order *)
Definition shown_to (r : N) (l : list (N * list output)) : list output :=
  concat (map (fun x => if (fst x =? r)
                        then filter (fun o => match o with ODeliver _ _ _ _ _ _ => true | _ => false end) (snd x)
                        else []) l).
