(* Glue between the sx line format and the C03 account model (unverified, trusted, small). *)
From YV Require Import Common.Tac Common.Sx C03.C03Model C03.C03WorldModel C03.C03ChainModel.
Local Open Scope N_scope.

Definition n_at (s : sx) (i : nat) : N := sx_get_n (sx_nth s i).
Definition b_at (s : sx) (i : nat) : bool := sx_get_bool (sx_nth s i).
Definition opt_of {A} (f : sx -> A) (s : sx) : option A :=
  match sx_get_l s with [] => None | x :: _ => Some (f x) end.

Definition node_of (s : sx) : node := mkN (n_at s 0) (n_at s 1) (n_at s 2) (n_at s 3) (n_at s 4).
Definition pay_of (s : sx) : payload :=
  mkP (opt_of (fun d => (n_at d 0, n_at d 1)) (sx_nth s 0)) (opt_of sx_get_n (sx_nth s 1)).
Definition penc_of (s : sx) : penc :=
  mkPE (b_at s 0) (n_at s 1) (n_at s 2) (b_at s 3) (b_at s 4) (pay_of (sx_nth s 5)).
Definition senc_of (s : sx) : senc := mkSE (n_at s 0) (b_at s 1) (n_at s 2).
Definition inmsg_of (s : sx) : inmsg :=
  mkI (n_at s 0) (opt_of sx_get_n (sx_nth s 1)) (n_at s 2) (n_at s 3) (n_at s 4)
      (opt_of penc_of (sx_nth s 5)) (opt_of senc_of (sx_nth s 6)).

Definition input_of (s : sx) : input :=
  match n_at s 0 with
  | 0 => IAppSend (node_of (sx_nth s 1))
  | 1 => IKeys (n_at s 1) (map (fun u => (n_at u 0, n_at u 1)) (sx_get_l (sx_nth s 2)))
  | 2 => IGroupInfo (n_at s 1) (map sx_get_n (sx_get_l (sx_nth s 2)))
  | 3 => IMsg (inmsg_of (sx_nth s 1))
  | 4 => IReceipt (n_at s 1) (opt_of sx_get_n (sx_nth s 2)) (n_at s 3) (opt_of sx_get_n (sx_nth s 4))
  | _ => IRestart
  end.

Definition sx_on (o : option N) : sx := sx_opt SN o.
Definition sx_pay (p : payload) : sx :=
  SL [sx_opt (fun d => SL [SN (fst d); SN (snd d)]) (p_skdm p); sx_on (p_content p)].
Definition sx_node (nd : node) : sx := SL [SN (n_id nd); SN (n_to nd); SN (n_ty nd); SN (n_mt nd); SN (n_content nd)].

Definition sx_oenc (e : oenc) : sx :=
  match e with
  | OEP f pk to sid n pay mt => SL [SN 0; sx_on f; sx_bool pk; SN to; SN sid; SN n; sx_pay pay; SN mt]
  | OES it c mt => SL [SN 1; SN it; SN c; SN mt]
  end.

Definition sx_output (o : output) : sx :=
  match o with
  | OGetKeys iq js => SL [SN 0; SN iq; SL (map SN js)]
  | OGroupInfo iq g => SL [SN 1; SN iq; SN g]
  | OMsg to m ty part encs => SL [SN 2; SN to; SN m; SN ty; sx_on part; SL (map sx_oenc encs)]
  | OPlain nd => SL [SN 3; sx_node nd]
  | OReceipt to part m => SL [SN 4; SN to; sx_on part; SN m]
  | ORetry to part m cnt => SL [SN 5; SN to; sx_on part; SN m; SN cnt]
  | OErr c => SL [SN 6; SN c]
  | ODeliver f part m ty mt c => SL [SN 7; SN f; sx_on part; SN m; SN ty; SN mt; sx_on c]
  | OTopReceipt f part m r => SL [SN 8; SN f; sx_on part; SN m; sx_bool r]
  end.

(* where the chain IN USE for a (group, sender) stands: python-axolotl's chain iteration of the record's first state
   = the start the first distribution message gave it, moved past every iteration decrypted since *)
Definition head_next (k : skstate) : N := fold_left N.max (map (fun i => i + 1) (k_seen k)) (k_start k).

Definition sx_state (a : acct) : sx :=
  SL [SL (map (fun p => SL [SN (fst p); SL (map (fun s => SN (s_sid s)) (snd p))]) (a_sess a));
      SL (map (fun p => SL [SN (fst p); SN (snd p)]) (a_skown a));
      SN (N.of_nat (length (a_sentq a)));
      (* (pairkey group sender, position of the chain in use, number of states stored) *)
      SL (concat (map (fun p => match snd p with
                                | [] => []
                                | k :: _ => [SL [SN (fst p); SN (head_next k); SN (N.of_nat (length (snd p)))]]
                                end) (a_skpeer a)))].

Fixpoint run_sx (a : acct) (ins : list input) : list sx :=
  match ins with
  | [] => []
  | i :: r => let '(a1, o) := step a i in SL [SL (map sx_output o); sx_state a1] :: run_sx a1 r
  end.

(* arg: (N me  N guard  (input ...)) -> ( ((output ...) state) ... ) one entry per input *)
Definition run_account (arg : sx) : sx :=
  SL (run_sx (init (n_at arg 0) (b_at arg 1)) (map input_of (sx_get_l (sx_nth arg 2)))).

(* ---- the world model: (groups jids actions) -> ((account (output ...)) ...) one entry per action ---- *)
Definition action_of (s : sx) : waction :=
  match n_at s 0 with
  | 0 => WSend (n_at s 1) (node_of (sx_nth s 2))
  | 1 => WDeliver (N.to_nat (n_at s 1))
  | 2 => WDup (N.to_nat (n_at s 1))
  | 3 => WCorrupt (N.to_nat (n_at s 1)) (b_at s 2)
  | _ => WRestart (n_at s 1)
  end.

Definition run_world (arg : sx) : sx :=
  let groups := map (fun g => (n_at g 0, map sx_get_n (sx_get_l (sx_nth g 1)))) (sx_get_l (sx_nth arg 0)) in
  let jids := map sx_get_n (sx_get_l (sx_nth arg 1)) in
  let acts := map action_of (sx_get_l (sx_nth arg 2)) in
  let '(w, outs) := wrun groups (winit jids) acts in
  SL [SL (map (fun x => SL [SN (fst x); SL (map sx_output (snd x))]) outs); SN (N.of_nat (length (w_queue w)))].

(* DIAGNOSIS ONLY: the same world with the memoised distribution message (C03ChainModel.pos_cached, refuted by
   C03_chain_cached_position_refuted).  When the world model and the code disagree, the harness asks whether the code
   behaves like this variant and says so in the replay record. *)
Definition run_world_cached (arg : sx) : sx :=
  let groups := map (fun g => (n_at g 0, map sx_get_n (sx_get_l (sx_nth g 1)))) (sx_get_l (sx_nth arg 0)) in
  let jids := map sx_get_n (sx_get_l (sx_nth arg 1)) in
  let acts := map action_of (sx_get_l (sx_nth arg 2)) in
  let '(w, outs) := wrun_v pos_cached groups (winit jids) acts in
  SL [SL (map (fun x => SL [SN (fst x); SL (map sx_output (snd x))]) outs); SN (N.of_nat (length (w_queue w)))].
