(* C03 - a sender-key distribution message carries the chain position AT ITS CREATION.  Proofs.

   Sender (any state, any input):        a distribution message built by a step from state a names iteration
                                         own_iter a g = the number of group messages a has encrypted for g so far, and
                                         a sender-key ciphertext built by that step has exactly that iteration
                                         (chain_step_thm); own_iter counts the sender-key stanzas (chain_counts_thm),
                                         so everything emitted earlier lies strictly below (emitted_below_position_thm).
   Receiver (any state, any history):    a sender-key ciphertext whose iteration lies below the start of the chain
                                         in use is never shown, whatever happens before it arrives
                                         (below_chain_start_never_shown_thm); a recipient without a chain that reads a
                                         distribution message (g, it) starts its chain at it (late_key_chain_start_thm).
   Together (late_key_no_redelivery_thm): a member that obtains the sender key LATE - through the re-encryption that
                                         answers its retry receipt - can never be shown any group stanza the sender
                                         encrypted before that answer; an intact copy of one is re-acknowledged only.
   The memoised variant (C03ChainModel.pos_cached: position 0 whatever has been sent) is refuted on the concrete
   late-key world history: the copy of the original stanza is shown again (cached_position_refuted). *)
From YV Require Import Common.Tac C03.C03Model C03.C03Proofs C03.C03WorldModel C03.C03ChainModel.
Local Open Scope N_scope.

(* =====================================================================================================
   0. The parametrised send path at pos_fresh IS the model. *)
Lemma sgws_v_fresh a nd js r : sgws_v pos_fresh a nd js r = send_to_group_with_sessions a nd js r.
Proof. reflexivity. Qed.

Lemma step_v_fresh a i : step_v pos_fresh a i = step a i.
Proof. destruct i; reflexivity. Qed.

Lemma feed_v_fresh groups w r i : feed_v pos_fresh groups w r i = feed groups w r i.
Proof. unfold feed_v, feed. destruct (lookup r (w_accts w)); [rewrite step_v_fresh|]; reflexivity. Qed.

Lemma wstep_v_fresh groups w act : wstep_v pos_fresh groups w act = wstep groups w act.
Proof.
  destruct act; cbn [wstep_v wstep]; rewrite ?feed_v_fresh; try reflexivity;
    destruct (nth_error (w_queue w) k) as [[r i]|]; rewrite ?feed_v_fresh; reflexivity.
Qed.

Theorem wrun_v_fresh_thm : forall groups acts w, wrun_v pos_fresh groups w acts = wrun groups w acts.
Proof.
  intros groups acts. induction acts as [|a r IH]; intros w; cbn [wrun_v wrun]; [reflexivity|].
  rewrite wstep_v_fresh. destruct (wstep groups w a) as [w1 o]. rewrite IH. reflexivity.
Qed.

(* =====================================================================================================
   1. Sender side. *)
Definition is_oep (e : oenc) : bool := match e with OEP _ _ _ _ _ _ _ => true | OES _ _ _ => false end.
Definition has_sk (encs : list oenc) : bool := existsb (fun e => negb (is_oep e)) encs.

(* a stanza to group g that carries a sender-key ciphertext = one group message encrypted *)
Definition is_sk_to (g : N) (o : output) : bool :=
  match o with OMsg to _ _ _ encs => (to =? g) && has_sk encs | _ => false end.

(* what a stanza emitted by a step from state a says about chain positions: every distribution message names the
   stanza's group and a's current position there; a sender-key ciphertext has exactly that iteration *)
Definition enc_chain_ok (a : acct) (to : N) (e : oenc) : Prop :=
  match e with
  | OEP _ _ _ _ _ pay _ => forall g it, p_skdm pay = Some (g, it) -> g = to /\ it = own_iter a to
  | OES it _ _ => it = own_iter a to
  end.

Definition out_chain_ok (a : acct) (o : output) : Prop :=
  match o with OMsg to _ _ _ encs => Forall (enc_chain_ok a to) encs | _ => True end.

(* state before, state after, outputs of a piece of code *)
Definition chain_rel (a a' : acct) (os : list output) : Prop :=
  (forall g, own_iter a' g = own_iter a g + N.of_nat (count (is_sk_to g) os)) /\ Forall (out_chain_ok a) os.

Definition quiet (os : list output) : Prop := forall o, In o os -> is_msg o = false.

Lemma quiet_count g os : quiet os -> count (is_sk_to g) os = 0%nat.
Proof.
  unfold count. induction os as [|o r IH]; intros H; [reflexivity|].
  cbn [filter]. assert (Ho : is_sk_to g o = false).
  { pose proof (H o (or_introl eq_refl)) as Hm. destruct o; try reflexivity. discriminate. }
  rewrite Ho. apply IH. intros x Hx. apply H. right. exact Hx.
Qed.

Lemma quiet_ok a os : quiet os -> Forall (out_chain_ok a) os.
Proof.
  intros H. apply Forall_forall. intros o Ho. specialize (H o Ho). destruct o; try exact I. discriminate.
Qed.

Lemma chain_rel_quiet a a' os : a_skown a' = a_skown a -> quiet os -> chain_rel a a' os.
Proof.
  intros Hs Hq. split; [|apply quiet_ok; exact Hq].
  intros g. rewrite quiet_count by exact Hq. unfold own_iter. rewrite Hs. lia.
Qed.

Lemma quiet_nil : quiet []. Proof. intros o []. Qed.
Lemma quiet_app l1 l2 : quiet l1 -> quiet l2 -> quiet (l1 ++ l2).
Proof. intros H1 H2 o Ho. apply in_app_or in Ho. destruct Ho; auto. Qed.

(* ---- a_skown is touched by send_to_group_with_sessions only ---- *)
Lemma skown_send_enc a nd es p : a_skown (fst (send_enc_entities a nd es p)) = a_skown a.
Proof. unfold send_enc_entities. destruct p; reflexivity. Qed.

Lemma skown_encrypt a c a1 x : encrypt a c = Some (a1, x) -> a_skown a1 = a_skown a.
Proof. unfold encrypt. destruct (record_of a c); [discriminate|]. intros H. injection H as <- _. reflexivity. Qed.

Lemma skown_send_to_contact a nd : a_skown (fst (send_to_contact a nd)) = a_skown a.
Proof.
  unfold send_to_contact. destruct (encrypt a (n_to nd)) as [[a1 [[pk sid] n]]|] eqn:E; [|reflexivity].
  rewrite skown_send_enc. eapply skown_encrypt; eauto.
Qed.

Lemma skown_enc_for_jids js : forall a pay mt d, a_skown (fst (enc_for_jids a js pay mt d)) = a_skown a.
Proof.
  induction js as [|j r IH]; intros a pay mt d; cbn [enc_for_jids]; [reflexivity|].
  destruct (encrypt a j) as [[a1 [[pk sid] n]]|] eqn:E; [|apply IH].
  specialize (IH a1 pay mt d). destruct (enc_for_jids a1 r pay mt d) as [a2 es]. cbn [fst] in *.
  rewrite IH. eapply skown_encrypt; eauto.
Qed.

Lemma skown_decrypt_pw a c e : a_skown (fst (decrypt_pw a c e)) = a_skown a.
Proof.
  unfold decrypt_pw. destruct (pe_pk e).
  - destruct (negb _ && negb _); [reflexivity|].
    destruct (decrypt_record _ e) as [[r'|] res]; reflexivity.
  - destruct (record_of a c); [reflexivity|].
    destruct (decrypt_record _ e) as [[r'|] res]; reflexivity.
Qed.

Lemma skown_decrypt_sk a g s e : a_skown (fst (decrypt_sk a g s e)) = a_skown a.
Proof.
  unfold decrypt_sk. destruct (lookup (pairkey g s) (a_skpeer a)) as [[|k older]|]; try reflexivity.
  destruct (se_corrupt e); [reflexivity|]. destruct (_ || _); reflexivity.
Qed.

Lemma skown_on_exception a im r : a_skown (fst (on_exception a im r)) = a_skown a.
Proof. unfold on_exception, bump_retry. destruct r; reflexivity. Qed.

Lemma skown_handle_sk a im a' o b r : handle_sk a im = (a', o, b, r) -> a_skown a' = a_skown a.
Proof.
  unfold handle_sk. destruct (i_sk im) as [e|]; [|intros H; injection H as <- _ _ _; reflexivity].
  pose proof (skown_decrypt_sk a (i_from im) (sender_of im) e) as Hd.
  destruct (decrypt_sk a (i_from im) (sender_of im) e) as [a1 res]. cbn [fst] in Hd.
  destruct res; unfold bump_retry; intros H; injection H as <- _ _ _; cbn; congruence.
Qed.

Lemma skown_handle_enc a im : a_skown (fst (handle_enc a im)) = a_skown a.
Proof.
  unfold handle_enc. destruct (i_pw im) as [e|].
  - pose proof (skown_decrypt_pw a (sender_of im) e) as Hd.
    destruct (decrypt_pw a (sender_of im) e) as [a1 res]. cbn [fst] in Hd.
    destruct res; try (rewrite skown_on_exception; exact Hd).
    set (a2 := match p_skdm p with Some d => process_skdm a1 (sender_of im) d | None => a1 end).
    assert (H2 : a_skown a2 = a_skown a1).
    { unfold a2. destruct (p_skdm p) as [[g it]|]; reflexivity. }
    destruct (handle_sk a2 im) as [[[a3 o] b] r] eqn:H. apply skown_handle_sk in H.
    destruct b.
    + pose proof (skown_on_exception a3 im r) as He. destruct (on_exception a3 im r) as [a4 o2].
      cbn [fst] in *. congruence.
    + cbn. congruence.
  - destruct (handle_sk a im) as [[[a3 o] b] r] eqn:H. apply skown_handle_sk in H.
    destruct b.
    + pose proof (skown_on_exception a3 im r) as He. destruct (on_exception a3 im r) as [a4 o2].
      cbn [fst] in *. congruence.
    + cbn. congruence.
Qed.

Lemma skown_process_pending l : forall a, a_skown (fst (process_pending a l)) = a_skown a.
Proof.
  induction l as [|im l IH]; intros a; cbn [process_pending]; [reflexivity|].
  pose proof (skown_handle_enc a im) as H1. destruct (handle_enc a im) as [a1 o1].
  pose proof (IH a1) as H2. destruct (process_pending a1 l) as [a2 o2]. cbn [fst] in *. congruence.
Qed.

Lemma skown_create_sessions js : forall a res, a_skown (fst (create_sessions a js res)) = a_skown a.
Proof.
  induction js as [|j r IH]; intros a res; cbn [create_sessions]; [reflexivity|].
  destruct (lookup j res) as [sid|].
  - specialize (IH (create_session a j sid) res). destruct (create_sessions _ r res) as [a1 ok]. exact IH.
  - specialize (IH (set_skip a (a_skip a ++ [j])) res). destruct (create_sessions _ r res) as [a1 ok]. exact IH.
Qed.

(* ---- the receive side and the bookkeeping emit no message stanza ---- *)
Lemma quiet_dispatch a im p : quiet (dispatch_up a im p).
Proof.
  unfold dispatch_up. intros o H. apply in_app_or in H. destruct H as [H | H].
  - destruct (i_mt im =? 0); [|destruct H].
    destruct (p_content p).
    + destruct (i_ty im =? 0); [|destruct H]. cbn [In] in H. intuition (subst; reflexivity).
    + destruct (p_skdm p); cbn [In] in H; intuition (subst; reflexivity).
  - destruct ((i_ty im =? 1) && negb (i_mt im =? 0)); [|destruct H].
    destruct (p_content p), (p_skdm p); try destruct (a_guard a); cbn [In] in H; intuition (subst; reflexivity).
Qed.

Lemma quiet_on_exception a im r : quiet (snd (on_exception a im r)).
Proof.
  unfold on_exception, bump_retry, get_keys. destruct r; cbn [snd]; intros o H; cbn [In] in H;
    intuition (subst; reflexivity).
Qed.

Lemma quiet_handle_sk a im a' o b r : handle_sk a im = (a', o, b, r) -> quiet o.
Proof.
  unfold handle_sk. destruct (i_sk im) as [e|].
  2:{ intros H. injection H as <- <- <- <-. apply quiet_nil. }
  destruct (decrypt_sk a (i_from im) (sender_of im) e) as [a1 res]. destruct res.
  - intros H. injection H as <- <- <- <-. apply quiet_dispatch.
  - destruct (bump_retry a1 (i_id im)) as [a2 c]. intros H. injection H as <- <- <- <-.
    intros x [Hx | []]. subst. reflexivity.
  - intros H. injection H as <- <- <- <-. apply quiet_nil.
  - intros H. injection H as <- <- <- <-. apply quiet_nil.
  - intros H. injection H as <- <- <- <-. apply quiet_nil.
Qed.

Lemma quiet_handle_enc a im : quiet (snd (handle_enc a im)).
Proof.
  unfold handle_enc. destruct (i_pw im) as [e|].
  - destruct (decrypt_pw a (sender_of im) e) as [a1 res]. destruct res; try apply quiet_on_exception.
    set (a2 := match p_skdm p with Some d => process_skdm a1 (sender_of im) d | None => a1 end).
    destruct (handle_sk a2 im) as [[[a3 o] b] r] eqn:H.
    pose proof (quiet_handle_sk _ _ _ _ _ _ H) as Hs.
    destruct b.
    + pose proof (quiet_on_exception a3 im r) as He. destruct (on_exception a3 im r) as [a4 o2].
      cbn [snd] in *. apply quiet_app; [apply quiet_dispatch | apply quiet_app; assumption].
    + cbn [snd]. apply quiet_app; [apply quiet_dispatch | assumption].
  - destruct (handle_sk a im) as [[[a3 o] b] r] eqn:H.
    pose proof (quiet_handle_sk _ _ _ _ _ _ H) as Hs.
    destruct b; cbn [snd]; auto.
    pose proof (quiet_on_exception a3 im r) as He. destruct (on_exception a3 im r) as [a4 o2].
    cbn [snd] in *. apply quiet_app; assumption.
Qed.

Lemma quiet_process_pending l : forall a, quiet (snd (process_pending a l)).
Proof.
  induction l as [|im l IH]; intros a; cbn [process_pending]; [apply quiet_nil|].
  pose proof (quiet_handle_enc a im) as H1. destruct (handle_enc a im) as [a1 o1].
  pose proof (IH a1) as H2. destruct (process_pending a1 l) as [a2 o2]. cbn [snd] in *.
  apply quiet_app; assumption.
Qed.

Lemma quiet_get_keys a js k : quiet (snd (get_keys a js k)).
Proof. intros o [H | []]. subst. reflexivity. Qed.

Lemma quiet_on_receipt a f p m r : quiet (snd (on_receipt a f p m r)).
Proof.
  unfold on_receipt. destruct (take_sent m _ (a_sentq a)) as [[nd|] q'].
  - destruct r; [apply quiet_get_keys|]. intros o [H | []]. subst. reflexivity.
  - intros o [H | []]. subst. reflexivity.
Qed.

(* ---- the per-participant ciphertexts: all pairwise, all with the payload handed in ---- *)
Lemma enc_for_jids_shape js : forall a pay mt d e,
  In e (snd (enc_for_jids a js pay mt d)) -> exists f pk j sid n, e = OEP f pk j sid n pay mt.
Proof.
  induction js as [|j r IH]; intros a pay mt d e; cbn [enc_for_jids]; [intros []|].
  destruct (encrypt a j) as [[a1 [[pk sid] n]]|]; [|apply IH].
  specialize (IH a1 pay mt d e). destruct (enc_for_jids a1 r pay mt d) as [a2 es]. cbn [snd] in *.
  intros [H | H]; [subst e; eauto 6 | auto].
Qed.

Lemma has_sk_pairwise es :
  (forall e, In e es -> is_oep e = true) -> has_sk es = false.
Proof.
  unfold has_sk. induction es as [|e r IH]; intros H; [reflexivity|]. cbn [existsb].
  rewrite (H e (or_introl eq_refl)). cbn [negb orb]. apply IH. intros x Hx. apply H. right. exact Hx.
Qed.

Lemma has_sk_snoc es it c mt : has_sk (es ++ [OES it c mt]) = true.
Proof. unfold has_sk. rewrite existsb_app. cbn. apply orb_true_r. Qed.

Lemma own_iter_upd a g v g' :
  own_iter (set_skown a (upd g v (a_skown a))) g' = if g =? g' then v else own_iter a g'.
Proof. unfold own_iter. cbn [a_skown set_skown]. rewrite lookup_upd. destruct (g =? g'); reflexivity. Qed.

Lemma chain_rel_send_enc a a1 nd es part :
  (forall g', own_iter a1 g' = own_iter a g' + (if (n_to nd =? g') && has_sk es then 1 else 0)) ->
  Forall (enc_chain_ok a (n_to nd)) es ->
  chain_rel a (fst (send_enc_entities a1 nd es part)) (snd (send_enc_entities a1 nd es part)).
Proof.
  intros H Hok. split.
  - intros g'. unfold own_iter at 1. rewrite skown_send_enc. fold (own_iter a1 g'). rewrite H.
    unfold send_enc_entities. cbn [snd]. unfold count. cbn [filter is_sk_to].
    destruct ((n_to nd =? g') && has_sk es); cbn [length]; lia.
  - unfold send_enc_entities. cbn [snd]. constructor; [exact Hok | constructor].
Qed.

(* sendToGroupWithSessions *)
Lemma chain_rel_sgws a nd js r :
  chain_rel a (fst (send_to_group_with_sessions a nd js r)) (snd (send_to_group_with_sessions a nd js r)).
Proof.
  unfold send_to_group_with_sessions.
  set (g := n_to nd).
  set (a0 := match js with [] => a | _ => _ end).
  assert (H0 : forall g', own_iter a0 g' = own_iter a g').
  { intros g'. unfold a0. destruct js; [reflexivity|].
    destruct (lookup g (a_skown a)) eqn:L; [reflexivity|].
    rewrite own_iter_upd. destruct (g =? g') eqn:E; [|reflexivity].
    apply N.eqb_eq in E. subst g'. unfold own_iter. rewrite L. reflexivity. }
  set (it := match lookup g (a_skown a0) with Some i => i | None => 0 end).
  assert (Hit : it = own_iter a g). { rewrite <- H0. reflexivity. }
  set (pay := mkP (Some (g, it)) _).
  pose proof (skown_enc_for_jids js a0 pay (n_mt nd)) as Hk.
  pose proof (enc_for_jids_shape js a0 pay (n_mt nd)) as Hs.
  match goal with |- context [enc_for_jids a0 js pay (n_mt nd) ?d] => specialize (Hk d); specialize (Hs d);
    destruct (enc_for_jids a0 js pay (n_mt nd) d) as [a1 es] end.
  cbn [fst snd] in Hk, Hs.
  assert (Hp : has_sk es = false).
  { apply has_sk_pairwise. intros e He. destruct (Hs e He) as [f [pk [j [sid [n ->]]]]]. reflexivity. }
  assert (Hok : Forall (enc_chain_ok a g) es).
  { apply Forall_forall. intros e He. destruct (Hs e He) as [f [pk [j [sid [n ->]]]]].
    cbn [enc_chain_ok]. unfold pay. cbn [p_skdm]. intros g1 it1 Hd. apply Some_inj in Hd. apply pair_inj in Hd.
    destruct Hd as [<- <-]. split; [reflexivity | exact Hit]. }
  assert (Hown1 : forall g', own_iter a1 g' = own_iter a g').
  { intros g'. rewrite <- H0. unfold own_iter. rewrite Hk. reflexivity. }
  destruct (0 <? r).
  - apply chain_rel_send_enc; [|exact Hok].
    intros g'. rewrite Hp, andb_false_r, Hown1. lia.
  - destruct (lookup g (a_skown a1)) as [i|] eqn:L.
    + assert (Hi : i = own_iter a g). { rewrite <- Hown1. unfold own_iter. rewrite L. reflexivity. }
      apply chain_rel_send_enc.
      * intros g'. rewrite has_sk_snoc, andb_true_r, own_iter_upd. fold g.
        destruct (g =? g') eqn:E; [apply N.eqb_eq in E; subst g'; lia | rewrite Hown1; lia].
      * apply Forall_app. split; [exact Hok|]. constructor; [|constructor]. cbn [enc_chain_ok]. exact Hi.
    + cbn [fst snd]. split; [|constructor]. intros g'. cbn. rewrite Hown1. lia.
Qed.

(* what a stanza built by sendToGroupWithSessions looks like: every pairwise ciphertext carries the distribution
   message (group, CURRENT position) *)
Lemma sgws_carries_position a nd js r to m ty part encs f pk j sid n pay mt :
  In (OMsg to m ty part encs) (snd (send_to_group_with_sessions a nd js r)) ->
  In (OEP f pk j sid n pay mt) encs ->
  to = n_to nd /\ p_skdm pay = Some (n_to nd, own_iter a (n_to nd)).
Proof.
  unfold send_to_group_with_sessions.
  set (g := n_to nd).
  set (a0 := match js with [] => a | _ => _ end).
  assert (H0 : own_iter a0 g = own_iter a g).
  { unfold a0. destruct js; [reflexivity|].
    destruct (lookup g (a_skown a)) eqn:L; [reflexivity|].
    rewrite own_iter_upd, N.eqb_refl. unfold own_iter. rewrite L. reflexivity. }
  set (it := match lookup g (a_skown a0) with Some i => i | None => 0 end).
  assert (Hit : it = own_iter a g). { rewrite <- H0. reflexivity. }
  set (pay0 := mkP (Some (g, it)) _).
  pose proof (enc_for_jids_shape js a0 pay0 (n_mt nd)) as Hs.
  match goal with |- context [enc_for_jids a0 js pay0 (n_mt nd) ?d] => specialize (Hs d);
    destruct (enc_for_jids a0 js pay0 (n_mt nd) d) as [a1 es] end.
  cbn [snd] in Hs.
  assert (Hes : forall es', (forall e, In e es' -> In e es \/ is_oep e = false) ->
                In (OEP f pk j sid n pay mt) es' -> p_skdm pay = Some (g, own_iter a g)).
  { intros es' Hsub Hin. destruct (Hsub _ Hin) as [He | He]; [|discriminate].
    destruct (Hs _ He) as [f' [pk' [j' [sid' [n' Heq]]]]]. injection Heq as _ _ _ _ _ -> _.
    unfold pay0. cbn [p_skdm]. rewrite Hit. reflexivity. }
  destruct (0 <? r).
  - unfold send_enc_entities. cbn [snd]. intros [Ho | []] Hin. injection Ho as <- _ _ _ <-.
    split; [reflexivity|]. apply (Hes es); [intros e He; left; exact He | exact Hin].
  - destruct (lookup g (a_skown a1)) as [i|]; [|intros []].
    unfold send_enc_entities. cbn [snd]. intros [Ho | []] Hin. injection Ho as <- _ _ _ <-.
    split; [reflexivity|]. apply (Hes (es ++ [OES i (n_content nd) (n_mt nd)])); [|exact Hin].
    intros e He. apply in_app_or in He. destruct He as [He | [<- | []]]; [left; exact He | right; reflexivity].
Qed.

Lemma chain_rel_same a a1 a' os : a_skown a1 = a_skown a -> chain_rel a1 a' os -> chain_rel a a' os.
Proof.
  intros Hs [H1 H2]. assert (Ho : forall g, own_iter a1 g = own_iter a g).
  { intros g. unfold own_iter. rewrite Hs. reflexivity. }
  split.
  - intros g. rewrite H1, Ho. reflexivity.
  - eapply Forall_impl; [|exact H2]. intros o. destruct o; try exact (fun x => x). cbn [out_chain_ok].
    intros Hf. eapply Forall_impl; [|exact Hf]. intros e. destruct e; cbn [enc_chain_ok]; rewrite Ho; exact (fun x => x).
Qed.

Lemma chain_rel_send_to_contact a nd : chain_rel a (fst (send_to_contact a nd)) (snd (send_to_contact a nd)).
Proof.
  unfold send_to_contact. destruct (encrypt a (n_to nd)) as [[a1 [[pk sid] n]]|] eqn:E.
  - apply chain_rel_send_enc.
    + intros g'. cbn [has_sk existsb is_oep negb orb]. rewrite andb_false_r. unfold own_iter.
      rewrite (skown_encrypt _ _ _ _ E). lia.
    + constructor; [|constructor]. cbn [enc_chain_ok p_skdm]. intros g it H. discriminate.
  - apply chain_rel_quiet; [reflexivity | apply quiet_nil].
Qed.

Lemma chain_rel_get_keys a js k : chain_rel a (fst (get_keys a js k)) (snd (get_keys a js k)).
Proof. apply chain_rel_quiet; [reflexivity | apply quiet_get_keys]. Qed.

Lemma chain_rel_plaintext_send a nd r : chain_rel a (fst (plaintext_send a nd r)) (snd (plaintext_send a nd r)).
Proof.
  unfold plaintext_send. destruct (is_group (n_to nd)).
  - unfold send_to_group. destruct (lookup (n_to nd) (a_skown a)).
    + destruct r as [[c cnt]|]; apply chain_rel_sgws.
    + apply chain_rel_quiet; [reflexivity|]. intros o [H | []]. subst. reflexivity.
  - destruct (session_exists a (n_to nd)); [apply chain_rel_send_to_contact | apply chain_rel_get_keys].
Qed.

Lemma chain_rel_keys_result a k js res : chain_rel a (fst (keys_result a k js res)) (snd (keys_result a k js res)).
Proof.
  unfold keys_result. pose proof (skown_create_sessions js a res) as H.
  destruct (create_sessions a js res) as [a1 ok]. cbn [fst] in H.
  apply (chain_rel_same a a1); [exact H|]. destruct k.
  - destruct ok as [|? [|? ?]]; try (apply chain_rel_quiet; [reflexivity | apply quiet_nil]).
    apply chain_rel_send_to_contact.
  - destruct ok as [|? [|? ?]]; try (apply chain_rel_quiet; [reflexivity | apply quiet_nil]).
    apply chain_rel_plaintext_send.
  - destruct ok; [apply chain_rel_quiet; [reflexivity | apply quiet_nil]|].
    destruct (filter _ (a_pend a1)) as [|[cv l] rest]; [apply chain_rel_quiet; [reflexivity | apply quiet_nil]|].
    pose proof (skown_process_pending l a1) as Hp. pose proof (quiet_process_pending l a1) as Hq.
    destruct (process_pending a1 l) as [a2 o2]. cbn [fst snd] in *.
    apply chain_rel_quiet; [exact Hp | exact Hq].
  - apply chain_rel_quiet; [reflexivity | apply quiet_nil].
  - apply chain_rel_sgws.
Qed.

Lemma skown_on_receipt a f p m r : a_skown (fst (on_receipt a f p m r)) = a_skown a.
Proof.
  unfold on_receipt. destruct (take_sent m _ (a_sentq a)) as [[nd|] q']; [|reflexivity]. destruct r; reflexivity.
Qed.

(* ANY state, ANY input: the distribution messages a step builds carry the sender's position at that moment, the
   sender-key ciphertext it builds (at most one) has that iteration, and the position advances by exactly the number
   of sender-key stanzas emitted *)
Theorem chain_step_thm : forall a i, chain_rel a (fst (step a i)) (snd (step a i)).
Proof.
  intros a i. destruct i; cbn [step].
  - unfold app_send. destruct (memN _ _).
    + apply chain_rel_quiet; [reflexivity|]. intros o [H | []]. subst. reflexivity.
    + apply chain_rel_plaintext_send.
  - destruct (lookup iq (a_iqs a)) as [[k js]|]; [|apply chain_rel_quiet; [reflexivity | apply quiet_nil]].
    eapply chain_rel_same; [|apply chain_rel_keys_result]. reflexivity.
  - destruct (lookup iq (a_iqs a)) as [[k js]|]; [|apply chain_rel_quiet; [reflexivity | apply quiet_nil]].
    destruct k; try (apply chain_rel_quiet; [reflexivity | apply quiet_nil]).
    unfold ensure_sessions_and_send.
    eapply chain_rel_same; [|destruct (filter _ _); [apply chain_rel_sgws | apply chain_rel_get_keys]]. reflexivity.
  - apply chain_rel_quiet; [apply skown_handle_enc | apply quiet_handle_enc].
  - apply chain_rel_quiet; [apply skown_on_receipt | apply quiet_on_receipt].
  - apply chain_rel_quiet; [reflexivity | apply quiet_nil].
Qed.

(* ---- runs ---- *)
Lemma run_cons a i r :
  fst (run a (i :: r)) = fst (run (fst (step a i)) r) /\
  trace a (i :: r) = snd (step a i) ++ trace (fst (step a i)) r.
Proof.
  unfold trace. cbn [run]. destruct (step a i) as [a1 o]. cbn [fst snd].
  destruct (run a1 r) as [a2 os]. split; reflexivity.
Qed.

(* the position IS the number of group messages encrypted so far *)
Theorem chain_counts_thm : forall ins a g,
  own_iter (fst (run a ins)) g = own_iter a g + N.of_nat (count (is_sk_to g) (trace a ins)).
Proof.
  induction ins as [|i r IH]; intros a g.
  - unfold trace. cbn. lia.
  - destruct (run_cons a i r) as [-> ->]. rewrite IH, count_app.
    destruct (chain_step_thm a i) as [H _]. rewrite H. lia.
Qed.

Lemma has_sk_in encs it c mt : In (OES it c mt) encs -> has_sk encs = true.
Proof. intros H. unfold has_sk. apply existsb_exists. exists (OES it c mt). split; [exact H | reflexivity]. Qed.

Lemma count_in f o os : In o os -> f o = true -> (1 <= count f os)%nat.
Proof.
  unfold count. induction os as [|x r IH]; intros [] Hf.
  - subst x. cbn [filter]. rewrite Hf. cbn. lia.
  - cbn [filter]. destruct (f x); cbn [length]; [specialize (IH H Hf); lia | auto].
Qed.

(* every sender-key ciphertext emitted during a run lies strictly below the position reached at its end (and not
   below the position at its start): iteration k-1 is the k-th group message *)
Theorem emitted_below_position_thm : forall ins a g m ty part encs it c mt,
  In (OMsg g m ty part encs) (trace a ins) -> In (OES it c mt) encs ->
  own_iter a g <= it /\ it < own_iter (fst (run a ins)) g.
Proof.
  induction ins as [|i r IH]; intros a g m ty part encs it c mt Ho He; [destruct Ho|].
  destruct (run_cons a i r) as [E1 E2]. rewrite E1. rewrite E2 in Ho.
  destruct (chain_step_thm a i) as [Hc Hok].
  pose proof (chain_counts_thm r (fst (step a i)) g) as Hr.
  apply in_app_or in Ho. destruct Ho as [Ho | Ho].
  - assert (Hit : it = own_iter a g).
    { rewrite Forall_forall in Hok. specialize (Hok _ Ho). cbn [out_chain_ok] in Hok.
      rewrite Forall_forall in Hok. exact (Hok _ He). }
    assert (H1 : (1 <= count (is_sk_to g) (snd (step a i)))%nat).
    { eapply count_in; [exact Ho|]. cbn [is_sk_to]. rewrite N.eqb_refl, (has_sk_in _ _ _ _ He). reflexivity. }
    specialize (Hc g). lia.
  - destruct (IH _ _ _ _ _ _ _ _ _ Ho He) as [H1 H2]. specialize (Hc g). lia.
Qed.

(* =====================================================================================================
   2. Receiver side. *)
Lemma chain_start_same a a' g s : a_skpeer a' = a_skpeer a -> chain_start a' g s = chain_start a g s.
Proof. intros H. unfold chain_start. rewrite H. reflexivity. Qed.

(* a sender-key ciphertext below the start of the chain in use: never shown, after any history; when it is intact
   it is re-acknowledged, nothing else (python-axolotl: "Received message with old counter" -> DuplicateMessage) *)
Theorem below_chain_start_never_shown_thm : forall b im e k older ins,
  i_pw im = None -> i_sk im = Some e ->
  lookup (pairkey (i_from im) (sender_of im)) (a_skpeer b) = Some (k :: older) -> se_iter e < k_start k ->
  count is_deliver (snd (handle_enc (fst (run b ins)) im)) = 0%nat /\
  (se_corrupt e = false ->
   snd (handle_enc (fst (run b ins)) im) = [OReceipt (i_from im) (i_part im) (i_id im)]).
Proof.
  intros b im e k older ins Hpw Hsk L Hlt.
  set (key := pairkey (i_from im) (sender_of im)) in *.
  assert (S1 : sk_seen b key (se_iter e)).
  { exists k, older. split; [exact L|]. apply orb_true_iff. left. apply N.ltb_lt. exact Hlt. }
  pose proof (Q_run ins b key (se_iter e) S1) as [k' [older' [L' M']]].
  set (b' := fst (run b ins)) in *.
  unfold handle_enc, handle_sk. rewrite Hpw, Hsk. unfold decrypt_sk. fold key. rewrite L'.
  destruct (se_corrupt e).
  - split; [reflexivity | discriminate].
  - rewrite M'. split; [reflexivity | intros _; reflexivity].
Qed.

Lemma chain_start_decrypt_sk a g0 s0 e g s x :
  chain_start a g s = Some x -> chain_start (fst (decrypt_sk a g0 s0 e)) g s = Some x.
Proof.
  intros H. unfold decrypt_sk. destruct (lookup (pairkey g0 s0) (a_skpeer a)) as [[|k older]|] eqn:L; try exact H.
  destruct (se_corrupt e); [exact H|]. destruct (_ || _); [exact H|]. cbn [fst].
  unfold chain_start in *. cbn [a_skpeer set_skpeer]. rewrite lookup_upd.
  destruct (pairkey g0 s0 =? pairkey g s) eqn:E; [|exact H].
  apply N.eqb_eq in E. rewrite E in L. rewrite L in H. exact H.
Qed.

Lemma chain_start_handle_sk a im a' o b r g s x :
  handle_sk a im = (a', o, b, r) -> chain_start a g s = Some x -> chain_start a' g s = Some x.
Proof.
  unfold handle_sk. destruct (i_sk im) as [e|]; [|intros H; injection H as <- _ _ _; auto].
  intros H Hc. pose proof (chain_start_decrypt_sk a (i_from im) (sender_of im) e g s x Hc) as Hd.
  destruct (decrypt_sk a (i_from im) (sender_of im) e) as [a1 res]. cbn [fst] in Hd.
  destruct res; unfold bump_retry in H; injection H as <- _ _ _; exact Hd.
Qed.

(* a recipient that has no chain for (g, s) and reads a stanza whose pairwise ciphertext carries the distribution
   message (g, it): its chain for (g, s) starts at it *)
Theorem late_key_chain_start_thm : forall b im e b1 p g s it,
  chain_start b g s = None ->
  i_from im = g -> sender_of im = s -> i_pw im = Some e ->
  decrypt_pw b s e = (b1, DOk p) -> p_skdm p = Some (g, it) ->
  chain_start (fst (handle_enc b im)) g s = Some it.
Proof.
  intros b im e b1 p g s it Hn Hg Hs Hpw D Hd.
  pose proof (skpeer_decrypt_pw b s e) as Hk. rewrite D in Hk. cbn [fst] in Hk.
  unfold handle_enc. rewrite Hpw, Hs, D, Hd.
  assert (H2 : chain_start (process_skdm b1 s (g, it)) g s = Some it).
  { unfold process_skdm, chain_start in *. cbn [a_skpeer set_skpeer]. rewrite lookup_upd, N.eqb_refl.
    rewrite Hk. destruct (lookup (pairkey g s) (a_skpeer b)) as [[|k0 o0]|]; try discriminate; reflexivity. }
  destruct (handle_sk (process_skdm b1 s (g, it)) im) as [[[a3 o] bb] r] eqn:H.
  pose proof (chain_start_handle_sk _ _ _ _ _ _ g s it H H2) as H3.
  destruct bb.
  - pose proof (skpeer_on_exception a3 im r) as He. destruct (on_exception a3 im r) as [a4 o2].
    cbn [fst] in *. rewrite (chain_start_same a3 a4 g s He). exact H3.
  - cbn [fst]. exact H3.
Qed.

(* =====================================================================================================
   3. Together: the late key.  The sender: ANY state a0, ANY history ins_s, then (state a) it answers c's retry
   receipt for nd with the directed re-encryption.  The old stanza: ANY sender-key ciphertext of ANY stanza to that
   group the sender emitted during ins_s.  The receiver: ANY state b without a chain for (g, s) that reads the
   re-encryption; then ANY further history ins_r.  A stanza carrying the old ciphertext is never shown; if it is
   intact (a duplicate delivery of the original) it is answered with exactly a delivery receipt. *)
Theorem late_key_no_redelivery_thm :
  forall a0 ins_s nd c cnt to m ty part encs f pk j sid n pay mt,
    In (OMsg to m ty part encs) (snd (send_to_group_with_sessions (fst (run a0 ins_s)) nd [c] cnt)) ->
    In (OEP f pk j sid n pay mt) encs ->
  forall m' ty' part' encs' it0 c0 mt0,
    In (OMsg (n_to nd) m' ty' part' encs') (trace a0 ins_s) -> In (OES it0 c0 mt0) encs' ->
  forall b s im e b1 p,
    chain_start b (n_to nd) s = None ->
    i_from im = n_to nd -> sender_of im = s -> i_pw im = Some e -> pe_pay e = pay ->
    decrypt_pw b s e = (b1, DOk p) ->
  forall ins_r im_old eo,
    i_from im_old = n_to nd -> sender_of im_old = s -> i_pw im_old = None -> i_sk im_old = Some eo ->
    se_iter eo = it0 ->
    count is_deliver (snd (handle_enc (fst (run (fst (handle_enc b im)) ins_r)) im_old)) = 0%nat /\
    (se_corrupt eo = false ->
     snd (handle_enc (fst (run (fst (handle_enc b im)) ins_r)) im_old) =
     [OReceipt (i_from im_old) (i_part im_old) (i_id im_old)]).
Proof.
  intros a0 ins_s nd c cnt to m ty part encs f pk j sid n pay mt Ho He
         m' ty' part' encs' it0 c0 mt0 Ho' He' b s im e b1 p Hn Hg Hs Hpw Hpay D
         ins_r im_old eo Hg' Hs' Hpw' Hsk' Hit.
  set (a := fst (run a0 ins_s)) in *. set (g := n_to nd) in *.
  destruct (sgws_carries_position _ _ _ _ _ _ _ _ _ _ _ _ _ _ _ _ Ho He) as [_ Hd].
  destruct (emitted_below_position_thm _ _ _ _ _ _ _ _ _ _ Ho' He') as [_ Hlt]. fold a in Hlt.
  destruct (decrypt_pw_payload _ _ _ _ _ D) as [Hp _]. rewrite Hpay in Hp. subst p.
  pose proof (late_key_chain_start_thm b im e b1 pay g s (own_iter a g) Hn Hg Hs Hpw D Hd) as Hcs.
  set (b2 := fst (handle_enc b im)) in *.
  unfold chain_start in Hcs.
  destruct (lookup (pairkey g s) (a_skpeer b2)) as [[|k older]|] eqn:L; try discriminate.
  apply Some_inj in Hcs.
  apply (below_chain_start_never_shown_thm b2 im_old eo k older ins_r Hpw' Hsk').
  - rewrite Hg', Hs'. exact L.
  - rewrite Hit, Hcs. exact Hlt.
Qed.

(* =====================================================================================================
   4. The concrete late-key history, computed in the world model (C03ChainModel.lk_acts): non-vacuity for the code as
   it is, refutation for the memoised distribution message. *)
Definition d1 : output := ODeliver 0 None 1 0 0 (Some 1).
Definition d3 : output := ODeliver 1000 (Some 0) 3 0 0 (Some 3).
Definition d4 : output := ODeliver 1000 (Some 0) 4 0 0 (Some 4).
Definition r3 : output := OReceipt 1000 (Some 0) 3.

(* the code as it is: account 1 is shown message 3 once; the late copy of the original stanza (action #15, resp.
   #23 after further group traffic) is answered with exactly a delivery receipt; the server queue drains *)
Example late_key_history_example :
  shown_to 1 (snd (wrun lk_groups (winit [0; 1; 2]) lk_acts)) = [d1; d3] /\
  nth_error (snd (wrun lk_groups (winit [0; 1; 2]) lk_acts)) 15 = Some (1, [r3]) /\
  w_queue (fst (wrun lk_groups (winit [0; 1; 2]) lk_acts)) = [] /\
  shown_to 1 (snd (wrun lk_groups (winit [0; 1; 2]) lk_acts_traffic)) = [d1; d3; d4] /\
  nth_error (snd (wrun lk_groups (winit [0; 1; 2]) lk_acts_traffic)) 23 = Some (1, [r3]) /\
  w_queue (fst (wrun lk_groups (winit [0; 1; 2]) lk_acts_traffic)) = [].
Proof. vm_compute. repeat split; reflexivity. Qed.

(* the memoised distribution message (position 0 whatever has been sent): on the SAME histories the late copy is
   shown to account 1's application a second time - right after the retried delivery, and after further traffic *)
Theorem cached_position_refuted :
  shown_to 1 (snd (wrun_v pos_cached lk_groups (winit [0; 1; 2]) lk_acts)) = [d1; d3; d3] /\
  nth_error (snd (wrun_v pos_cached lk_groups (winit [0; 1; 2]) lk_acts)) 15 = Some (1, [d3; r3]) /\
  shown_to 1 (snd (wrun_v pos_cached lk_groups (winit [0; 1; 2]) lk_acts_traffic)) = [d1; d3; d4; d3] /\
  nth_error (snd (wrun_v pos_cached lk_groups (winit [0; 1; 2]) lk_acts_traffic)) 23 = Some (1, [d3; r3]).
Proof. vm_compute. repeat split; reflexivity. Qed.

(* ... and the general statement fails for it: there is a sender history after which the memoised distribution message
   names a position BELOW a sender-key ciphertext already emitted (so late_key_no_redelivery's chain of inequalities
   has no counterpart) *)
Theorem cached_position_below_emitted_refuted :
  exists a0 ins g m ty part encs it c mt,
    In (OMsg g m ty part encs) (trace a0 ins) /\ In (OES it c mt) encs /\
    ~ (it < pos_cached (fst (run a0 ins)) g).
Proof.
  exists (init 0 true), [IAppSend (mkN 3 1000 0 0 3); IGroupInfo 0 [0; 1]; IKeys 1 [(1, 50)]],
         1000, 3, 0, None, [OEP (Some 1) true 1 50 0 (mkP (Some (1000, 0)) None) 0; OES 0 3 0], 0, 3, 0.
  split; [vm_compute; auto|]. split; [right; left; reflexivity|]. unfold pos_cached. lia.
Qed.
