(* C03 - proofs about the account machine of C03Model.v (all for arbitrary states / arbitrary input sequences). *)
From YV Require Import Common.Tac C03.C03Model.
Local Open Scope N_scope.

(* ---------- association lists ---------- *)
Lemma lookup_remove_other {A} k k0 (l : list (N * A)) : k <> k0 -> lookup k0 (remove_key k l) = lookup k0 l.
Proof.
  intros Hne. induction l as [|[k' v] l IH]; cbn [remove_key lookup]; auto.
  destruct (k' =? k) eqn:E.
  - apply N.eqb_eq in E. subst k'. destruct (k =? k0) eqn:E2; auto. apply N.eqb_eq in E2. congruence.
  - cbn [lookup]. destruct (k' =? k0); auto.
Qed.

Lemma lookup_upd {A} k k0 (v : A) l :
  lookup k0 (upd k v l) = if k =? k0 then Some v else lookup k0 l.
Proof.
  unfold upd. cbn [lookup]. destruct (k =? k0) eqn:E; auto.
  apply lookup_remove_other. apply N.eqb_neq. auto.
Qed.

(* ---------- output classification ---------- *)
Definition is_plain (o : output) : bool := match o with OPlain _ => true | _ => false end.
Definition is_deliver (o : output) : bool := match o with ODeliver _ _ _ _ _ _ => true | _ => false end.
Definition is_retry (o : output) : bool := match o with ORetry _ _ _ _ => true | _ => false end.
Definition is_msg (o : output) : bool := match o with OMsg _ _ _ _ _ => true | _ => false end.

Definition count (f : output -> bool) (l : list output) : nat := length (filter f l).

Lemma count_app f l1 l2 : count f (l1 ++ l2) = (count f l1 + count f l2)%nat.
Proof. unfold count. rewrite filter_app, app_length. reflexivity. Qed.

(* =====================================================================================================
   1. Only ciphertext.  The only way a plaintext stanza goes down is app_send for a jid in skipEncJids. *)
Lemma no_plain_send_enc a nd es p : forall o, In o (snd (send_enc_entities a nd es p)) -> is_plain o = false.
Proof. intros o [H | []]. subst. reflexivity. Qed.

Lemma no_plain_send_to_contact a nd : forall o, In o (snd (send_to_contact a nd)) -> is_plain o = false.
Proof.
  unfold send_to_contact. destruct (encrypt a (n_to nd)) as [[a1 [[pk sid] n]]|]; [apply no_plain_send_enc|].
  intros o [].
Qed.

Lemma no_plain_sgws a nd js r : forall o, In o (snd (send_to_group_with_sessions a nd js r)) -> is_plain o = false.
Proof.
  unfold send_to_group_with_sessions.
  destruct (enc_for_jids _ js _ (n_mt nd) _) as [a1 es].
  destruct (0 <? r); [apply no_plain_send_enc|].
  destruct (lookup (n_to nd) (a_skown a1)); [apply no_plain_send_enc | intros o []].
Qed.

Lemma no_plain_get_keys a js k : forall o, In o (snd (get_keys a js k)) -> is_plain o = false.
Proof. intros o [H | []]. subst. reflexivity. Qed.

Lemma no_plain_plaintext_send a nd r : forall o, In o (snd (plaintext_send a nd r)) -> is_plain o = false.
Proof.
  unfold plaintext_send. destruct (is_group (n_to nd)).
  - unfold send_to_group. destruct (lookup (n_to nd) (a_skown a)).
    + destruct r as [[c cnt]|]; apply no_plain_sgws.
    + intros o [H | []]. subst. reflexivity.
  - destruct (session_exists a (n_to nd)); [apply no_plain_send_to_contact | apply no_plain_get_keys].
Qed.

Lemma no_plain_dispatch a im p : forall o, In o (dispatch_up a im p) -> is_plain o = false.
Proof.
  unfold dispatch_up. intros o H. apply in_app_or in H. destruct H as [H | H].
  - destruct (i_mt im =? 0); [|destruct H].
    destruct (p_content p).
    + destruct (i_ty im =? 0); [|destruct H]. cbn [In] in H. intuition (subst; reflexivity).
    + destruct (p_skdm p); cbn [In] in H; intuition (subst; reflexivity).
  - destruct ((i_ty im =? 1) && negb (i_mt im =? 0)); [|destruct H].
    destruct (p_content p), (p_skdm p); try destruct (a_guard a); cbn [In] in H; intuition (subst; reflexivity).
Qed.

Lemma no_plain_on_exception a im r : forall o, In o (snd (on_exception a im r)) -> is_plain o = false.
Proof.
  unfold on_exception, bump_retry, get_keys. destruct r; cbn [snd]; intros o H; cbn [In] in H;
    intuition (subst; reflexivity).
Qed.

Lemma no_plain_handle_sk a im a' o b r :
  handle_sk a im = (a', o, b, r) -> forall x, In x o -> is_plain x = false.
Proof.
  unfold handle_sk. destruct (i_sk im) as [e|].
  2:{ intros H. injection H as <- <- <- <-. intros x []. }
  destruct (decrypt_sk a (i_from im) (sender_of im) e) as [a1 res]. destruct res.
  - intros H. injection H as <- <- <- <-. apply no_plain_dispatch.
  - destruct (bump_retry a1 (i_id im)) as [a2 c]. intros H. injection H as <- <- <- <-.
    intros x [Hx | []]. subst. reflexivity.
  - intros H. injection H as <- <- <- <-. intros x [].
  - intros H. injection H as <- <- <- <-. intros x [].
  - intros H. injection H as <- <- <- <-. intros x [].
Qed.

Lemma no_plain_handle_enc a im : forall o, In o (snd (handle_enc a im)) -> is_plain o = false.
Proof.
  unfold handle_enc. destruct (i_pw im) as [e|].
  - destruct (decrypt_pw a (sender_of im) e) as [a1 res]. destruct res; try apply no_plain_on_exception.
    set (a2 := match p_skdm p with Some d => process_skdm a1 (sender_of im) d | None => a1 end).
    destruct (handle_sk a2 im) as [[[a3 o] b] r] eqn:H.
    pose proof (no_plain_handle_sk _ _ _ _ _ _ H) as Hs.
    destruct b.
    + pose proof (no_plain_on_exception a3 im r) as He. destruct (on_exception a3 im r) as [a4 o2].
      cbn [snd] in *. intros x Hx. apply in_app_or in Hx. destruct Hx as [Hx | Hx].
      * eapply no_plain_dispatch; eauto.
      * apply in_app_or in Hx. destruct Hx; auto.
    + cbn [snd]. intros x Hx. apply in_app_or in Hx. destruct Hx as [Hx | Hx]; auto.
      eapply no_plain_dispatch; eauto.
  - destruct (handle_sk a im) as [[[a3 o] b] r] eqn:H.
    pose proof (no_plain_handle_sk _ _ _ _ _ _ H) as Hs.
    destruct b; cbn [snd]; auto.
    pose proof (no_plain_on_exception a3 im r) as He. destruct (on_exception a3 im r) as [a4 o2].
    cbn [snd] in *. intros x Hx. apply in_app_or in Hx. destruct Hx; auto.
Qed.

Lemma no_plain_process_pending l : forall a o, In o (snd (process_pending a l)) -> is_plain o = false.
Proof.
  induction l as [|im l IH]; intros a o; cbn [process_pending]; [intros []|].
  pose proof (no_plain_handle_enc a im) as H1. destruct (handle_enc a im) as [a1 o1].
  pose proof (IH a1) as H2. destruct (process_pending a1 l) as [a2 o2]. cbn [snd] in *.
  intros H. apply in_app_or in H. destruct H; auto.
Qed.

Lemma no_plain_keys_result a k js res : forall o, In o (snd (keys_result a k js res)) -> is_plain o = false.
Proof.
  unfold keys_result. destruct (create_sessions a js res) as [a1 ok]. destruct k.
  - destruct ok as [|? [|? ?]]; try (intros o []). apply no_plain_send_to_contact.
  - destruct ok as [|? [|? ?]]; try (intros o []). apply no_plain_plaintext_send.
  - destruct ok; [intros o []|].
    destruct (filter _ (a_pend a1)) as [|[cv l] rest]; [intros o []|].
    pose proof (no_plain_process_pending l a1) as H. destruct (process_pending a1 l) as [a2 o2]. exact H.
  - intros o [].
  - apply no_plain_sgws.
Qed.

Lemma no_plain_on_receipt a f p m r : forall o, In o (snd (on_receipt a f p m r)) -> is_plain o = false.
Proof.
  unfold on_receipt. destruct (take_sent m _ (a_sentq a)) as [[nd|] q'].
  - destruct r; [apply no_plain_get_keys|]. intros o [H | []]. subst. reflexivity.
  - intros o [H | []]. subst. reflexivity.
Qed.

(* single step, any state: nothing un-encrypted goes down unless the destination is in skipEncJids *)
Theorem step_only_ciphertext_thm : forall a i,
  a_skip a = [] -> forall o, In o (snd (step a i)) -> is_plain o = false.
Proof.
  intros a i Hs. destruct i; cbn [step].
  - unfold app_send. rewrite Hs. cbn [memN]. apply no_plain_plaintext_send.
  - destruct (lookup iq (a_iqs a)) as [[k js]|]; [apply no_plain_keys_result | intros o []].
  - destruct (lookup iq (a_iqs a)) as [[k js]|]; [|intros o []].
    destruct k; try (intros o []).
    unfold ensure_sessions_and_send. destruct (filter _ _); [apply no_plain_sgws | apply no_plain_get_keys].
  - apply no_plain_handle_enc.
  - apply no_plain_on_receipt.
  - intros o [].
Qed.

(* skipEncJids only grows when a key answer leaves out a jid that was asked for *)
Definition complete_answer (a : acct) (i : input) : Prop :=
  match i with
  | IKeys iq res => match lookup iq (a_iqs a) with
                    | Some (_, js) => forall j, In j js -> lookup j res <> None
                    | None => True
                    end
  | _ => True
  end.

Lemma skip_send_enc a nd es p : a_skip (fst (send_enc_entities a nd es p)) = a_skip a.
Proof. unfold send_enc_entities. destruct p; reflexivity. Qed.

Lemma skip_encrypt a c a1 x : encrypt a c = Some (a1, x) -> a_skip a1 = a_skip a.
Proof. unfold encrypt. destruct (record_of a c); [discriminate|]. intros H. injection H as <- _. reflexivity. Qed.

Lemma skip_send_to_contact a nd : a_skip (fst (send_to_contact a nd)) = a_skip a.
Proof.
  unfold send_to_contact. destruct (encrypt a (n_to nd)) as [[a1 [[pk sid] n]]|] eqn:E; [|reflexivity].
  rewrite skip_send_enc. eapply skip_encrypt; eauto.
Qed.

Lemma skip_enc_for_jids js : forall a pay mt d, a_skip (fst (enc_for_jids a js pay mt d)) = a_skip a.
Proof.
  induction js as [|j r IH]; intros a pay mt d; cbn [enc_for_jids]; [reflexivity|].
  destruct (encrypt a j) as [[a1 [[pk sid] n]]|] eqn:E; [|apply IH].
  specialize (IH a1 pay mt d). destruct (enc_for_jids a1 r pay mt d) as [a2 es]. cbn [fst] in *.
  rewrite IH. eapply skip_encrypt; eauto.
Qed.

Lemma skip_sgws a nd js r : a_skip (fst (send_to_group_with_sessions a nd js r)) = a_skip a.
Proof.
  unfold send_to_group_with_sessions.
  set (a0 := match js with [] => a | _ => _ end).
  assert (H0 : a_skip a0 = a_skip a).
  { unfold a0. destruct js; [reflexivity|]. destruct (lookup (n_to nd) (a_skown a)); reflexivity. }
  pose proof (skip_enc_for_jids js a0) as He.
  match goal with |- context [enc_for_jids a0 js ?p ?m ?d] => specialize (He p m d);
    destruct (enc_for_jids a0 js p m d) as [a1 es] end.
  cbn [fst] in He.
  destruct (0 <? r); [rewrite skip_send_enc; congruence|].
  destruct (lookup (n_to nd) (a_skown a1)); [rewrite skip_send_enc; cbn; congruence | cbn [fst]; congruence].
Qed.

Lemma skip_get_keys a js k : a_skip (fst (get_keys a js k)) = a_skip a.
Proof. reflexivity. Qed.

Lemma skip_plaintext_send a nd r : a_skip (fst (plaintext_send a nd r)) = a_skip a.
Proof.
  unfold plaintext_send. destruct (is_group (n_to nd)).
  - unfold send_to_group. destruct (lookup (n_to nd) (a_skown a)); [|reflexivity].
    destruct r as [[c cnt]|]; apply skip_sgws.
  - destruct (session_exists a (n_to nd)); [apply skip_send_to_contact | reflexivity].
Qed.

Lemma skip_decrypt_pw a c e : a_skip (fst (decrypt_pw a c e)) = a_skip a.
Proof.
  unfold decrypt_pw. destruct (pe_pk e).
  - destruct (negb _ && negb _); [reflexivity|].
    destruct (decrypt_record _ e) as [[r'|] res]; reflexivity.
  - destruct (record_of a c); [reflexivity|].
    destruct (decrypt_record _ e) as [[r'|] res]; reflexivity.
Qed.

Lemma skip_decrypt_sk a g s e : a_skip (fst (decrypt_sk a g s e)) = a_skip a.
Proof.
  unfold decrypt_sk. destruct (lookup (pairkey g s) (a_skpeer a)) as [[|k older]|]; try reflexivity.
  destruct (se_corrupt e); [reflexivity|]. destruct (_ || _); reflexivity.
Qed.

Lemma skip_on_exception a im r : a_skip (fst (on_exception a im r)) = a_skip a.
Proof. unfold on_exception, bump_retry. destruct r; reflexivity. Qed.

Lemma skip_handle_sk a im a' o b r : handle_sk a im = (a', o, b, r) -> a_skip a' = a_skip a.
Proof.
  unfold handle_sk. destruct (i_sk im) as [e|]; [|intros H; injection H as <- _ _ _; reflexivity].
  pose proof (skip_decrypt_sk a (i_from im) (sender_of im) e) as Hd.
  destruct (decrypt_sk a (i_from im) (sender_of im) e) as [a1 res]. cbn [fst] in Hd.
  destruct res; unfold bump_retry; intros H; injection H as <- _ _ _; cbn; congruence.
Qed.

Lemma skip_handle_enc a im : a_skip (fst (handle_enc a im)) = a_skip a.
Proof.
  unfold handle_enc. destruct (i_pw im) as [e|].
  - pose proof (skip_decrypt_pw a (sender_of im) e) as Hd.
    destruct (decrypt_pw a (sender_of im) e) as [a1 res]. cbn [fst] in Hd.
    destruct res; try (rewrite skip_on_exception; exact Hd).
    set (a2 := match p_skdm p with Some d => process_skdm a1 (sender_of im) d | None => a1 end).
    assert (H2 : a_skip a2 = a_skip a1).
    { unfold a2. destruct (p_skdm p) as [[g it]|]; reflexivity. }
    destruct (handle_sk a2 im) as [[[a3 o] b] r] eqn:H. apply skip_handle_sk in H.
    destruct b.
    + pose proof (skip_on_exception a3 im r) as He. destruct (on_exception a3 im r) as [a4 o2].
      cbn [fst] in *. congruence.
    + cbn. congruence.
  - destruct (handle_sk a im) as [[[a3 o] b] r] eqn:H. apply skip_handle_sk in H.
    destruct b.
    + pose proof (skip_on_exception a3 im r) as He. destruct (on_exception a3 im r) as [a4 o2].
      cbn [fst] in *. congruence.
    + cbn. congruence.
Qed.

Lemma skip_process_pending l : forall a, a_skip (fst (process_pending a l)) = a_skip a.
Proof.
  induction l as [|im l IH]; intros a; cbn [process_pending]; [reflexivity|].
  pose proof (skip_handle_enc a im) as H1. destruct (handle_enc a im) as [a1 o1].
  pose proof (IH a1) as H2. destruct (process_pending a1 l) as [a2 o2]. cbn [fst] in *. congruence.
Qed.

Lemma skip_create_sessions js : forall a res,
  (forall j, In j js -> lookup j res <> None) -> a_skip (fst (create_sessions a js res)) = a_skip a.
Proof.
  induction js as [|j r IH]; intros a res Hc; cbn [create_sessions]; [reflexivity|].
  destruct (lookup j res) as [sid|] eqn:E.
  - specialize (IH (create_session a j sid) res (fun x Hx => Hc x (or_intror Hx))).
    destruct (create_sessions (create_session a j sid) r res) as [a1 ok]. cbn [fst] in *. exact IH.
  - exfalso. apply (Hc j); [left; reflexivity | exact E].
Qed.

Lemma skip_keys_result a k js res :
  (forall j, In j js -> lookup j res <> None) -> a_skip (fst (keys_result a k js res)) = a_skip a.
Proof.
  intros Hc. unfold keys_result. pose proof (skip_create_sessions js a res Hc) as H.
  destruct (create_sessions a js res) as [a1 ok]. cbn [fst] in H. destruct k.
  - destruct ok as [|? [|? ?]]; cbn [fst]; auto. rewrite skip_send_to_contact. exact H.
  - destruct ok as [|? [|? ?]]; cbn [fst]; auto. rewrite skip_plaintext_send. exact H.
  - destruct ok; cbn [fst]; auto.
    destruct (filter _ (a_pend a1)) as [|[cv l] rest]; cbn [fst]; auto.
    pose proof (skip_process_pending l a1) as Hp. destruct (process_pending a1 l) as [a2 o2].
    cbn [fst a_skip set_pend] in *. congruence.
  - exact H.
  - rewrite skip_sgws. exact H.
Qed.

Lemma step_keeps_skip_empty a i :
  a_skip a = [] -> complete_answer a i -> a_skip (fst (step a i)) = [].
Proof.
  intros Hs Hc. destruct i; cbn [step].
  - unfold app_send. rewrite Hs. cbn [memN]. rewrite skip_plaintext_send. exact Hs.
  - cbn [complete_answer] in Hc. destruct (lookup iq (a_iqs a)) as [[k js]|]; [|exact Hs].
    rewrite skip_keys_result; auto.
  - destruct (lookup iq (a_iqs a)) as [[k js]|]; [|exact Hs]. destruct k; try exact Hs.
    unfold ensure_sessions_and_send. destruct (filter _ _); [rewrite skip_sgws | rewrite skip_get_keys]; exact Hs.
  - rewrite skip_handle_enc. exact Hs.
  - unfold on_receipt. destruct (take_sent m _ (a_sentq a)) as [[nd|] q']; [|exact Hs].
    destruct retry; exact Hs.
  - reflexivity.
Qed.

(* a run in which the directory answers for every jid it was asked about *)
Fixpoint honest_run (a : acct) (ins : list input) : Prop :=
  match ins with
  | [] => True
  | i :: r => complete_answer a i /\ honest_run (fst (step a i)) r
  end.

Theorem only_ciphertext_thm : forall ins a,
  a_skip a = [] -> honest_run a ins -> forall o, In o (trace a ins) -> is_plain o = false.
Proof.
  unfold trace. induction ins as [|i r IH]; intros a Hs Hh o; cbn [run]; [intros []|].
  destruct Hh as [Hc Hr].
  pose proof (step_only_ciphertext_thm a i Hs) as H1.
  pose proof (step_keeps_skip_empty a i Hs Hc) as H2.
  destruct (step a i) as [a1 o1]. cbn [fst snd] in *.
  specialize (IH a1 H2 Hr). destruct (run a1 r) as [a2 os]. cbn [snd concat] in *.
  intros H. apply in_app_or in H. destruct H; auto.
Qed.

(* the hypothesis is needed: a directory answer that leaves a jid out makes the NEXT message to it go out as is *)
Example skipenc_plaintext_witness :
  exists a ins o, a_skip a = [] /\ In o (trace a ins) /\ is_plain o = true.
Proof.
  exists (init 0 true), [IAppSend (mkN 1 5 0 0 1); IKeys 0 []; IAppSend (mkN 2 5 0 0 2)], (OPlain (mkN 2 5 0 0 2)).
  vm_compute. intuition.
Qed.

(* =====================================================================================================
   2. At most one entity per stanza. *)
Definition wf_stanza (im : inmsg) : Prop :=
  match i_pw im, i_sk im with
  | Some e, Some _ => p_content (pe_pay e) = None /\ p_skdm (pe_pay e) <> None   (* key distribution only *)
  | _, _ => True
  end.

Lemma dispatch_count a im p : (count is_deliver (dispatch_up a im p) <= 1)%nat.
Proof.
  unfold dispatch_up. rewrite count_app.
  destruct (i_mt im =? 0) eqn:Emt.
  - rewrite andb_false_r. cbn [count filter length].
    destruct (p_content p); [destruct (i_ty im =? 0) | destruct (p_skdm p)]; cbn; lia.
  - cbn [negb]. rewrite andb_true_r.
    destruct (i_ty im =? 1); [|cbn; lia].
    destruct (p_content p), (p_skdm p); try destruct (a_guard a); cbn; lia.
Qed.

Lemma dispatch_count_nocontent a im p :
  a_guard a = true -> p_content p = None /\ p_skdm p <> None -> count is_deliver (dispatch_up a im p) = 0%nat.
Proof.
  intros Hg [Hc Hs]. unfold dispatch_up. rewrite Hc, Hg.
  destruct (p_skdm p); [|congruence].
  destruct (i_mt im =? 0); cbn [negb]; [rewrite andb_false_r | rewrite andb_true_r].
  - reflexivity.
  - destruct (i_ty im =? 1); reflexivity.
Qed.

Lemma on_exception_count a im r : count is_deliver (snd (on_exception a im r)) = 0%nat.
Proof. unfold on_exception, bump_retry, get_keys. destruct r; reflexivity. Qed.

Lemma guard_decrypt_sk a g s e : a_guard (fst (decrypt_sk a g s e)) = a_guard a.
Proof.
  unfold decrypt_sk. destruct (lookup (pairkey g s) (a_skpeer a)) as [[|k older]|]; try reflexivity.
  destruct (se_corrupt e); [reflexivity|]. destruct (_ || _); reflexivity.
Qed.

Lemma handle_sk_count a im a' o b r :
  handle_sk a im = (a', o, b, r) -> (count is_deliver o <= 1)%nat.
Proof.
  unfold handle_sk. destruct (i_sk im) as [e|]; [|intros H; injection H as _ <- _ _; cbn; lia].
  destruct (decrypt_sk a (i_from im) (sender_of im) e) as [a1 res].
  destruct res; unfold bump_retry; intros H; injection H as _ <- _ _.
  1: apply dispatch_count.
  all: cbn; lia.
Qed.

Lemma guard_decrypt_pw a c e : a_guard (fst (decrypt_pw a c e)) = a_guard a.
Proof.
  unfold decrypt_pw. destruct (pe_pk e).
  - destruct (negb _ && negb _); [reflexivity|].
    destruct (decrypt_record _ e) as [[r'|] res]; reflexivity.
  - destruct (record_of a c); [reflexivity|].
    destruct (decrypt_record _ e) as [[r'|] res]; reflexivity.
Qed.

Lemma decrypt_record_payload r e r' p : decrypt_record r e = (r', DOk p) -> p = pe_pay e /\ pe_corrupt e = false.
Proof.
  unfold decrypt_record. destruct (find_state (pe_sid e) r); [|discriminate].
  destruct (memN (pe_n e) (s_seen s)); [discriminate|].
  destruct (pe_corrupt e); [discriminate|]. intros H. injection H as _ <-. auto.
Qed.

Lemma decrypt_pw_payload a c e a1 p : decrypt_pw a c e = (a1, DOk p) -> p = pe_pay e /\ pe_corrupt e = false.
Proof.
  unfold decrypt_pw. destruct (pe_pk e).
  - destruct (negb _ && negb _); [discriminate|].
    destruct (decrypt_record _ e) as [[r'|] res] eqn:D; intros H; injection H as _ ->;
      eapply decrypt_record_payload; eauto.
  - destruct (record_of a c) eqn:R; [discriminate|].
    destruct (decrypt_record _ e) as [[r'|] res] eqn:D; intros H; injection H as _ ->;
      eapply decrypt_record_payload; eauto.
Qed.

Theorem one_entity_per_stanza_thm : forall a im,
  a_guard a = true -> wf_stanza im -> (count is_deliver (snd (handle_enc a im)) <= 1)%nat.
Proof.
  intros a im Hg Hwf. unfold handle_enc. unfold wf_stanza in Hwf.
  destruct (i_pw im) as [e|] eqn:Epw.
  - pose proof (guard_decrypt_pw a (sender_of im) e) as Hg1.
    destruct (decrypt_pw a (sender_of im) e) as [a1 res] eqn:D. cbn [fst] in Hg1.
    destruct res; try (rewrite on_exception_count; lia).
    apply decrypt_pw_payload in D. destruct D as [-> _].
    set (a2 := match p_skdm (pe_pay e) with Some d => process_skdm a1 (sender_of im) d | None => a1 end).
    assert (Hg2 : a_guard a2 = true).
    { unfold a2. destruct (p_skdm (pe_pay e)) as [[g it]|]; cbn; congruence. }
    destruct (handle_sk a2 im) as [[[a3 o] b] r] eqn:H.
    pose proof (handle_sk_count _ _ _ _ _ _ H) as Hc.
    assert (Hsum : (count is_deliver (dispatch_up a2 im (pe_pay e)) + count is_deliver o <= 1)%nat).
    { unfold handle_sk in H. destruct (i_sk im) as [e'|] eqn:Esk.
      - rewrite (dispatch_count_nocontent a2 im (pe_pay e) Hg2 Hwf). lia.
      - injection H as _ <- _ _. pose proof (dispatch_count a2 im (pe_pay e)). cbn. lia. }
    destruct b.
    + pose proof (on_exception_count a3 im r) as He. destruct (on_exception a3 im r) as [a4 o2].
      cbn [snd] in *. rewrite !count_app. lia.
    + cbn [snd]. rewrite count_app. lia.
  - destruct (handle_sk a im) as [[[a3 o] b] r] eqn:H.
    pose proof (handle_sk_count _ _ _ _ _ _ H) as Hc.
    destruct b; cbn [snd]; auto.
    pose proof (on_exception_count a3 im r) as He. destruct (on_exception a3 im r) as [a4 o2].
    cbn [snd] in *. rewrite count_app. lia.
Qed.

(* the unrepaired media layer (a_guard = false): the first group MEDIA message to a participant without a session
   (pkmsg carrying only the sender-key distribution + skmsg) is shown twice *)
Example one_entity_per_stanza_unguarded_refuted :
  exists a im, a_guard a = false /\ wf_stanza im /\ count is_deliver (snd (handle_enc a im)) = 2%nat.
Proof.
  exists (init 2 false),
         (mkI 1000 (Some 0) 7 1 1 (Some (mkPE true 5 0 true false (mkP (Some (1000, 0)) None)))
              (Some (mkSE 0 false 7))).
  vm_compute. repeat split; try reflexivity; discriminate.
Qed.

Example one_entity_guarded_same_stanza :
  snd (handle_enc (init 2 true)
         (mkI 1000 (Some 0) 7 1 1 (Some (mkPE true 5 0 true false (mkP (Some (1000, 0)) None)))
              (Some (mkSE 0 false 7))))
  = [ODeliver 1000 (Some 0) 7 1 1 (Some 7); OReceipt 1000 (Some 0) 7].
Proof. vm_compute. reflexivity. Qed.

(* =====================================================================================================
   3. Authenticity (per account): an entity handed up while handling stanza im has im's sender, group and id and
   carries the payload of one of im's ciphertexts, which was not corrupted. *)
Definition authentic_for (im : inmsg) (o : output) : Prop :=
  match o with
  | ODeliver f part m ty mt c =>
    f = i_from im /\ part = i_part im /\ m = i_id im /\ ty = i_ty im /\ mt = i_mt im /\
    ((exists e, i_pw im = Some e /\ pe_corrupt e = false /\ c = p_content (pe_pay e)) \/
     (exists e, i_sk im = Some e /\ se_corrupt e = false /\ c = Some (se_content e)))
  | _ => True
  end.

Lemma dispatch_fields a im p o :
  In o (dispatch_up a im p) ->
  match o with
  | ODeliver f part m ty mt c => f = i_from im /\ part = i_part im /\ m = i_id im /\ ty = i_ty im /\
                                 mt = i_mt im /\ c = p_content p
  | _ => True
  end.
Proof.
  assert (Hd : In o [ODeliver (i_from im) (i_part im) (i_id im) (i_ty im) (i_mt im) (p_content p);
                     OReceipt (i_from im) (i_part im) (i_id im)] -> match o with
          | ODeliver f part m ty mt c => f = i_from im /\ part = i_part im /\ m = i_id im /\ ty = i_ty im /\
                                         mt = i_mt im /\ c = p_content p
          | _ => True end).
  { intros [<- | [<- | []]]; intuition. }
  assert (Hr : In o [OReceipt (i_from im) (i_part im) (i_id im)] -> match o with
          | ODeliver f part m ty mt c => f = i_from im /\ part = i_part im /\ m = i_id im /\ ty = i_ty im /\
                                         mt = i_mt im /\ c = p_content p
          | _ => True end).
  { intros [<- | []]; exact I. }
  unfold dispatch_up. intros H. apply in_app_or in H. destruct H as [H | H].
  - destruct (i_mt im =? 0); [|destruct H].
    destruct (p_content p) eqn:Ec.
    + destruct (i_ty im =? 0); [|destruct H]. exact (Hd H).
    + destruct (p_skdm p); [destruct H | exact (Hr H)].
  - destruct ((i_ty im =? 1) && negb (i_mt im =? 0)); [|destruct H].
    destruct (p_content p) eqn:Ec; [destruct (p_skdm p); exact (Hd H)|].
    destruct (p_skdm p); [|exact (Hd H)].
    destruct (a_guard a); [destruct H | exact (Hd H)].
Qed.

Lemma decrypt_sk_payload a g s e a1 p :
  decrypt_sk a g s e = (a1, DOk p) -> p = mkP None (Some (se_content e)) /\ se_corrupt e = false.
Proof.
  unfold decrypt_sk. destruct (lookup (pairkey g s) (a_skpeer a)) as [[|k older]|]; try discriminate.
  destruct (se_corrupt e); [discriminate|]. destruct (_ || _); [discriminate|].
  intros H. injection H as _ <-. auto.
Qed.

Lemma on_exception_authentic a im r : Forall (authentic_for im) (snd (on_exception a im r)).
Proof.
  unfold on_exception, bump_retry, get_keys. destruct r; cbn [snd]; repeat constructor.
Qed.

Lemma handle_sk_authentic a im a' o b r :
  handle_sk a im = (a', o, b, r) -> Forall (authentic_for im) o.
Proof.
  unfold handle_sk. destruct (i_sk im) as [e|] eqn:Esk; [|intros H; injection H as _ <- _ _; constructor].
  destruct (decrypt_sk a (i_from im) (sender_of im) e) as [a1 res] eqn:D.
  destruct res; unfold bump_retry; intros H; injection H as _ <- _ _.
  1: { apply decrypt_sk_payload in D. destruct D as [-> Hc].
       apply Forall_forall. intros x Hx. apply dispatch_fields in Hx. destruct x; auto.
       cbn [authentic_for]. intuition. right. exists e. cbn in *. intuition. }
  all: repeat constructor.
Qed.

Theorem authentic_thm : forall a im, Forall (authentic_for im) (snd (handle_enc a im)).
Proof.
  intros a im. unfold handle_enc. destruct (i_pw im) as [e|] eqn:Epw.
  - destruct (decrypt_pw a (sender_of im) e) as [a1 res] eqn:D.
    destruct res; try apply on_exception_authentic.
    apply decrypt_pw_payload in D. destruct D as [-> Hc].
    set (a2 := match p_skdm (pe_pay e) with Some d => process_skdm a1 (sender_of im) d | None => a1 end).
    assert (Hup : Forall (authentic_for im) (dispatch_up a2 im (pe_pay e))).
    { apply Forall_forall. intros x Hx. apply dispatch_fields in Hx. destruct x; auto.
      cbn [authentic_for]. intuition. left. exists e. intuition. }
    destruct (handle_sk a2 im) as [[[a3 o] b] r] eqn:H.
    pose proof (handle_sk_authentic _ _ _ _ _ _ H) as Hs.
    destruct b.
    + pose proof (on_exception_authentic a3 im r) as He. destruct (on_exception a3 im r) as [a4 o2].
      cbn [snd] in *. apply Forall_app. split; [exact Hup|]. apply Forall_app. split; auto.
    + cbn [snd]. apply Forall_app. split; auto.
  - destruct (handle_sk a im) as [[[a3 o] b] r] eqn:H.
    pose proof (handle_sk_authentic _ _ _ _ _ _ H) as Hs.
    destruct b; cbn [snd]; auto.
    pose proof (on_exception_authentic a3 im r) as He. destruct (on_exception a3 im r) as [a4 o2].
    cbn [snd] in *. apply Forall_app. split; auto.
Qed.

(* entities appear only while a message stanza is handled (directly, or a parked one after its keys arrived) *)
Lemma no_deliver_outside : forall a i,
  match i with IMsg _ | IKeys _ _ => True | _ => count is_deliver (snd (step a i)) = 0%nat end.
Proof.
  intros a i. destruct i; auto; cbn [step].
  - unfold app_send. destruct (memN _ _); [reflexivity|].
    unfold plaintext_send. destruct (is_group _).
    + unfold send_to_group. destruct (lookup _ (a_skown a)); [|reflexivity].
      assert (Hs : forall a nd js r, count is_deliver (snd (send_to_group_with_sessions a nd js r)) = 0%nat).
      { intros a0 nd0 js r. unfold send_to_group_with_sessions.
        destruct (enc_for_jids _ js _ (n_mt nd0) _) as [a1 es].
        destruct (0 <? r); [destruct (match js with [_] => _ | _ => _ end); reflexivity|].
        destruct (lookup (n_to nd0) (a_skown a1)); reflexivity. }
      apply Hs.
    + destruct (session_exists _ _); [|reflexivity].
      unfold send_to_contact. destruct (encrypt _ _) as [[a1 [[pk sid] n]]|]; reflexivity.
  - destruct (lookup iq (a_iqs a)) as [[k js]|]; [|reflexivity]. destruct k; try reflexivity.
    unfold ensure_sessions_and_send. destruct (filter _ _); [|reflexivity].
    unfold send_to_group_with_sessions.
    match goal with |- context [enc_for_jids ?x ?y ?p ?m ?d] => destruct (enc_for_jids x y p m d) as [a1 es] end.
    cbn [N.ltb N.compare]. destruct (lookup _ (a_skown a1)); reflexivity.
  - unfold on_receipt. destruct (take_sent _ _ _) as [[nd|] q']; [destruct retry|]; reflexivity.
Qed.

(* =====================================================================================================
   4. Retries. *)
Lemma dispatch_no_retry a im p : count is_retry (dispatch_up a im p) = 0%nat.
Proof.
  unfold dispatch_up. rewrite count_app.
  destruct (i_mt im =? 0); cbn [negb]; [rewrite andb_false_r | rewrite andb_true_r].
  - destruct (p_content p); [destruct (i_ty im =? 0) | destruct (p_skdm p)]; reflexivity.
  - destruct (i_ty im =? 1); [|reflexivity].
    destruct (p_content p), (p_skdm p); try destruct (a_guard a); reflexivity.
Qed.

Lemma on_exception_retry a im r : (count is_retry (snd (on_exception a im r)) <= 1)%nat.
Proof. unfold on_exception, bump_retry, get_keys. destruct r; cbn; lia. Qed.

Lemma handle_sk_retry a im a' o b r :
  handle_sk a im = (a', o, b, r) -> (count is_retry o <= 1)%nat /\ (b = true -> count is_retry o = 0%nat).
Proof.
  unfold handle_sk. destruct (i_sk im) as [e|]; [|intros H; injection H as _ <- <- _; cbn; split; [lia|discriminate]].
  destruct (decrypt_sk a (i_from im) (sender_of im) e) as [a1 res].
  destruct res; unfold bump_retry; intros H; injection H as _ <- <- _.
  1: { rewrite dispatch_no_retry. split; [lia|auto]. }
  all: cbn; split; [lia | auto; discriminate].
Qed.

(* handling one stanza never produces more than one retry receipt *)
Theorem retry_at_most_one_thm : forall a im, (count is_retry (snd (handle_enc a im)) <= 1)%nat.
Proof.
  intros a im. unfold handle_enc. destruct (i_pw im) as [e|].
  - destruct (decrypt_pw a (sender_of im) e) as [a1 res].
    destruct res; try apply on_exception_retry.
    set (a2 := match p_skdm p with Some d => process_skdm a1 (sender_of im) d | None => a1 end).
    destruct (handle_sk a2 im) as [[[a3 o] b] r] eqn:H.
    destruct (handle_sk_retry _ _ _ _ _ _ H) as [Hc Hb].
    destruct b.
    + pose proof (on_exception_retry a3 im r) as He. destruct (on_exception a3 im r) as [a4 o2].
      cbn [snd] in *. rewrite !count_app, dispatch_no_retry, (Hb eq_refl). lia.
    + cbn [snd]. rewrite count_app, dispatch_no_retry. lia.
  - destruct (handle_sk a im) as [[[a3 o] b] r] eqn:H.
    destruct (handle_sk_retry _ _ _ _ _ _ H) as [Hc Hb].
    destruct b; cbn [snd]; auto.
    pose proof (on_exception_retry a3 im r) as He. destruct (on_exception a3 im r) as [a4 o2].
    cbn [snd] in *. rewrite count_app, (Hb eq_refl). lia.
Qed.

(* a corrupted 1:1 / directed ciphertext that we could otherwise read: exactly one retry receipt, count 1 when
   it is the first failure for that id, nothing shown, no other output *)
Theorem corrupt_pairwise_retry_thm : forall a im e s,
  i_pw im = Some e -> pe_corrupt e = true ->
  find_state (pe_sid e) (record_of a (sender_of im)) = Some s -> memN (pe_n e) (s_seen s) = false ->
  lookup (i_id im) (a_retries a) = None ->
  snd (handle_enc a im) = [ORetry (i_from im) (i_part im) (i_id im) 1].
Proof.
  intros a im e s Hpw Hc Hf Hn Hr. unfold handle_enc. rewrite Hpw.
  assert (D : exists a1, decrypt_pw a (sender_of im) e = (a1, DInvalidMsg) /\ a_retries a1 = a_retries a).
  { unfold decrypt_pw. destruct (pe_pk e).
    - rewrite Hf. cbn [negb andb]. unfold decrypt_record. rewrite Hf, Hn, Hc. eexists; split; reflexivity.
    - destruct (record_of a (sender_of im)) eqn:R; [discriminate|].
      unfold decrypt_record. rewrite Hf, Hn, Hc. eexists; split; reflexivity. }
  destruct D as [a1 [D Hret]]. rewrite D. unfold on_exception, bump_retry. rewrite Hret, Hr. reflexivity.
Qed.

(* a corrupted sender-key ciphertext (sender key known): the same *)
Theorem corrupt_skmsg_retry_thm : forall a im e k older,
  i_pw im = None -> i_sk im = Some e -> se_corrupt e = true ->
  lookup (pairkey (i_from im) (sender_of im)) (a_skpeer a) = Some (k :: older) ->
  lookup (i_id im) (a_retries a) = None ->
  snd (handle_enc a im) = [ORetry (i_from im) (i_part im) (i_id im) 1].
Proof.
  intros a im e k older Hpw Hsk Hc Hl Hr. unfold handle_enc, handle_sk. rewrite Hpw, Hsk.
  unfold decrypt_sk. rewrite Hl, Hc. unfold on_exception, bump_retry. rewrite Hr. reflexivity.
Qed.

(* the sender serves a retry receipt with exactly one key request, and the answer with at most one stanza,
   directed at the requester when the message was a group message *)
Theorem retry_served_once_thm : forall a frm part m cnt,
  (count is_msg (snd (on_receipt a frm part m (Some cnt))) = 0)%nat /\
  (length (snd (on_receipt a frm part m (Some cnt))) <= 1)%nat.
Proof.
  intros. unfold on_receipt. destruct (take_sent m _ (a_sentq a)) as [[nd|] q']; cbn; split; lia.
Qed.

Lemma sgws_one_msg a nd js r : (count is_msg (snd (send_to_group_with_sessions a nd js r)) <= 1)%nat.
Proof.
  unfold send_to_group_with_sessions.
  destruct (enc_for_jids _ js _ (n_mt nd) _) as [a1 es].
  destruct (0 <? r); [cbn; lia|]. destruct (lookup (n_to nd) (a_skown a1)); cbn; lia.
Qed.

Theorem retry_answer_one_stanza_thm : forall a c nd cnt js res,
  (count is_msg (snd (keys_result a (KRetry c nd cnt) js res)) <= 1)%nat.
Proof.
  intros. unfold keys_result. destruct (create_sessions a js res) as [a1 ok].
  destruct ok as [|? [|? ?]]; try (cbn; lia).
  unfold plaintext_send. destruct (is_group (n_to nd)).
  - unfold send_to_group. destruct (lookup (n_to nd) (a_skown a1)); [apply sgws_one_msg | cbn; lia].
  - destruct (session_exists a1 (n_to nd)); [|cbn; lia].
    unfold send_to_contact. destruct (encrypt a1 (n_to nd)) as [[a2 [[pk sid] n0]]|]; cbn; lia.
Qed.

(* =====================================================================================================
   5. sentQueue never holds more than 100 stanzas. *)
Lemma enqueue_bound q nd : (length q <= 100)%nat -> (length (enqueue_sent q nd) <= 100)%nat.
Proof.
  intros H. unfold enqueue_sent. destruct (100 <=? N.of_nat (length q)) eqn:E; rewrite app_length; cbn [length].
  - destruct q; cbn [tl length] in *; lia.
  - apply N.leb_gt in E. lia.
Qed.

(* =====================================================================================================
   6. A ciphertext that was decrypted once is never shown again, whatever happens in between (further traffic,
   restarts): the replay is answered with a delivery receipt only.  This is the "delivered twice by the server,
   shown once and re-acknowledged" clause, per ciphertext. *)
Definition pw_seen (a : acct) (c sid n : N) : Prop :=
  exists s, find_state sid (record_of a c) = Some s /\ memN n (s_seen s) = true.

Definition R (a a' : acct) : Prop := forall c sid n, pw_seen a c sid n -> pw_seen a' c sid n.

Lemma R_refl a : R a a. Proof. intros c sid n H. exact H. Qed.
Lemma R_trans a b c : R a b -> R b c -> R a c. Proof. intros H1 H2 x sid n H. apply H2, H1, H. Qed.

Lemma R_same a a' : a_sess a' = a_sess a -> R a a'.
Proof. intros H c sid n [s [F M]]. exists s. unfold record_of in *. rewrite H. auto. Qed.

Lemma record_of_upd a c r c0 :
  record_of (set_sess a (upd c r (a_sess a))) c0 = if c =? c0 then r else record_of a c0.
Proof. unfold record_of. cbn [a_sess set_sess]. rewrite lookup_upd. destruct (c =? c0); reflexivity. Qed.

(* replacing c's record by one that answers find_state at least as well *)
Lemma R_upd a c r :
  (forall sid n s, find_state sid (record_of a c) = Some s -> memN n (s_seen s) = true ->
                   exists s', find_state sid r = Some s' /\ memN n (s_seen s') = true) ->
  R a (set_sess a (upd c r (a_sess a))).
Proof.
  intros H c0 sid n [s [F M]]. unfold pw_seen. rewrite record_of_upd. destruct (c =? c0) eqn:E.
  - apply N.eqb_eq in E. subst c0. eapply H; eauto.
  - exists s. auto.
Qed.

Lemma find_drop_other sid0 sid r : sid <> sid0 -> find_state sid (drop_state sid0 r) = find_state sid r.
Proof.
  intros Hne. induction r as [|x r IH]; cbn [drop_state find_state]; auto.
  destruct (s_sid x =? sid0) eqn:E0.
  - apply N.eqb_eq in E0. destruct (s_sid x =? sid) eqn:E1; auto. apply N.eqb_eq in E1. congruence.
  - cbn [find_state]. destruct (s_sid x =? sid); auto.
Qed.

Lemma find_state_sid sid r s : find_state sid r = Some s -> s_sid s = sid.
Proof.
  induction r as [|x r IH]; cbn [find_state]; [discriminate|].
  destruct (s_sid x =? sid) eqn:E; [|auto]. intros H. injection H as <-. apply N.eqb_eq. exact E.
Qed.

Lemma memN_cons x y l : memN x l = true -> memN x (y :: l) = true.
Proof. intros H. cbn [memN]. destruct (y =? x); auto. Qed.

Lemma R_decrypt_record a c e r' res :
  decrypt_record (record_of a c) e = (Some r', res) -> R a (set_sess a (upd c r' (a_sess a))).
Proof.
  unfold decrypt_record. destruct (find_state (pe_sid e) (record_of a c)) as [st|] eqn:F; [|discriminate].
  destruct (memN (pe_n e) (s_seen st)); [discriminate|]. destruct (pe_corrupt e); [discriminate|].
  intros H. injection H as <- _. apply R_upd. intros sid n s Fs Ms.
  cbn [find_state mark_seen s_sid]. destruct (s_sid st =? sid) eqn:E.
  - apply N.eqb_eq in E. exists (mkS (s_sid st) false (s_sent st) (pe_n e :: s_seen st)). split; [reflexivity|].
    cbn [s_seen]. apply memN_cons.
    assert (s = st). { apply find_state_sid in F as F'. rewrite <- E in Fs. rewrite F' in Fs. congruence. }
    subst. exact Ms.
  - exists s. split; auto. rewrite find_drop_other; auto.
    apply find_state_sid in F. intros ->. rewrite F, N.eqb_refl in E. discriminate.
Qed.

Lemma R_decrypt_pw a c e : R a (fst (decrypt_pw a c e)).
Proof.
  unfold decrypt_pw. destruct (pe_pk e).
  - destruct (find_state (pe_sid e) (record_of a c)) as [st|] eqn:F; cbn [negb andb].
    + destruct (decrypt_record (record_of a c) e) as [[r'|] res] eqn:D; cbn [fst]; [|apply R_refl].
      eapply R_decrypt_record; eauto.
    + destruct (negb (pe_pkok e)); [apply R_refl|].
      (* a new state is put in front; its name was unknown, so nothing that was seen is hidden *)
      set (nw := mkS (pe_sid e) false 0 []).
      destruct (decrypt_record (nw :: record_of a c) e) as [[r'|] res] eqn:D; cbn [fst]; [|apply R_refl].
      unfold decrypt_record in D. cbn [find_state] in D. unfold nw in D at 1. cbn [s_sid] in D.
      rewrite N.eqb_refl in D. cbn [s_seen memN] in D. destruct (pe_corrupt e); [discriminate|].
      injection D as <- _. apply R_upd. intros sid n s Fs Ms.
      cbn [drop_state find_state mark_seen s_sid]. rewrite N.eqb_refl. cbn [find_state s_sid].
      destruct (pe_sid e =? sid) eqn:E; [apply N.eqb_eq in E; subst; congruence|].
      exists s. unfold nw. cbn [s_sid]. rewrite E. auto.
  - destruct (record_of a c) as [|s0 r0] eqn:Rec; [apply R_refl|].
    destruct (decrypt_record (s0 :: r0) e) as [[r'|] res] eqn:D; cbn [fst]; [|apply R_refl].
    rewrite <- Rec in D. eapply R_decrypt_record; eauto.
Qed.

Lemma R_encrypt a c a1 x : encrypt a c = Some (a1, x) -> R a a1.
Proof.
  unfold encrypt. destruct (record_of a c) as [|s t] eqn:Rec; [discriminate|].
  intros H. injection H as <- _. apply R_upd. rewrite Rec. intros sid n s0 Fs Ms.
  cbn [find_state s_sid] in *. destruct (s_sid s =? sid).
  - injection Fs as <-. eexists. split; [reflexivity | exact Ms].
  - exists s0. auto.
Qed.

Lemma R_send_enc a nd es p : R a (fst (send_enc_entities a nd es p)).
Proof. unfold send_enc_entities. destruct p; apply R_same; reflexivity. Qed.

Lemma R_send_to_contact a nd : R a (fst (send_to_contact a nd)).
Proof.
  unfold send_to_contact. destruct (encrypt a (n_to nd)) as [[a1 [[pk sid] n]]|] eqn:E; [|apply R_refl].
  eapply R_trans; [eapply R_encrypt; eauto | apply R_send_enc].
Qed.

Lemma R_enc_for_jids js : forall a pay mt d, R a (fst (enc_for_jids a js pay mt d)).
Proof.
  induction js as [|j r IH]; intros a pay mt d; cbn [enc_for_jids]; [apply R_refl|].
  destruct (encrypt a j) as [[a1 [[pk sid] n]]|] eqn:E; [|apply IH].
  specialize (IH a1 pay mt d). destruct (enc_for_jids a1 r pay mt d) as [a2 es]. cbn [fst] in *.
  eapply R_trans; [eapply R_encrypt; eauto | exact IH].
Qed.

Lemma R_sgws a nd js r : R a (fst (send_to_group_with_sessions a nd js r)).
Proof.
  unfold send_to_group_with_sessions.
  set (a0 := match js with [] => a | _ => _ end).
  assert (H0 : R a a0).
  { unfold a0. destruct js; [apply R_refl|]. destruct (lookup (n_to nd) (a_skown a));
      [apply R_refl | apply R_same; reflexivity]. }
  pose proof (R_enc_for_jids js a0) as He.
  match goal with |- context [enc_for_jids a0 js ?p ?m ?d] => specialize (He p m d);
    destruct (enc_for_jids a0 js p m d) as [a1 es] end.
  cbn [fst] in He.
  destruct (0 <? r).
  - eapply R_trans; [exact H0|]. eapply R_trans; [exact He | apply R_send_enc].
  - destruct (lookup (n_to nd) (a_skown a1)); cbn [fst].
    + eapply R_trans; [exact H0|]. eapply R_trans; [exact He|].
      eapply R_trans; [|apply R_send_enc]. apply R_same; reflexivity.
    + eapply R_trans; eauto.
Qed.

Lemma R_plaintext_send a nd r : R a (fst (plaintext_send a nd r)).
Proof.
  unfold plaintext_send. destruct (is_group (n_to nd)).
  - unfold send_to_group. destruct (lookup (n_to nd) (a_skown a)); [|apply R_same; reflexivity].
    destruct r as [[c cnt]|]; apply R_sgws.
  - destruct (session_exists a (n_to nd)); [apply R_send_to_contact | apply R_same; reflexivity].
Qed.

Lemma sess_decrypt_sk a g s e : a_sess (fst (decrypt_sk a g s e)) = a_sess a.
Proof.
  unfold decrypt_sk. destruct (lookup (pairkey g s) (a_skpeer a)) as [[|k older]|]; try reflexivity.
  destruct (se_corrupt e); [reflexivity|]. destruct (_ || _); reflexivity.
Qed.

Lemma sess_on_exception a im r : a_sess (fst (on_exception a im r)) = a_sess a.
Proof. unfold on_exception, bump_retry. destruct r; reflexivity. Qed.

Lemma sess_handle_sk a im a' o b r : handle_sk a im = (a', o, b, r) -> a_sess a' = a_sess a.
Proof.
  unfold handle_sk. destruct (i_sk im) as [e|]; [|intros H; injection H as <- _ _ _; reflexivity].
  pose proof (sess_decrypt_sk a (i_from im) (sender_of im) e) as Hd.
  destruct (decrypt_sk a (i_from im) (sender_of im) e) as [a1 res]. cbn [fst] in Hd.
  destruct res; unfold bump_retry; intros H; injection H as <- _ _ _; cbn; congruence.
Qed.

(* what handle_enc does after the pairwise part leaves the sessions table alone *)
Lemma handle_enc_after_pw a im e a1 p :
  i_pw im = Some e -> decrypt_pw a (sender_of im) e = (a1, DOk p) -> a_sess (fst (handle_enc a im)) = a_sess a1.
Proof.
  intros Hpw D. unfold handle_enc. rewrite Hpw, D.
  set (a2 := match p_skdm p with Some d => process_skdm a1 (sender_of im) d | None => a1 end).
  assert (H2 : a_sess a2 = a_sess a1). { unfold a2. destruct (p_skdm p) as [[g it]|]; reflexivity. }
  destruct (handle_sk a2 im) as [[[a3 o] b] r] eqn:H. apply sess_handle_sk in H.
  destruct b.
  - pose proof (sess_on_exception a3 im r) as He. destruct (on_exception a3 im r) as [a4 o2].
    cbn [fst] in *. congruence.
  - cbn. congruence.
Qed.

Lemma R_handle_enc a im : R a (fst (handle_enc a im)).
Proof.
  unfold handle_enc. destruct (i_pw im) as [e|].
  - pose proof (R_decrypt_pw a (sender_of im) e) as Hd.
    destruct (decrypt_pw a (sender_of im) e) as [a1 res]. cbn [fst] in Hd.
    destruct res; try (eapply R_trans; [exact Hd | apply R_same; apply sess_on_exception]).
    set (a2 := match p_skdm p with Some d => process_skdm a1 (sender_of im) d | None => a1 end).
    assert (H2 : a_sess a2 = a_sess a1). { unfold a2. destruct (p_skdm p) as [[g it]|]; reflexivity. }
    destruct (handle_sk a2 im) as [[[a3 o] b] r] eqn:H. apply sess_handle_sk in H.
    eapply R_trans; [exact Hd|]. apply R_same.
    destruct b.
    + pose proof (sess_on_exception a3 im r) as He. destruct (on_exception a3 im r) as [a4 o2].
      cbn [fst] in *. congruence.
    + cbn. congruence.
  - destruct (handle_sk a im) as [[[a3 o] b] r] eqn:H. apply sess_handle_sk in H. apply R_same.
    destruct b.
    + pose proof (sess_on_exception a3 im r) as He. destruct (on_exception a3 im r) as [a4 o2].
      cbn [fst] in *. congruence.
    + cbn. congruence.
Qed.

Lemma R_process_pending l : forall a, R a (fst (process_pending a l)).
Proof.
  induction l as [|im l IH]; intros a; cbn [process_pending]; [apply R_refl|].
  pose proof (R_handle_enc a im) as H1. destruct (handle_enc a im) as [a1 o1].
  pose proof (IH a1) as H2. destruct (process_pending a1 l) as [a2 o2]. cbn [fst] in *.
  eapply R_trans; eauto.
Qed.

(* base keys drawn by our session builder are fresh (they are 32 random bytes) *)
Fixpoint fresh_sessions (a : acct) (js : list N) (res : list (N * N)) : Prop :=
  match js with
  | [] => True
  | j :: r =>
    match lookup j res with
    | None => fresh_sessions (set_skip a (a_skip a ++ [j])) r res
    | Some sid => find_state sid (record_of a j) = None /\ fresh_sessions (create_session a j sid) r res
    end
  end.

Definition fresh_step (a : acct) (i : input) : Prop :=
  match i with
  | IKeys iq res => match lookup iq (a_iqs a) with
                    | Some (_, js) => fresh_sessions (set_iqs a (remove_key iq (a_iqs a)) (a_iqctr a)) js res
                    | None => True
                    end
  | _ => True
  end.

Lemma R_create_sessions js : forall a res, fresh_sessions a js res -> R a (fst (create_sessions a js res)).
Proof.
  induction js as [|j r IH]; intros a res Hf; cbn [create_sessions]; [apply R_refl|].
  cbn [fresh_sessions] in Hf. destruct (lookup j res) as [sid|].
  - destruct Hf as [Hn Hf]. specialize (IH (create_session a j sid) res Hf).
    destruct (create_sessions (create_session a j sid) r res) as [a1 ok]. cbn [fst] in *.
    eapply R_trans; [|exact IH]. unfold create_session. apply R_upd. intros sid0 n s Fs Ms.
    cbn [find_state s_sid]. destruct (sid =? sid0) eqn:E; [apply N.eqb_eq in E; subst; congruence|].
    exists s. auto.
  - specialize (IH _ res Hf). destruct (create_sessions _ r res) as [a1 ok]. cbn [fst] in *.
    eapply R_trans; [apply R_same; reflexivity | exact IH].
Qed.

Lemma R_keys_result a k js res : fresh_sessions a js res -> R a (fst (keys_result a k js res)).
Proof.
  intros Hf. unfold keys_result. pose proof (R_create_sessions js a res Hf) as H.
  destruct (create_sessions a js res) as [a1 ok]. cbn [fst] in H. destruct k.
  - destruct ok as [|? [|? ?]]; cbn [fst]; auto. eapply R_trans; [exact H | apply R_send_to_contact].
  - destruct ok as [|? [|? ?]]; cbn [fst]; auto. eapply R_trans; [exact H | apply R_plaintext_send].
  - destruct ok; cbn [fst]; auto.
    destruct (filter _ (a_pend a1)) as [|[cv l] rest]; cbn [fst]; auto.
    pose proof (R_process_pending l a1) as Hp. destruct (process_pending a1 l) as [a2 o2].
    cbn [fst] in *. eapply R_trans; [exact H|]. eapply R_trans; [exact Hp | apply R_same; reflexivity].
  - exact H.
  - eapply R_trans; [exact H | apply R_sgws].
Qed.

Lemma R_step a i : fresh_step a i -> R a (fst (step a i)).
Proof.
  intros Hf. destruct i; cbn [step].
  - unfold app_send. destruct (memN _ _); [apply R_refl | apply R_plaintext_send].
  - cbn [fresh_step] in Hf. destruct (lookup iq (a_iqs a)) as [[k js]|]; [|apply R_refl].
    apply (R_trans _ (set_iqs a (remove_key iq (a_iqs a)) (a_iqctr a))); [apply R_same; reflexivity|].
    apply R_keys_result; exact Hf.
  - destruct (lookup iq (a_iqs a)) as [[k js]|]; [|apply R_refl]. destruct k; try apply R_refl.
    unfold ensure_sessions_and_send.
    destruct (filter _ _); (apply (R_trans _ (set_iqs a (remove_key iq (a_iqs a)) (a_iqctr a)));
                            [apply R_same; reflexivity|]); [apply R_sgws | apply R_same; reflexivity].
  - apply R_handle_enc.
  - unfold on_receipt. destruct (take_sent m _ (a_sentq a)) as [[nd|] q']; [|apply R_refl].
    destruct retry; apply R_same; reflexivity.
  - apply R_same. reflexivity.
Qed.

Fixpoint fresh_run (a : acct) (ins : list input) : Prop :=
  match ins with
  | [] => True
  | i :: r => fresh_step a i /\ fresh_run (fst (step a i)) r
  end.

Lemma R_run ins : forall a, fresh_run a ins -> R a (fst (run a ins)).
Proof.
  induction ins as [|i r IH]; intros a Hf; cbn [run]; [apply R_refl|].
  destruct Hf as [H1 H2]. pose proof (R_step a i H1) as Hs. destruct (step a i) as [a1 o]. cbn [fst] in *.
  specialize (IH a1 H2). destruct (run a1 r) as [a2 os]. cbn [fst] in *. eapply R_trans; eauto.
Qed.

Lemma decrypt_pw_marks a c e a1 p : decrypt_pw a c e = (a1, DOk p) -> pw_seen a1 c (pe_sid e) (pe_n e).
Proof.
  assert (Hrec : forall r r', decrypt_record r e = (Some r', DOk p) ->
                 exists s, find_state (pe_sid e) r' = Some s /\ memN (pe_n e) (s_seen s) = true).
  { intros r r'. unfold decrypt_record. destruct (find_state (pe_sid e) r) as [st|] eqn:F; [|discriminate].
    destruct (memN (pe_n e) (s_seen st)); [discriminate|]. destruct (pe_corrupt e); [discriminate|].
    intros H. injection H as <- _. unfold mark_seen. cbn [find_state s_sid].
    apply find_state_sid in F. rewrite F, N.eqb_refl. eexists. split; [reflexivity|].
    cbn [s_seen memN]. rewrite N.eqb_refl. reflexivity. }
  unfold decrypt_pw. destruct (pe_pk e).
  - destruct (negb _ && negb _); [discriminate|].
    destruct (decrypt_record _ e) as [[r'|] res] eqn:D; intros H; injection H as <- ->.
    + unfold pw_seen. rewrite record_of_upd, N.eqb_refl. eapply Hrec; eauto.
    + unfold decrypt_record in D. destruct (find_state _ _); [|discriminate].
      destruct (memN _ _); [discriminate|]. destruct (pe_corrupt e); discriminate.
  - destruct (record_of a c) eqn:Rec; [discriminate|].
    destruct (decrypt_record _ e) as [[r'|] res] eqn:D; intros H; injection H as <- ->.
    + unfold pw_seen. rewrite record_of_upd, N.eqb_refl. eapply Hrec; eauto.
    + unfold decrypt_record in D. destruct (find_state _ _); [|discriminate].
      destruct (memN _ _); [discriminate|]. destruct (pe_corrupt e); discriminate.
Qed.

Lemma seen_gives_receipt a im e :
  i_pw im = Some e -> pw_seen a (sender_of im) (pe_sid e) (pe_n e) ->
  snd (handle_enc a im) = [OReceipt (i_from im) (i_part im) (i_id im)].
Proof.
  intros Hpw [s [F M]]. unfold handle_enc. rewrite Hpw.
  assert (D : decrypt_pw a (sender_of im) e = (a, DDuplicate)).
  { unfold decrypt_pw. destruct (pe_pk e).
    - rewrite F. cbn [negb andb]. unfold decrypt_record. rewrite F, M. reflexivity.
    - destruct (record_of a (sender_of im)) eqn:Rec; [discriminate|].
      unfold decrypt_record. rewrite F, M. reflexivity. }
  rewrite D. reflexivity.
Qed.

Theorem duplicate_not_shown_pairwise_thm : forall a im e a1 p ins,
  i_pw im = Some e -> decrypt_pw a (sender_of im) e = (a1, DOk p) ->
  fresh_run (fst (handle_enc a im)) ins ->
  snd (handle_enc (fst (run (fst (handle_enc a im)) ins)) im) = [OReceipt (i_from im) (i_part im) (i_id im)].
Proof.
  intros a im e a1 p ins Hpw D Hf. apply seen_gives_receipt with (e := e); auto.
  apply (R_run ins _ Hf). apply (R_same a1); [eapply handle_enc_after_pw; eauto|].
  eapply decrypt_pw_marks; eauto.
Qed.

(* ---- the same for a sender-key ciphertext; here no freshness assumption is needed ---- *)
Definition sk_seen (a : acct) (key it : N) : Prop :=
  exists k older, lookup key (a_skpeer a) = Some (k :: older) /\
                  ((it <? k_start k) || memN it (k_seen k) = true).

Definition Q (a a' : acct) : Prop := forall key it, sk_seen a key it -> sk_seen a' key it.
Lemma Q_refl a : Q a a. Proof. intros k i H. exact H. Qed.
Lemma Q_trans a b c : Q a b -> Q b c -> Q a c. Proof. intros H1 H2 k i H. apply H2, H1, H. Qed.
Lemma Q_same a a' : a_skpeer a' = a_skpeer a -> Q a a'.
Proof. intros H key it [k [older [L M]]]. exists k, older. rewrite H. auto. Qed.

Lemma Q_decrypt_sk a g s e : Q a (fst (decrypt_sk a g s e)).
Proof.
  unfold decrypt_sk. destruct (lookup (pairkey g s) (a_skpeer a)) as [[|k older]|] eqn:L; try apply Q_refl.
  destruct (se_corrupt e); [apply Q_refl|]. destruct (_ || _) eqn:E; [apply Q_refl|]. cbn [fst].
  intros key it [k0 [older0 [L0 M0]]]. unfold sk_seen. cbn [a_skpeer set_skpeer]. rewrite lookup_upd.
  destruct (pairkey g s =? key) eqn:Ek.
  - apply N.eqb_eq in Ek. subst key. rewrite L in L0. injection L0 as <- <-.
    eexists _, _. split; [reflexivity|]. cbn [k_start k_seen].
    apply orb_true_iff in M0. apply orb_true_iff. destruct M0 as [M0 | M0]; [left; exact M0|].
    right. apply memN_cons. exact M0.
  - exists k0, older0. auto.
Qed.

Lemma Q_process_skdm a s d : Q a (process_skdm a s d).
Proof.
  destruct d as [g it]. unfold process_skdm. intros key i [k [older [L M]]].
  unfold sk_seen. cbn [a_skpeer set_skpeer]. rewrite lookup_upd.
  destruct (pairkey g s =? key) eqn:Ek.
  - apply N.eqb_eq in Ek. subst key. rewrite L. cbn [app]. eexists _, _. split; [reflexivity | exact M].
  - exists k, older. auto.
Qed.

Lemma skpeer_decrypt_pw a c e : a_skpeer (fst (decrypt_pw a c e)) = a_skpeer a.
Proof.
  unfold decrypt_pw. destruct (pe_pk e).
  - destruct (negb _ && negb _); [reflexivity|].
    destruct (decrypt_record _ e) as [[r'|] res]; reflexivity.
  - destruct (record_of a c); [reflexivity|].
    destruct (decrypt_record _ e) as [[r'|] res]; reflexivity.
Qed.

Lemma skpeer_on_exception a im r : a_skpeer (fst (on_exception a im r)) = a_skpeer a.
Proof. unfold on_exception, bump_retry. destruct r; reflexivity. Qed.

Lemma Q_handle_sk a im a' o b r : handle_sk a im = (a', o, b, r) -> Q a a'.
Proof.
  unfold handle_sk. destruct (i_sk im) as [e|]; [|intros H; injection H as <- _ _ _; apply Q_refl].
  pose proof (Q_decrypt_sk a (i_from im) (sender_of im) e) as Hd.
  destruct (decrypt_sk a (i_from im) (sender_of im) e) as [a1 res]. cbn [fst] in Hd.
  destruct res; unfold bump_retry; intros H; injection H as <- _ _ _; exact Hd.
Qed.

Lemma Q_handle_enc a im : Q a (fst (handle_enc a im)).
Proof.
  unfold handle_enc. destruct (i_pw im) as [e|].
  - pose proof (skpeer_decrypt_pw a (sender_of im) e) as Hd.
    destruct (decrypt_pw a (sender_of im) e) as [a1 res]. cbn [fst] in Hd.
    destruct res; try (apply Q_same; rewrite skpeer_on_exception; exact Hd).
    set (a2 := match p_skdm p with Some d => process_skdm a1 (sender_of im) d | None => a1 end).
    assert (H2 : Q a1 a2). { unfold a2. destruct (p_skdm p); [apply Q_process_skdm | apply Q_refl]. }
    destruct (handle_sk a2 im) as [[[a3 o] b] r] eqn:H. apply Q_handle_sk in H.
    eapply Q_trans; [apply Q_same; exact Hd|]. eapply Q_trans; [exact H2|]. eapply Q_trans; [exact H|].
    destruct b.
    + pose proof (skpeer_on_exception a3 im r) as He. destruct (on_exception a3 im r) as [a4 o2].
      cbn [fst] in *. apply Q_same. exact He.
    + cbn [fst]. apply Q_same. reflexivity.
  - destruct (handle_sk a im) as [[[a3 o] b] r] eqn:H. apply Q_handle_sk in H.
    eapply Q_trans; [exact H|].
    destruct b.
    + pose proof (skpeer_on_exception a3 im r) as He. destruct (on_exception a3 im r) as [a4 o2].
      cbn [fst] in *. apply Q_same. exact He.
    + cbn [fst]. apply Q_same. reflexivity.
Qed.

Lemma Q_process_pending l : forall a, Q a (fst (process_pending a l)).
Proof.
  induction l as [|im l IH]; intros a; cbn [process_pending]; [apply Q_refl|].
  pose proof (Q_handle_enc a im) as H1. destruct (handle_enc a im) as [a1 o1].
  pose proof (IH a1) as H2. destruct (process_pending a1 l) as [a2 o2]. cbn [fst] in *.
  eapply Q_trans; eauto.
Qed.

Lemma skpeer_encrypt a c a1 x : encrypt a c = Some (a1, x) -> a_skpeer a1 = a_skpeer a.
Proof. unfold encrypt. destruct (record_of a c); [discriminate|]. intros H. injection H as <- _. reflexivity. Qed.

Lemma skpeer_send_enc a nd es p : a_skpeer (fst (send_enc_entities a nd es p)) = a_skpeer a.
Proof. unfold send_enc_entities. destruct p; reflexivity. Qed.

Lemma skpeer_send_to_contact a nd : a_skpeer (fst (send_to_contact a nd)) = a_skpeer a.
Proof.
  unfold send_to_contact. destruct (encrypt a (n_to nd)) as [[a1 [[pk sid] n]]|] eqn:E; [|reflexivity].
  rewrite skpeer_send_enc. eapply skpeer_encrypt; eauto.
Qed.

Lemma skpeer_enc_for_jids js : forall a pay mt d, a_skpeer (fst (enc_for_jids a js pay mt d)) = a_skpeer a.
Proof.
  induction js as [|j r IH]; intros a pay mt d; cbn [enc_for_jids]; [reflexivity|].
  destruct (encrypt a j) as [[a1 [[pk sid] n]]|] eqn:E; [|apply IH].
  specialize (IH a1 pay mt d). destruct (enc_for_jids a1 r pay mt d) as [a2 es]. cbn [fst] in *.
  rewrite IH. eapply skpeer_encrypt; eauto.
Qed.

Lemma skpeer_sgws a nd js r : a_skpeer (fst (send_to_group_with_sessions a nd js r)) = a_skpeer a.
Proof.
  unfold send_to_group_with_sessions.
  set (a0 := match js with [] => a | _ => _ end).
  assert (H0 : a_skpeer a0 = a_skpeer a).
  { unfold a0. destruct js; [reflexivity|]. destruct (lookup (n_to nd) (a_skown a)); reflexivity. }
  pose proof (skpeer_enc_for_jids js a0) as He.
  match goal with |- context [enc_for_jids a0 js ?p ?m ?d] => specialize (He p m d);
    destruct (enc_for_jids a0 js p m d) as [a1 es] end.
  cbn [fst] in He.
  destruct (0 <? r); [rewrite skpeer_send_enc; congruence|].
  destruct (lookup (n_to nd) (a_skown a1)); [rewrite skpeer_send_enc; cbn; congruence | cbn [fst]; congruence].
Qed.

Lemma skpeer_plaintext_send a nd r : a_skpeer (fst (plaintext_send a nd r)) = a_skpeer a.
Proof.
  unfold plaintext_send. destruct (is_group (n_to nd)).
  - unfold send_to_group. destruct (lookup (n_to nd) (a_skown a)); [|reflexivity].
    destruct r as [[c cnt]|]; apply skpeer_sgws.
  - destruct (session_exists a (n_to nd)); [apply skpeer_send_to_contact | reflexivity].
Qed.

Lemma skpeer_create_sessions js : forall a res, a_skpeer (fst (create_sessions a js res)) = a_skpeer a.
Proof.
  induction js as [|j r IH]; intros a res; cbn [create_sessions]; [reflexivity|].
  destruct (lookup j res) as [sid|].
  - specialize (IH (create_session a j sid) res). destruct (create_sessions _ r res) as [a1 ok]. exact IH.
  - specialize (IH (set_skip a (a_skip a ++ [j])) res). destruct (create_sessions _ r res) as [a1 ok]. exact IH.
Qed.

Lemma Q_step a i : Q a (fst (step a i)).
Proof.
  destruct i; cbn [step].
  - unfold app_send. destruct (memN _ _); [apply Q_refl | apply Q_same; apply skpeer_plaintext_send].
  - destruct (lookup iq (a_iqs a)) as [[k js]|]; [|apply Q_refl].
    unfold keys_result. pose proof (skpeer_create_sessions js (set_iqs a (remove_key iq (a_iqs a)) (a_iqctr a)) res) as H.
    destruct (create_sessions _ js res) as [a1 ok]. cbn [fst] in H. cbn [a_skpeer set_iqs] in H.
    destruct k.
    + destruct ok as [|? [|? ?]]; cbn [fst]; try (apply Q_same; exact H).
      apply Q_same. rewrite skpeer_send_to_contact. exact H.
    + destruct ok as [|? [|? ?]]; cbn [fst]; try (apply Q_same; exact H).
      apply Q_same. rewrite skpeer_plaintext_send. exact H.
    + destruct ok; cbn [fst]; try (apply Q_same; exact H).
      destruct (filter _ (a_pend a1)) as [|[cv l] rest]; cbn [fst]; try (apply Q_same; exact H).
      pose proof (Q_process_pending l a1) as Hp. destruct (process_pending a1 l) as [a2 o2]. cbn [fst] in *.
      eapply Q_trans; [apply Q_same; exact H|]. eapply Q_trans; [exact Hp | apply Q_same; reflexivity].
    + apply Q_same; exact H.
    + apply Q_same. rewrite skpeer_sgws. exact H.
  - destruct (lookup iq (a_iqs a)) as [[k js]|]; [|apply Q_refl]. destruct k; try apply Q_refl.
    unfold ensure_sessions_and_send. apply Q_same.
    destruct (filter _ _); [rewrite skpeer_sgws | ]; reflexivity.
  - apply Q_handle_enc.
  - unfold on_receipt. destruct (take_sent m _ (a_sentq a)) as [[nd|] q']; [|apply Q_refl].
    destruct retry; apply Q_same; reflexivity.
  - apply Q_same. reflexivity.
Qed.

Lemma Q_run ins : forall a, Q a (fst (run a ins)).
Proof.
  induction ins as [|i r IH]; intros a; cbn [run]; [apply Q_refl|].
  pose proof (Q_step a i) as Hs. destruct (step a i) as [a1 o]. cbn [fst] in *.
  specialize (IH a1). destruct (run a1 r) as [a2 os]. cbn [fst] in *. eapply Q_trans; eauto.
Qed.

Theorem duplicate_not_shown_senderkey_thm : forall a im e a1 p ins,
  i_pw im = None -> i_sk im = Some e -> se_corrupt e = false ->
  decrypt_sk a (i_from im) (sender_of im) e = (a1, DOk p) ->
  snd (handle_enc (fst (run (fst (handle_enc a im)) ins)) im) = [OReceipt (i_from im) (i_part im) (i_id im)].
Proof.
  intros a im e a1 p ins Hpw Hsk Hc D.
  set (key := pairkey (i_from im) (sender_of im)).
  assert (S1 : sk_seen a1 key (se_iter e)).
  { unfold decrypt_sk in D. fold key in D.
    destruct (lookup key (a_skpeer a)) as [[|k older]|] eqn:L; try discriminate.
    rewrite Hc in D. destruct (_ || _); [discriminate|]. injection D as <- _.
    unfold sk_seen. cbn [a_skpeer set_skpeer]. rewrite lookup_upd, N.eqb_refl.
    eexists _, _. split; [reflexivity|]. cbn [k_seen k_start memN]. rewrite N.eqb_refl. apply orb_true_r. }
  assert (S2 : sk_seen (fst (handle_enc a im)) key (se_iter e)).
  { assert (Hq : Q a1 (fst (handle_enc a im))).
    { unfold handle_enc, handle_sk. rewrite Hpw, Hsk, D. cbn [fst]. apply Q_same. reflexivity. }
    apply Hq, S1. }
  pose proof (Q_run ins _ key (se_iter e) S2) as [k [older [L M]]].
  set (b := fst (run (fst (handle_enc a im)) ins)) in *.
  unfold handle_enc, handle_sk. rewrite Hpw, Hsk. unfold decrypt_sk. fold key. rewrite L, Hc, M. reflexivity.
Qed.

(* ---- run-level bound on sentQueue ---- *)
Definition sentq_ok (a : acct) : Prop := (length (a_sentq a) <= 100)%nat.

Theorem sentq_bounded_thm : forall a nd es p,
  sentq_ok a -> sentq_ok (fst (send_enc_entities a nd es p)) /\
  (length (a_sentq a) = 100%nat -> p = None ->
   a_sentq (fst (send_enc_entities a nd es p)) = tl (a_sentq a) ++ [nd]).
Proof.
  intros a nd es p H. unfold sentq_ok, send_enc_entities in *. destruct p; cbn [fst a_sentq set_sentq].
  - split; [exact H | discriminate].
  - split; [apply enqueue_bound; exact H|]. intros Hl _. unfold enqueue_sent. rewrite Hl. reflexivity.
Qed.

(* =====================================================================================================
   7. Completeness - NOT proved in general (needs a fairness argument over the server queue and a world-level
   ratchet invariant); only this computed fault-free exchange, with the server's routing done by hand: A sends
   image 7 to B (no session yet), the directory answers, B is shown it once and acknowledges, A's application
   gets the receipt; then B's reply travels as a normal message. *)
Definition nd7 : node := mkN 7 1 1 1 7.
Definition a_run := run (init 0 true)
  [IAppSend nd7; IKeys 0 [(1, 50)]; IReceipt 1 None 7 None;
   IMsg (mkI 1 None 8 0 0 (Some (mkPE false 50 0 true false (mkP None (Some 8)))) None)].
Definition b_run := run (init 1 true)
  [IMsg (mkI 0 None 7 1 1 (Some (mkPE true 50 0 true false (mkP None (Some 7)))) None);
   IAppSend (mkN 8 0 0 0 8); IReceipt 0 None 8 None].

Example complete_partial_example :
  snd a_run = [ [OGetKeys 0 [1]];
                [OMsg 1 7 1 None [OEP None true 1 50 0 (mkP None (Some 7)) 1]];
                [OTopReceipt 1 None 7 false];
                [ODeliver 1 None 8 0 0 (Some 8); OReceipt 1 None 8] ] /\
  snd b_run = [ [ODeliver 0 None 7 1 1 (Some 7); OReceipt 0 None 7];
                [OMsg 0 8 0 None [OEP None false 0 50 0 (mkP None (Some 8)) 0]];
                [OTopReceipt 0 None 8 false] ].
Proof. vm_compute. split; reflexivity. Qed.
