(* C03 - world-level safety: whatever the script, the schedule and the fault placement, an entity shown to account r
   with id m belongs to the send step that created m: r is an addressee (the contact, or a member of the group), the
   sender / group shown are that step's, and the content is that step's content. *)
From YV Require Import Common.Tac C03.C03Model C03.C03Proofs C03.C03WorldModel.
Local Open Scope N_scope.

Section WorldProofs.
  Variable groups : list (N * list N).
  Variable orig : list (N * (N * node)).   (* the script: message id -> (sender, stanza its application sends) *)

  Definition good_node (s : N) (nd : node) : Prop := lookup (n_id nd) orig = Some (s, nd).

  Definition good_enc (nd : node) (e : oenc) : Prop :=
    match e with
    | OEP _ _ _ _ _ pay _ => forall c, p_content pay = Some c -> c = n_content nd
    | OES _ c _ => c = n_content nd
    end.

  Definition good_out (s : N) (o : output) : Prop :=
    match o with
    | OMsg to m ty part encs =>
      exists nd, good_node s nd /\ n_to nd = to /\ n_id nd = m /\ n_ty nd = ty /\ Forall (good_enc nd) encs
    | _ => True
    end.

  Definition good_cont (s : N) (k : cont) : Prop :=
    match k with
    | KSend nd | KRetry _ nd _ | KGroupInfo nd | KGroupKeys nd => good_node s nd
    | KIncoming _ => True
    end.

  (* a message stanza queued for / parked at account r *)
  Definition good_in (r : N) (im : inmsg) : Prop :=
    exists s nd, lookup (i_id im) orig = Some (s, nd) /\ i_ty im = n_ty nd /\
      ((is_group (n_to nd) = false /\ n_to nd = r /\ i_from im = s /\ i_part im = None) \/
       (is_group (n_to nd) = true /\ i_from im = n_to nd /\ i_part im = Some s /\ In r (members groups (n_to nd)))) /\
      (forall e c, i_pw im = Some e -> p_content (pe_pay e) = Some c -> c = n_content nd) /\
      (forall e, i_sk im = Some e -> se_content e = n_content nd).

  Definition good_acct (s : N) (a : acct) : Prop :=
    Forall (good_node s) (a_sentq a) /\
    Forall (fun x => good_cont s (fst (snd x))) (a_iqs a) /\
    Forall (fun x => Forall (good_in s) (snd x)) (a_pend a).

  (* what we claim about an entity shown to r *)
  Definition deliver_ok (r : N) (o : output) : Prop :=
    match o with
    | ODeliver f part m ty mt c =>
      exists s nd, lookup m orig = Some (s, nd) /\ ty = n_ty nd /\
        ((is_group (n_to nd) = false /\ n_to nd = r /\ f = s /\ part = None) \/
         (is_group (n_to nd) = true /\ f = n_to nd /\ part = Some s /\ In r (members groups (n_to nd)))) /\
        (forall c', c = Some c' -> c' = n_content nd)
    | _ => True
    end.

  Definition good_input (s : N) (i : input) : Prop :=
    match i with
    | IAppSend nd => good_node s nd
    | IMsg im => good_in s im
    | _ => True
    end.

  (* ---------- sender side: whatever is stored or sent is a stanza the application handed down ---------- *)
  Definition SQ (s : N) (a a' : acct) : Prop :=
    (Forall (good_node s) (a_sentq a) -> Forall (good_node s) (a_sentq a')) /\
    (Forall (fun x => good_cont s (fst (snd x))) (a_iqs a) -> Forall (fun x => good_cont s (fst (snd x))) (a_iqs a')) /\
    a_pend a' = a_pend a.

  Lemma SQ_refl s a : SQ s a a. Proof. repeat split; auto. Qed.
  Lemma SQ_trans s a b c : SQ s a b -> SQ s b c -> SQ s a c.
  Proof. intros [A1 [B1 C1]] [A2 [B2 C2]]. repeat split; auto. congruence. Qed.
  Lemma SQ_same s a a' : a_sentq a' = a_sentq a -> a_iqs a' = a_iqs a -> a_pend a' = a_pend a -> SQ s a a'.
  Proof. intros H1 H2 H3. repeat split; try congruence; rewrite ?H1, ?H2; auto. Qed.

  Lemma SQ_encrypt s a c a1 x : encrypt a c = Some (a1, x) -> SQ s a a1.
  Proof.
    unfold encrypt. destruct (record_of a c); [discriminate|]. intros H. injection H as <- _.
    apply SQ_same; reflexivity.
  Qed.

  Lemma tl_forall {A} (P : A -> Prop) l : Forall P l -> Forall P (tl l).
  Proof. intros H. destruct l; [constructor|]. inversion H; auto. Qed.

  Lemma good_send_enc s a nd es p :
    good_node s nd -> Forall (good_enc nd) es ->
    SQ s a (fst (send_enc_entities a nd es p)) /\ Forall (good_out s) (snd (send_enc_entities a nd es p)).
  Proof.
    intros Hn He. unfold send_enc_entities. split.
    - destruct p; [apply SQ_refl|]. repeat split; cbn [fst a_sentq a_iqs a_pend set_sentq]; auto.
      intros H. unfold enqueue_sent. apply Forall_app. split; [|repeat constructor; auto].
      destruct (100 <=? _); [apply tl_forall|]; auto.
    - cbn [snd]. repeat constructor. exists nd. auto.
  Qed.

  Lemma good_send_to_contact s a nd :
    good_node s nd -> SQ s a (fst (send_to_contact a nd)) /\ Forall (good_out s) (snd (send_to_contact a nd)).
  Proof.
    intros Hn. unfold send_to_contact. destruct (encrypt a (n_to nd)) as [[a1 [[pk sid] n]]|] eqn:E.
    - destruct (good_send_enc s a1 nd [OEP None pk (n_to nd) sid n (mkP None (Some (n_content nd))) (n_mt nd)] None Hn)
        as [H1 H2].
      { repeat constructor. cbn. intros c H. injection H as <-. reflexivity. }
      split; auto. eapply SQ_trans; [eapply SQ_encrypt; eauto | exact H1].
    - split; [apply SQ_refl | constructor].
  Qed.

  Lemma good_enc_for_jids s nd js : forall a pay mt d,
    (forall c, p_content pay = Some c -> c = n_content nd) ->
    SQ s a (fst (enc_for_jids a js pay mt d)) /\ Forall (good_enc nd) (snd (enc_for_jids a js pay mt d)).
  Proof.
    induction js as [|j r IH]; intros a pay mt d Hp; cbn [enc_for_jids]; [split; [apply SQ_refl | constructor]|].
    destruct (encrypt a j) as [[a1 [[pk sid] n]]|] eqn:E; [|apply IH; auto].
    specialize (IH a1 pay mt d Hp). destruct (enc_for_jids a1 r pay mt d) as [a2 es]. cbn [fst snd] in *.
    destruct IH as [I1 I2]. split; [eapply SQ_trans; [eapply SQ_encrypt; eauto | exact I1]|].
    constructor; auto.
  Qed.

  Lemma good_sgws s a nd js r :
    good_node s nd ->
    SQ s a (fst (send_to_group_with_sessions a nd js r)) /\
    Forall (good_out s) (snd (send_to_group_with_sessions a nd js r)).
  Proof.
    intros Hn. unfold send_to_group_with_sessions.
    set (a0 := match js with [] => a | _ => _ end).
    assert (H0 : SQ s a a0).
    { unfold a0. destruct js; [apply SQ_refl|]. destruct (lookup (n_to nd) (a_skown a));
        [apply SQ_refl | apply SQ_same; reflexivity]. }
    set (pay := mkP _ _).
    assert (Hp : forall c, p_content pay = Some c -> c = n_content nd).
    { unfold pay. cbn [p_content]. destruct (0 <? r); [|discriminate]. intros c H. injection H as <-. reflexivity. }
    destruct (good_enc_for_jids s nd js a0 pay (n_mt nd)
               (match js with [_] => 0 <? r | _ => false end) Hp) as [H1 H2].
    destruct (enc_for_jids a0 js pay (n_mt nd) _) as [a1 es]. cbn [fst snd] in H1, H2.
    destruct (0 <? r).
    - destruct (good_send_enc s a1 nd es
                  (if match js with [_] => true | _ => false end then hd_error js else None) Hn H2) as [G1 G2].
      split; auto. eapply SQ_trans; [exact H0|]. eapply SQ_trans; eauto.
    - destruct (lookup (n_to nd) (a_skown a1)) as [i|].
      + set (a2 := set_skown a1 _).
        destruct (good_send_enc s a2 nd (es ++ [OES i (n_content nd) (n_mt nd)])
                    (if match js with [_] => false | _ => false end then hd_error js else None) Hn) as [G1 G2].
        { apply Forall_app. split; auto. repeat constructor. }
        split; auto. eapply SQ_trans; [exact H0|]. eapply SQ_trans; [exact H1|].
        eapply SQ_trans; [|exact G1]. apply SQ_same; reflexivity.
      + split; [eapply SQ_trans; eauto | constructor].
  Qed.

  Lemma good_get_keys s a js k :
    good_cont s k -> SQ s a (fst (get_keys a js k)) /\ Forall (good_out s) (snd (get_keys a js k)).
  Proof.
    intros Hk. unfold get_keys. split; [|repeat constructor].
    repeat split; cbn [fst a_sentq a_iqs a_pend set_iqs]; auto.
  Qed.

  Lemma good_plaintext_send s a nd r :
    good_node s nd -> SQ s a (fst (plaintext_send a nd r)) /\ Forall (good_out s) (snd (plaintext_send a nd r)).
  Proof.
    intros Hn. unfold plaintext_send. destruct (is_group (n_to nd)).
    - unfold send_to_group. destruct (lookup (n_to nd) (a_skown a)).
      + destruct r as [[c cnt]|]; apply good_sgws; auto.
      + split; [|repeat constructor]. repeat split; cbn [fst a_sentq a_iqs a_pend set_iqs]; auto.
    - destruct (session_exists a (n_to nd)); [apply good_send_to_contact | apply good_get_keys]; auto.
  Qed.

  (* ---------- receiver side ---------- *)
  Lemma dispatch_good a im p : Forall (good_out (a_me a)) (dispatch_up a im p) /\
                               forall s, Forall (good_out s) (dispatch_up a im p).
  Proof.
    assert (H : forall s, Forall (good_out s) (dispatch_up a im p)).
    { intros s. apply Forall_forall. intros o Ho. unfold dispatch_up in Ho. apply in_app_or in Ho.
      destruct o; try exact I. exfalso. destruct Ho as [Ho | Ho].
      - destruct (i_mt im =? 0); [|destruct Ho].
        destruct (p_content p); [destruct (i_ty im =? 0) | destruct (p_skdm p)]; cbn [In] in Ho;
          intuition discriminate.
      - destruct ((i_ty im =? 1) && negb (i_mt im =? 0)); [|destruct Ho].
        destruct (p_content p), (p_skdm p); try destruct (a_guard a); cbn [In] in Ho; intuition discriminate. }
    split; auto.
  Qed.

  Lemma sq_decrypt_pw s a c e : SQ s a (fst (decrypt_pw a c e)).
  Proof.
    unfold decrypt_pw. destruct (pe_pk e).
    - destruct (negb _ && negb _); [apply SQ_refl|].
      destruct (decrypt_record _ e) as [[r'|] res]; [apply SQ_same; reflexivity | apply SQ_refl].
    - destruct (record_of a c); [apply SQ_refl|].
      destruct (decrypt_record _ e) as [[r'|] res]; [apply SQ_same; reflexivity | apply SQ_refl].
  Qed.

  Lemma sq_decrypt_sk s a g x e : SQ s a (fst (decrypt_sk a g x e)).
  Proof.
    unfold decrypt_sk. destruct (lookup (pairkey g x) (a_skpeer a)) as [[|k older]|]; try apply SQ_refl.
    destruct (se_corrupt e); [apply SQ_refl|]. destruct (_ || _); [apply SQ_refl | apply SQ_same; reflexivity].
  Qed.

  (* a weaker relation for the receive path, which may park the stanza it is handling *)
  Definition RQ (s : N) (im : inmsg) (a a' : acct) : Prop :=
    (Forall (good_node s) (a_sentq a) -> Forall (good_node s) (a_sentq a')) /\
    (Forall (fun x => good_cont s (fst (snd x))) (a_iqs a) -> Forall (fun x => good_cont s (fst (snd x))) (a_iqs a')) /\
    (good_in s im -> Forall (fun x => Forall (good_in s) (snd x)) (a_pend a) ->
     Forall (fun x => Forall (good_in s) (snd x)) (a_pend a')).

  Lemma RQ_of_SQ s im a a' : SQ s a a' -> RQ s im a a'.
  Proof. intros [A [B C]]. repeat split; auto. rewrite C. auto. Qed.

  Lemma RQ_trans s im a b c : RQ s im a b -> RQ s im b c -> RQ s im a c.
  Proof. intros [A1 [B1 C1]] [A2 [B2 C2]]. repeat split; auto. Qed.

  Lemma filter_forall {A} (P : A -> Prop) f l : Forall P l -> Forall P (filter f l).
  Proof. intros H. apply Forall_forall. intros x Hx. apply filter_In in Hx. eapply Forall_forall; eauto. tauto. Qed.

  Lemma good_on_exception s a im r :
    RQ s im a (fst (on_exception a im r)) /\ Forall (good_out s) (snd (on_exception a im r)).
  Proof.
    unfold on_exception, bump_retry, get_keys.
    destruct r; cbn [fst snd]; (split; [|repeat constructor]); try (apply RQ_of_SQ; apply SQ_same; reflexivity).
    split; [cbn [a_sentq set_iqs set_pend]; auto|]. split.
    { cbn [a_iqs set_iqs set_pend]. intros H. constructor; [exact I | exact H]. }
    cbn [a_pend set_iqs set_pend]. intros Him Hp. constructor; [|apply filter_forall; exact Hp].
    cbn [snd]. apply Forall_app. split; [|repeat constructor; auto].
    destruct (filter _ (a_pend a)) as [|[cv l] rest] eqn:F; [constructor|].
    assert (Hin : In (cv, l) (a_pend a)).
    { assert (Hx : In (cv, l) (filter (fun x => conv_eqb (fst x) (i_from im, i_part im)) (a_pend a)))
        by (rewrite F; left; reflexivity).
      apply filter_In in Hx. tauto. }
    eapply Forall_forall in Hp; eauto. exact Hp.
  Qed.

  Lemma good_handle_sk s a im a' o b r :
    handle_sk a im = (a', o, b, r) -> SQ s a a' /\ Forall (good_out s) o.
  Proof.
    unfold handle_sk. destruct (i_sk im) as [e|].
    2:{ intros H. injection H as <- <- _ _. split; [apply SQ_refl | constructor]. }
    pose proof (sq_decrypt_sk s a (i_from im) (sender_of im) e) as Hd.
    destruct (decrypt_sk a (i_from im) (sender_of im) e) as [a1 res]. cbn [fst] in Hd.
    destruct res; unfold bump_retry; intros H; injection H as <- <- _ _.
    - split; [exact Hd | apply dispatch_good].
    - split; [eapply SQ_trans; [exact Hd | apply SQ_same; reflexivity] | repeat constructor].
    - split; [exact Hd | constructor].
    - split; [exact Hd | constructor].
    - split; [exact Hd | constructor].
  Qed.

  Lemma good_handle_enc s a im :
    RQ s im a (fst (handle_enc a im)) /\ Forall (good_out s) (snd (handle_enc a im)).
  Proof.
    unfold handle_enc. destruct (i_pw im) as [e|].
    - pose proof (sq_decrypt_pw s a (sender_of im) e) as Hd.
      destruct (decrypt_pw a (sender_of im) e) as [a1 res]. cbn [fst] in Hd.
      destruct res; try (destruct (good_on_exception s a1 im ltac:(eassumption || constructor)) as [X Y];
                         split; [eapply RQ_trans; [apply RQ_of_SQ; exact Hd | exact X] | exact Y]).
      + set (a2 := match p_skdm p with Some d => process_skdm a1 (sender_of im) d | None => a1 end).
        assert (H2 : SQ s a1 a2).
        { unfold a2. destruct (p_skdm p) as [[g it]|]; [apply SQ_same; reflexivity | apply SQ_refl]. }
        destruct (handle_sk a2 im) as [[[a3 o] b] r] eqn:H. apply (good_handle_sk s) in H. destruct H as [H3 O3].
        assert (Hup : Forall (good_out s) (dispatch_up a2 im p)) by apply dispatch_good.
        destruct b.
        * destruct (good_on_exception s a3 im r) as [X Y]. destruct (on_exception a3 im r) as [a4 o2].
          cbn [fst snd] in *. split.
          -- eapply RQ_trans; [apply RQ_of_SQ; eapply SQ_trans; [exact Hd|]; eapply SQ_trans; eauto | exact X].
          -- apply Forall_app. split; auto. apply Forall_app. split; auto.
        * cbn [fst snd]. split.
          -- apply RQ_of_SQ. eapply SQ_trans; [exact Hd|]. eapply SQ_trans; [exact H2|].
             eapply SQ_trans; [exact H3 | apply SQ_same; reflexivity].
          -- apply Forall_app. split; auto.
      + destruct (good_on_exception s a1 im DNoSession) as [X Y].
        split; [eapply RQ_trans; [apply RQ_of_SQ; exact Hd | exact X] | exact Y].
      + destruct (good_on_exception s a1 im DInvalidKeyId) as [X Y].
        split; [eapply RQ_trans; [apply RQ_of_SQ; exact Hd | exact X] | exact Y].
      + destruct (good_on_exception s a1 im DInvalidMsg) as [X Y].
        split; [eapply RQ_trans; [apply RQ_of_SQ; exact Hd | exact X] | exact Y].
      + destruct (good_on_exception s a1 im DDuplicate) as [X Y].
        split; [eapply RQ_trans; [apply RQ_of_SQ; exact Hd | exact X] | exact Y].
    - destruct (handle_sk a im) as [[[a3 o] b] r] eqn:H. apply (good_handle_sk s) in H. destruct H as [H3 O3].
      destruct b.
      + destruct (good_on_exception s a3 im r) as [X Y]. destruct (on_exception a3 im r) as [a4 o2].
        cbn [fst snd] in *. split; [eapply RQ_trans; [apply RQ_of_SQ; exact H3 | exact X]|].
        apply Forall_app. split; auto.
      + cbn [fst snd]. split; auto. apply RQ_of_SQ. eapply SQ_trans; [exact H3 | apply SQ_same; reflexivity].
  Qed.

  Lemma deliver_of_authentic r im o : good_in r im -> authentic_for im o -> deliver_ok r o.
  Proof.
    intros [s [nd [Ho [Hty [Hto [Hpw Hsk]]]]]] Ha. destruct o; try exact I. cbn [authentic_for] in Ha.
    destruct Ha as [-> [-> [-> [-> [-> Hc]]]]]. cbn [deliver_ok]. exists s, nd. repeat split; auto.
    intros c' Hc'. destruct Hc as [[e [E1 [E2 E3]]] | [e [E1 [E2 E3]]]].
    - subst content. eapply Hpw; eauto.
    - subst content. injection Hc' as <-. eapply Hsk; eauto.
  Qed.

  Lemma deliver_handle_enc r a im : good_in r im -> Forall (deliver_ok r) (snd (handle_enc a im)).
  Proof.
    intros Hg. pose proof (authentic_thm a im) as H. eapply Forall_impl; [|exact H].
    intros o. apply deliver_of_authentic. exact Hg.
  Qed.

  Definition pend_ok (s : N) (a : acct) : Prop := Forall (fun x => Forall (good_in s) (snd x)) (a_pend a).

  Lemma good_process_pending s l : forall a,
    Forall (good_in s) l -> good_acct s a ->
    good_acct s (fst (process_pending a l)) /\ Forall (good_out s) (snd (process_pending a l)) /\
    Forall (deliver_ok s) (snd (process_pending a l)).
  Proof.
    induction l as [|im l IH]; intros a Hl Ha; cbn [process_pending];
      [cbn [fst snd]; split; [exact Ha | split; constructor]|].
    inversion Hl as [|? ? Him Hl']; subst.
    destruct (good_handle_enc s a im) as [[A [B C]] O1]. pose proof (deliver_handle_enc s a im Him) as D1.
    destruct (handle_enc a im) as [a1 o1]. cbn [fst snd] in *.
    destruct Ha as [Ha1 [Ha2 Ha3]].
    assert (Ha' : good_acct s a1) by (repeat split; auto).
    destruct (IH a1 Hl' Ha') as [G [O2 D2]]. destruct (process_pending a1 l) as [a2 o2]. cbn [fst snd] in *.
    split; [exact G|]. split; apply Forall_app; auto.
  Qed.

  Lemma good_create_sessions s js : forall a res, SQ s a (fst (create_sessions a js res)).
  Proof.
    induction js as [|j r IH]; intros a res; cbn [create_sessions]; [apply SQ_refl|].
    destruct (lookup j res) as [sid|].
    - specialize (IH (create_session a j sid) res). destruct (create_sessions _ r res) as [a1 ok]. cbn [fst] in *.
      eapply SQ_trans; [apply SQ_same; reflexivity | exact IH].
    - specialize (IH (set_skip a (a_skip a ++ [j])) res). destruct (create_sessions _ r res) as [a1 ok].
      cbn [fst] in *. eapply SQ_trans; [apply SQ_same; reflexivity | exact IH].
  Qed.

  Lemma acct_of_SQ s a a' : SQ s a a' -> good_acct s a -> good_acct s a'.
  Proof. intros [A [B C]] [H1 [H2 H3]]. repeat split; auto. rewrite C. exact H3. Qed.

  Lemma take_sent_good s m keep q nd q' :
    take_sent m keep q = (Some nd, q') -> Forall (good_node s) q -> good_node s nd /\ Forall (good_node s) q'.
  Proof.
    revert q'. induction q as [|x q IH]; intros q'; cbn [take_sent]; [discriminate|].
    destruct (n_id x =? m).
    - intros H Hq. injection H as <- <-. inversion Hq as [|? ? Hx Hr]; subst. split; auto. destruct keep; auto.
    - destruct (take_sent m keep q) as [f r'] eqn:E. intros H Hq. injection H as -> <-.
      inversion Hq as [|? ? Hx Hr]; subst. destruct (IH r' eq_refl Hr) as [G1 G2]. split; auto.
  Qed.

  Lemma take_sent_none_q m keep q q' :
    take_sent m keep q = (None, q') -> q' = q.
  Proof.
    revert q'. induction q as [|x q IH]; intros q'; cbn [take_sent]; [intros H; injection H as <-; reflexivity|].
    destruct (n_id x =? m); [discriminate|].
    destruct (take_sent m keep q) as [f r'] eqn:E. intros H. injection H as -> <-. rewrite (IH r' eq_refl). reflexivity.
  Qed.

  Lemma lookup_in {A} k (l : list (N * A)) v : lookup k l = Some v -> In (k, v) l.
  Proof.
    induction l as [|[k' v'] l IH]; cbn [lookup]; [discriminate|].
    destruct (k' =? k) eqn:E; [|right; auto]. intros H. injection H as <-. apply N.eqb_eq in E. subst. left. auto.
  Qed.

  Lemma remove_key_forall {A} (P : N * A -> Prop) k l : Forall P l -> Forall P (remove_key k l).
  Proof.
    induction l as [|[k' v] l IH]; cbn [remove_key]; auto. intros H. inversion H; subst.
    destruct (k' =? k); auto.
  Qed.

  (* ---------- the send paths emit no entity ---------- *)
  Definition sendish (o : output) : Prop :=
    match o with OMsg _ _ _ _ _ | OGetKeys _ _ | OGroupInfo _ _ => True | _ => False end.

  Lemma sendish_deliver_ok r os : Forall sendish os -> Forall (deliver_ok r) os.
  Proof. apply Forall_impl. intros o H. destruct o; try exact I. destruct H. Qed.

  Lemma sendish_send_enc a nd es p : Forall sendish (snd (send_enc_entities a nd es p)).
  Proof. unfold send_enc_entities. cbn [snd]. repeat constructor. Qed.

  Lemma sendish_send_to_contact a nd : Forall sendish (snd (send_to_contact a nd)).
  Proof.
    unfold send_to_contact. destruct (encrypt a (n_to nd)) as [[a1 [[pk sid] n]]|]; [apply sendish_send_enc | constructor].
  Qed.

  Lemma sendish_sgws a nd js r : Forall sendish (snd (send_to_group_with_sessions a nd js r)).
  Proof.
    unfold send_to_group_with_sessions.
    destruct (enc_for_jids _ js _ (n_mt nd) _) as [a1 es].
    destruct (0 <? r); [apply sendish_send_enc|].
    destruct (lookup (n_to nd) (a_skown a1)); [apply sendish_send_enc | constructor].
  Qed.

  Lemma sendish_plaintext_send a nd r : Forall sendish (snd (plaintext_send a nd r)).
  Proof.
    unfold plaintext_send. destruct (is_group (n_to nd)).
    - unfold send_to_group. destruct (lookup (n_to nd) (a_skown a)).
      + destruct r as [[c cnt]|]; apply sendish_sgws.
      + repeat constructor.
    - destruct (session_exists a (n_to nd)); [apply sendish_send_to_contact | repeat constructor].
  Qed.

  Lemma iqs_lookup_good s a iq k js :
    Forall (fun x => good_cont s (fst (snd x))) (a_iqs a) -> lookup iq (a_iqs a) = Some (k, js) -> good_cont s k.
  Proof.
    intros H L. apply lookup_in in L. eapply Forall_forall in H; eauto. exact H.
  Qed.

  (* ---------- one account step ---------- *)
  Theorem good_step : forall s a i,
    good_acct s a -> good_input s i ->
    good_acct s (fst (step a i)) /\ Forall (good_out s) (snd (step a i)) /\ Forall (deliver_ok s) (snd (step a i)).
  Proof.
    intros s a i Ha Hi. destruct i; cbn [step good_input] in *.
    - (* application send *)
      unfold app_send. destruct (memN _ _).
      + cbn [fst snd]. split; [exact Ha|]. split; repeat constructor.
      + destruct (good_plaintext_send s a nd None Hi) as [H1 H2].
        split; [eapply acct_of_SQ; eauto|]. split; [exact H2|].
        apply sendish_deliver_ok, sendish_plaintext_send.
    - (* key answer *)
      destruct (lookup iq (a_iqs a)) as [[k js]|] eqn:L.
      2:{ cbn [fst snd]. split; [exact Ha|]. split; constructor. }
      destruct Ha as [Ha1 [Ha2 Ha3]].
      pose proof (iqs_lookup_good s a iq k js Ha2 L) as Hk.
      set (a0 := set_iqs a (remove_key iq (a_iqs a)) (a_iqctr a)).
      assert (Ha0 : good_acct s a0).
      { repeat split; cbn [a0 a_sentq a_iqs a_pend set_iqs]; auto. apply remove_key_forall. exact Ha2. }
      unfold keys_result. pose proof (good_create_sessions s js a0 res) as Hc.
      destruct (create_sessions a0 js res) as [a1 ok]. cbn [fst] in Hc.
      pose proof (acct_of_SQ s a0 a1 Hc Ha0) as Ha1'.
      destruct k; cbn [good_cont] in Hk.
      + destruct ok as [|? [|? ?]]; try (cbn [fst snd]; split; [exact Ha1'|]; split; constructor).
        destruct (good_send_to_contact s a1 nd Hk) as [H1 H2].
        split; [eapply acct_of_SQ; eauto|]. split; [exact H2|].
        apply sendish_deliver_ok, sendish_send_to_contact.
      + destruct ok as [|? [|? ?]]; try (cbn [fst snd]; split; [exact Ha1'|]; split; constructor).
        destruct (good_plaintext_send s a1 nd (Some (c, cnt)) Hk) as [H1 H2].
        split; [eapply acct_of_SQ; eauto|]. split; [exact H2|].
        apply sendish_deliver_ok, sendish_plaintext_send.
      + destruct ok; [cbn [fst snd]; split; [exact Ha1'|]; split; constructor|].
        destruct (filter _ (a_pend a1)) as [|[cv l] rest] eqn:F;
          [cbn [fst snd]; split; [exact Ha1'|]; split; constructor|].
        assert (Hl : Forall (good_in s) l).
        { destruct Ha1' as [_ [_ Hp]].
          assert (Hx : In (cv, l) (filter (fun x => conv_eqb (fst x) conv) (a_pend a1)))
            by (rewrite F; left; reflexivity).
          apply filter_In in Hx. destruct Hx as [Hx _]. eapply Forall_forall in Hp; eauto. exact Hp. }
        destruct (good_process_pending s l a1 Hl Ha1') as [G [O D]].
        destruct (process_pending a1 l) as [a2 o2]. cbn [fst snd] in *.
        split; [|split; auto]. destruct G as [G1 [G2 G3]].
        repeat split; cbn [a_sentq a_iqs a_pend set_pend]; auto. apply filter_forall. exact G3.
      + cbn [fst snd]. split; [exact Ha1'|]. split; constructor.
      + destruct (good_sgws s a1 nd ok 0 Hk) as [H1 H2].
        split; [eapply acct_of_SQ; eauto|]. split; [exact H2|].
        apply sendish_deliver_ok, sendish_sgws.
    - (* group info answer *)
      destruct (lookup iq (a_iqs a)) as [[k js]|] eqn:L.
      2:{ cbn [fst snd]. split; [exact Ha|]. split; constructor. }
      destruct Ha as [Ha1 [Ha2 Ha3]].
      pose proof (iqs_lookup_good s a iq k js Ha2 L) as Hk.
      destruct k; try (cbn [fst snd]; split; [repeat split; auto|]; split; constructor).
      cbn [good_cont] in Hk.
      set (a0 := set_iqs a (remove_key iq (a_iqs a)) (a_iqctr a)).
      assert (Ha0 : good_acct s a0).
      { repeat split; cbn [a0 a_sentq a_iqs a_pend set_iqs]; auto. apply remove_key_forall. exact Ha2. }
      unfold ensure_sessions_and_send. destruct (filter _ (filter _ parts)) as [|j0 nos].
      + destruct (good_sgws s a0 nd (filter (fun j => negb (j =? a_me a)) parts) 0 Hk) as [H1 H2].
        split; [eapply acct_of_SQ; eauto|]. split; [exact H2|]. apply sendish_deliver_ok, sendish_sgws.
      + destruct (good_get_keys s a0 (j0 :: nos) (KGroupKeys nd) Hk) as [H1 H2].
        split; [eapply acct_of_SQ; eauto|]. split; [exact H2|]. repeat constructor.
    - (* message stanza *)
      destruct (good_handle_enc s a im) as [[A [B C]] O].
      destruct Ha as [Ha1 [Ha2 Ha3]]. split; [repeat split; auto|]. split; [exact O|].
      apply deliver_handle_enc. exact Hi.
    - (* receipt *)
      unfold on_receipt. destruct (take_sent m _ (a_sentq a)) as [[nd|] q'] eqn:T.
      + destruct Ha as [Ha1 [Ha2 Ha3]]. destruct (take_sent_good s _ _ _ _ _ T Ha1) as [Hn Hq].
        assert (Ha' : good_acct s (set_sentq a q')) by (repeat split; auto).
        destruct retry as [cnt|].
        * destruct (good_get_keys s (set_sentq a q') [match part with Some p => p | None => frm end]
                      (KRetry (match part with Some p => p | None => frm end) nd cnt) Hn) as [H1 H2].
          split; [eapply acct_of_SQ; eauto|]. split; [exact H2|]. repeat constructor.
        * cbn [fst snd]. split; [exact Ha'|]. split; repeat constructor.
      + cbn [fst snd]. split; [exact Ha|]. split; repeat constructor.
    - (* restart *)
      cbn [fst snd]. split; [|split; constructor]. destruct Ha as [Ha1 [Ha2 Ha3]].
      repeat split; cbn [restart a_sentq a_iqs a_pend]; constructor.
  Qed.

  (* ---------- the server ---------- *)
  Definition qok (q : list (N * input)) : Prop := Forall (fun x => good_input (fst x) (snd x)) q.

  Lemma first_some_in {A B} (f : A -> option B) l y : first_some f l = Some y -> exists x, In x l /\ f x = Some y.
  Proof.
    induction l as [|x l IH]; cbn [first_some]; [discriminate|].
    destruct (f x) eqn:E.
    - intros H. injection H as <-. exists x. split; [left; reflexivity | exact E].
    - intros H. destruct (IH H) as [x' [I F]]. exists x'. split; [right; exact I | exact F].
  Qed.

  Lemma memN_in x l : memN x l = true -> In x l.
  Proof.
    induction l as [|y l IH]; cbn [memN]; [discriminate|].
    destruct (y =? x) eqn:E; [apply N.eqb_eq in E; subst; left; reflexivity | right; auto].
  Qed.

  Lemma route_good s ctr o : good_out s o -> qok (fst (route groups s ctr o)).
  Proof.
    intros Ho. destruct o; cbn [route fst]; try (repeat constructor; fail).
    - (* enc stanza *)
      destruct Ho as [nd [Hn [Hto [Hid [Hty He]]]]]. unfold good_node in Hn. rewrite Hid in Hn.
      assert (Hpw : forall f e c, (forall x, f x = Some e -> exists fo pk t sid n pay mt,
                                      x = OEP fo pk t sid n pay mt /\ e = mkPE pk sid n true false pay) ->
                     first_some f encs = Some e -> p_content (pe_pay e) = Some c -> c = n_content nd).
      { intros f e c Hf F Hc. apply first_some_in in F. destruct F as [x [Ix Fx]].
        destruct (Hf x Fx) as [fo [pk [t [sid [n [pay [mt [-> ->]]]]]]]].
        eapply Forall_forall in He; eauto. cbn [good_enc] in He. apply He. exact Hc. }
      assert (Hsk : forall e, first_some senc_of encs = Some e -> se_content e = n_content nd).
      { intros e F. apply first_some_in in F. destruct F as [x [Ix Fx]]. destruct x; cbn [senc_of] in Fx; [discriminate|].
        injection Fx as <-. eapply Forall_forall in He; eauto. exact He. }
      destruct (is_group to) eqn:G; cbn [fst].
      + unfold qok. apply Forall_forall. intros [r i] Hin. apply in_map_iff in Hin.
        destruct Hin as [r' [Heq Hr]]. injection Heq as <- <-. cbn [fst snd good_input].
        exists s, nd. cbn [i_id i_ty i_from i_part i_pw i_sk]. split; [exact Hn|]. split; [auto|].
        split; [|split].
        * right. rewrite Hto. repeat split; auto.
          destruct part as [p|]; apply filter_In in Hr; destruct Hr as [Hr1 Hr2].
          -- destruct Hr1 as [<- | []]. apply memN_in. exact Hr2.
          -- exact Hr1.
        * intros e c F Hc. eapply (Hpw (pw_for r' match part with Some _ => true | None => false end)); eauto.
          intros x Fx. destruct x as [fo pk t sid n pay mt|]; cbn [pw_for] in Fx; [|discriminate].
          exists fo, pk, t, sid, n, pay, mt. split; [reflexivity|].
          destruct fo as [j|].
          -- destruct (negb _ && (j =? r')); [|discriminate]. cbn [penc_of] in Fx. injection Fx as <-. reflexivity.
          -- destruct (match part with Some _ => true | None => false end); [|discriminate].
             cbn [penc_of] in Fx. injection Fx as <-. reflexivity.
        * exact Hsk.
      + repeat constructor. cbn [fst snd good_input]. exists s, nd.
        cbn [i_id i_ty i_from i_part i_pw i_sk]. split; [exact Hn|]. split; [auto|]. split; [|split].
        * left. rewrite Hto. auto.
        * intros e c F Hc. eapply (Hpw penc_of); eauto.
          intros x Fx. destruct x as [fo pk t sid n pay mt|]; cbn [penc_of] in Fx; [|discriminate].
          exists fo, pk, t, sid, n, pay, mt. injection Fx as <-. auto.
        * intros e F. discriminate.
    - destruct (is_group to); [destruct part|]; repeat constructor.
    - destruct (is_group to); [destruct part|]; repeat constructor.
  Qed.

  Lemma route_all_good s os : forall ctr, Forall (good_out s) os -> qok (fst (route_all groups s ctr os)).
  Proof.
    induction os as [|o os IH]; intros ctr H; cbn [route_all]; [constructor|].
    inversion H as [|? ? Ho Hos]; subst.
    pose proof (route_good s ctr o Ho) as H1. destruct (route groups s ctr o) as [q1 c1].
    specialize (IH c1 Hos). destruct (route_all groups s c1 os) as [q2 c2]. cbn [fst] in *.
    apply Forall_app. split; auto.
  Qed.

  Definition world_ok (w : world) : Prop :=
    Forall (fun x => good_acct (fst x) (snd x)) (w_accts w) /\ qok (w_queue w).

  Lemma feed_ok w r i :
    world_ok w -> good_input r i ->
    world_ok (fst (feed groups w r i)) /\ Forall (deliver_ok r) (snd (feed groups w r i)).
  Proof.
    intros [Wa Wq] Hi. unfold feed. destruct (lookup r (w_accts w)) as [a|] eqn:L.
    2:{ cbn [fst snd]. split; [split; auto | constructor]. }
    assert (Ha : good_acct r a).
    { apply lookup_in in L. eapply Forall_forall in Wa; eauto. exact Wa. }
    destruct (good_step r a i Ha Hi) as [G [O D]]. destruct (step a i) as [a' os]. cbn [fst snd] in *.
    pose proof (route_all_good r os (w_ctr w) O) as Hq. destruct (route_all groups r (w_ctr w) os) as [q c].
    cbn [fst snd] in *. split; [|exact D]. split; cbn [w_accts w_queue].
    - unfold upd. constructor; [exact G | apply remove_key_forall; exact Wa].
    - apply Forall_app. split; auto.
  Qed.

  Lemma remove_nth_forall {A} (P : A -> Prop) k : forall l, Forall P l -> Forall P (remove_nth k l).
  Proof.
    induction k as [|k IH]; intros l H; destruct l as [|x l]; cbn [remove_nth]; auto; inversion H; subst; auto.
  Qed.

  Lemma corrupt_good sk r i : good_input r i -> good_input r (corrupt_input sk i).
  Proof.
    destruct i; cbn [corrupt_input good_input]; auto.
    intros [s [nd [H1 [H2 [H3 [H4 H5]]]]]]. exists s, nd. cbn [i_id i_ty i_from i_part i_pw i_sk].
    repeat split; auto.
    - intros e c He Hc. destruct (i_pw im) as [e0|]; [|discriminate]. injection He as <-. cbn [pe_pay] in Hc.
      eapply H4; eauto.
    - intros e He. destruct (i_sk im) as [e0|]; [|discriminate]. injection He as <-. cbn [se_content].
      eapply H5; eauto.
  Qed.

  Lemma firstn_forall {A} (P : A -> Prop) k : forall l, Forall P l -> Forall P (firstn k l).
  Proof.
    induction k as [|k IH]; intros l H; destruct l as [|x l]; cbn [firstn]; auto; inversion H; subst; auto.
  Qed.

  Lemma skipn_forall {A} (P : A -> Prop) k : forall l, Forall P l -> Forall P (skipn k l).
  Proof.
    induction k as [|k IH]; intros l H; destruct l as [|x l]; cbn [skipn]; auto; inversion H; subst; auto.
  Qed.

  Definition script_ok (acts : list waction) : Prop :=
    Forall (fun act => match act with WSend s nd => good_node s nd | _ => True end) acts.

  Lemma wstep_ok w act :
    world_ok w -> match act with WSend s nd => good_node s nd | _ => True end ->
    world_ok (fst (wstep groups w act)) /\
    Forall (deliver_ok (fst (snd (wstep groups w act)))) (snd (snd (wstep groups w act))).
  Proof.
    intros Hw Ha. destruct act; cbn [wstep].
    - destruct (feed_ok w s (IAppSend nd) Hw Ha) as [H1 H2]. destruct (feed groups w s (IAppSend nd)). auto.
    - destruct (nth_error (w_queue w) k) as [[r i]|] eqn:E; [|cbn [fst snd]; split; [exact Hw | constructor]].
      destruct Hw as [Wa Wq].
      assert (Hi : good_input r i).
      { apply nth_error_In in E. eapply Forall_forall in Wq; eauto. exact Wq. }
      assert (Hw' : world_ok (mkW (w_accts w) (remove_nth k (w_queue w)) (w_ctr w))).
      { split; cbn [w_accts w_queue]; auto. apply remove_nth_forall. exact Wq. }
      destruct (feed_ok _ r i Hw' Hi) as [H1 H2]. destruct (feed groups _ r i). auto.
    - destruct (nth_error (w_queue w) k) as [[r i]|] eqn:E; [|cbn [fst snd]; split; [exact Hw | constructor]].
      destruct i; try (cbn [fst snd]; split; [exact Hw | constructor]).
      cbn [fst snd]. split; [|constructor]. destruct Hw as [Wa Wq]. split; cbn [w_accts w_queue]; auto.
      apply Forall_app. split; [exact Wq|]. constructor; [|constructor]. cbn [fst snd].
      apply nth_error_In in E. eapply Forall_forall in Wq; [|exact E]. exact Wq.
    - destruct (nth_error (w_queue w) k) as [[r i]|] eqn:E; [|cbn [fst snd]; split; [exact Hw | constructor]].
      cbn [fst snd]. split; [|constructor]. destruct Hw as [Wa Wq]. split; cbn [w_accts w_queue]; auto.
      assert (Hi : good_input r i).
      { apply nth_error_In in E. eapply Forall_forall in Wq; eauto. exact Wq. }
      apply Forall_app. split; [apply firstn_forall; exact Wq|].
      constructor; [cbn [fst snd]; apply corrupt_good; exact Hi | apply skipn_forall; exact Wq].
    - destruct (feed_ok w s IRestart Hw I) as [H1 H2]. destruct (feed groups w s IRestart). auto.
  Qed.

  Theorem world_safety_thm : forall acts w,
    world_ok w -> script_ok acts ->
    Forall (fun x => Forall (deliver_ok (fst x)) (snd x)) (snd (wrun groups w acts)).
  Proof.
    induction acts as [|act acts IH]; intros w Hw Hs; cbn [wrun]; [constructor|].
    inversion Hs as [|? ? Ha Hs']; subst.
    destruct (wstep_ok w act Hw Ha) as [H1 H2]. destruct (wstep groups w act) as [w1 [r os]]. cbn [fst snd] in *.
    specialize (IH w1 H1 Hs'). destruct (wrun groups w1 acts) as [w2 oss]. cbn [snd] in *.
    constructor; auto.
  Qed.

  Lemma winit_ok jids : world_ok (winit jids).
  Proof.
    split; [|constructor]. unfold winit. cbn [w_accts]. apply Forall_forall. intros [j a] H.
    apply in_map_iff in H. destruct H as [j' [Heq _]]. injection Heq as <- <-. cbn [fst snd].
    repeat split; constructor.
  Qed.
End WorldProofs.

(* ---------- the theorem in closed form, and a computed world run (non-vacuity; the only completeness statement) ---- *)
Theorem world_authentic_no_stray_thm : forall groups orig jids acts,
  script_ok orig acts ->
  Forall (fun x => Forall (deliver_ok groups orig (fst x)) (snd x)) (snd (wrun groups (winit jids) acts)).
Proof. intros. apply world_safety_thm; [apply winit_ok | assumption]. Qed.

Definition ex_groups : list (N * list N) := [(1000, [0; 1; 2])].
Definition ex_nd1 : node := mkN 1 1000 1 1 1.      (* account 0 sends image 1 to the group *)
Definition ex_nd2 : node := mkN 2 0 0 0 2.         (* account 1 answers account 0 with text 2 *)
Definition ex_acts : list waction :=
  [WSend 0 ex_nd1] ++ repeat (WDeliver 0) 12 ++ [WSend 1 ex_nd2] ++ repeat (WDeliver 0) 8.

Definition app_events (l : list (N * list output)) : list (N * list output) :=
  filter (fun x => match snd x with [] => false | _ => true end)
    (map (fun x => (fst x, filter (fun o => is_deliver o ||
                      match o with OTopReceipt _ _ _ _ => true | _ => false end) (snd x))) l).

(* FIFO schedule, no fault: every addressee is shown each message once, the senders' applications get every
   delivery receipt, nothing is left in the server queue *)
Example world_complete_example :
  app_events (snd (wrun ex_groups (winit [0; 1; 2]) ex_acts)) =
  [ (1, [ODeliver 1000 (Some 0) 1 1 1 (Some 1)]);
    (2, [ODeliver 1000 (Some 0) 1 1 1 (Some 1)]);
    (0, [OTopReceipt 1000 (Some 1) 1 false]);
    (0, [OTopReceipt 1000 (Some 2) 1 false]);
    (0, [ODeliver 1 None 2 0 0 (Some 2)]);
    (1, [OTopReceipt 0 None 2 false]) ] /\
  w_queue (fst (wrun ex_groups (winit [0; 1; 2]) ex_acts)) = [] /\
  script_ok [(1, (0, ex_nd1)); (2, (1, ex_nd2))] ex_acts.
Proof.
  split; [vm_compute; reflexivity|]. split; [vm_compute; reflexivity|].
  unfold script_ok, ex_acts. repeat (apply Forall_app; split); repeat constructor.
Qed.
