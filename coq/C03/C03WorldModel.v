(* C03 - the WORLD: any number of accounts (C03Model.acct) plus the honest server: router, one queue of
   server->client deliveries from which the schedule picks ANY element, group membership, key directory (answers for
   every jid asked, fresh base keys), and the faults: duplicate a queued message stanza, corrupt its ciphertexts.
   Definitions only. *)
From YV Require Import Common.Tac C03.C03Model.
Local Open Scope N_scope.

Record world := mkW {
  w_accts : list (N * acct);          (* jid -> account *)
  w_queue : list (N * input);         (* destination, stanza *)
  w_ctr : N                           (* source of fresh base keys *)
}.

Inductive waction :=
| WSend (s : N) (nd : node)           (* the application of s sends nd *)
| WDeliver (k : nat)                  (* the server delivers the k-th queued stanza *)
| WDup (k : nat)                      (* ... duplicates it *)
| WCorrupt (k : nat) (sk : bool)      (* ... corrupts its pairwise (sk=false) or its sender-key ciphertext *)
| WRestart (s : N).

Section World.
  Variable groups : list (N * list N).      (* group jid -> members *)

  Definition members (g : N) : list N := match lookup g groups with Some l => l | None => [] end.

  Definition penc_of (e : oenc) : option penc :=
    match e with OEP _ pk _ sid n pay _ => Some (mkPE pk sid n true false pay) | OES _ _ _ => None end.
  Definition senc_of (e : oenc) : option senc :=
    match e with OES it c _ => Some (mkSE it false c) | OEP _ _ _ _ _ _ _ => None end.
  Definition mt_of (e : oenc) : N := match e with OEP _ _ _ _ _ _ mt => mt | OES _ _ mt => mt end.

  Fixpoint first_some {A B} (f : A -> option B) (l : list A) : option B :=
    match l with [] => None | x :: r => match f x with Some y => Some y | None => first_some f r end end.

  (* the enc children the server hands to recipient r of a group stanza: r's own <to> child (or, for a directed
     resend, the direct children) + the common skmsg *)
  Definition pw_for (r : N) (directed : bool) (e : oenc) : option penc :=
    match e with
    | OEP f pk _ sid n pay _ =>
      match f with
      | Some j => if negb directed && (j =? r) then penc_of e else None
      | None => if directed then penc_of e else None
      end
    | OES _ _ _ => None
    end.

  Definition stanza_mt (encs : list oenc) : N := match encs with e :: _ => mt_of e | [] => 0 end.

  Definition route (s : N) (ctr : N) (o : output) : list (N * input) * N :=
    match o with
    | OGetKeys iq js =>
      ([(s, IKeys iq (combine js (map (fun i => ctr + N.of_nat i) (seq 0 (length js)))))], ctr + N.of_nat (length js))
    | OGroupInfo iq g => ([(s, IGroupInfo iq (members g))], ctr)
    | OMsg to m ty part encs =>
      if is_group to then
        let directed := match part with Some _ => true | None => false end in
        let rcpts := match part with
                     | Some p => filter (fun r => memN r (members to)) [p]
                     | None => filter (fun r => negb (r =? s)) (members to)
                     end in
        (map (fun r => (r, IMsg (mkI to (Some s) m ty (stanza_mt encs)
                                     (first_some (pw_for r directed) encs) (first_some senc_of encs)))) rcpts, ctr)
      else
        ([(to, IMsg (mkI s None m ty (stanza_mt encs) (first_some penc_of encs) None))], ctr)
    | OReceipt to part m =>
      if is_group to then (match part with Some p => [(p, IReceipt to (Some s) m None)] | None => [] end, ctr)
      else ([(to, IReceipt s None m None)], ctr)
    | ORetry to part m cnt =>
      if is_group to then (match part with Some p => [(p, IReceipt to (Some s) m (Some cnt))] | None => [] end, ctr)
      else ([(to, IReceipt s None m (Some cnt))], ctr)
    | _ => ([], ctr)
    end.

  Fixpoint route_all (s : N) (ctr : N) (os : list output) : list (N * input) * N :=
    match os with
    | [] => ([], ctr)
    | o :: r => let '(q1, c1) := route s ctr o in let '(q2, c2) := route_all s c1 r in (q1 ++ q2, c2)
    end.

  Definition corrupt_input (sk : bool) (i : input) : input :=
    match i with
    | IMsg im =>
      IMsg (mkI (i_from im) (i_part im) (i_id im) (i_ty im) (i_mt im)
                (match i_pw im with
                 | Some e => Some (mkPE (pe_pk e) (pe_sid e) (pe_n e) (pe_pkok e) (pe_corrupt e || negb sk) (pe_pay e))
                 | None => None end)
                (match i_sk im with
                 | Some e => Some (mkSE (se_iter e) (se_corrupt e || sk) (se_content e)) | None => None end))
    | _ => i
    end.

  (* deliver input i to account r: the account steps, its outputs are routed into the queue *)
  Definition feed (w : world) (r : N) (i : input) : world * list output :=
    match lookup r (w_accts w) with
    | None => (w, [])
    | Some a =>
      let '(a', os) := step a i in
      let '(q, c) := route_all r (w_ctr w) os in
      (mkW (upd r a' (w_accts w)) (w_queue w ++ q) c, os)
    end.

  Fixpoint remove_nth {A} (k : nat) (l : list A) : list A :=
    match l, k with
    | [], _ => []
    | _ :: r, O => r
    | x :: r, S k' => x :: remove_nth k' r
    end.

  (* one world step; the second component is what the stepping account emitted (who, outputs) *)
  Definition wstep (w : world) (act : waction) : world * (N * list output) :=
    match act with
    | WSend s nd => let '(w', os) := feed w s (IAppSend nd) in (w', (s, os))
    | WDeliver k =>
      match nth_error (w_queue w) k with
      | None => (w, (0, []))
      | Some (r, i) =>
        let '(w', os) := feed (mkW (w_accts w) (remove_nth k (w_queue w)) (w_ctr w)) r i in (w', (r, os))
      end
    | WDup k =>
      match nth_error (w_queue w) k with
      | Some (r, IMsg im) => (mkW (w_accts w) (w_queue w ++ [(r, IMsg im)]) (w_ctr w), (0, []))
      | _ => (w, (0, []))
      end
    | WCorrupt k sk =>
      match nth_error (w_queue w) k with
      | Some (r, i) =>
        (mkW (w_accts w) (firstn k (w_queue w) ++ (r, corrupt_input sk i) :: skipn (S k) (w_queue w)) (w_ctr w), (0, []))
      | None => (w, (0, []))
      end
    | WRestart s => let '(w', os) := feed w s IRestart in (w', (s, os))
    end.

  Fixpoint wrun (w : world) (acts : list waction) : world * list (N * list output) :=
    match acts with
    | [] => (w, [])
    | a :: r => let '(w1, o) := wstep w a in let '(w2, os) := wrun w1 r in (w2, o :: os)
    end.

  Definition winit (jids : list N) : world := mkW (map (fun j => (j, init j true)) jids) [] 0.
End World.
