(* C03 - end-to-end messaging.  Model of ONE yowsup account as an input-enabled machine (the three axolotl
   layers' bookkeeping exactly as coded, over an abstract ratchet), and of the WORLD: any number of such accounts
   plus the server (router, per-recipient queue, group membership, key directory, faults).

   Code followed:
     layer_send.py     send / processPlaintextNodeAndSend / sendToContact / sendToGroup / ensureSessionsAndSendToGroup /
                       sendToGroupWithSessions / sendEncEntities / enqueueSent (cap 100, FIFO) / getEnqueuedMessageNode /
                       receive (receipt, retry receipt) / on_get_keys_process_errors
     layer_receive.py  receive / onMessage / handleEncMessage with every except-branch / handlePreKeyWhisperMessage /
                       handleWhisperMessage / handleSenderKeyMessage / parseAndHandleMessageProto / send_retry /
                       reset_retries / pendingIncomingMessages / processPendingIncomingMessages
     layer_base.py     getKeysFor (skipEncJids, iq registry)
     protocol_messages/layer.py, protocol_media/layer.py   upward dispatch (dispatch_up); `a_guard` = the media layer
                       ignores a payload that carries only a sender-key distribution (fixes/C03-media-skdm-only.patch;
                       a_guard = false is the unrepaired code)
     the application on top acknowledges every message entity with a delivery receipt
   python-axolotl (modelled, not verified): a session record is a list of states named by their base key; a state
   counts what it encrypted and remembers which numbers it decrypted; a sender key is named by (group, sender), starts
   at the iteration its distribution message carries, remembers the iterations decrypted.
   The identity table is C17's subject and is left out (no account reinstalls in C03's quantifier).
   Jids >= 1000 are groups ("-" in the jid).  Definitions only. *)
From YV Require Import Common.Tac.
Local Open Scope N_scope.

(* ---------- association lists ---------- *)
Fixpoint lookup {A} (k : N) (l : list (N * A)) : option A :=
  match l with
  | [] => None
  | (k', v) :: r => if (k' =? k) then Some v else lookup k r
  end.

Fixpoint remove_key {A} (k : N) (l : list (N * A)) : list (N * A) :=
  match l with
  | [] => []
  | (k', v) :: r => if (k' =? k) then remove_key k r else (k', v) :: remove_key k r
  end.

Definition upd {A} (k : N) (v : A) (l : list (N * A)) : list (N * A) := (k, v) :: remove_key k l.

Fixpoint memN (x : N) (l : list N) : bool :=
  match l with [] => false | y :: r => if (y =? x) then true else memN x r end.

Definition is_group (j : N) : bool := 1000 <=? j.
Definition pairkey (g s : N) : N := g * 1000000 + s.         (* key of the (group, sender) tables *)

(* ---------- ciphertext terms ---------- *)
(* what a plaintext carries: a sender-key distribution (group, iteration it starts at) and/or message content *)
Record payload := mkP { p_skdm : option (N * N); p_content : option N }.

(* pairwise ciphertext: Enc pk? from->to session sid number n payload *)
Record penc := mkPE { pe_pk : bool; pe_sid : N; pe_n : N; pe_pkok : bool; pe_corrupt : bool; pe_pay : payload }.
(* sender-key ciphertext: iteration and content *)
Record senc := mkSE { se_iter : N; se_corrupt : bool; se_content : N }.

Record sstate := mkS { s_sid : N; s_unack : bool; s_sent : N; s_seen : list N }.
Record skstate := mkK { k_start : N; k_seen : list N }.

Inductive dres := DOk (p : payload) | DNoSession | DInvalidKeyId | DInvalidMsg | DDuplicate.

Fixpoint find_state (sid : N) (r : list sstate) : option sstate :=
  match r with
  | [] => None
  | s :: t => if (s_sid s =? sid) then Some s else find_state sid t
  end.

Fixpoint drop_state (sid : N) (r : list sstate) : list sstate :=
  match r with
  | [] => []
  | s :: t => if (s_sid s =? sid) then t else s :: drop_state sid t
  end.

(* ---------- stanzas ---------- *)
(* a plaintext message stanza as the application hands it down / as it sits in sentQueue *)
Record node := mkN { n_id : N; n_to : N; n_ty : N (* 0 text, 1 media *); n_mt : N (* mediatype, 0 = none *);
                     n_content : N }.

(* a message stanza as it arrives: from (contact or group), participant, id, type, mediatype of the enc nodes,
   the pairwise enc the receive layer will look at (pkmsg preferred over msg) and the skmsg enc *)
Record inmsg := mkI { i_from : N; i_part : option N; i_id : N; i_ty : N; i_mt : N;
                      i_pw : option penc; i_sk : option senc }.

Inductive cont :=
| KSend (nd : node)                       (* keys for a first 1:1 message *)
| KRetry (c : N) (nd : node) (cnt : N)    (* keys to serve a retry receipt from c *)
| KIncoming (conv : N * option N)         (* keys for a parked incoming message *)
| KGroupInfo (nd : node)                  (* w:g2 info for a first group message *)
| KGroupKeys (nd : node).                 (* keys of the participants without a session *)

Record acct := mkA {
  a_me : N;
  a_guard : bool;
  a_sess : list (N * list sstate);          (* durable *)
  a_skown : list (N * N);                   (* durable: own sender key per group -> next iteration *)
  a_skpeer : list (N * list skstate);       (* durable: (group, sender) -> states, oldest first (the head is used) *)
  a_sentq : list node;                      (* volatile, oldest first *)
  a_pend : list ((N * option N) * list inmsg);
  a_retries : list (N * N);
  a_iqs : list (N * (cont * list N));       (* iq id -> continuation, requested jids *)
  a_skip : list N;
  a_iqctr : N
}.

Definition init (me : N) (guard : bool) : acct := mkA me guard [] [] [] [] [] [] [] [] 0.

Definition set_sess a x := mkA (a_me a) (a_guard a) x (a_skown a) (a_skpeer a) (a_sentq a) (a_pend a) (a_retries a) (a_iqs a) (a_skip a) (a_iqctr a).
Definition set_skown a x := mkA (a_me a) (a_guard a) (a_sess a) x (a_skpeer a) (a_sentq a) (a_pend a) (a_retries a) (a_iqs a) (a_skip a) (a_iqctr a).
Definition set_skpeer a x := mkA (a_me a) (a_guard a) (a_sess a) (a_skown a) x (a_sentq a) (a_pend a) (a_retries a) (a_iqs a) (a_skip a) (a_iqctr a).
Definition set_sentq a x := mkA (a_me a) (a_guard a) (a_sess a) (a_skown a) (a_skpeer a) x (a_pend a) (a_retries a) (a_iqs a) (a_skip a) (a_iqctr a).
Definition set_pend a x := mkA (a_me a) (a_guard a) (a_sess a) (a_skown a) (a_skpeer a) (a_sentq a) x (a_retries a) (a_iqs a) (a_skip a) (a_iqctr a).
Definition set_retries a x := mkA (a_me a) (a_guard a) (a_sess a) (a_skown a) (a_skpeer a) (a_sentq a) (a_pend a) x (a_iqs a) (a_skip a) (a_iqctr a).
Definition set_iqs a x n := mkA (a_me a) (a_guard a) (a_sess a) (a_skown a) (a_skpeer a) (a_sentq a) (a_pend a) (a_retries a) x (a_skip a) n.
Definition set_skip a x := mkA (a_me a) (a_guard a) (a_sess a) (a_skown a) (a_skpeer a) (a_sentq a) (a_pend a) (a_retries a) (a_iqs a) x (a_iqctr a).

Definition record_of (a : acct) (c : N) : list sstate :=
  match lookup c (a_sess a) with Some r => r | None => [] end.

(* ---------- inputs / outputs ---------- *)
Inductive input :=
| IAppSend (nd : node)
| IKeys (iq : N) (res : list (N * N))        (* contact -> base key our session builder draws *)
| IGroupInfo (iq : N) (parts : list N)
| IMsg (im : inmsg)
| IReceipt (frm : N) (part : option N) (m : N) (retry : option N)   (* retry = Some count *)
| IRestart.

(* one enc child of an outgoing stanza *)
Inductive oenc :=
| OEP (for_ : option N) (pk : bool) (to sid n : N) (pay : payload) (mt : N)
| OES (iter : N) (content : N) (mt : N).

Inductive output :=
| OGetKeys (iq : N) (js : list N)
| OGroupInfo (iq : N) (g : N)
| OMsg (to m ty : N) (part : option N) (encs : list oenc)
| OPlain (nd : node)                                      (* stanza passed down with its plaintext (skipEncJids) *)
| OReceipt (to : N) (part : option N) (m : N)             (* delivery receipt *)
| ORetry (to : N) (part : option N) (m count : N)
| OErr (c : N)
| ODeliver (frm : N) (part : option N) (m ty mt : N) (content : option N)   (* entity handed to the application *)
| OTopReceipt (frm : N) (part : option N) (m : N) (retry : bool).

(* ---------- python-axolotl ---------- *)
Definition mark_seen (s : sstate) (n : N) : sstate := mkS (s_sid s) false (s_sent s) (n :: s_seen s).

Definition decrypt_record (r : list sstate) (e : penc) : option (list sstate) * dres :=
  match find_state (pe_sid e) r with
  | None => (None, DInvalidMsg)
  | Some s =>
    if memN (pe_n e) (s_seen s) then (None, DDuplicate)
    else if pe_corrupt e then (None, DInvalidMsg)
    else (Some (mark_seen s (pe_n e) :: drop_state (pe_sid e) r), DOk (pe_pay e))
  end.

Definition decrypt_pw (a : acct) (c : N) (e : penc) : acct * dres :=
  if pe_pk e then
    let r := record_of a c in
    let have := match find_state (pe_sid e) r with Some _ => true | None => false end in
    if negb have && negb (pe_pkok e) then (a, DInvalidKeyId)
    else
      let r1 := if have then r else mkS (pe_sid e) false 0 [] :: r in
      match decrypt_record r1 e with
      | (Some r', res) => (set_sess a (upd c r' (a_sess a)), res)
      | (None, res) => (a, res)
      end
  else
    match record_of a c with
    | [] => (a, DNoSession)
    | r =>
      match decrypt_record r e with
      | (Some r', res) => (set_sess a (upd c r' (a_sess a)), res)
      | (None, res) => (a, res)
      end
    end.

(* GroupCipher.decrypt for (group g, sender s) *)
Definition decrypt_sk (a : acct) (g s : N) (e : senc) : acct * dres :=
  match lookup (pairkey g s) (a_skpeer a) with
  | None | Some [] => (a, DNoSession)
  | Some (k :: older) =>
    if se_corrupt e then (a, DInvalidMsg)                         (* signature check comes first *)
    else if (se_iter e <? k_start k) || memN (se_iter e) (k_seen k) then (a, DDuplicate)
    else (set_skpeer a (upd (pairkey g s) (mkK (k_start k) (se_iter e :: k_seen k) :: older) (a_skpeer a)),
          DOk (mkP None (Some (se_content e))))
  end.

(* GroupSessionBuilder.process: python-axolotl 0.2.2 APPENDS the new state and looks states up first-match by key
   id, so for a sender that keeps its key id (yowsup never rotates it) the state of the FIRST distribution message
   processed stays the one in use; later ones are stored behind it *)
Definition process_skdm (a : acct) (s : N) (d : N * N) : acct :=
  let '(g, it) := d in
  let old := match lookup (pairkey g s) (a_skpeer a) with Some l => l | None => [] end in
  set_skpeer a (upd (pairkey g s) (old ++ [mkK it []]) (a_skpeer a)).

Definition encrypt (a : acct) (c : N) : option (acct * (bool * N * N)) :=
  match record_of a c with
  | [] => None
  | s :: t =>
    Some (set_sess a (upd c (mkS (s_sid s) (s_unack s) (s_sent s + 1) (s_seen s) :: t) (a_sess a)),
          (s_unack s, s_sid s, s_sent s))
  end.

(* SessionBuilder.processPreKeyBundle *)
Definition create_session (a : acct) (c sid : N) : acct :=
  set_sess a (upd c (mkS sid true 0 [] :: record_of a c) (a_sess a)).

Definition session_exists (a : acct) (c : N) : bool :=
  match record_of a c with [] => false | _ => true end.

(* ---------- send layer ---------- *)
Definition enqueue_sent (q : list node) (nd : node) : list node :=
  (if (100 <=? N.of_nat (length q)) then tl q else q) ++ [nd].

Definition send_enc_entities (a : acct) (nd : node) (encs : list oenc) (part : option N) : acct * list output :=
  let a1 := match part with None => set_sentq a (enqueue_sent (a_sentq a) nd) | Some _ => a end in
  (a1, [OMsg (n_to nd) (n_id nd) (n_ty nd) part encs]).

Definition send_to_contact (a : acct) (nd : node) : acct * list output :=
  match encrypt a (n_to nd) with
  | None => (a, [])
  | Some (a1, (pk, sid, n)) =>
    send_enc_entities a1 nd [OEP None pk (n_to nd) sid n (mkP None (Some (n_content nd))) (n_mt nd)] None
  end.

Definition get_keys (a : acct) (js : list N) (k : cont) : acct * list output :=
  (set_iqs a ((a_iqctr a, (k, js)) :: a_iqs a) (a_iqctr a + 1), [OGetKeys (a_iqctr a) js]).

(* the per-participant enc children of sendToGroupWithSessions *)
Fixpoint enc_for_jids (a : acct) (js : list N) (pay : payload) (mt : N) (directed : bool)
  : acct * list oenc :=
  match js with
  | [] => (a, [])
  | j :: r =>
    match encrypt a j with
    | None => enc_for_jids a r pay mt directed
    | Some (a1, (pk, sid, n)) =>
      let '(a2, es) := enc_for_jids a1 r pay mt directed in
      (a2, OEP (if directed then None else Some j) pk j sid n pay mt :: es)
    end
  end.

Definition send_to_group_with_sessions (a : acct) (nd : node) (js : list N) (retry : N) : acct * list output :=
  let g := n_to nd in
  let directed := match js with [_] => 0 <? retry | _ => false end in
  let part := if directed then hd_error js else None in
  (* group_create_skmsg: creates the own sender key when there is none *)
  let a0 := match js with
            | [] => a
            | _ => match lookup g (a_skown a) with Some _ => a | None => set_skown a (upd g 0 (a_skown a)) end
            end in
  let it := match lookup g (a_skown a0) with Some i => i | None => 0 end in
  let pay := mkP (Some (g, it)) (if 0 <? retry then Some (n_content nd) else None) in
  let '(a1, es) := enc_for_jids a0 js pay (n_mt nd) directed in
  if 0 <? retry then send_enc_entities a1 nd es part
  else
    match lookup g (a_skown a1) with
    | None => (a1, [])                                   (* group_encrypt without a sender key raises *)
    | Some i =>
      let a2 := set_skown a1 (upd g (i + 1) (a_skown a1)) in
      send_enc_entities a2 nd (es ++ [OES i (n_content nd) (n_mt nd)]) part
    end.

Definition ensure_sessions_and_send (a : acct) (nd : node) (js : list N) : acct * list output :=
  match filter (fun j => negb (session_exists a j)) js with
  | [] => send_to_group_with_sessions a nd js 0
  | nos => get_keys a nos (KGroupKeys nd)
  end.

Definition send_to_group (a : acct) (nd : node) (retry : option (N * N)) : acct * list output :=
  match lookup (n_to nd) (a_skown a) with
  | None => (set_iqs a ((a_iqctr a, (KGroupInfo nd, [])) :: a_iqs a) (a_iqctr a + 1),
             [OGroupInfo (a_iqctr a) (n_to nd)])
  | Some _ =>
    match retry with
    | None => send_to_group_with_sessions a nd [] 0
    | Some (c, cnt) => send_to_group_with_sessions a nd [c] cnt
    end
  end.

Definition plaintext_send (a : acct) (nd : node) (retry : option (N * N)) : acct * list output :=
  if is_group (n_to nd) then send_to_group a nd retry
  else if session_exists a (n_to nd) then send_to_contact a nd
  else get_keys a [n_to nd] (KSend nd).

Definition app_send (a : acct) (nd : node) : acct * list output :=
  if memN (n_to nd) (a_skip a) then (a, [OPlain nd]) else plaintext_send a nd None.

(* ---------- receive layer ---------- *)
Definition bump_retry (a : acct) (m : N) : acct * N :=
  let cnt := match lookup m (a_retries a) with Some x => x + 1 | None => 1 end in
  (set_retries a (upd m cnt (a_retries a)), cnt).

Definition reset_retries (a : acct) (m : N) : acct := set_retries a (remove_key m (a_retries a)).

(* protocol_messages / protocol_media recvMessageStanza for a stanza with the re-attached plaintext *)
Definition dispatch_up (a : acct) (im : inmsg) (p : payload) : list output :=
  let deliver := [ODeliver (i_from im) (i_part im) (i_id im) (i_ty im) (i_mt im) (p_content p);
                  OReceipt (i_from im) (i_part im) (i_id im)] in
  let text_layer :=
    if (i_mt im =? 0) then
      match p_content p with
      | Some _ => if (i_ty im =? 0) then deliver else []      (* a media payload without mediatype: out of domain *)
      | None => match p_skdm p with Some _ => [] | None => [OReceipt (i_from im) (i_part im) (i_id im)] end
      end
    else [] in
  let media_layer :=
    if (i_ty im =? 1) && negb (i_mt im =? 0) then
      match p_content p, p_skdm p with
      | None, Some _ => if a_guard a then [] else deliver
      | _, _ => deliver
      end
    else [] in
  text_layer ++ media_layer.

Definition sender_of (im : inmsg) : N := match i_part im with Some p => p | None => i_from im end.

Definition handle_sk (a : acct) (im : inmsg) : acct * list output * bool (* raised InvalidMessage/Duplicate? *) * dres :=
  match i_sk im with
  | None => (a, [], false, DOk (mkP None None))
  | Some e =>
    match decrypt_sk a (i_from im) (sender_of im) e with
    | (a1, DOk p) => (a1, dispatch_up a1 im p, false, DOk p)
    | (a1, DNoSession) =>                                  (* caught inside handleSenderKeyMessage *)
      let '(a2, cnt) := bump_retry a1 (i_id im) in
      (a2, [ORetry (i_from im) (i_part im) (i_id im) cnt], false, DNoSession)
    | (a1, r) => (a1, [], true, r)
    end
  end.

Definition conv_eqb (x y : N * option N) : bool :=
  (fst x =? fst y) && match snd x, snd y with
                      | None, None => true | Some p, Some q => p =? q | _, _ => false end.

(* the except-branches of handleEncMessage *)
Definition on_exception (a : acct) (im : inmsg) (r : dres) : acct * list output :=
  match r with
  | DInvalidKeyId | DInvalidMsg =>
    let '(a1, cnt) := bump_retry a (i_id im) in (a1, [ORetry (i_from im) (i_part im) (i_id im) cnt])
  | DNoSession =>
    let conv := (i_from im, i_part im) in
    let parked := match filter (fun x => conv_eqb (fst x) conv) (a_pend a) with (_, l) :: _ => l | [] => [] end in
    let rest := filter (fun x => negb (conv_eqb (fst x) conv)) (a_pend a) in
    get_keys (set_pend a ((conv, parked ++ [im]) :: rest)) [sender_of im] (KIncoming conv)
  | DDuplicate => (a, [OReceipt (i_from im) (i_part im) (i_id im)])
  | DOk _ => (a, [])
  end.

Definition handle_enc (a : acct) (im : inmsg) : acct * list output :=
  match i_pw im with
  | Some e =>
    match decrypt_pw a (sender_of im) e with
    | (a1, DOk p) =>
      let a2 := match p_skdm p with Some d => process_skdm a1 (sender_of im) d | None => a1 end in
      let up := dispatch_up a2 im p in
      match handle_sk a2 im with
      | (a3, o, false, _) => (reset_retries a3 (i_id im), up ++ o)
      | (a3, o, true, r) => let '(a4, o2) := on_exception a3 im r in (a4, up ++ o ++ o2)
      end
    | (a1, r) => on_exception a1 im r
    end
  | None =>
    match handle_sk a im with
    | (a3, o, false, _) => (reset_retries a3 (i_id im), o)
    | (a3, o, true, r) => let '(a4, o2) := on_exception a3 im r in (a4, o ++ o2)
    end
  end.

Fixpoint process_pending (a : acct) (l : list inmsg) : acct * list output :=
  match l with
  | [] => (a, [])
  | im :: r =>
    let '(a1, o1) := handle_enc a im in
    let '(a2, o2) := process_pending a1 r in (a2, o1 ++ o2)
  end.

(* getKeysFor.onSuccess: sessions for the jids the answer contains; the others go to skipEncJids *)
Fixpoint create_sessions (a : acct) (js : list N) (res : list (N * N)) : acct * list N :=
  match js with
  | [] => (a, [])
  | j :: r =>
    match lookup j res with
    | None => let '(a1, ok) := create_sessions (set_skip a (a_skip a ++ [j])) r res in (a1, ok)
    | Some sid => let '(a1, ok) := create_sessions (create_session a j sid) r res in (a1, j :: ok)
    end
  end.

Definition keys_result (a : acct) (k : cont) (js : list N) (res : list (N * N)) : acct * list output :=
  let '(a1, ok) := create_sessions a js res in
  match k with
  | KSend nd => match ok with [_] => send_to_contact a1 nd | _ => (a1, []) end
  | KRetry c nd cnt => match ok with [_] => plaintext_send a1 nd (Some (c, cnt)) | _ => (a1, []) end
  | KIncoming conv =>
    match ok with
    | [] => (a1, [])
    | _ =>
      match filter (fun x => conv_eqb (fst x) conv) (a_pend a1) with
      | (_, l) :: _ =>
        let '(a2, o) := process_pending a1 l in
        (set_pend a2 (filter (fun x => negb (conv_eqb (fst x) conv)) (a_pend a2)), o)
      | [] => (a1, [])
      end
    end
  | KGroupKeys nd => send_to_group_with_sessions a1 nd ok 0
  | KGroupInfo _ => (a1, [])
  end.

Fixpoint take_sent (m : N) (keep : bool) (q : list node) : option node * list node :=
  match q with
  | [] => (None, [])
  | nd :: r =>
    if (n_id nd =? m) then (Some nd, if keep then q else r)
    else let '(f, r') := take_sent m keep r in (f, nd :: r')
  end.

Definition on_receipt (a : acct) (frm : N) (part : option N) (m : N) (retry : option N) : acct * list output :=
  let keep := match part with Some _ => true | None => false end in
  let is_retry := match retry with Some _ => true | None => false end in
  match take_sent m keep (a_sentq a) with
  | (None, _) => (a, [OTopReceipt frm part m is_retry])
  | (Some nd, q') =>
    let a1 := set_sentq a q' in
    match retry with
    | Some cnt => let c := match part with Some p => p | None => frm end in
                  get_keys a1 [c] (KRetry c nd cnt)
    | None => (a1, [OTopReceipt frm part m false])
    end
  end.

Definition restart (a : acct) : acct :=
  mkA (a_me a) (a_guard a) (a_sess a) (a_skown a) (a_skpeer a) [] [] [] [] [] (a_iqctr a).

Definition step (a : acct) (i : input) : acct * list output :=
  match i with
  | IAppSend nd => app_send a nd
  | IKeys iq res =>
    match lookup iq (a_iqs a) with
    | Some (k, js) => keys_result (set_iqs a (remove_key iq (a_iqs a)) (a_iqctr a)) k js res
    | None => (a, [])
    end
  | IGroupInfo iq parts =>
    match lookup iq (a_iqs a) with
    | Some (KGroupInfo nd, _) =>
      ensure_sessions_and_send (set_iqs a (remove_key iq (a_iqs a)) (a_iqctr a)) nd
        (filter (fun j => negb (j =? a_me a)) parts)
    | _ => (a, [])
    end
  | IMsg im => handle_enc a im
  | IReceipt frm part m retry => on_receipt a frm part m retry
  | IRestart => (restart a, [])
  end.

Fixpoint run (a : acct) (ins : list input) : acct * list (list output) :=
  match ins with
  | [] => (a, [])
  | i :: r =>
    let '(a1, o) := step a i in
    let '(a2, os) := run a1 r in (a2, o :: os)
  end.

(* all outputs of a run, flattened, in order *)
Definition trace (a : acct) (ins : list input) : list output := concat (snd (run a ins)).
