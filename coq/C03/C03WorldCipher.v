(* C03 - world-level "only ciphertext": with the honest server no account ever puts a jid into skipEncJids, hence no
   stanza ever goes down with its plaintext, whatever the script, the schedule, the faults. *)
From YV Require Import Common.Tac C03.C03Model C03.C03Proofs C03.C03WorldModel C03.C03WorldProofs.
Local Open Scope N_scope.

(* ---------- bookkeeping of key requests: registry entries and OGetKeys outputs are created together ---------- *)
Definition IQ (a a' : acct) (os : list output) : Prop :=
  a_iqctr a <= a_iqctr a' /\
  (forall iq x, lookup iq (a_iqs a') = Some x ->
     lookup iq (a_iqs a) = Some x \/
     (a_iqctr a <= iq /\ iq < a_iqctr a' /\ forall js, In (OGetKeys iq js) os -> snd x = js)) /\
  (forall iq js, In (OGetKeys iq js) os -> a_iqctr a <= iq /\ iq < a_iqctr a').

Definition no_getkeys (os : list output) : Prop := forall iq js, ~ In (OGetKeys iq js) os.

Lemma IQ_same a a' os : a_iqs a' = a_iqs a -> a_iqctr a' = a_iqctr a -> no_getkeys os -> IQ a a' os.
Proof.
  intros H1 H2 H3. unfold IQ. rewrite H1, H2. split; [lia|]. split; [auto|].
  intros iq js H. exfalso. eapply H3; eauto.
Qed.

Lemma IQ_trans a b c o1 o2 : IQ a b o1 -> IQ b c o2 -> IQ a c (o1 ++ o2).
Proof.
  intros [A1 [B1 C1]] [A2 [B2 C2]]. split; [lia|]. split.
  - intros iq x L. destruct (B2 iq x L) as [Lb | [G1 [G2 G3]]].
    + destruct (B1 iq x Lb) as [La | [F1 [F2 F3]]]; [left; exact La|].
      right. split; [exact F1|]. split; [lia|]. intros js Hin. apply in_app_or in Hin. destruct Hin as [Hin | Hin].
      * apply F3. exact Hin.
      * destruct (C2 iq js Hin). lia.
    + right. split; [lia|]. split; [exact G2|]. intros js Hin. apply in_app_or in Hin. destruct Hin as [Hin | Hin].
      * destruct (C1 iq js Hin). lia.
      * apply G3. exact Hin.
  - intros iq js Hin. apply in_app_or in Hin. destruct Hin as [Hin | Hin].
    + destruct (C1 iq js Hin). lia.
    + destruct (C2 iq js Hin). lia.
Qed.

Lemma IQ_pre a b c os : IQ a b [] -> IQ b c os -> IQ a c os.
Proof. intros H1 H2. exact (IQ_trans a b c [] os H1 H2). Qed.

Lemma IQ_post a b c os : IQ a b os -> IQ b c [] -> IQ a c os.
Proof. intros H1 H2. rewrite <- (app_nil_r os). exact (IQ_trans a b c os [] H1 H2). Qed.

Lemma IQ_refl a : IQ a a [].
Proof. apply IQ_same; auto. intros iq js []. Qed.

Lemma IQ_same_nil a a' : a_iqs a' = a_iqs a -> a_iqctr a' = a_iqctr a -> IQ a a' [].
Proof. intros. apply IQ_same; auto. intros iq js []. Qed.

Ltac nogk := let H := fresh in unfold no_getkeys; intros ? ? H; cbn [In fst snd] in H; intuition discriminate.

Lemma IQ_get_keys a js k : IQ a (fst (get_keys a js k)) (snd (get_keys a js k)).
Proof.
  unfold get_keys. cbn [fst snd]. split; [cbn; lia|]. split.
  - intros iq x L. cbn [a_iqs set_iqs lookup] in L. destruct (a_iqctr a =? iq) eqn:E.
    + apply N.eqb_eq in E. subst iq. injection L as <-. right. cbn [a_iqctr set_iqs]. split; [lia|]. split; [lia|].
      intros js' [H | []]. injection H as <-. reflexivity.
    + left. exact L.
  - intros iq js' [H | []]. injection H as <- <-. cbn [a_iqctr set_iqs]. lia.
Qed.

Lemma IQ_send_enc a nd es p : IQ a (fst (send_enc_entities a nd es p)) (snd (send_enc_entities a nd es p)).
Proof. unfold send_enc_entities. destruct p; apply IQ_same; try reflexivity; nogk. Qed.

Lemma iq_encrypt a c a1 x : encrypt a c = Some (a1, x) -> a_iqs a1 = a_iqs a /\ a_iqctr a1 = a_iqctr a.
Proof. unfold encrypt. destruct (record_of a c); [discriminate|]. intros H. injection H as <- _. auto. Qed.

Lemma IQ_send_to_contact a nd : IQ a (fst (send_to_contact a nd)) (snd (send_to_contact a nd)).
Proof.
  unfold send_to_contact. destruct (encrypt a (n_to nd)) as [[a1 [[pk sid] n]]|] eqn:E; [|apply IQ_refl].
  destruct (iq_encrypt _ _ _ _ E) as [H1 H2]. eapply IQ_pre; [apply IQ_same_nil; eauto | apply IQ_send_enc].
Qed.

Lemma iq_enc_for_jids js : forall a pay mt d,
  a_iqs (fst (enc_for_jids a js pay mt d)) = a_iqs a /\ a_iqctr (fst (enc_for_jids a js pay mt d)) = a_iqctr a.
Proof.
  induction js as [|j r IH]; intros a pay mt d; cbn [enc_for_jids]; [auto|].
  destruct (encrypt a j) as [[a1 [[pk sid] n]]|] eqn:E; [|apply IH].
  destruct (iq_encrypt _ _ _ _ E) as [H1 H2]. specialize (IH a1 pay mt d).
  destruct (enc_for_jids a1 r pay mt d) as [a2 es]. cbn [fst] in *. destruct IH. split; congruence.
Qed.

Lemma IQ_sgws a nd js r :
  IQ a (fst (send_to_group_with_sessions a nd js r)) (snd (send_to_group_with_sessions a nd js r)).
Proof.
  unfold send_to_group_with_sessions.
  set (a0 := match js with [] => a | _ => _ end).
  assert (H0 : a_iqs a0 = a_iqs a /\ a_iqctr a0 = a_iqctr a).
  { unfold a0. destruct js; [auto|]. destruct (lookup (n_to nd) (a_skown a)); auto. }
  pose proof (iq_enc_for_jids js a0) as He.
  match goal with |- context [enc_for_jids a0 js ?p ?m ?d] => specialize (He p m d);
    destruct (enc_for_jids a0 js p m d) as [a1 es] end.
  cbn [fst] in He. destruct H0 as [X1 X2]. destruct He as [Y1 Y2].
  destruct (0 <? r).
  - eapply IQ_pre; [|apply IQ_send_enc]. apply IQ_same_nil; congruence.
  - destruct (lookup (n_to nd) (a_skown a1)).
    + eapply IQ_pre; [|apply IQ_send_enc]. apply IQ_same_nil; cbn [a_iqs a_iqctr set_skown]; congruence.
    + cbn [fst snd]. apply IQ_same_nil; congruence.
Qed.

Lemma IQ_plaintext_send a nd r : IQ a (fst (plaintext_send a nd r)) (snd (plaintext_send a nd r)).
Proof.
  unfold plaintext_send. destruct (is_group (n_to nd)).
  - unfold send_to_group. destruct (lookup (n_to nd) (a_skown a)).
    + destruct r as [[c cnt]|]; apply IQ_sgws.
    + cbn [fst snd]. split; [cbn; lia|]. split.
      * intros iq x L. cbn [a_iqs set_iqs lookup] in L. destruct (a_iqctr a =? iq) eqn:E; [|left; exact L].
        apply N.eqb_eq in E. subst iq. injection L as <-. right. cbn [a_iqctr set_iqs]. split; [lia|]. split; [lia|].
        intros js [H | []]. discriminate.
      * intros iq js [H | []]. discriminate.
  - destruct (session_exists a (n_to nd)); [apply IQ_send_to_contact | apply IQ_get_keys].
Qed.

Lemma iq_decrypt_pw a c e : a_iqs (fst (decrypt_pw a c e)) = a_iqs a /\ a_iqctr (fst (decrypt_pw a c e)) = a_iqctr a.
Proof.
  unfold decrypt_pw. destruct (pe_pk e).
  - destruct (negb _ && negb _); [auto|]. destruct (decrypt_record _ e) as [[r'|] res]; auto.
  - destruct (record_of a c); [auto|]. destruct (decrypt_record _ e) as [[r'|] res]; auto.
Qed.

Lemma iq_decrypt_sk a g s e : a_iqs (fst (decrypt_sk a g s e)) = a_iqs a /\ a_iqctr (fst (decrypt_sk a g s e)) = a_iqctr a.
Proof.
  unfold decrypt_sk. destruct (lookup (pairkey g s) (a_skpeer a)) as [[|k older]|]; auto.
  destruct (se_corrupt e); [auto|]. destruct (_ || _); auto.
Qed.

Lemma nogk_dispatch a im p : no_getkeys (dispatch_up a im p).
Proof.
  intros iq js H.
  unfold dispatch_up in H. apply in_app_or in H. destruct H as [H | H].
  - destruct (i_mt im =? 0); [|destruct H].
    destruct (p_content p); [destruct (i_ty im =? 0) | destruct (p_skdm p)]; cbn [In] in H; intuition discriminate.
  - destruct ((i_ty im =? 1) && negb (i_mt im =? 0)); [|destruct H].
    destruct (p_content p), (p_skdm p); try destruct (a_guard a); cbn [In] in H; intuition discriminate.
Qed.

Lemma IQ_on_exception a im r : IQ a (fst (on_exception a im r)) (snd (on_exception a im r)).
Proof.
  unfold on_exception. destruct r.
  - apply IQ_refl.
  - match goal with |- context [get_keys ?x ?j ?k] =>
      eapply IQ_pre; [|apply (IQ_get_keys x j k)] end. apply IQ_same_nil; reflexivity.
  - unfold bump_retry. cbn [fst snd]. apply IQ_same; try reflexivity; nogk.
  - unfold bump_retry. cbn [fst snd]. apply IQ_same; try reflexivity; nogk.
  - cbn [fst snd]. apply IQ_same; try reflexivity; nogk.
Qed.

Lemma IQ_handle_sk a im a' o b r : handle_sk a im = (a', o, b, r) -> IQ a a' o.
Proof.
  unfold handle_sk. destruct (i_sk im) as [e|]; [|intros H; injection H as <- <- _ _; apply IQ_refl].
  pose proof (iq_decrypt_sk a (i_from im) (sender_of im) e) as [H1 H2].
  destruct (decrypt_sk a (i_from im) (sender_of im) e) as [a1 res]. cbn [fst] in H1, H2.
  destruct res; unfold bump_retry; intros H; injection H as <- <- _ _.
  - apply IQ_same; auto. apply nogk_dispatch.
  - apply IQ_same; cbn [a_iqs a_iqctr set_retries]; auto. nogk.
  - apply IQ_same_nil; auto.
  - apply IQ_same_nil; auto.
  - apply IQ_same_nil; auto.
Qed.

Lemma IQ_handle_enc a im : IQ a (fst (handle_enc a im)) (snd (handle_enc a im)).
Proof.
  unfold handle_enc. destruct (i_pw im) as [e|].
  - pose proof (iq_decrypt_pw a (sender_of im) e) as [H1 H2].
    destruct (decrypt_pw a (sender_of im) e) as [a1 res]. cbn [fst] in H1, H2.
    assert (Hpre : IQ a a1 []) by (apply IQ_same_nil; auto).
    destruct res; try (eapply IQ_pre; [exact Hpre | apply IQ_on_exception]).
    set (a2 := match p_skdm p with Some d => process_skdm a1 (sender_of im) d | None => a1 end).
    assert (H12 : IQ a1 a2 []).
    { unfold a2. destruct (p_skdm p) as [[g it]|]; [apply IQ_same_nil; reflexivity | apply IQ_refl]. }
    assert (Hup : IQ a2 a2 (dispatch_up a2 im p)) by (apply IQ_same; auto; apply nogk_dispatch).
    destruct (handle_sk a2 im) as [[[a3 o] b] r] eqn:H. apply IQ_handle_sk in H.
    destruct b.
    + pose proof (IQ_on_exception a3 im r) as He. destruct (on_exception a3 im r) as [a4 o2]. cbn [fst snd] in *.
      eapply IQ_pre; [exact Hpre|]. eapply IQ_pre; [exact H12|].
      eapply IQ_trans; [exact Hup|]. eapply IQ_trans; eauto.
    + cbn [fst snd]. eapply IQ_pre; [exact Hpre|]. eapply IQ_pre; [exact H12|].
      eapply IQ_trans; [exact Hup|]. eapply IQ_post; [exact H | apply IQ_same_nil; reflexivity].
  - destruct (handle_sk a im) as [[[a3 o] b] r] eqn:H. apply IQ_handle_sk in H.
    destruct b.
    + pose proof (IQ_on_exception a3 im r) as He. destruct (on_exception a3 im r) as [a4 o2]. cbn [fst snd] in *.
      eapply IQ_trans; eauto.
    + cbn [fst snd]. eapply IQ_post; [exact H | apply IQ_same_nil; reflexivity].
Qed.

Lemma IQ_process_pending l : forall a, IQ a (fst (process_pending a l)) (snd (process_pending a l)).
Proof.
  induction l as [|im l IH]; intros a; cbn [process_pending]; [apply IQ_refl|].
  pose proof (IQ_handle_enc a im) as H1. destruct (handle_enc a im) as [a1 o1].
  pose proof (IH a1) as H2. destruct (process_pending a1 l) as [a2 o2]. cbn [fst snd] in *.
  eapply IQ_trans; eauto.
Qed.

Lemma iq_create_sessions js : forall a res,
  a_iqs (fst (create_sessions a js res)) = a_iqs a /\ a_iqctr (fst (create_sessions a js res)) = a_iqctr a.
Proof.
  induction js as [|j r IH]; intros a res; cbn [create_sessions]; [auto|].
  destruct (lookup j res) as [sid|].
  - specialize (IH (create_session a j sid) res). destruct (create_sessions _ r res) as [a1 ok]. exact IH.
  - specialize (IH (set_skip a (a_skip a ++ [j])) res). destruct (create_sessions _ r res) as [a1 ok]. exact IH.
Qed.

Lemma IQ_keys_result a k js res : IQ a (fst (keys_result a k js res)) (snd (keys_result a k js res)).
Proof.
  unfold keys_result. pose proof (iq_create_sessions js a res) as [H1 H2].
  destruct (create_sessions a js res) as [a1 ok]. cbn [fst] in H1, H2.
  assert (Hpre : IQ a a1 []) by (apply IQ_same_nil; auto).
  destruct k.
  - destruct ok as [|? [|? ?]]; try exact Hpre. eapply IQ_pre; [exact Hpre | apply IQ_send_to_contact].
  - destruct ok as [|? [|? ?]]; try exact Hpre. eapply IQ_pre; [exact Hpre | apply IQ_plaintext_send].
  - destruct ok; [exact Hpre|].
    destruct (filter _ (a_pend a1)) as [|[cv l] rest]; [exact Hpre|].
    pose proof (IQ_process_pending l a1) as Hp. destruct (process_pending a1 l) as [a2 o2]. cbn [fst snd] in *.
    eapply IQ_pre; [exact Hpre|]. eapply IQ_post; [exact Hp | apply IQ_same_nil; reflexivity].
  - exact Hpre.
  - eapply IQ_pre; [exact Hpre | apply IQ_sgws].
Qed.

Lemma lookup_remove_sub {A} k k0 (l : list (N * A)) x : lookup k0 (remove_key k l) = Some x -> lookup k0 l = Some x.
Proof.
  induction l as [|[k' v] l IH]; cbn [remove_key lookup]; [discriminate|].
  destruct (k' =? k) eqn:E.
  - intros H. specialize (IH H). destruct (k' =? k0) eqn:E2; [|exact IH].
    apply N.eqb_eq in E. apply N.eqb_eq in E2. subst.
    (* k = k0: the entry looked up was removed - impossible *)
    exfalso. clear IH. revert H. clear. induction l as [|[k' v'] l IH]; cbn [remove_key lookup]; [discriminate|].
    destruct (k' =? k0) eqn:E; [exact IH|]. cbn [lookup]. rewrite E. exact IH.
  - cbn [lookup]. destruct (k' =? k0); auto.
Qed.

Lemma IQ_step a i : IQ a (fst (step a i)) (snd (step a i)).
Proof.
  destruct i; cbn [step].
  - unfold app_send. destruct (memN _ _); [cbn [fst snd]; apply IQ_same; auto; nogk | apply IQ_plaintext_send].
  - destruct (lookup iq (a_iqs a)) as [[k js]|]; [|apply IQ_refl].
    eapply IQ_pre; [|apply IQ_keys_result]. split; [cbn; lia|]. split; [|intros ? ? []].
    intros iq0 x L. left. cbn [a_iqs set_iqs] in L. eapply lookup_remove_sub; eauto.
  - destruct (lookup iq (a_iqs a)) as [[k js]|]; [|apply IQ_refl]. destruct k; try apply IQ_refl.
    assert (Hpre : IQ a (set_iqs a (remove_key iq (a_iqs a)) (a_iqctr a)) []).
    { split; [cbn; lia|]. split; [|intros ? ? []].
      intros iq0 x L. left. cbn [a_iqs set_iqs] in L. eapply lookup_remove_sub; eauto. }
    unfold ensure_sessions_and_send. destruct (filter _ (filter _ parts)).
    + eapply IQ_pre; [exact Hpre | apply IQ_sgws].
    + eapply IQ_pre; [exact Hpre | apply IQ_get_keys].
  - apply IQ_handle_enc.
  - unfold on_receipt. destruct (take_sent m _ (a_sentq a)) as [[nd|] q'].
    + destruct retry.
      * eapply IQ_pre; [|apply IQ_get_keys]. apply IQ_same_nil; reflexivity.
      * cbn [fst snd]. apply IQ_same; try reflexivity; nogk.
    + cbn [fst snd]. apply IQ_same; try reflexivity; nogk.
  - cbn [fst snd]. split; [cbn; lia|]. split; [|intros ? ? []].
    intros iq x L. cbn in L. discriminate.
Qed.

(* ---------- the world invariant ---------- *)
Definition complete (js : list N) (res : list (N * N)) : Prop := forall j, In j js -> lookup j res <> None.

Definition acct_ok (a : acct) : Prop :=
  a_skip a = [] /\ forall iq x, lookup iq (a_iqs a) = Some x -> iq < a_iqctr a.

Definition keys_ok (a : acct) (i : input) : Prop :=
  match i with
  | IKeys iq res => iq < a_iqctr a /\ forall x, lookup iq (a_iqs a) = Some x -> complete (snd x) res
  | _ => True
  end.

Definition world_ok2 (w : world) : Prop :=
  (forall r a, lookup r (w_accts w) = Some a -> acct_ok a) /\
  (forall r i a, In (r, i) (w_queue w) -> lookup r (w_accts w) = Some a -> keys_ok a i).

Lemma complete_combine js l : length l = length js -> complete js (combine js l).
Proof.
  revert l. induction js as [|j js IH]; intros l Hl x Hx; [destruct Hx|].
  destruct l as [|y l]; [discriminate|]. cbn [combine lookup]. destruct (j =? x) eqn:E; [discriminate|].
  destruct Hx as [-> | Hx]; [rewrite N.eqb_refl in E; discriminate|]. apply IH; auto.
Qed.

Section W2.
  Variable groups : list (N * list N).

  Lemma route_keys s ctr o r i :
    In (r, i) (fst (route groups s ctr o)) ->
    match i with IKeys iq res => r = s /\ exists js, o = OGetKeys iq js /\ complete js res | _ => True end.
  Proof.
    assert (One : forall (x y : N * input), In y [x] -> y = x) by (intros x y [H | []]; auto).
    destruct o; cbn [route fst]; try (intros Hx; exact (match Hx with end)).
    - intros H. apply One in H. apply pair_inj in H. destruct H as [-> ->]. split; auto. exists js. split; auto.
      apply complete_combine. rewrite map_length, seq_length. reflexivity.
    - intros H. apply One in H. apply pair_inj in H. destruct H as [-> ->]. exact I.
    - destruct (is_group to); cbn [fst].
      + intros H. apply in_map_iff in H. destruct H as [x [H _]]. apply pair_inj in H. destruct H as [_ <-]. exact I.
      + intros H. apply One in H. apply pair_inj in H. destruct H as [-> ->]. exact I.
    - destruct (is_group to); [destruct part|]; cbn [fst]; try (intros Hx; exact (match Hx with end));
        intros H; apply One in H; apply pair_inj in H; destruct H as [-> ->]; exact I.
    - destruct (is_group to); [destruct part|]; cbn [fst]; try (intros Hx; exact (match Hx with end));
        intros H; apply One in H; apply pair_inj in H; destruct H as [-> ->]; exact I.
  Qed.

  Lemma route_all_keys s os : forall ctr r i,
    In (r, i) (fst (route_all groups s ctr os)) ->
    match i with IKeys iq res => r = s /\ exists js, In (OGetKeys iq js) os /\ complete js res | _ => True end.
  Proof.
    induction os as [|o os IH]; intros ctr r i; cbn [route_all]; [intros []|].
    pose proof (route_keys s ctr o r i) as H1. destruct (route groups s ctr o) as [q1 c1].
    specialize (IH c1 r i). destruct (route_all groups s c1 os) as [q2 c2]. cbn [fst] in *.
    intros H. apply in_app_or in H. destruct H as [H | H].
    - specialize (H1 H). destruct i; auto. destruct H1 as [-> [js [-> Hc]]]. split; auto. exists js. split; [left|]; auto.
    - specialize (IH H). destruct i; auto. destruct IH as [-> [js [Hin Hc]]]. split; auto. exists js. split; [right|]; auto.
  Qed.

  Lemma acct_ok_step a i : acct_ok a -> keys_ok a i -> acct_ok (fst (step a i)).
  Proof.
    intros [Hs Hq] Hk. pose proof (IQ_step a i) as [A [B C]]. split.
    - apply step_keeps_skip_empty; auto. destruct i; cbn [complete_answer keys_ok] in *; auto.
      destruct Hk as [_ Hk]. destruct (lookup iq (a_iqs a)) as [[k js]|] eqn:L; auto.
      apply (Hk (k, js)). reflexivity.
    - intros iq x L. destruct (B iq x L) as [La | [G1 [G2 _]]]; [specialize (Hq iq x La); lia | exact G2].
  Qed.

  Lemma feed_ok2 w r i :
    world_ok2 w -> (forall a, lookup r (w_accts w) = Some a -> keys_ok a i) ->
    world_ok2 (fst (feed groups w r i)) /\
    (forall o, In o (snd (feed groups w r i)) -> is_plain o = false).
  Proof.
    intros [Wa Wq] Hi. unfold feed. destruct (lookup r (w_accts w)) as [a|] eqn:L.
    2:{ cbn [fst snd]. split; [split; auto | intros o []]. }
    pose proof (Wa r a L) as Ha. specialize (Hi a eq_refl).
    pose proof (acct_ok_step a i Ha Hi) as Ha'. pose proof (IQ_step a i) as [A [B C]].
    pose proof (step_only_ciphertext_thm a i (proj1 Ha)) as Hplain.
    destruct (step a i) as [a' os] eqn:St. cbn [fst snd] in *.
    pose proof (route_all_keys r os (w_ctr w)) as Hr. destruct (route_all groups r (w_ctr w) os) as [q c].
    cbn [fst snd] in *. split; [|exact Hplain]. split; cbn [w_accts w_queue].
    - intros r0 a0 L0. rewrite lookup_upd in L0. destruct (r =? r0) eqn:E; [injection L0 as <-; exact Ha'|].
      eapply Wa; eauto.
    - intros r0 i0 a0 Hin L0. rewrite lookup_upd in L0. apply in_app_or in Hin.
      destruct (r =? r0) eqn:E.
      + apply N.eqb_eq in E. subst r0. injection L0 as <-.
        destruct Hin as [Hin | Hin].
        * (* an older queued item of r *)
          pose proof (Wq r i0 a Hin L) as Hk. destruct i0; auto. cbn [keys_ok] in *. destruct Hk as [K1 K2].
          split; [lia|]. intros x Lx. destruct (B iq x Lx) as [La | [G1 _]]; [apply K2; exact La | lia].
        * specialize (Hr r i0 Hin). destruct i0; auto. destruct Hr as [_ [js [Hin' Hc]]]. cbn [keys_ok].
          destruct (C iq js Hin') as [C1 C2]. split; [exact C2|].
          intros x Lx. destruct (B iq x Lx) as [La | [G1 [G2 G3]]].
          -- destruct Ha as [_ Hq]. specialize (Hq iq x La). lia.
          -- rewrite (G3 js Hin'). exact Hc.
      + destruct Hin as [Hin | Hin]; [eapply Wq; eauto|].
        specialize (Hr r0 i0 Hin). destruct i0; auto. destruct Hr as [-> _]. rewrite N.eqb_refl in E. discriminate.
  Qed.

  Lemma in_remove_nth {A} k : forall (l : list A) x, In x (remove_nth k l) -> In x l.
  Proof.
    induction k as [|k IH]; intros l x H; destruct l as [|y l]; cbn [remove_nth] in H; auto.
    - right. exact H.
    - destruct H as [H | H]; [left; exact H | right; apply IH; exact H].
  Qed.

  Lemma in_firstn {A} k : forall (l : list A) x, In x (firstn k l) -> In x l.
  Proof.
    induction k as [|k IH]; intros l x H; destruct l as [|y l]; cbn [firstn] in H; auto; try destruct H.
    - left; auto.
    - right. apply IH. auto.
  Qed.

  Lemma in_skipn {A} k : forall (l : list A) x, In x (skipn k l) -> In x l.
  Proof.
    induction k as [|k IH]; intros l x H; destruct l as [|y l]; cbn [skipn] in H; auto.
    right. apply IH. auto.
  Qed.

  Lemma wstep_ok2 w act :
    world_ok2 w -> world_ok2 (fst (wstep groups w act)) /\
    (forall o, In o (snd (snd (wstep groups w act))) -> is_plain o = false).
  Proof.
    intros Hw. destruct act; cbn [wstep].
    - destruct (feed_ok2 w s (IAppSend nd) Hw) as [H1 H2]; [intros; exact I|].
      destruct (feed groups w s (IAppSend nd)). auto.
    - destruct (nth_error (w_queue w) k) as [[r i]|] eqn:E; [|cbn [fst snd]; split; [exact Hw | intros o []]].
      destruct Hw as [Wa Wq]. apply nth_error_In in E.
      assert (Hw' : world_ok2 (mkW (w_accts w) (remove_nth k (w_queue w)) (w_ctr w))).
      { split; cbn [w_accts w_queue]; auto. intros r0 i0 a0 Hin L0. eapply Wq; eauto. eapply in_remove_nth; eauto. }
      destruct (feed_ok2 _ r i Hw') as [H1 H2]; [cbn [w_accts]; intros a L; eapply Wq; eauto|].
      destruct (feed groups _ r i). auto.
    - destruct (nth_error (w_queue w) k) as [[r i]|] eqn:E; [|cbn [fst snd]; split; [exact Hw | intros o []]].
      destruct i; try (cbn [fst snd]; split; [exact Hw | intros o []]).
      cbn [fst snd]. split; [|intros o []]. destruct Hw as [Wa Wq]. split; cbn [w_accts w_queue]; auto.
      intros r0 i0 a0 Hin L0. apply in_app_or in Hin. destruct Hin as [Hin | [Hin | []]]; [eapply Wq; eauto|].
      apply pair_inj in Hin. destruct Hin as [<- <-]. exact I.
    - destruct (nth_error (w_queue w) k) as [[r i]|] eqn:E; [|cbn [fst snd]; split; [exact Hw | intros o []]].
      cbn [fst snd]. split; [|intros o []]. destruct Hw as [Wa Wq]. split; cbn [w_accts w_queue]; auto.
      intros r0 i0 a0 Hin L0. apply in_app_or in Hin. destruct Hin as [Hin | [Hin | Hin]].
      + eapply Wq; eauto. eapply in_firstn; eauto.
      + apply pair_inj in Hin. destruct Hin as [<- <-]. apply nth_error_In in E. pose proof (Wq r i a0 E L0) as Hk.
        destruct i; cbn [corrupt_input keys_ok] in *; auto.
      + eapply Wq; eauto. eapply in_skipn; eauto.
    - destruct (feed_ok2 w s IRestart Hw) as [H1 H2]; [intros; exact I|].
      destruct (feed groups w s IRestart). auto.
  Qed.

  Theorem world_only_ciphertext_run : forall acts w,
    world_ok2 w ->
    forall x o, In x (snd (wrun groups w acts)) -> In o (snd x) -> is_plain o = false.
  Proof.
    induction acts as [|act acts IH]; intros w Hw x o; cbn [wrun]; [intros []|].
    destruct (wstep_ok2 w act Hw) as [H1 H2]. destruct (wstep groups w act) as [w1 ro]. cbn [fst snd] in *.
    specialize (IH w1 H1 x o). destruct (wrun groups w1 acts) as [w2 oss]. cbn [snd] in *.
    intros [<- | Hx] Ho; [apply H2; exact Ho | apply IH; auto].
  Qed.

  Lemma winit_ok2 jids : world_ok2 (winit jids).
  Proof.
    split; [|intros r i a []]. intros r a L. apply lookup_in in L. unfold winit in L. cbn [w_accts] in L.
    apply in_map_iff in L. destruct L as [j [Heq _]]. apply pair_inj in Heq. destruct Heq as [_ <-].
    split; [reflexivity|]. intros iq x Hx. cbn in Hx. discriminate.
  Qed.

  (* whatever the script (any sends, any ids), the schedule, the faults and the restarts: no stanza leaves any
     client with its plaintext *)
  Theorem world_only_ciphertext_thm : forall jids acts x o,
    In x (snd (wrun groups (winit jids) acts)) -> In o (snd x) -> is_plain o = false.
  Proof. intros jids acts. apply world_only_ciphertext_run. apply winit_ok2. Qed.
End W2.
