(* C14 — the upload side: what an upload stanza may carry, what its confirmation flags, and that a
   key of a confirmed upload never counts as pending (and is never offered) again. *)
From YV Require Import Common.Tac C14.C14Model C14.C14Proofs C14.C14Reoffer.

Local Open Scope N_scope.

(* ------------------------------------------------------------------ invariant E (all histories) *)
Definition PE (cu pe : list upload) (un : list (N * N)) (r : list (N * (N * bool))) (ns : N) : Prop :=
  (forall c i k f, In c cu -> In (i, k) (u_keys c) -> In (i, (k, f)) r -> f = true) /\
  (forall c i k, In c cu -> In (i, k) (u_keys c) -> k < ns) /\
  (forall u i k, In u pe -> In (i, k) (u_keys u) -> k < ns) /\
  (forall i k, In (i, k) un -> k < ns) /\
  (forall i k f, In (i, (k, f)) r -> k < ns) /\
  (forall u i, In u pe -> In i (map fst (u_keys u)) -> In i (u_flag_ids u)).

Definition invE (s : st) : Prop := PE (conf_ups s) (pending s) (unsent s) (rows s) (next_ser s).

Lemma invE_init : invE init.
Proof. unfold invE, PE. cbn. repeat split; intros; contradiction. Qed.

Definition mkrow (e : N * N) : N * (N * bool) := (fst e, (snd e, false)).

Lemma level_E batch force s s' nk : level batch force s = (s', nk) ->
  conf_ups s' = conf_ups s /\ pending s' = pending s /\ unsent s' = unsent s /\
  ((rows s' = rows s /\ next_ser s' = next_ser s /\ nk = []) \/
   (rows s' = rows s ++ map mkrow (new_keys (max_id (rows s)) (next_ser s) batch) /\
    next_ser s' = next_ser s + N.of_nat batch /\
    nk = new_keys (max_id (rows s)) (next_ser s) batch)).
Proof.
  unfold level. destruct (force || Nat.ltb (length (rows s)) THRESHOLD)%bool; intros H;
    apply pair_inj in H; destruct H as [<- <-]; destruct s; cbn; repeat split; auto.
Qed.

Lemma signed_E s s' sg : latest_signed s = (s', sg) \/ gen_signed s = (s', sg) ->
  conf_ups s' = conf_ups s /\ pending s' = pending s /\ unsent s' = unsent s /\ rows s' = rows s /\
  next_ser s' = next_ser s /\ mgr s' = mgr s.
Proof.
  unfold latest_signed, gen_signed. intros [H|H].
  - destruct (rev (signed s)); apply pair_inj in H; destruct H as [<- _]; destruct s; cbn; auto 10.
  - apply pair_inj in H; destruct H as [<- _]; destruct s; cbn; auto 10.
Qed.

Lemma flush_E sg keys rb s s' evs : flush sg keys rb s = (s', evs) ->
  conf_ups s' = conf_ups s /\ unsent s' = unsent s /\ rows s' = rows s /\ next_ser s' = next_ser s /\
  exists u, pending s' = pending s ++ [u] /\ evs = [EUpload u] /\ u_keys u = dict_of keys /\
            u_flag_ids u = map fst keys.
Proof.
  unfold flush. intros H. apply pair_inj in H. destruct H as [<- <-].
  destruct s; cbn. repeat split; auto. eexists. repeat split; reflexivity.
Qed.

Lemma in_mkrow i k f nk : In (i, (k, f)) (map mkrow nk) -> In (i, k) nk /\ f = false.
Proof.
  intros H. apply in_map_iff in H. destruct H as [[a b] [E H]]. unfold mkrow in E. cbn [fst snd] in E.
  apply pair_inj in E. destruct E as [-> E]. apply pair_inj in E. destruct E as [-> <-]. auto.
Qed.

(* a refill keeps the invariant: the new rows carry serials not below next_ser *)
Lemma PE_level cu pe un r ns mx batch :
  PE cu pe un r ns -> PE cu pe un (r ++ map mkrow (new_keys mx ns batch)) (ns + N.of_nat batch).
Proof.
  intros [e1 [e2 [e3 [e4 [e5 e6]]]]]. unfold PE. repeat split.
  - intros c i k f Hc Hk Hr. apply in_app_or in Hr. destruct Hr as [Hr|Hr]; [exact (e1 c i k f Hc Hk Hr)|].
    apply in_mkrow in Hr. destruct Hr as [Hn _]. apply new_keys_in in Hn. specialize (e2 c i k Hc Hk). lia.
  - intros c i k Hc Hk. specialize (e2 c i k Hc Hk). lia.
  - intros u i k Hu Hk. specialize (e3 u i k Hu Hk). lia.
  - intros i k H. specialize (e4 i k H). lia.
  - intros i k f Hr. apply in_app_or in Hr. destruct Hr as [Hr|Hr]; [specialize (e5 i k f Hr); lia|].
    apply in_mkrow in Hr. destruct Hr as [Hn _]. apply new_keys_in in Hn. lia.
  - exact e6.
Qed.

(* a flush keeps the invariant when the keys it takes carry serials below next_ser *)
Lemma PE_flush cu pe un r ns u keys :
  PE cu pe un r ns -> u_keys u = dict_of keys -> u_flag_ids u = map fst keys ->
  (forall i k, In (i, k) keys -> k < ns) -> PE cu (pe ++ [u]) un r ns.
Proof.
  intros [e1 [e2 [e3 [e4 [e5 e6]]]]] Hk Hf Hlt. unfold PE. repeat split; auto.
  - intros v i k Hv Hin. apply in_app_or in Hv. destruct Hv as [Hv|[<-|[]]]; [exact (e3 v i k Hv Hin)|].
    rewrite Hk in Hin. apply dict_of_in in Hin. exact (Hlt i k Hin).
  - intros v i Hv Hin. apply in_app_or in Hv. destruct Hv as [Hv|[<-|[]]]; [exact (e6 v i Hv Hin)|].
    rewrite Hk in Hin. rewrite Hf. apply dict_of_ids. exact Hin.
Qed.

Lemma unsent_rows_lt r ns : (forall i k f, In (i, (k, f)) r -> k < ns) ->
  forall i k, In (i, k) (unsent_rows r) -> k < ns.
Proof. intros H i k Hin. apply unsent_rows_in in Hin. exact (H i k false Hin). Qed.

Lemma mark_sent_in ids r i k f : In (i, (k, f)) (mark_sent ids r) ->
  exists f0, In (i, (k, f0)) r /\ (f = f0 \/ f = true) /\ (existsb (N.eqb i) ids = true -> f = true).
Proof.
  unfold mark_sent. intros H. apply in_map_iff in H. destruct H as [[i0 [k0 f0]] [E Hin]].
  cbn [fst snd] in E. destruct (existsb (N.eqb i0) ids) eqn:Ex.
  - apply pair_inj in E. destruct E as [-> E]. apply pair_inj in E. destruct E as [-> <-].
    exists f0. split; [exact Hin|]. split; [right; reflexivity|]. intros _. reflexivity.
  - apply pair_inj in E. destruct E as [-> E]. apply pair_inj in E. destruct E as [-> ->].
    exists f. split; [exact Hin|]. split; [left; reflexivity|]. rewrite Ex. intros D. discriminate D.
Qed.

Lemma existsb_eqb_in i ids : In i ids -> existsb (N.eqb i) ids = true.
Proof. intros H. apply existsb_exists. exists i. split; [exact H|apply N.eqb_refl]. Qed.

Ltac simp_e := cbn [fst snd conf_ups pending unsent rows next_ser mgr authed passive
  set_rows set_signed set_unsent set_passive set_reboot set_mgr set_authed set_pending set_next_iq
  set_next_ser set_conn set_hi set_rf set_issued set_offered set_sent_ups set_conf_ups set_consumed].

Lemma step_invE batch s o : invE s -> invE (fst (step batch s o)).
Proof.
  unfold invE. intros Hi. destruct o as [|p| |iq|iq| |id|]; cbn [step].
  - (* Connect *)
    set (s1 := set_mgr true (set_authed false (set_conn (conn s + 1) s))).
    assert (H1 : PE (conf_ups s1) (pending s1) (unsent s1) (rows s1) (next_ser s1)) by exact Hi.
    destruct (level batch false s1) as [s2 nk] eqn:L.
    destruct (level_E _ _ _ _ _ L) as [Ec [Ep [Eu Er]]]. cbn [fst]. simp_st.
    assert (H2 : PE (conf_ups s2) (pending s2) (unsent s2) (rows s2) (next_ser s2)).
    { rewrite Ec, Ep, Eu. destruct Er as [[-> [-> _]]|[-> [-> _]]]; [exact H1|apply PE_level; exact H1]. }
    destruct H2 as [e1 [e2 [e3 [e4 [e5 e6]]]]].
    change (PE (conf_ups s2) (pending s2) (unsent s2 ++ unsent_rows (rows s2)) (rows s2) (next_ser s2)).
    unfold PE. repeat split; auto.
    intros i k H. apply in_app_or in H. destruct H as [H|H]; [exact (e4 i k H)|].
    exact (unsent_rows_lt _ _ e5 i k H).
  - (* Authed *)
    assert (H0 : PE (conf_ups s) (pending s) (unsent s) (rows s) (next_ser s)) by exact Hi.
    clear Hi.
    destruct (unsent s) as [|x l] eqn:U; [simp_e; rewrite U; exact H0|].
    destruct p; [|simp_e; rewrite U; exact H0]. destruct (mgr s); [|simp_e; rewrite U; exact H0].
    rewrite <- U in H0.
    destruct (latest_signed s) as [s1 sg] eqn:L.
    destruct (signed_E _ _ _ (or_introl L)) as [Ec1 [Ep1 [Eu1 [Er1 [En1 _]]]]].
    destruct (flush sg (unsent s1) true s1) as [s2 evs] eqn:F.
    destruct (flush_E _ _ _ _ _ _ F) as [Ec2 [Eu2 [Er2 [En2 [u [Ep2 [_ [Hk Hf]]]]]]]].
    cbn [fst]. simp_st.
    change (PE (conf_ups s2) (pending s2) [] (rows s2) (next_ser s2)).
    rewrite Ec2, Ep2, Er2, En2, Ec1, Ep1, Er1, En1.
    assert (Hlt : forall i k, In (i, k) (unsent s1) -> k < next_ser s).
    { rewrite Eu1. destruct H0 as [_ [_ [_ [e4 _]]]]. exact e4. }
    pose proof (PE_flush _ _ _ _ _ u (unsent s1) H0 Hk Hf Hlt) as [e1 [e2 [e3 [e4 [e5 e6]]]]].
    unfold PE. repeat split; auto. intros i k [].
  - (* AskKeys *)
    destruct (mgr s); [|exact Hi].
    destruct (gen_signed s) as [s1 sg] eqn:G.
    destruct (signed_E _ _ _ (or_intror G)) as [Ec1 [Ep1 [Eu1 [Er1 [En1 _]]]]].
    destruct (level batch true s1) as [s2 nk] eqn:L.
    destruct (level_E _ _ _ _ _ L) as [Ec2 [Ep2 [Eu2 Er2]]].
    destruct (flush sg nk false s2) as [s3 evs] eqn:F.
    destruct (flush_E _ _ _ _ _ _ F) as [Ec3 [Eu3 [Er3 [En3 [u [Ep3 [_ [Hk Hf]]]]]]]].
    cbn [fst].
    change (PE (conf_ups s3) (pending s3) (unsent s3) (rows s3) (next_ser s3)).
    rewrite Ec3, Ep3, Eu3, Er3, En3, Ec2, Ep2, Eu2, Ec1, Ep1, Eu1.
    assert (H0 : PE (conf_ups s) (pending s) (unsent s) (rows s) (next_ser s)) by exact Hi.
    rewrite Er1, En1 in Er2.
    destruct Er2 as [[-> [-> ->]]|[-> [-> ->]]].
    + apply (PE_flush _ _ _ _ _ u [] H0 Hk Hf). intros i k [].
    + apply (PE_flush _ _ _ _ _ u _ (PE_level _ _ _ _ _ _ batch H0) Hk Hf).
      intros i k Hn. apply new_keys_in in Hn. lia.
  - (* Result *)
    destruct (find_up iq (pending s)) as [u|] eqn:Fu; [|exact Hi].
    pose proof (find_up_in _ _ _ Fu) as Hu.
    destruct Hi as [e1 [e2 [e3 [e4 [e5 e6]]]]].
    assert (Hsub : forall v, In v (remove_up iq (pending s)) -> In v (pending s))
      by (intros v; apply remove_up_in).
    destruct (mgr s).
    + assert (G : PE (conf_ups s ++ [u]) (remove_up iq (pending s)) (unsent s)
                     (mark_sent (u_flag_ids u) (rows s)) (next_ser s)).
      { unfold PE. repeat split.
        - intros c i k f Hc Hk Hr. apply mark_sent_in in Hr. destruct Hr as [f0 [Hr [Hf Hm]]].
          apply in_app_or in Hc. destruct Hc as [Hc|[<-|[]]].
          + pose proof (e1 c i k f0 Hc Hk Hr) as T. destruct Hf as [->| ->]; [exact T|reflexivity].
          + apply Hm. apply existsb_eqb_in. apply (e6 u i Hu).
            apply in_map_iff. exists (i, k). split; [reflexivity|exact Hk].
        - intros c i k Hc Hk. apply in_app_or in Hc. destruct Hc as [Hc|[<-|[]]];
            [exact (e2 c i k Hc Hk)|exact (e3 u i k Hu Hk)].
        - intros v i k Hv Hk. exact (e3 v i k (Hsub v Hv) Hk).
        - exact e4.
        - intros i k f Hr. apply mark_sent_in in Hr. destruct Hr as [f0 [Hr _]]. exact (e5 i k f0 Hr).
        - intros v i Hv Hin. exact (e6 v i (Hsub v Hv) Hin). }
      destruct (u_reboot u); cbn [fst]; exact G.
    + cbn [fst]. change (PE (conf_ups s) (remove_up iq (pending s)) (unsent s) (rows s) (next_ser s)).
      unfold PE. split; [exact e1|]. split; [exact e2|]. split; [|split; [exact e4|split; [exact e5|]]].
      * intros v i k Hv Hk. exact (e3 v i k (Hsub v Hv) Hk).
      * intros v i Hv Hin. exact (e6 v i (Hsub v Hv) Hin).
  - (* Error *)
    destruct (find_up iq (pending s)) as [u|] eqn:Fu; [|exact Hi].
    destruct Hi as [e1 [e2 [e3 [e4 [e5 e6]]]]]. cbn [fst].
    change (PE (conf_ups s) (remove_up iq (pending s)) (unsent s) (rows s) (next_ser s)).
    unfold PE. split; [exact e1|]. split; [exact e2|]. split; [|split; [exact e4|split; [exact e5|]]].
    + intros v i k Hv Hk. exact (e3 v i k (remove_up_in _ _ _ Hv) Hk).
    + intros v i Hv Hin. exact (e6 v i (remove_up_in _ _ _ Hv) Hin).
  - (* Disconnected *)
    destruct (reboot s); exact Hi.
  - (* Consume *)
    destruct (lookup_row id (rows s)) as [ser|]; [|exact Hi]. cbn [fst].
    destruct Hi as [e1 [e2 [e3 [e4 [e5 e6]]]]].
    change (PE (conf_ups s) (pending s) (unsent s) (remove_row id (rows s)) (next_ser s)).
    unfold PE. split; [|split; [exact e2|split; [exact e3|split; [exact e4|split; [|exact e6]]]]].
    + intros c i k f Hc Hk Hr. exact (e1 c i k f Hc Hk (remove_row_in _ _ _ Hr)).
    + intros i k f Hr. exact (e5 i k f (remove_row_in _ _ _ Hr)).
  - (* Restart *)
    destruct Hi as [e1 [e2 [e3 [e4 [e5 e6]]]]]. cbn [fst].
    change (PE (conf_ups s) [] [] (rows s) (next_ser s)).
    unfold PE. repeat split; auto; intros; contradiction.
Qed.

Lemma reach_invE batch ops : invE (final batch ops).
Proof. unfold final. apply (run_inv invE batch (step_invE batch) ops init invE_init). Qed.

(* ------------------------------------------------------------------ theorems *)
(* All histories: a key contained in a confirmed upload never counts as pending again -- while it is
   stored its flag is set, so load_unsent_prekeys does not return it. *)
Theorem confirmed_never_pending_thm : forall batch ops c x,
  In c (conf_ups (final batch ops)) -> In x (u_keys c) ->
  ~ In x (unsent_rows (rows (final batch ops))).
Proof.
  intros batch ops c [i k] Hc Hk Hu. destruct (reach_invE batch ops) as [e1 _].
  apply unsent_rows_in in Hu. specialize (e1 c i k false Hc Hk Hu). discriminate e1.
Qed.

(* which steps send an upload, and what it carries *)
Lemma step_upload_cases batch s o u : In (EUpload u) (snd (step batch s o)) ->
  (o = Authed true /\ mgr s = true /\ unsent s <> [] /\
   u_keys u = dict_of (unsent s) /\ u_flag_ids u = map fst (unsent s) /\
   rows (fst (step batch s o)) = rows s) \/
  (o = AskKeys /\ mgr s = true /\
   u_keys u = dict_of (new_keys (max_id (rows s)) (next_ser s) batch) /\
   u_flag_ids u = map fst (new_keys (max_id (rows s)) (next_ser s) batch) /\
   rows (fst (step batch s o)) =
     rows s ++ map mkrow (new_keys (max_id (rows s)) (next_ser s) batch)).
Proof.
  destruct o as [|p| |iq|iq| |id|]; cbn [step].
  - destruct (level batch false _) as [s2 nk]. cbn [snd]. intros [].
  - destruct (unsent s) as [|x l] eqn:U; [intros []|].
    destruct p; [|intros []]. destruct (mgr s) eqn:M; [|intros [H|[]]; discriminate H].
    destruct (latest_signed s) as [s1 sg] eqn:L.
    destruct (signed_E _ _ _ (or_introl L)) as [_ [_ [Eu1 [Er1 _]]]].
    destruct (flush sg (unsent s1) true s1) as [s2 evs] eqn:F.
    destruct (flush_E _ _ _ _ _ _ F) as [_ [_ [Er2 [_ [u' [_ [-> [Hk Hf]]]]]]]].
    cbn [snd fst]. intros [H|[]]. assert (u' = u) by congruence. subst u'.
    left. rewrite Eu1, U in Hk, Hf. repeat split; auto; [discriminate|].
    simp_st. rewrite Er2, Er1. reflexivity.
  - destruct (mgr s) eqn:M; [|intros [H|[H|[]]]; discriminate H].
    destruct (gen_signed s) as [s1 sg] eqn:G.
    destruct (signed_E _ _ _ (or_intror G)) as [_ [_ [_ [Er1 [En1 _]]]]].
    destruct (level batch true s1) as [s2 nk] eqn:L.
    assert (Er2 : rows s2 = rows s1 ++ map mkrow (new_keys (max_id (rows s1)) (next_ser s1) batch) /\
                  nk = new_keys (max_id (rows s1)) (next_ser s1) batch).
    { unfold level in L. cbn [orb] in L. apply pair_inj in L. destruct L as [<- <-].
      destruct s1; cbn. split; reflexivity. }
    destruct Er2 as [Er2 ->]. rewrite Er1, En1 in Er2.
    destruct (flush sg _ false s2) as [s3 evs] eqn:F.
    destruct (flush_E _ _ _ _ _ _ F) as [_ [_ [Er3 [_ [u' [_ [-> [Hk Hf]]]]]]]].
    cbn [snd fst]. intros [H|[H|[]]]; [discriminate H|]. assert (u' = u) by congruence. subst u'.
    right. rewrite Er1, En1 in Hk, Hf. repeat split; auto. rewrite Er3. exact Er2.
  - destruct (find_up iq (pending s)) as [u'|]; [|intros [H|[]]; discriminate H].
    destruct (mgr s); [|intros [H|[]]; discriminate H].
    destruct (u_reboot u'); cbn [snd]; [intros [H|[]]; discriminate H|intros []].
  - destruct (find_up iq (pending s)); intros [H|[]]; discriminate H.
  - destruct (reboot s); cbn [snd]; [intros [H|[]]; discriminate H|intros []].
  - destruct (lookup_row id (rows s)); intros [H|[]]; discriminate H.
  - intros [].
Qed.

(* Well-formed histories: every upload stanza -- at a login or answering a key-count request --
   carries only keys that are stored and pending when it is sent, its confirmation will flag exactly
   the ids in its <list>, and none of its keys was contained in an upload confirmed before. *)
Theorem upload_only_pending_thm : forall batch ops o u,
  wf batch init (ops ++ [o]) = true ->
  In (EUpload u) (snd (step batch (final batch ops) o)) ->
  (forall x, In x (u_keys u) -> In x (unsent_rows (rows (fst (step batch (final batch ops) o))))) /\
  (forall i, In i (u_flag_ids u) <-> In i (map fst (u_keys u))) /\
  (forall c x, In c (conf_ups (final batch ops)) -> In x (u_keys c) -> ~ In x (u_keys u)).
Proof.
  intros batch ops o u Hwf Hin. destruct (wf_app _ _ _ _ Hwf) as [Hw1 _].
  pose proof (run_invD batch ops init invD_init Hw1) as [_ _ d3 _ _].
  fold (final batch ops) in d3.
  pose proof (reach_invE batch ops) as HE.
  remember (final batch ops) as s eqn:Es.
  destruct (step_upload_cases batch s o u Hin) as
    [[_ [_ [_ [Hk [Hf Hr]]]]]|[_ [_ [Hk [Hf Hr]]]]].
  - assert (P1 : forall x, In x (u_keys u) -> In x (unsent_rows (rows s))).
    { intros x Hx. rewrite Hk in Hx. apply dict_of_in in Hx. apply d3. exact Hx. }
    split; [intros x Hx; rewrite Hr; exact (P1 x Hx)|]. split.
    + intros i. rewrite Hk, Hf. symmetry. apply dict_of_ids.
    + intros c x Hc Hxc Hxu. subst s. exact (confirmed_never_pending_thm batch ops c x Hc Hxc (P1 x Hxu)).
  - split; [|split].
    + intros x Hx. rewrite Hk in Hx. apply dict_of_in in Hx. rewrite Hr, unsent_rows_app.
      apply in_or_app. right. destruct x as [i k]. apply unsent_rows_in.
      apply in_map_iff. exists (i, k). split; [reflexivity|exact Hx].
    + intros i. rewrite Hk, Hf. symmetry. apply dict_of_ids.
    + intros c [i k] Hc Hxc Hxu. rewrite Hk in Hxu. apply dict_of_in in Hxu.
      apply new_keys_in in Hxu. destruct HE as [_ [e2 _]]. specialize (e2 c i k Hc Hxc). lia.
Qed.

(* non-vacuity: lost confirmation, the second login offers keys 1..5 (and the refill 6..10) again;
   after its confirmation and a key-count request nothing confirmed is pending or offered *)
Definition upload_history : list op :=
  [Connect; Authed true; Disconnected; Connect; Authed true; Result 1; Disconnected; Connect;
   Authed false].

Example upload_example :
  wf 5 init (upload_history ++ [AskKeys]) = true /\
  length (conf_ups (final 5 upload_history)) = 1%nat /\
  (exists u, snd (step 5 (final 5 upload_history) AskKeys) = [EAck; EUpload u] /\
             map fst (u_keys u) = [11; 12; 13; 14; 15]) /\
  unsent_rows (rows (final 5 upload_history)) = [].
Proof.
  split; [vm_compute; reflexivity|]. split; [vm_compute; reflexivity|]. split.
  - eexists. split; vm_compute; reflexivity.
  - vm_compute. reflexivity.
Qed.
