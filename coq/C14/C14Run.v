(* Glue between the sx line format and the C14 model (unverified, trusted, tiny). *)
From YV Require Import Common.Tac Common.Sx C14.C14Model C14.C14Durable.

Definition op_of (s : sx) : op :=
  let a := sx_get_n (sx_nth s 1) in
  match N.to_nat (sx_get_n (sx_nth s 0)) with
  | 0%nat => Connect
  | 1%nat => Authed (negb (a =? 0)%N)
  | 2%nat => AskKeys
  | 3%nat => Result a
  | 4%nat => Error a
  | 5%nat => Disconnected
  | 6%nat => Consume a
  | _ => Restart
  end.

Definition pairs (l : list (N * N)) : sx := SL (map (fun e => SL [SN (fst e); SN (snd e)]) l).

Definition ev_sx (e : ev) : sx :=
  match e with
  | EUpload u => SL [SN 0; SN (u_iq u); SN (u_signed u); pairs (u_keys u); sx_bool (u_reboot u)]
  | EAck => SL [SN 1]
  | EDisconnectReq => SL [SN 2]
  | EConnectReq => SL [SN 3]
  | EExn => SL [SN 4]
  | EUpper => SL [SN 5]
  | EConsumed ser => SL [SN 6; SN ser]
  | EInvalidKey => SL [SN 7]
  end.

Definition st_sx (s : st) : sx :=
  SL [ SL (map (fun e => SL [SN (fst e); SN (fst (snd e)); sx_bool (snd (snd e))]) (rows s));
       SL (map SN (signed s));
       pairs (unsent s);
       sx_bool (passive s);
       SL (map (fun u => SN (u_iq u)) (pending s));
       sx_bool (rf s);
       sx_bool (mgr s) ].

(* 8 m: killed inside the refill of a connect with m keys of the batch stored; 9 m sg: killed inside the reaction
   to a key-count request (C14Durable.xop) *)
Definition xop_of (s : sx) : xop :=
  match N.to_nat (sx_get_n (sx_nth s 0)) with
  | 8%nat => XKillConnect (N.to_nat (sx_get_n (sx_nth s 1)))
  | 9%nat => XKillAsk (negb (sx_get_n (sx_nth s 2) =? 0)%N) (N.to_nat (sx_get_n (sx_nth s 1)))
  | _ => XOp (op_of s)
  end.

Definition xwf (s : st) (x : xop) : bool := match x with XOp o => wf_op s o | _ => true end.

Fixpoint trace (batch : nat) (s : st) (ops : list xop) : list sx :=
  match ops with
  | [] => []
  | o :: ops' =>
    let '(s1, evs) := xstep batch s o in
    SL [SL (map ev_sx evs); st_sx s1; sx_bool (xwf s o)] :: trace batch s1 ops'
  end.

(* arg: (Nbatch (op ...)) -> per op: (events, state after, was the op well-formed) *)
Definition run_hist (arg : sx) : sx :=
  SL (trace (N.to_nat (sx_get_n (sx_nth arg 0))) init (map xop_of (sx_get_l (sx_nth arg 1)))).

(* arg: Nid -> B adjustId(id) *)
Definition run_adjust_id (arg : sx) : sx := SB (adjust_id (sx_get_n arg)).
