(* C14 — one-time prekeys: generation, upload, confirmation, consumption.
   Model of yowsup/axolotl/manager.py (level_prekeys, load_unsent_prekeys, set_prekeys_as_sent,
   generate_signed_prekey, load_latest_signed_prekey), layers/axolotl/layer_control.py
   (on_connected, onAuthed, onRequestKeysEncryptNotification, flush_keys, on_keys_flushed,
   onSentKeysError, on_disconnected, adjustId), the iq registry of YowProtocolLayer and the
   prekey tables of the SQLite store.  Definitions only.

   Key material is abstract: the n-th one-time prekey generated over the whole history is the
   number n (its "serial"); the harness numbers the real keys in order of generation.       *)
From YV Require Import Common.Tac.

Record upload := mkUp {
  u_iq : N;                      (* which set-keys iq (registry entry) *)
  u_conn : N;                    (* connection it was sent on *)
  u_signed : N;                  (* signed prekey id in the stanza *)
  u_keys : list (N * N);         (* <list>: id -> key, a dict *)
  u_flag_ids : list N;           (* ids on_keys_flushed will mark as sent *)
  u_reboot : bool
}.

Record st := mkSt {
  rows : list (N * (N * bool));
  signed : list N;
  unsent : list (N * N);
  passive : bool;
  reboot : bool;
  mgr : bool;
  authed : bool;
  pending : list upload;
  next_iq : N;
  next_ser : N;
  conn : N;
  hi : N;
  rf : bool;
  issued : list (N * N);
  offered : list (N * N);
  sent_ups : list upload;
  conf_ups : list upload;
  consumed : list (N * N)
}.

Definition set_rows (v : list (N * (N * bool))) (s : st) : st := mkSt v (signed s) (unsent s) (passive s) (reboot s) (mgr s) (authed s) (pending s) (next_iq s) (next_ser s) (conn s) (hi s) (rf s) (issued s) (offered s) (sent_ups s) (conf_ups s) (consumed s).
Definition set_signed (v : list N) (s : st) : st := mkSt (rows s) v (unsent s) (passive s) (reboot s) (mgr s) (authed s) (pending s) (next_iq s) (next_ser s) (conn s) (hi s) (rf s) (issued s) (offered s) (sent_ups s) (conf_ups s) (consumed s).
Definition set_unsent (v : list (N * N)) (s : st) : st := mkSt (rows s) (signed s) v (passive s) (reboot s) (mgr s) (authed s) (pending s) (next_iq s) (next_ser s) (conn s) (hi s) (rf s) (issued s) (offered s) (sent_ups s) (conf_ups s) (consumed s).
Definition set_passive (v : bool) (s : st) : st := mkSt (rows s) (signed s) (unsent s) v (reboot s) (mgr s) (authed s) (pending s) (next_iq s) (next_ser s) (conn s) (hi s) (rf s) (issued s) (offered s) (sent_ups s) (conf_ups s) (consumed s).
Definition set_reboot (v : bool) (s : st) : st := mkSt (rows s) (signed s) (unsent s) (passive s) v (mgr s) (authed s) (pending s) (next_iq s) (next_ser s) (conn s) (hi s) (rf s) (issued s) (offered s) (sent_ups s) (conf_ups s) (consumed s).
Definition set_mgr (v : bool) (s : st) : st := mkSt (rows s) (signed s) (unsent s) (passive s) (reboot s) v (authed s) (pending s) (next_iq s) (next_ser s) (conn s) (hi s) (rf s) (issued s) (offered s) (sent_ups s) (conf_ups s) (consumed s).
Definition set_authed (v : bool) (s : st) : st := mkSt (rows s) (signed s) (unsent s) (passive s) (reboot s) (mgr s) v (pending s) (next_iq s) (next_ser s) (conn s) (hi s) (rf s) (issued s) (offered s) (sent_ups s) (conf_ups s) (consumed s).
Definition set_pending (v : list upload) (s : st) : st := mkSt (rows s) (signed s) (unsent s) (passive s) (reboot s) (mgr s) (authed s) v (next_iq s) (next_ser s) (conn s) (hi s) (rf s) (issued s) (offered s) (sent_ups s) (conf_ups s) (consumed s).
Definition set_next_iq (v : N) (s : st) : st := mkSt (rows s) (signed s) (unsent s) (passive s) (reboot s) (mgr s) (authed s) (pending s) v (next_ser s) (conn s) (hi s) (rf s) (issued s) (offered s) (sent_ups s) (conf_ups s) (consumed s).
Definition set_next_ser (v : N) (s : st) : st := mkSt (rows s) (signed s) (unsent s) (passive s) (reboot s) (mgr s) (authed s) (pending s) (next_iq s) v (conn s) (hi s) (rf s) (issued s) (offered s) (sent_ups s) (conf_ups s) (consumed s).
Definition set_conn (v : N) (s : st) : st := mkSt (rows s) (signed s) (unsent s) (passive s) (reboot s) (mgr s) (authed s) (pending s) (next_iq s) (next_ser s) v (hi s) (rf s) (issued s) (offered s) (sent_ups s) (conf_ups s) (consumed s).
Definition set_hi (v : N) (s : st) : st := mkSt (rows s) (signed s) (unsent s) (passive s) (reboot s) (mgr s) (authed s) (pending s) (next_iq s) (next_ser s) (conn s) v (rf s) (issued s) (offered s) (sent_ups s) (conf_ups s) (consumed s).
Definition set_rf (v : bool) (s : st) : st := mkSt (rows s) (signed s) (unsent s) (passive s) (reboot s) (mgr s) (authed s) (pending s) (next_iq s) (next_ser s) (conn s) (hi s) v (issued s) (offered s) (sent_ups s) (conf_ups s) (consumed s).
Definition set_issued (v : list (N * N)) (s : st) : st := mkSt (rows s) (signed s) (unsent s) (passive s) (reboot s) (mgr s) (authed s) (pending s) (next_iq s) (next_ser s) (conn s) (hi s) (rf s) v (offered s) (sent_ups s) (conf_ups s) (consumed s).
Definition set_offered (v : list (N * N)) (s : st) : st := mkSt (rows s) (signed s) (unsent s) (passive s) (reboot s) (mgr s) (authed s) (pending s) (next_iq s) (next_ser s) (conn s) (hi s) (rf s) (issued s) v (sent_ups s) (conf_ups s) (consumed s).
Definition set_sent_ups (v : list upload) (s : st) : st := mkSt (rows s) (signed s) (unsent s) (passive s) (reboot s) (mgr s) (authed s) (pending s) (next_iq s) (next_ser s) (conn s) (hi s) (rf s) (issued s) (offered s) v (conf_ups s) (consumed s).
Definition set_conf_ups (v : list upload) (s : st) : st := mkSt (rows s) (signed s) (unsent s) (passive s) (reboot s) (mgr s) (authed s) (pending s) (next_iq s) (next_ser s) (conn s) (hi s) (rf s) (issued s) (offered s) (sent_ups s) v (consumed s).
Definition set_consumed (v : list (N * N)) (s : st) : st := mkSt (rows s) (signed s) (unsent s) (passive s) (reboot s) (mgr s) (authed s) (pending s) (next_iq s) (next_ser s) (conn s) (hi s) (rf s) (issued s) (offered s) (sent_ups s) (conf_ups s) v.

Definition init : st :=
  mkSt [] [] [] false false false false [] 0 0 0  0 true [] [] [] [] [].

Inductive op :=
| Connect                        (* YowNetworkLayer.EVENT_STATE_CONNECTED *)
| Authed (p : bool)              (* YowAuthenticationProtocolLayer.EVENT_AUTHED, passive = p *)
| AskKeys                        (* <notification type=encrypt><count/> from the server *)
| Result (iq : N)                (* <iq type=result id=iq> *)
| Error (iq : N)                 (* <iq type=error id=iq> *)
| Disconnected                   (* EVENT_STATE_DISCONNECTED (connection lost, or requested) *)
| Consume (id : N)               (* a first message (pkmsg) naming one-time prekey id arrives *)
| Restart.                       (* new process: new layer, manager, store object; same database *)

Inductive ev :=
| EUpload (u : upload)           (* set-keys iq sent downwards *)
| EAck                           (* ack of the notification *)
| EDisconnectReq                 (* broadcast EVENT_STATE_DISCONNECT *)
| EConnectReq                    (* network interface .connect() *)
| EExn                           (* the call raised *)
| EUpper                         (* stanza not for this layer: passed upwards *)
| EConsumed (ser : N)            (* decrypted with that key; the key was removed *)
| EInvalidKey.                   (* InvalidKeyIdException *)

Definition THRESHOLD : nat := 10.

Definition max_id (r : list (N * (N * bool))) : N := fold_right (fun (e : N * (N * bool)) m => N.max (fst e) m) 0%N r.

Fixpoint nseq (start : N) (n : nat) : list N :=
  match n with O => [] | S n' => start :: nseq (start + 1) n' end.

(* KeyHelper.generatePreKeys(max+1, batch): ids max+1 .. max+batch (python-axolotl wraps at
   2^24-2; ids stay far below in the model's domain, see hypothesis in the notes) *)
Definition new_keys (mx ser : N) (batch : nat) : list (N * N) :=
  combine (nseq (mx + 1) batch) (nseq ser batch).

Definition unsent_rows (r : list (N * (N * bool))) : list (N * N) :=
  flat_map (fun e : N * (N * bool) => if snd (snd e) then [] else [(fst e, fst (snd e))]) r.

(* AxolotlManager.level_prekeys(force) *)
Definition level (batch : nat) (force : bool) (s : st) : st * list (N * N) :=
  if (force || Nat.ltb (length (rows s)) THRESHOLD)%bool then
    let mx := max_id (rows s) in
    let nk := new_keys mx (next_ser s) batch in
    (set_rows (rows s ++ map (fun e : N * N => (fst e, (snd e, false))) nk)
      (set_next_ser (next_ser s + N.of_nat batch)
        (set_rf (rf s && (mx =? hi s)%N)
          (set_hi (N.max (hi s) (mx + N.of_nat batch))
            (set_issued (issued s ++ nk) s)))), nk)
  else (s, []).

(* AxolotlManager.generate_signed_prekey / load_latest_signed_prekey(generate=True) *)
Definition gen_signed (s : st) : st * N :=
  let id := match rev (signed s) with [] => 0%N | l :: _ => (l + 1)%N end in
  (set_signed (signed s ++ [id]) s, id).

Definition latest_signed (s : st) : st * N :=
  match rev (signed s) with [] => gen_signed s | l :: _ => (s, l) end.

(* a Python dict built by successive assignment: first-insertion order, last value wins *)
Fixpoint dict_set (i k : N) (d : list (N * N)) : list (N * N) :=
  match d with
  | [] => [(i, k)]
  | (i', k') :: d' => if (i' =? i)%N then (i, k) :: d' else (i', k') :: dict_set i k d'
  end.

Definition dict_of (l : list (N * N)) : list (N * N) :=
  fold_left (fun d (e : N * N) => dict_set (fst e) (snd e) d) l [].

(* flush_keys(signed, prekeys, reboot) *)
Definition flush (sg : N) (keys : list (N * N)) (rb : bool) (s : st) : st * list ev :=
  let u := mkUp (next_iq s) (conn s) sg (dict_of keys) (map fst keys) rb in
  (set_pending (pending s ++ [u])
    (set_next_iq (next_iq s + 1)
      (set_offered (offered s ++ dict_of keys)
        (set_sent_ups (sent_ups s ++ [u]) s))), [EUpload u]).

Definition mark_sent (ids : list N) (r : list (N * (N * bool))) : list (N * (N * bool)) :=
  map (fun e : N * (N * bool) => if existsb (N.eqb (fst e)) ids then (fst e, (fst (snd e), true)) else e) r.

Fixpoint find_up (iq : N) (l : list upload) : option upload :=
  match l with
  | [] => None
  | u :: l' => if (u_iq u =? iq)%N then Some u else find_up iq l'
  end.

Definition remove_up (iq : N) (l : list upload) : list upload :=
  filter (fun u => negb (u_iq u =? iq)%N) l.

Fixpoint lookup_row (id : N) (r : list (N * (N * bool))) : option N :=
  match r with
  | [] => None
  | e :: r' => if (fst e =? id)%N then Some (fst (snd e)) else lookup_row id r'
  end.

Definition remove_row (id : N) (r : list (N * (N * bool))) : list (N * (N * bool)) :=
  filter (fun e : N * (N * bool) => negb (fst e =? id)%N) r.

Definition step (batch : nat) (s : st) (o : op) : st * list ev :=
  match o with
  | Connect =>
    let s1 := set_mgr true (set_authed false (set_conn (conn s + 1) s)) in
    let '(s2, _) := level batch false s1 in
    let un := unsent s2 ++ unsent_rows (rows s2) in
    (set_unsent un (set_passive (match un with [] => passive s2 | _ => true end) s2), [])
  | Authed p =>
    match unsent s with
    | [] => (set_authed (mgr s) s, [])
    | _ :: _ =>
      if p then
        if mgr s then
          let '(s1, sg) := latest_signed s in
          let '(s2, evs) := flush sg (unsent s1) true s1 in
          (set_unsent [] (set_authed true s2), evs)
        else (s, [EExn])
      else (set_authed (mgr s) s, [])
    end
  | AskKeys =>
    if mgr s then
      let '(s1, sg) := gen_signed s in
      let '(s2, nk) := level batch true s1 in
      let '(s3, evs) := flush sg nk false s2 in
      (s3, EAck :: evs)
    else (s, [EAck; EExn])
  | Result iq =>
    match find_up iq (pending s) with
    | None => (s, [EUpper])
    | Some u =>
      let s1 := set_pending (remove_up iq (pending s)) s in
      if mgr s then
        let s2 := set_conf_ups (conf_ups s1 ++ [u]) (set_rows (mark_sent (u_flag_ids u) (rows s1)) s1) in
        if u_reboot u then (set_reboot true s2, [EDisconnectReq]) else (s2, [])
      else (s1, [EExn])
    end
  | Error iq =>
    match find_up iq (pending s) with
    | None => (s, [EUpper])
    | Some u => (set_pending (remove_up iq (pending s)) s, [EExn])
    end
  | Disconnected =>
    let s1 := set_mgr false (set_authed false s) in
    if reboot s then (set_reboot false (set_passive false s1), [EConnectReq]) else (s1, [])
  | Consume id =>
    match lookup_row id (rows s) with
    | Some ser => (set_consumed (consumed s ++ [(id, ser)]) (set_rows (remove_row id (rows s)) s),
                   [EConsumed ser])
    | None => (s, [EInvalidKey])
    end
  | Restart =>
    (set_unsent [] (set_reboot false (set_mgr false (set_authed false (set_pending []
      (set_passive false s))))), [])
  end.

Fixpoint run (batch : nat) (s : st) (ops : list op) : st * list (list ev) :=
  match ops with
  | [] => (s, [])
  | o :: ops' =>
    let '(s1, e) := step batch s o in
    let '(s2, es) := run batch s1 ops' in (s2, e :: es)
  end.

Definition final (batch : nat) (ops : list op) : st := fst (run batch init ops).

(* what the server and the rest of the stack really do (the histories of the property):
   one login per connection, its passive flag is the stack property the layer itself set,
   requests/replies/messages only on an authenticated connection, replies only to uploads
   sent on this connection *)
Definition wf_op (s : st) (o : op) : bool :=
  match o with
  | Connect => negb (mgr s)
  | Authed p => mgr s && negb (authed s) && Bool.eqb p (passive s)
  | AskKeys => authed s
  | Result iq | Error iq =>
    authed s && match find_up iq (pending s) with Some u => (u_conn u =? conn s)%N | None => false end
  | Disconnected => mgr s
  | Consume _ => authed s
  | Restart => true
  end.

Fixpoint wf (batch : nat) (s : st) (ops : list op) : bool :=
  match ops with
  | [] => true
  | o :: ops' => wf_op s o && wf batch (fst (step batch s o)) ops'
  end.

(* adjustId: hex, zero-filled to an even number of digits and at least 6 -> bytes *)
Fixpoint be_bytes (fuel : nat) (n : N) (acc : list N) : list N :=
  match fuel with
  | O => acc
  | S f => if (n =? 0)%N then acc else be_bytes f (n / 256)%N ((n mod 256)%N :: acc)
  end.

Definition adjust_id (n : N) : list N :=
  let b := be_bytes 16 n [] in repeat 0%N (3 - length b) ++ b.
