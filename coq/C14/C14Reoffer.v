(* C14 — re-offering of unconfirmed keys at a passive login, over well-formed histories. *)
From YV Require Import Common.Tac C14.C14Model C14.C14Proofs.

Local Open Scope N_scope.

Record invD (s : st) : Prop := {
  D1 : authed s = true -> mgr s = true;
  D2 : authed s = true -> unsent s = [];
  D3 : forall x, In x (unsent s) -> In x (unsent_rows (rows s));
  D4 : mgr s = true -> authed s = false ->
       (forall x, In x (unsent_rows (rows s)) -> In x (unsent s)) /\
       (unsent s <> [] -> passive s = true);
  D5 : NoDup (map fst (rows s))
}.

Lemma nodup_fst_fun {B} : forall (r : list (N * B)) i a b,
  NoDup (map fst r) -> In (i, a) r -> In (i, b) r -> a = b.
Proof.
  induction r as [|[j c] r IH]; intros i a b Hn Ha Hb; [destruct Ha|].
  cbn [map fst] in Hn. inversion Hn as [|x l Hx Hl]; subst.
  destruct Ha as [Ha|Ha], Hb as [Hb|Hb].
  - congruence.
  - apply pair_inj in Ha. destruct Ha as [-> _]. exfalso. apply Hx.
    apply (in_map fst) in Hb. exact Hb.
  - apply pair_inj in Hb. destruct Hb as [-> _]. exfalso. apply Hx.
    apply (in_map fst) in Ha. exact Ha.
  - exact (IH _ _ _ Hl Ha Hb).
Qed.

Lemma unsent_rows_fun r : NoDup (map fst r) -> functional (unsent_rows r).
Proof.
  intros Hn i k1 k2 H1 H2. apply unsent_rows_in in H1. apply unsent_rows_in in H2.
  pose proof (nodup_fst_fun r i _ _ Hn H1 H2) as E. congruence.
Qed.

Lemma unsent_rows_app a b : unsent_rows (a ++ b) = unsent_rows a ++ unsent_rows b.
Proof. unfold unsent_rows. apply flat_map_app. Qed.

Lemma mark_sent_ids ids r : map fst (mark_sent ids r) = map fst r.
Proof.
  unfold mark_sent. rewrite map_map. apply map_ext. intros [i [k f]]. cbn [fst snd].
  destruct (existsb (N.eqb i) ids); reflexivity.
Qed.

Lemma remove_row_ids_nodup id r : NoDup (map fst r) -> NoDup (map fst (remove_row id r)).
Proof.
  unfold remove_row. induction r as [|e r IH]; cbn [map filter]; intros H; [constructor|].
  inversion H as [|a l Ha Hl]; subst. destruct (negb (fst e =? id)); cbn [map].
  - constructor; [|apply IH; exact Hl]. intros Hin. apply Ha. apply in_map_iff in Hin.
    destruct Hin as [e' [<- He']]. apply in_map. apply filter_In in He'. tauto.
  - apply IH. exact Hl.
Qed.

Lemma new_rows_nodup r ser batch :
  NoDup (map fst r) ->
  NoDup (map fst (r ++ map (fun e : N * N => (fst e, (snd e, false))) (new_keys (max_id r) ser batch))).
Proof.
  intros Hn. rewrite map_app, map_map. cbn [fst].
  assert (E : map (fun x : N * N => fst x) (new_keys (max_id r) ser batch) = nseq (max_id r + 1) batch).
  { unfold new_keys. generalize (max_id r + 1) ser. induction batch as [|n IH]; intros a b;
      cbn [nseq combine map]; [reflexivity|]. cbn [fst]. rewrite IH. reflexivity. }
  rewrite E. apply NoDup_app_intro; [exact Hn|apply nseq_nodup|].
  intros x Hx Hs. apply nseq_in in Hs. apply in_map_iff in Hx. destruct Hx as [e [<- He]].
  apply max_id_ge in He. lia.
Qed.

(* what level does to the fields invD looks at *)
Lemma level_D batch force s s' nk : level batch force s = (s', nk) ->
  unsent s' = unsent s /\ passive s' = passive s /\ mgr s' = mgr s /\ authed s' = authed s /\
  (rows s' = rows s \/
   rows s' = rows s ++ map (fun e : N * N => (fst e, (snd e, false))) (new_keys (max_id (rows s)) (next_ser s) batch)).
Proof.
  unfold level. destruct (force || Nat.ltb (length (rows s)) THRESHOLD)%bool; intros H;
    apply pair_inj in H; destruct H as [<- _]; destruct s; cbn; repeat split; auto.
Qed.

Lemma signed_D s s' sg : latest_signed s = (s', sg) \/ gen_signed s = (s', sg) ->
  unsent s' = unsent s /\ passive s' = passive s /\ mgr s' = mgr s /\ authed s' = authed s /\ rows s' = rows s.
Proof.
  unfold latest_signed, gen_signed. intros [H|H].
  - destruct (rev (signed s)); apply pair_inj in H; destruct H as [<- _]; destruct s; cbn; auto.
  - apply pair_inj in H; destruct H as [<- _]; destruct s; cbn; auto.
Qed.

Lemma flush_D sg keys rb s s' evs : flush sg keys rb s = (s', evs) ->
  unsent s' = unsent s /\ passive s' = passive s /\ mgr s' = mgr s /\ authed s' = authed s /\ rows s' = rows s.
Proof. unfold flush. intros H. apply pair_inj in H. destruct H as [<- _]. destruct s; cbn; auto. Qed.

Lemma rows_grow_nodup s r' batch : NoDup (map fst (rows s)) ->
  (r' = rows s \/
   r' = rows s ++ map (fun e : N * N => (fst e, (snd e, false))) (new_keys (max_id (rows s)) (next_ser s) batch)) ->
  NoDup (map fst r') /\ forall x, In x (unsent_rows (rows s)) -> In x (unsent_rows r').
Proof.
  intros Hn [->| ->]; [auto|]. split; [apply new_rows_nodup; exact Hn|].
  intros x H. rewrite unsent_rows_app. apply in_or_app. left. exact H.
Qed.

Definition PD (m a : bool) (u : list (N * N)) (pv : bool) (r : list (N * (N * bool))) : Prop :=
  (a = true -> m = true) /\ (a = true -> u = []) /\
  (forall x, In x u -> In x (unsent_rows r)) /\
  (m = true -> a = false -> (forall x, In x (unsent_rows r) -> In x u) /\ (u <> [] -> pv = true)) /\
  NoDup (map fst r).

Lemma invD_iff s : invD s <-> PD (mgr s) (authed s) (unsent s) (passive s) (rows s).
Proof.
  unfold PD. split.
  - intros [d1 d2 d3 d4 d5]. auto.
  - intros [d1 [d2 [d3 [d4 d5]]]]. constructor; assumption.
Qed.

Ltac simp_st := cbn [mgr authed unsent passive rows set_rows set_signed set_unsent set_passive
  set_reboot set_mgr set_authed set_pending set_next_iq set_next_ser set_conn set_hi set_rf
  set_issued set_offered set_sent_ups set_conf_ups set_consumed fst snd].

Lemma step_invD batch s o : invD s -> wf_op s o = true -> invD (fst (step batch s o)).
Proof.
  intros Hi Hwf. pose proof Hi as [d1 d2 d3 d4 d5].
  destruct o as [|p| |iq|iq| |id|]; cbn [step wf_op] in *.
  - (* Connect *)
    set (s1 := set_mgr true (set_authed false (set_conn (conn s + 1) s))).
    destruct (level batch false s1) as [s2 nk] eqn:L.
    destruct (level_D _ _ _ _ _ L) as [Eu [Ep [Em [Ea Er]]]].
    assert (R1 : rows s1 = rows s) by reflexivity.
    assert (U1 : unsent s1 = unsent s) by reflexivity.
    assert (N1 : next_ser s1 = next_ser s) by reflexivity.
    rewrite R1, N1 in Er. destruct (rows_grow_nodup s (rows s2) batch d5 Er) as [Hn Hsub].
    assert (M2 : mgr s2 = true) by (rewrite Em; reflexivity).
    assert (A2 : authed s2 = false) by (rewrite Ea; reflexivity).
    cbn [fst]. apply invD_iff. simp_st. rewrite M2, A2, Eu, U1. unfold PD.
    split; [intros H; discriminate|]. split; [intros H; discriminate|]. split; [|split].
    + intros x H. apply in_app_or in H. destruct H as [H|H]; [apply Hsub; apply d3; exact H|exact H].
    + intros _ _. split.
      * intros x H. apply in_or_app. right. exact H.
      * destruct (unsent s ++ unsent_rows (rows s2)); [intros H; contradiction|reflexivity].
    + exact Hn.
  - (* Authed *)
    apply andb_true_iff in Hwf. destruct Hwf as [Hwf Hp]. apply andb_true_iff in Hwf.
    destruct Hwf as [Hm Ha]. apply negb_true_iff in Ha. apply Bool.eqb_prop in Hp.
    destruct (unsent s) eqn:U.
    + cbn [fst]. apply invD_iff. simp_st. rewrite U, Hm. unfold PD.
      repeat split; auto; try (intros; discriminate); try (intros x []).
    + destruct (d4 Hm Ha) as [_ Hpass].
      assert (Hps : passive s = true) by (apply Hpass; discriminate).
      rewrite Hp, Hps, Hm.
      destruct (latest_signed s) as [s1 sg] eqn:L.
      destruct (signed_D _ _ _ (or_introl L)) as [_ [_ [Em1 [_ Er1]]]].
      destruct (flush sg (unsent s1) true s1) as [s2 evs] eqn:F.
      destruct (flush_D _ _ _ _ _ _ F) as [_ [_ [Em2 [_ Er2]]]].
      cbn [fst]. apply invD_iff. simp_st. rewrite Em2, Em1, Hm, Er2, Er1. unfold PD.
      repeat split; auto; try (intros; discriminate); try (intros x []).
  - (* AskKeys *)
    rewrite (d1 Hwf).
    destruct (gen_signed s) as [s1 sg] eqn:G.
    destruct (signed_D _ _ _ (or_intror G)) as [Eu1 [Ep1 [Em1 [Ea1 Er1]]]].
    destruct (level batch true s1) as [s2 nk] eqn:L.
    destruct (level_D _ _ _ _ _ L) as [Eu2 [Ep2 [Em2 [Ea2 Er2]]]].
    destruct (flush sg nk false s2) as [s3 evs] eqn:F.
    destruct (flush_D _ _ _ _ _ _ F) as [Eu3 [Ep3 [Em3 [Ea3 Er3]]]]. cbn [fst].
    assert (N1 : next_ser s1 = next_ser s).
    { unfold gen_signed in G. apply pair_inj in G. destruct G as [<- _]. reflexivity. }
    rewrite Er1, N1 in Er2. destruct (rows_grow_nodup s (rows s2) batch d5 Er2) as [Hn _].
    apply invD_iff. rewrite Em3, Em2, Em1, Ea3, Ea2, Ea1, Eu3, Eu2, Eu1, Er3, (d1 Hwf), Hwf, (d2 Hwf).
    unfold PD. repeat split; auto; try (intros; discriminate); try (intros x []).
  - (* Result *)
    apply andb_true_iff in Hwf. destruct Hwf as [Ha _].
    destruct (find_up iq (pending s)) as [u|]; [|exact Hi].
    rewrite (d1 Ha). pose proof (d2 Ha) as U.
    destruct (u_reboot u); cbn [fst]; apply invD_iff; simp_st; rewrite U, Ha, (d1 Ha); unfold PD;
      rewrite mark_sent_ids; repeat split; auto; try (intros; discriminate); try (intros x []).
  - (* Error *)
    apply andb_true_iff in Hwf. destruct Hwf as [Ha _].
    destruct (find_up iq (pending s)) as [u|]; [|exact Hi].
    cbn [fst]. apply invD_iff. simp_st. apply invD_iff. exact Hi.
  - (* Disconnected *)
    destruct (reboot s); cbn [fst]; apply invD_iff; simp_st; unfold PD;
      repeat split; auto; intros; discriminate.
  - (* Consume *)
    destruct (lookup_row id (rows s)) as [ser|]; [|exact Hi]. cbn [fst].
    pose proof (d2 Hwf) as U. apply invD_iff. simp_st. rewrite U, Hwf, (d1 Hwf). unfold PD.
    repeat split; auto; try (intros; discriminate); try (intros x []).
    apply remove_row_ids_nodup. exact d5.
  - (* Restart *)
    cbn [fst]. apply invD_iff. simp_st. unfold PD.
    repeat split; auto; try (intros; discriminate); try (intros x []).
Qed.

Lemma invD_init : invD init.
Proof. constructor; cbn; intros; try discriminate; try contradiction. constructor. Qed.

Lemma run_invD batch : forall ops s, invD s -> wf batch s ops = true -> invD (fst (run batch s ops)).
Proof.
  induction ops as [|o ops IH]; intros s Hi Hw; cbn [run wf] in *; [exact Hi|].
  apply andb_true_iff in Hw. destruct Hw as [Hw1 Hw2].
  pose proof (step_invD batch s o Hi Hw1) as H1. destruct (step batch s o) as [s1 e]. cbn [fst] in *.
  specialize (IH s1 H1 Hw2). destruct (run batch s1 ops) as [s2 es]. exact IH.
Qed.

Lemma wf_app batch : forall ops s o, wf batch s (ops ++ [o]) = true ->
  wf batch s ops = true /\ wf_op (fst (run batch s ops)) o = true.
Proof.
  induction ops as [|a ops IH]; intros s o H; cbn [app wf run] in *.
  - apply andb_true_iff in H. destruct H as [H _]. auto.
  - apply andb_true_iff in H. destruct H as [H1 H2]. destruct (IH _ _ H2) as [H3 H4].
    rewrite H1, H3. split; [reflexivity|]. destruct (step batch s a) as [s1 e]. cbn [fst] in *.
    destruct (run batch s1 ops) as [s2 es]. exact H4.
Qed.

(* dict_of keeps every pair of a list in which an id has one value *)
Lemma dict_set_has i k d : In (i, k) (dict_set i k d).
Proof.
  induction d as [|[i' k'] d IH]; cbn [dict_set]; [left; reflexivity|].
  destruct (i' =? i); [left; reflexivity|right; exact IH].
Qed.

Lemma dict_set_keeps i k d x : In x d -> fst x <> i -> In x (dict_set i k d).
Proof.
  induction d as [|[i' k'] d IH]; cbn [dict_set In]; [tauto|].
  intros [<-|H] Hne.
  - cbn [fst] in Hne. destruct (N.eqb_spec i' i); [contradiction|left; reflexivity].
  - destruct (i' =? i); [right; exact H|right; apply IH; assumption].
Qed.

Lemma dict_fold_keeps : forall l d x, functional (d ++ l) -> In x d \/ In x l ->
  In x (fold_left (fun d (e : N * N) => dict_set (fst e) (snd e) d) l d).
Proof.
  induction l as [|[i k] l IH]; intros d x Hf Hx; cbn [fold_left fst snd].
  - destruct Hx as [Hx|[]]. exact Hx.
  - apply IH.
    + intros j k1 k2 H1 H2. apply (Hf j k1 k2).
      * apply in_app_or in H1. apply in_or_app. destruct H1 as [H1|H1]; [|right; right; exact H1].
        destruct (dict_set_in _ _ _ _ H1) as [E|H]; [right; left; congruence|left; exact H].
      * apply in_app_or in H2. apply in_or_app. destruct H2 as [H2|H2]; [|right; right; exact H2].
        destruct (dict_set_in _ _ _ _ H2) as [E|H]; [right; left; congruence|left; exact H].
    + destruct Hx as [Hx|[Hx|Hx]].
      * left. destruct x as [j k']. destruct (N.eq_dec j i) as [->|Hne].
        -- assert (k' = k).
           { apply (Hf i k' k); apply in_or_app; [left; exact Hx|right; left; reflexivity]. }
           subst. apply dict_set_has.
        -- apply dict_set_keeps; [exact Hx|exact Hne].
      * left. rewrite <- Hx. apply dict_set_has.
      * right. exact Hx.
Qed.

Lemma dict_of_keeps l x : functional l -> In x l -> In x (dict_of l).
Proof. intros Hf Hx. unfold dict_of. apply dict_fold_keeps; [exact Hf|right; exact Hx]. Qed.

(* Every authenticated passive login of a well-formed history offers exactly the stored keys
   whose upload has not been confirmed: unconfirmed ones always (in one upload that will
   reboot the connection), confirmed ones never; with nothing unconfirmed nothing is sent. *)
Theorem reoffer_thm : forall batch ops p,
  wf batch init (ops ++ [Authed p]) = true ->
  let s := final batch ops in
  let evs := snd (step batch s (Authed p)) in
  (unsent_rows (rows s) = [] -> evs = []) /\
  (unsent_rows (rows s) <> [] ->
     p = true /\
     exists u, evs = [EUpload u] /\ u_reboot u = true /\
               forall x, In x (u_keys u) <-> In x (unsent_rows (rows s))).
Proof.
  intros batch ops p Hwf. destruct (wf_app _ _ _ _ Hwf) as [Hw1 Hw2]. unfold final.
  pose proof (run_invD batch ops init invD_init Hw1) as Hi.
  remember (fst (run batch init ops)) as s eqn:Es. clear Es. cbn zeta.
  destruct Hi as [d1 d2 d3 d4 d5]. cbn [wf_op] in Hw2.
  apply andb_true_iff in Hw2. destruct Hw2 as [Hw2 Hp]. apply andb_true_iff in Hw2.
  destruct Hw2 as [Hm Ha]. apply negb_true_iff in Ha. apply Bool.eqb_prop in Hp.
  destruct (d4 Hm Ha) as [Hsub Hpass]. cbn [step]. split.
  - intros He. destruct (unsent s) as [|x l] eqn:U; [reflexivity|].
    exfalso. assert (Hx : In x (unsent_rows (rows s))) by (apply d3; try rewrite U; left; reflexivity).
    rewrite He in Hx. destruct Hx.
  - intros Hne. destruct (unsent s) as [|x l] eqn:U.
    + exfalso. destruct (unsent_rows (rows s)) as [|y r] eqn:E; [apply Hne; reflexivity|].
      destruct (Hsub y (or_introl eq_refl)).
    + assert (Hp' : p = true). { rewrite Hp. apply Hpass. discriminate. }
      split; [exact Hp'|]. rewrite Hp', Hm.
      destruct (latest_signed s) as [s1 sg] eqn:L.
      destruct (signed_D _ _ _ (or_introl L)) as [Eu1 _].
      unfold flush. cbn [snd]. eexists. split; [reflexivity|]. cbn [u_reboot u_keys].
      split; [reflexivity|]. rewrite Eu1, U. intros y. split.
      * intros H. apply dict_of_in in H. apply d3. try rewrite U. exact H.
      * intros H. apply dict_of_keeps.
        -- intros i k1 k2 H1 H2. try rewrite U in H1; try rewrite U in H2. apply d3 in H1. apply d3 in H2.
           exact (unsent_rows_fun _ d5 i k1 k2 H1 H2).
        -- try rewrite U. apply Hsub. exact H.
Qed.

(* non-vacuity: a well-formed history with a lost confirmation; the second passive login
   offers the five keys again *)
Example reoffer_example :
  wf 5 init ([Connect; Authed true; Disconnected; Connect] ++ [Authed true]) = true /\
  unsent_rows (rows (final 5 [Connect; Authed true; Disconnected; Connect])) <> [].
Proof. split; [vm_compute; reflexivity|vm_compute; discriminate]. Qed.
