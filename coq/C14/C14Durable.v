(* C14 — durable state.  The SQLite stores commit inside every store API call, so what the database file
   holds is what the library's connection sees, after every operation of a history; a process that is killed
   and restarted (Restart) therefore continues from exactly the live rows.  That is what C14Model.step assumes
   (Restart keeps `rows`).  Here the assumption is made explicit: a semantics that carries the durable rows
   next to the live state, parametrised by how level_prekeys commits the keys it generates (chunk = 0: one
   commit per insert, today's code; chunk = n > 0: one commit every n inserts and none at the end, the
   "chunked writer"), with Restart reloading the durable rows.  For chunk = 0 it coincides with the model and
   durable = live is an invariant (what the harness checks on the real file after every step); for chunk = 100
   the witness shows offered keys lost by a kill and their ids re-issued with other keys. *)
From YV Require Import Common.Tac C14.C14Model C14.C14Proofs C14.C14Reoffer C14.C14Upload.

Local Open Scope N_scope.

Definition drows := list (N * (N * bool)).

(* how many of n freshly inserted rows have been committed when level_prekeys returns *)
Definition committed_prefix (chunk n : nat) : nat :=
  match chunk with O => n | S _ => (n - Nat.modulo n chunk)%nat end.

(* level_prekeys appended rows to the store: a commit, if one happened, wrote out everything pending on the
   connection (the rows before the refill included) up to the last committed insert *)
Definition dur_level (chunk : nat) (s s1 : st) (d : drows) : drows :=
  let nw := skipn (length (rows s)) (rows s1) in
  match committed_prefix chunk (length nw) with
  | O => d
  | k => rows s ++ firstn k nw
  end.

Definition dstep (chunk batch : nat) (sd : st * drows) (o : op) : (st * drows) * list ev :=
  let '(s, d) := sd in
  match o with
  | Restart => let '(s1, e) := step batch (set_rows d s) Restart in ((s1, d), e)
  | Connect => let '(s1, e) := step batch s Connect in ((s1, dur_level chunk s s1 d), e)
  | Authed _ =>
    (* flush_keys -> load_latest_signed_prekey(generate=True): stores (and commits) a signed prekey only when
       there is none yet; set-keys iq: no store write *)
    let '(s1, e) := step batch s o in
    ((s1, if Nat.eqb (length (signed s1)) (length (signed s)) then d else rows s1), e)
  | AskKeys =>
    (* generate_signed_prekey() commits first, then level_prekeys(force=True) *)
    let '(s1, e) := step batch s AskKeys in
    ((s1, if mgr s then dur_level chunk s s1 (rows s) else d), e)
  | Result iq =>
    let '(s1, e) := step batch s o in
    ((s1, match find_up iq (pending s) with
          | Some _ => if mgr s then rows s1 else d      (* setAsSent commits *)
          | None => d
          end), e)
  | Error _ | Disconnected => let '(s1, e) := step batch s o in ((s1, d), e)
  | Consume id =>
    let '(s1, e) := step batch s o in
    ((s1, match lookup_row id (rows s) with Some _ => rows s1 | None => d end), e)   (* removePreKey commits *)
  end.

Fixpoint drun (chunk batch : nat) (sd : st * drows) (ops : list op) : (st * drows) * list (list ev) :=
  match ops with
  | [] => (sd, [])
  | o :: ops' =>
    let '(sd1, e) := dstep chunk batch sd o in
    let '(sd2, es) := drun chunk batch sd1 ops' in (sd2, e :: es)
  end.

Definition dfinal (chunk batch : nat) (ops : list op) : st * drows := fst (drun chunk batch (init, []) ops).

(* ------------------------------------------------------------------ chunk = 0: today's code *)
Lemma dur_level_0 s s1 x : rows s1 = rows s ++ x -> dur_level 0 s s1 (rows s) = rows s1.
Proof.
  intros E. unfold dur_level, committed_prefix. rewrite E, skipn_app, skipn_all, Nat.sub_diag.
  cbn [skipn app]. destruct x as [|a x]; cbn [length].
  - rewrite app_nil_r. reflexivity.
  - change (S (length x)) with (length (a :: x)). rewrite firstn_all. reflexivity.
Qed.

Lemma set_rows_same s : set_rows (rows s) s = s.
Proof. destruct s; reflexivity. Qed.

Lemma dstep_0 batch s o :
  dstep 0 batch (s, rows s) o = ((fst (step batch s o), rows (fst (step batch s o))), snd (step batch s o)).
Proof.
  destruct o as [|p| |iq|iq| |id|]; cbn [dstep].
  - (* Connect *)
    destruct (step batch s Connect) as [s1 e] eqn:S. cbn [fst snd].
    assert (E : exists x, rows s1 = rows s ++ x).
    { cbn [step] in S.
      set (s0 := set_mgr true (set_authed false (set_conn (conn s + 1) s))) in S.
      destruct (level batch false s0) as [s2 nk] eqn:L.
      destruct (level_E _ _ _ _ _ L) as [_ [_ [_ Er]]].
      apply pair_inj in S. destruct S as [<- _]. simp_e.
      change (rows s0) with (rows s) in Er.
      destruct Er as [[-> _]|[-> _]]; [exists []; rewrite app_nil_r; reflexivity|eexists; reflexivity]. }
    destruct E as [x E]. rewrite (dur_level_0 s s1 x E). reflexivity.
  - (* Authed *)
    destruct (step batch s (Authed p)) as [s1 e] eqn:S. cbn [fst snd].
    assert (E : rows s1 = rows s).
    { cbn [step] in S. destruct (unsent s) as [|x l]; [apply pair_inj in S; destruct S as [<- _]; reflexivity|].
      destruct p; [|apply pair_inj in S; destruct S as [<- _]; reflexivity].
      destruct (mgr s); [|apply pair_inj in S; destruct S as [<- _]; reflexivity].
      destruct (latest_signed s) as [s2 sg] eqn:L.
      destruct (signed_E _ _ _ (or_introl L)) as [_ [_ [_ [Er1 _]]]].
      destruct (flush sg (unsent s2) true s2) as [s3 evs] eqn:F.
      destruct (flush_E _ _ _ _ _ _ F) as [_ [_ [Er2 _]]].
      apply pair_inj in S. destruct S as [<- _]. simp_e. rewrite Er2, Er1. reflexivity. }
    rewrite E. destruct (Nat.eqb _ _); reflexivity.
  - (* AskKeys *)
    destruct (step batch s AskKeys) as [s1 e] eqn:S. cbn [fst snd].
    cbn [step] in S. destruct (mgr s).
    + destruct (gen_signed s) as [s2 sg] eqn:G.
      destruct (signed_E _ _ _ (or_intror G)) as [_ [_ [_ [Er1 _]]]].
      destruct (level batch true s2) as [s3 nk] eqn:L.
      destruct (level_E _ _ _ _ _ L) as [_ [_ [_ Er2]]].
      destruct (flush sg nk false s3) as [s4 evs] eqn:F.
      destruct (flush_E _ _ _ _ _ _ F) as [_ [_ [Er3 _]]].
      apply pair_inj in S. destruct S as [<- _].
      assert (E : exists x, rows s4 = rows s ++ x).
      { rewrite Er3. rewrite Er1 in Er2.
        destruct Er2 as [[-> _]|[-> _]]; [exists []; rewrite app_nil_r; reflexivity|eexists; reflexivity]. }
      destruct E as [x E]. rewrite (dur_level_0 s s4 x E). reflexivity.
    + apply pair_inj in S. destruct S as [<- _]. reflexivity.
  - (* Result *)
    destruct (step batch s (Result iq)) as [s1 e] eqn:S. cbn [fst snd].
    cbn [step] in S. destruct (find_up iq (pending s)) as [u|].
    + destruct (mgr s); [reflexivity|].
      apply pair_inj in S. destruct S as [<- _]. reflexivity.
    + apply pair_inj in S. destruct S as [<- _]. reflexivity.
  - (* Error *)
    destruct (step batch s (Error iq)) as [s1 e] eqn:S. cbn [fst snd].
    cbn [step] in S. destruct (find_up iq (pending s)); apply pair_inj in S; destruct S as [<- _]; reflexivity.
  - (* Disconnected *)
    destruct (step batch s Disconnected) as [s1 e] eqn:S. cbn [fst snd].
    cbn [step] in S. destruct (reboot s); apply pair_inj in S; destruct S as [<- _]; reflexivity.
  - (* Consume *)
    destruct (step batch s (Consume id)) as [s1 e] eqn:S. cbn [fst snd].
    cbn [step] in S. destruct (lookup_row id (rows s)); [reflexivity|].
    apply pair_inj in S. destruct S as [<- _]. reflexivity.
  - (* Restart *)
    rewrite set_rows_same. destruct (step batch s Restart) as [s1 e] eqn:S. cbn [fst snd].
    cbn [step] in S. apply pair_inj in S. destruct S as [<- _]. reflexivity.
Qed.

Lemma drun_0 batch : forall ops s,
  drun 0 batch (s, rows s) ops =
  ((fst (run batch s ops), rows (fst (run batch s ops))), snd (run batch s ops)).
Proof.
  induction ops as [|o ops IH]; intros s; cbn [drun run]; [reflexivity|].
  rewrite dstep_0. destruct (step batch s o) as [s1 e]. cbn [fst snd]. rewrite IH.
  destruct (run batch s1 ops) as [s2 es]. reflexivity.
Qed.

(* With one commit per store call the durable rows are the live rows after every history, the semantics with
   kills reloading the file is the model all other C14 theorems are about, and it produces the same events. *)
Theorem durable_is_live_thm : forall batch ops,
  snd (dfinal 0 batch ops) = rows (fst (dfinal 0 batch ops)) /\
  fst (dfinal 0 batch ops) = final batch ops /\
  snd (drun 0 batch (init, []) ops) = snd (run batch init ops).
Proof.
  intros batch ops. unfold dfinal, final.
  change (init, @nil (N * (N * bool))) with (init, rows init). rewrite drun_0. cbn [fst snd]. auto.
Qed.

Definition functionalb (l : list (N * N)) : bool :=
  forallb (fun x => forallb (fun y => negb (fst x =? fst y) || (snd x =? snd y)) l) l.

Lemma functionalb_ok l : functionalb l = true -> functional l.
Proof.
  unfold functionalb. intros H i k1 k2 H1 H2. rewrite forallb_forall in H.
  specialize (H _ H1). rewrite forallb_forall in H. specialize (H _ H2). cbn [fst snd] in H.
  rewrite N.eqb_refl in H. cbn [negb orb] in H. apply N.eqb_eq in H. exact H.
Qed.

(* ------------------------------------------------------------------ refuted: the chunked writer *)
(* level_prekeys committing every 100 inserts and not at the end (generation batch 5: nothing of a refill is
   committed by level_prekeys itself).  First login confirmed, the reboot's connect generates 6..10, the login
   uploads them, the process is killed before the result. *)
Definition kill_history : list op :=
  [Connect; Authed true; Result 0; Disconnected; Connect; Authed true; Restart].

Theorem chunked_commit_refuted_thm :
  wf 5 init kill_history = true /\
  (let s := fst (dfinal 100 5 kill_history) in
   (* offered on the wire, never consumed, gone from the store after the kill *)
   (forall i, In i [6; 7; 8; 9; 10] ->
      In i (map fst (offered s)) /\ lookup_row i (rows s) = None /\ ~ In i (map fst (consumed s))) /\
   (* and nothing is pending: the next login will not offer them again although never confirmed *)
   unsent_rows (rows s) = [] /\ length (conf_ups s) = 1%nat) /\
  (let s2 := fst (dfinal 100 5 (kill_history ++ [Connect; Authed true])) in
   (* the next refill re-issues the ids with other keys *)
   exists i k1 k2, In (i, k1) (offered s2) /\ In (i, k2) (offered s2) /\ k1 <> k2) /\
  (* today's code on the same histories: the keys are there, pending, and ids name one key *)
  (let s := fst (dfinal 0 5 kill_history) in
   (forall i, In i [6; 7; 8; 9; 10] -> lookup_row i (rows s) <> None) /\
   map fst (unsent_rows (rows s)) = [6; 7; 8; 9; 10]) /\
  functional (offered (fst (dfinal 0 5 (kill_history ++ [Connect; Authed true])))).
Proof.
  split; [vm_compute; reflexivity|]. split; [|split; [|split]].
  - cbn zeta. split; [|split; vm_compute; reflexivity].
    intros i Hi. cbn [In] in Hi.
    repeat (destruct Hi as [<-|Hi]; [vm_compute; split; [tauto|split; [reflexivity|tauto]]|]). destruct Hi.
  - cbn zeta. exists 6, 5, 10. vm_compute. repeat split; try tauto. discriminate.
  - cbn zeta. split; [|vm_compute; reflexivity].
    intros i Hi. cbn [In] in Hi.
    repeat (destruct Hi as [<-|Hi]; [vm_compute; discriminate|]). destruct Hi.
  - apply functionalb_ok. vm_compute. reflexivity.
Qed.

(* ------------------------------------------------------------------ a kill INSIDE an operation *)
(* level_prekeys is interruptible: every insert commits on its own, so a process killed while it stores a batch
   leaves the rows before the operation plus a PREFIX of the batch (the first m keys, ids max+1 .. max+m, the next
   m serials).  XKillConnect m: killed inside the refill of on_connected; XKillAsk sg m: killed inside the
   reaction to a key-count request, after the ack went out, with the new signed prekey stored (sg) or not yet.
   In both cases nothing else of the operation happened for the outside world (no upload), the in-memory state
   is gone (Restart), and generating a prefix is `level` with the prefix length as batch size. *)
Inductive xop := XOp (o : op) | XKillConnect (m : nat) | XKillAsk (sg : bool) (m : nat).

Definition level_prefix (m : nat) (force : bool) (s : st) : st :=
  match m with O => s | S _ => fst (level m force s) end.

Definition restart_of (s : st) : st := fst (step 0 s Restart).

Definition xstep (batch : nat) (s : st) (x : xop) : st * list ev :=
  match x with
  | XOp o => step batch s o
  | XKillConnect m => (restart_of (level_prefix m false s), [])
  | XKillAsk sg m =>
    (restart_of (level_prefix m true (if sg then fst (gen_signed s) else s)), [EAck])
  end.

Fixpoint xrun (batch : nat) (s : st) (xs : list xop) : st * list (list ev) :=
  match xs with
  | [] => (s, [])
  | x :: xs' =>
    let '(s1, e) := xstep batch s x in
    let '(s2, es) := xrun batch s1 xs' in (s2, e :: es)
  end.

Definition xfinal (batch : nat) (xs : list xop) : st := fst (xrun batch init xs).

(* an invariant of the model that level and gen_signed keep on their own is kept by kills inside operations *)
Lemma xstep_inv (P : st -> Prop) :
  (forall b s o, P s -> P (fst (step b s o))) ->
  (forall m f s, P s -> P (fst (level m f s))) ->
  (forall s, P s -> P (fst (gen_signed s))) ->
  forall batch s x, P s -> P (fst (xstep batch s x)).
Proof.
  intros Hs Hl Hg batch s x H. destruct x as [o|m|sg m]; cbn [xstep fst].
  - apply Hs, H.
  - unfold restart_of. apply Hs. destruct m; cbn [level_prefix]; [exact H|apply Hl, H].
  - unfold restart_of. apply Hs.
    assert (H1 : P (if sg then fst (gen_signed s) else s)) by (destruct sg; [apply Hg, H|exact H]).
    destruct m; cbn [level_prefix]; [exact H1|apply Hl, H1].
Qed.

Lemma xrun_inv (P : st -> Prop) batch :
  (forall s x, P s -> P (fst (xstep batch s x))) -> forall xs s, P s -> P (fst (xrun batch s xs)).
Proof.
  intros Hs. induction xs as [|x xs IH]; intros s H; cbn [xrun]; [exact H|].
  specialize (Hs s x H). destruct (xstep batch s x) as [s1 e]. specialize (IH s1 Hs).
  destruct (xrun batch s1 xs) as [s2 es]. exact IH.
Qed.

Lemma invA_x batch xs : invA (xfinal batch xs).
Proof.
  unfold xfinal. apply xrun_inv; [|exact invA_init]. apply xstep_inv.
  - intros b s o. apply step_invA.
  - intros m f s H. destruct (level m f s) as [s' nk] eqn:L. exact (level_invA _ _ _ _ _ H L).
  - intros s H. destruct (gen_signed s) as [s' sg] eqn:G. exact (gen_signed_invA _ _ _ H G).
Qed.

Lemma invB_x batch xs : invB (xfinal batch xs).
Proof.
  unfold xfinal. apply xrun_inv; [|exact invB_init]. apply xstep_inv.
  - intros b s o. apply step_invB.
  - intros m f s H. destruct (level m f s) as [s' nk] eqn:L. exact (proj1 (level_invB _ _ _ _ _ H L)).
  - intros s H. destruct (gen_signed s) as [s' sg] eqn:G. exact (proj1 (gen_signed_invB _ _ _ H G)).
Qed.

Lemma level_invE m f s : invE s -> invE (fst (level m f s)).
Proof.
  unfold invE. intros H. destruct (level m f s) as [s' nk] eqn:L.
  destruct (level_E _ _ _ _ _ L) as [Ec [Ep [Eu Er]]]. cbn [fst]. rewrite Ec, Ep, Eu.
  destruct Er as [[-> [-> _]]|[-> [-> _]]]; [exact H|apply PE_level; exact H].
Qed.

Lemma gen_signed_invE s : invE s -> invE (fst (gen_signed s)).
Proof.
  unfold invE. intros H. destruct (gen_signed s) as [s' sg] eqn:G.
  destruct (signed_E _ _ _ (or_intror G)) as [Ec [Ep [Eu [Er [En _]]]]]. cbn [fst].
  rewrite Ec, Ep, Eu, Er, En. exact H.
Qed.

Lemma invE_x batch xs : invE (xfinal batch xs).
Proof.
  unfold xfinal. apply xrun_inv; [|exact invE_init]. apply xstep_inv.
  - intros b s o. apply step_invE.
  - intros m f s. apply level_invE.
  - intros s. apply gen_signed_invE.
Qed.

(* The upload-side theorems for histories with kills inside operations (any prefix length, any number of
   kills): sent flag only after a confirmed upload that carried the id; a confirmed key never counts as pending
   again; an offered id names one key as long as every refill - a killed one included - started above every id
   issued before (rf): a mid-batch kill leaves ids max+1 .. max+m, so the next refill continues at max+m+1 and
   rf is NOT falsified by kills, only by the consumption of the highest ids (the open finding). *)
Theorem kills_inside_thm : forall batch xs,
  (forall i k, In (i, (k, true)) (rows (xfinal batch xs)) ->
     exists u, In u (conf_ups (xfinal batch xs)) /\ In u (sent_ups (xfinal batch xs)) /\
               In i (map fst (u_keys u))) /\
  (forall c x, In c (conf_ups (xfinal batch xs)) -> In x (u_keys c) ->
     ~ In x (unsent_rows (rows (xfinal batch xs)))) /\
  (rf (xfinal batch xs) = true -> functional (offered (xfinal batch xs))).
Proof.
  intros batch xs. split; [|split].
  - intros i k H. destruct (invA_x batch xs) as [a1 a2 a3 a4].
    destruct (a1 _ _ H) as [u [Hu Hi]]. exists u. split; [exact Hu|]. split; [apply a2; exact Hu|].
    apply (a4 u (a2 u Hu)). exact Hi.
  - intros c [i k] Hc Hk Hu. destruct (invE_x batch xs) as [e1 _].
    apply unsent_rows_in in Hu. specialize (e1 c i k false Hc Hk Hu). discriminate e1.
  - intros Hrf. destruct (invB_x batch xs) as [b1 b2 b3 b4 b5].
    intros i k1 k2 H1 H2. apply (b1 Hrf i k1 k2); apply b5; assumption.
Qed.

(* non-vacuity: batch 5, two logins confirmed (10 keys), a key-count request killed after 2 of 5 inserts, the
   partial batch offered and confirmed, another key-count request: ids 11,12 then 13..17, rf still true *)
Definition kill_inside_history : list xop :=
  [XOp Connect; XOp (Authed true); XOp (Result 0); XOp Disconnected;
   XOp Connect; XOp (Authed true); XOp (Result 1); XOp Disconnected;
   XOp Connect; XOp (Authed false); XKillAsk true 2;
   XOp Connect; XOp (Authed true); XOp (Result 2); XOp Disconnected;
   XOp Connect; XOp (Authed false); XOp AskKeys].

Example kill_inside_example :
  rf (xfinal 5 kill_inside_history) = true /\
  map fst (rows (xfinal 5 kill_inside_history)) = [1; 2; 3; 4; 5; 6; 7; 8; 9; 10; 11; 12; 13; 14; 15; 16; 17] /\
  length (conf_ups (xfinal 5 kill_inside_history)) = 3%nat /\
  functionalb (offered (xfinal 5 kill_inside_history)) = true.
Proof. vm_compute. repeat split; reflexivity. Qed.

(* ------------------------------------------------------------------ refuted: counter advanced after the batch *)
(* Variant of level_prekeys (not today's code; shape of seeded change C14-10): a refill starts at a persisted
   counter (fallback max+1 while it is unset), storePreKey is INSERT OR REPLACE, and the counter is advanced only
   after the whole batch has been stored.  vgen n complete: n keys from the counter, replacing rows with the same
   id; the counter moves only when the batch completed. *)
Definition replace_rows (nk : list (N * N)) (r : list (N * (N * bool))) : list (N * (N * bool)) :=
  filter (fun e => negb (existsb (N.eqb (fst e)) (map fst nk))) r ++ map mkrow nk.

Definition vgen (n : nat) (complete : bool) (s : st) (c : option N) : (st * option N) * list (N * N) :=
  let start := match c with Some x => x | None => max_id (rows s) + 1 end in
  let nk := combine (nseq start n) (nseq (next_ser s) n) in
  ((set_rows (replace_rows nk (rows s))
      (set_next_ser (next_ser s + N.of_nat n) (set_issued (issued s ++ nk) s)),
    if complete then Some (start + N.of_nat n) else c), nk).

(* key-count request: ack, new signed prekey, refill, upload *)
Definition vask (batch : nat) (s : st) (c : option N) : st * option N :=
  let '(s1, sg) := gen_signed s in
  let '((s2, c2), nk) := vgen batch true s1 c in
  (fst (flush sg nk false s2), c2).

(* the same killed after m inserts: no upload, memory gone *)
Definition vask_killed (m : nat) (s : st) (c : option N) : st * option N :=
  let '((s2, c2), _) := vgen m false (fst (gen_signed s)) c in (restart_of s2, c2).

(* batch 10 (so that no connect refills after the first one; the first batch, from the unset counter, is the
   model's own and leaves the counter at 11): login confirmed, reboot, key-count request killed after 2 of 10
   inserts, the new process offers 11 and 12 and the server confirms them, the next key-count request starts
   from the stale counter 11 *)
Definition counter_witness : st :=
  let s1 := fst (run 10 init [Connect; Authed true; Result 0; Disconnected; Connect; Authed false]) in
  let '(s2, c2) := vask_killed 2 s1 (Some 11) in
  let s3 := fst (run 10 s2 [Connect; Authed true; Result 1; Disconnected; Connect; Authed false]) in
  fst (vask 10 s3 c2).

Theorem counter_after_batch_refuted_thm :
  let s := counter_witness in
  (* id 11 was offered with key #10, that upload was confirmed ... *)
  (exists c, In c (conf_ups s) /\ In (11, 10) (u_keys c)) /\
  (* ... and is offered again with key #12: one id, two keys; the confirmed key is gone, the id pending again *)
  In (11, 10) (offered s) /\ In (11, 12) (offered s) /\
  lookup_row 11 (rows s) = Some 12 /\ In (11, 12) (unsent_rows (rows s)) /\
  functionalb (offered s) = false.
Proof.
  vm_compute. split; [|repeat split; tauto].
  eexists. split; [right; left; reflexivity|]. left. reflexivity.
Qed.
