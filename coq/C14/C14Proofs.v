(* C14 — invariants of the prekey state machine, for all histories. *)
From YV Require Import Common.Tac C14.C14Model.

Local Open Scope N_scope.

(* ------------------------------------------------------------------ small list facts *)
Lemma nseq_in : forall n start x, In x (nseq start n) <-> start <= x < start + N.of_nat n.
Proof.
  induction n as [|n IH]; intros start x; cbn [nseq In].
  - split; [tauto|lia].
  - rewrite IH. lia.
Qed.

Lemma nseq_length : forall n start, length (nseq start n) = n.
Proof. induction n as [|n IH]; intros; cbn [nseq length]; [reflexivity|rewrite IH; reflexivity]. Qed.

Lemma new_keys_in mx ser batch i k :
  In (i, k) (new_keys mx ser batch) -> mx + 1 <= i < mx + 1 + N.of_nat batch /\ ser <= k < ser + N.of_nat batch.
Proof.
  unfold new_keys. intros H. split.
  - apply in_combine_l in H. apply nseq_in in H. exact H.
  - apply in_combine_r in H. apply nseq_in in H. exact H.
Qed.

Lemma combine_nseq_fun : forall n a b i k1 k2,
  In (i, k1) (combine (nseq a n) (nseq b n)) -> In (i, k2) (combine (nseq a n) (nseq b n)) -> k1 = k2.
Proof.
  induction n as [|n IH]; intros a b i k1 k2 H1 H2; cbn [nseq combine In] in H1, H2; [contradiction|].
  destruct H1 as [H1|H1], H2 as [H2|H2].
  - congruence.
  - apply pair_inj in H1. destruct H1 as [<- <-]. apply in_combine_l in H2. apply nseq_in in H2. lia.
  - apply pair_inj in H2. destruct H2 as [<- <-]. apply in_combine_l in H1. apply nseq_in in H1. lia.
  - exact (IH _ _ _ _ _ H1 H2).
Qed.

Lemma combine_nseq_inj : forall n a b i1 i2 k,
  In (i1, k) (combine (nseq a n) (nseq b n)) -> In (i2, k) (combine (nseq a n) (nseq b n)) -> i1 = i2.
Proof.
  induction n as [|n IH]; intros a b i1 i2 k H1 H2; cbn [nseq combine In] in H1, H2; [contradiction|].
  destruct H1 as [H1|H1], H2 as [H2|H2].
  - congruence.
  - apply pair_inj in H1. destruct H1 as [<- <-]. apply in_combine_r in H2. apply nseq_in in H2. lia.
  - apply pair_inj in H2. destruct H2 as [<- <-]. apply in_combine_r in H1. apply nseq_in in H1. lia.
  - exact (IH _ _ _ _ _ H1 H2).
Qed.

Lemma max_id_ge r e : In e r -> fst e <= max_id r.
Proof.
  unfold max_id. induction r as [|a r IH]; cbn [In fold_right]; [contradiction|].
  intros [->|H]; [lia|]. specialize (IH H). lia.
Qed.

(* dict *)
Lemma dict_set_in i k d x : In x (dict_set i k d) -> x = (i, k) \/ In x d.
Proof.
  induction d as [|[i' k'] d IH]; cbn [dict_set In].
  - intros [<-|[]]. left. reflexivity.
  - destruct (i' =? i); cbn [In].
    + intros [<-|H]; [left; reflexivity|right; right; exact H].
    + intros [<-|H]; [right; left; reflexivity|]. destruct (IH H) as [->|H']; auto.
Qed.

Lemma dict_fold_in : forall l d x,
  In x (fold_left (fun d (e : N * N) => dict_set (fst e) (snd e) d) l d) -> In x d \/ In x l.
Proof.
  induction l as [|[i k] l IH]; intros d x H; cbn [fold_left] in H; [left; exact H|].
  destruct (IH _ _ H) as [H1|H1].
  - cbn [fst snd] in H1. destruct (dict_set_in _ _ _ _ H1) as [->|H2]; [right; left; reflexivity|left; exact H2].
  - right. right. exact H1.
Qed.

Lemma dict_of_in l x : In x (dict_of l) -> In x l.
Proof. intros H. destruct (dict_fold_in l [] x H) as [[]|H']. exact H'. Qed.

(* rows *)
Definition ser_of (e : N * (N * bool)) : N := fst (snd e).
Definition pair_of (e : N * (N * bool)) : N * N := (fst e, fst (snd e)).

Lemma mark_sent_pairs ids r : map pair_of (mark_sent ids r) = map pair_of r.
Proof.
  unfold mark_sent. rewrite map_map. apply map_ext. intros [i [k f]]. cbn [fst snd].
  destruct (existsb (N.eqb i) ids); reflexivity.
Qed.

Lemma mark_sent_true ids r i k : In (i, (k, true)) (mark_sent ids r) ->
  In (i, (k, true)) r \/ In i ids.
Proof.
  unfold mark_sent. intros H. apply in_map_iff in H. destruct H as [[i' [k' f']] [He Hin]].
  cbn [fst snd] in He. destruct (existsb (N.eqb i') ids) eqn:E.
  - right. apply existsb_exists in E. destruct E as [x [Hx Hex]]. apply N.eqb_eq in Hex.
    apply pair_inj in He. destruct He as [He _]. subst. exact Hx.
  - left. rewrite <- He. exact Hin.
Qed.

Lemma remove_row_in id r e : In e (remove_row id r) -> In e r.
Proof. unfold remove_row. intros H. apply filter_In in H. tauto. Qed.

Lemma unsent_rows_in r i k : In (i, k) (unsent_rows r) <-> In (i, (k, false)) r.
Proof.
  unfold unsent_rows. rewrite in_flat_map. split.
  - intros [[i' [k' f]] [Hin H]]. cbn [fst snd] in H. destruct f; [destruct H|].
    destruct H as [H|[]]. apply pair_inj in H. destruct H as [-> ->]. exact Hin.
  - intros H. exists (i, (k, false)). split; [exact H|]. cbn. left. reflexivity.
Qed.

Lemma lookup_row_in id r ser : lookup_row id r = Some ser -> exists f, In (id, (ser, f)) r.
Proof.
  induction r as [|[i [k f]] r IH]; cbn [lookup_row fst snd]; [discriminate|].
  destruct (N.eqb_spec i id) as [->|Hne].
  - intros H. apply Some_inj in H. subst. exists f. left. reflexivity.
  - intros H. destruct (IH H) as [f' Hf]. exists f'. right. exact Hf.
Qed.

(* ------------------------------------------------------------------ invariant B: ids name one key *)
Definition functional (l : list (N * N)) : Prop :=
  forall i k1 k2, In (i, k1) l -> In (i, k2) l -> k1 = k2.

Record invB (s : st) : Prop := {
  B1 : rf s = true -> functional (issued s);
  B2 : forall i k, In (i, k) (issued s) -> i <= hi s;
  B3 : forall e, In e (rows s) -> In (pair_of e) (issued s);
  B4 : forall x, In x (unsent s) -> In x (issued s);
  B5 : forall x, In x (offered s) -> In x (issued s)
}.

Lemma level_invB batch force s s' nk : invB s -> level batch force s = (s', nk) ->
  invB s' /\ (forall x, In x nk -> In x (issued s')) /\ unsent s' = unsent s /\ offered s' = offered s /\
  (forall x, In x (issued s) -> In x (issued s')).
Proof.
  intros [b1 b2 b3 b4 b5]. unfold level.
  destruct (force || Nat.ltb (length (rows s)) THRESHOLD)%bool.
  - intros H. apply pair_inj in H. destruct H as [<- <-]. destruct s; cbn in *.
    split; [|repeat split; intros; try reflexivity; apply in_or_app; auto].
    constructor; cbn.
    + intros Hrf. apply andb_true_iff in Hrf. destruct Hrf as [Hrf Hmx]. apply N.eqb_eq in Hmx.
      specialize (b1 Hrf). intros i k1 k2 H1 H2. apply in_app_or in H1. apply in_app_or in H2.
      destruct H1 as [H1|H1], H2 as [H2|H2].
      * exact (b1 _ _ _ H1 H2).
      * apply b2 in H1. apply new_keys_in in H2. lia.
      * apply b2 in H2. apply new_keys_in in H1. lia.
      * unfold new_keys in H1, H2. exact (combine_nseq_fun _ _ _ _ _ _ H1 H2).
    + intros i k H. apply in_app_or in H. destruct H as [H|H].
      * apply b2 in H. lia.
      * apply new_keys_in in H. lia.
    + intros e H. apply in_app_or in H. apply in_or_app. destruct H as [H|H].
      * left. apply b3. exact H.
      * right. apply in_map_iff in H. destruct H as [[i k] [<- Hin]]. exact Hin.
    + intros x H. apply in_or_app. left. apply b4. exact H.
    + intros x H. apply in_or_app. left. apply b5. exact H.
  - intros H. apply pair_inj in H. destruct H as [<- <-].
    split; [constructor; assumption|]. repeat split; auto. intros x [].
Qed.

Lemma gen_signed_invB s s' sg : invB s -> gen_signed s = (s', sg) ->
  invB s' /\ unsent s' = unsent s /\ rows s' = rows s.
Proof.
  intros [b1 b2 b3 b4 b5]. unfold gen_signed. intros H. apply pair_inj in H. destruct H as [<- _].
  destruct s; cbn in *. split; [constructor; cbn; assumption|split; reflexivity].
Qed.

Lemma latest_signed_invB s s' sg : invB s -> latest_signed s = (s', sg) ->
  invB s' /\ unsent s' = unsent s /\ rows s' = rows s.
Proof.
  intros Hi. unfold latest_signed. destruct (rev (signed s)).
  - apply gen_signed_invB. exact Hi.
  - intros H. apply pair_inj in H. destruct H as [<- _]. auto.
Qed.

Lemma flush_invB sg keys rb s s' evs : invB s -> (forall x, In x keys -> In x (issued s)) ->
  flush sg keys rb s = (s', evs) -> invB s' /\ unsent s' = unsent s.
Proof.
  intros [b1 b2 b3 b4 b5] Hk. unfold flush. intros H. apply pair_inj in H. destruct H as [<- _].
  destruct s; cbn in *. split; [|reflexivity]. constructor; cbn; try assumption.
  intros x H. apply in_app_or in H. destruct H as [H|H]; [apply b5; exact H|].
  apply Hk. apply dict_of_in. exact H.
Qed.

Lemma step_invB batch s o : invB s -> invB (fst (step batch s o)).
Proof.
  intros Hi. destruct o as [|p| |iq|iq| |id|]; cbn [step].
  - (* Connect *)
    set (s1 := set_mgr true (set_authed false (set_conn (conn s + 1) s))).
    assert (H1 : invB s1). { destruct Hi, s; constructor; cbn in *; assumption. }
    destruct (level batch false s1) as [s2 nk] eqn:L.
    destruct (level_invB _ _ _ _ _ H1 L) as [[b1 b2 b3 b4 b5] _]. cbn [fst].
    destruct s2; constructor; cbn in *; try assumption.
    intros x H. apply in_app_or in H. destruct H as [H|H]; [apply b4; exact H|].
    destruct x as [i k]. apply unsent_rows_in in H. apply (b3 _ H).
  - (* Authed *)
    destruct (unsent s) eqn:U.
    + cbn [fst]. destruct Hi, s; constructor; cbn in *; assumption.
    + destruct p; [|cbn [fst]; destruct Hi, s; constructor; cbn in *; assumption].
      destruct (mgr s); [|exact Hi].
      destruct (latest_signed s) as [s1 sg] eqn:L.
      destruct (latest_signed_invB _ _ _ Hi L) as [H1 [Hu _]].
      destruct (flush sg (unsent s1) true s1) as [s2 evs] eqn:F.
      destruct (flush_invB _ _ _ _ _ _ H1 (B4 _ H1) F) as [[b1 b2 b3 b4 b5] _]. cbn [fst].
      destruct s2; constructor; cbn in *; try assumption. intros x [].
  - (* AskKeys *)
    destruct (mgr s); [|exact Hi].
    destruct (gen_signed s) as [s1 sg] eqn:G. destruct (gen_signed_invB _ _ _ Hi G) as [H1 _].
    destruct (level batch true s1) as [s2 nk] eqn:L.
    destruct (level_invB _ _ _ _ _ H1 L) as [H2 [Hnk _]].
    destruct (flush sg nk false s2) as [s3 evs] eqn:F.
    destruct (flush_invB _ _ _ _ _ _ H2 Hnk F) as [H3 _]. exact H3.
  - (* Result *)
    destruct (find_up iq (pending s)) as [u|]; [|exact Hi].
    assert (Hrows : forall ids e, In e (mark_sent ids (rows s)) -> In (pair_of e) (issued s)).
    { intros ids e H. apply (in_map pair_of) in H. rewrite mark_sent_pairs in H.
      apply in_map_iff in H. destruct H as [e' [<- He']]. apply (B3 _ Hi). exact He'. }
    destruct (mgr s).
    + destruct (u_reboot u); cbn [fst]; destruct Hi, s; constructor; cbn in *; try assumption;
        apply Hrows.
    + cbn [fst]. destruct Hi, s; constructor; cbn in *; assumption.
  - (* Error *)
    destruct (find_up iq (pending s)) as [u|]; [|exact Hi].
    cbn [fst]. destruct Hi, s; constructor; cbn in *; assumption.
  - (* Disconnected *)
    destruct (reboot s); cbn [fst]; destruct Hi, s; constructor; cbn in *; assumption.
  - (* Consume *)
    destruct (lookup_row id (rows s)) as [ser|]; [|exact Hi]. cbn [fst].
    destruct Hi as [b1 b2 b3 b4 b5], s; constructor; cbn in *; try assumption.
    intros e H. apply b3. eapply remove_row_in. exact H.
  - (* Restart *)
    cbn [fst]. destruct Hi, s; constructor; cbn in *; try assumption. intros x [].
Qed.

Lemma run_inv (P : st -> Prop) batch :
  (forall s o, P s -> P (fst (step batch s o))) -> forall ops s, P s -> P (fst (run batch s ops)).
Proof.
  intros Hs. induction ops as [|o ops IH]; intros s H; cbn [run]; [exact H|].
  specialize (Hs s o H). destruct (step batch s o) as [s1 e]. specialize (IH s1 Hs).
  destruct (run batch s1 ops) as [s2 es]. exact IH.
Qed.

Lemma invB_init : invB init.
Proof. constructor; cbn; intros; try contradiction. intros i k1 k2 []. Qed.

(* Over the whole history an offered id names one key, provided every refill started above
   every id issued before (rf = the conjunction, over all refills, of
   `max stored id = highest id ever issued`). *)
Theorem id_names_one_key_thm : forall batch ops,
  rf (final batch ops) = true -> functional (offered (final batch ops)).
Proof.
  intros batch ops Hrf. unfold final in *.
  pose proof (run_inv invB batch (step_invB batch) ops init invB_init) as [b1 b2 b3 b4 b5].
  intros i k1 k2 H1 H2. exact (b1 Hrf _ _ _ (b5 _ H1) (b5 _ H2)).
Qed.

(* ... and without that proviso it fails, on a server-realistic history: offer 1..5, the
   first message consumes 5, the server asks for keys: id 5 is offered with a second key. *)
Definition reuse_history : list op := [Connect; Authed true; Consume 5; AskKeys].

Theorem id_names_one_key_refuted_thm :
  wf 5 init reuse_history = true /\
  rf (final 5 reuse_history) = false /\
  exists i k1 k2, In (i, k1) (offered (final 5 reuse_history)) /\
                  In (i, k2) (offered (final 5 reuse_history)) /\ k1 <> k2.
Proof.
  split; [vm_compute; reflexivity|]. split; [vm_compute; reflexivity|].
  exists 5, 4, 5. vm_compute. split; [|split].
  - right. right. right. right. left. reflexivity.
  - right. right. right. right. right. left. reflexivity.
  - discriminate.
Qed.

(* ------------------------------------------------------------------ invariant A: the sent flag *)
Record invA (s : st) : Prop := {
  A1 : forall i k, In (i, (k, true)) (rows s) -> exists u, In u (conf_ups s) /\ In i (u_flag_ids u);
  A2 : forall u, In u (conf_ups s) -> In u (sent_ups s);
  A3 : forall u, In u (pending s) -> In u (sent_ups s);
  A4 : forall u, In u (sent_ups s) -> forall i, In i (u_flag_ids u) <-> In i (map fst (u_keys u))
}.

Lemma dict_set_ids i k d j : In j (map fst (dict_set i k d)) <-> j = i \/ In j (map fst d).
Proof.
  induction d as [|[i' k'] d IH]; cbn [dict_set map In fst].
  - split; [intros [<-|[]]; auto|intros [->|[]]; auto].
  - destruct (N.eqb_spec i' i) as [->|Hne]; cbn [map In fst].
    + split; intros [H|H]; auto.
    + rewrite IH. tauto.
Qed.

Lemma dict_fold_ids : forall l d j,
  In j (map fst (fold_left (fun d (e : N * N) => dict_set (fst e) (snd e) d) l d)) <->
  In j (map fst d) \/ In j (map fst l).
Proof.
  induction l as [|[i k] l IH]; intros d j; cbn [fold_left map In fst snd]; [tauto|].
  rewrite IH, dict_set_ids. split; intros H; intuition (subst; auto).
Qed.

Lemma dict_of_ids l j : In j (map fst (dict_of l)) <-> In j (map fst l).
Proof. unfold dict_of. rewrite dict_fold_ids. cbn. tauto. Qed.

Lemma find_up_in iq l u : find_up iq l = Some u -> In u l.
Proof.
  induction l as [|a l IH]; cbn [find_up]; [discriminate|].
  destruct (u_iq a =? iq); [intros H; apply Some_inj in H; subst; left; reflexivity|].
  intros H. right. apply IH. exact H.
Qed.

Lemma remove_up_in iq l u : In u (remove_up iq l) -> In u l.
Proof. unfold remove_up. intros H. apply filter_In in H. tauto. Qed.

Lemma level_invA batch force s s' nk : invA s -> level batch force s = (s', nk) -> invA s'.
Proof.
  intros [a1 a2 a3 a4]. unfold level.
  destruct (force || Nat.ltb (length (rows s)) THRESHOLD)%bool; intros H; apply pair_inj in H;
    destruct H as [<- _]; [|constructor; assumption].
  destruct s; constructor; cbn in *; try assumption.
  intros i k H. apply in_app_or in H. destruct H as [H|H]; [exact (a1 _ _ H)|].
  apply in_map_iff in H. destruct H as [[i' k'] [He _]]. cbn in He. congruence.
Qed.

Lemma gen_signed_invA s s' sg : invA s -> gen_signed s = (s', sg) -> invA s'.
Proof.
  intros [a1 a2 a3 a4]. unfold gen_signed. intros H. apply pair_inj in H. destruct H as [<- _].
  destruct s; constructor; cbn in *; assumption.
Qed.

Lemma latest_signed_invA s s' sg : invA s -> latest_signed s = (s', sg) -> invA s'.
Proof.
  intros Hi. unfold latest_signed. destruct (rev (signed s)); [apply gen_signed_invA; exact Hi|].
  intros H. apply pair_inj in H. destruct H as [<- _]. exact Hi.
Qed.

Lemma flush_invA sg keys rb s s' evs : invA s -> flush sg keys rb s = (s', evs) -> invA s'.
Proof.
  intros [a1 a2 a3 a4]. unfold flush. intros H. apply pair_inj in H. destruct H as [<- _].
  destruct s; constructor; cbn in *.
  - exact a1.
  - intros u H. apply in_or_app. left. apply a2. exact H.
  - intros u H. apply in_app_or in H. apply in_or_app. destruct H as [H|H]; [left; apply a3; exact H|right; exact H].
  - intros u H. apply in_app_or in H. destruct H as [H|[<-|[]]]; [apply a4; exact H|].
    cbn [u_flag_ids u_keys]. intros i. rewrite dict_of_ids. tauto.
Qed.

Lemma step_invA batch s o : invA s -> invA (fst (step batch s o)).
Proof.
  intros Hi. destruct o as [|p| |iq|iq| |id|]; cbn [step].
  - set (s1 := set_mgr true (set_authed false (set_conn (conn s + 1) s))).
    assert (H1 : invA s1). { destruct Hi, s; constructor; cbn in *; assumption. }
    destruct (level batch false s1) as [s2 nk] eqn:L. pose proof (level_invA _ _ _ _ _ H1 L) as H2.
    cbn [fst]. destruct H2, s2; constructor; cbn in *; assumption.
  - destruct (unsent s) eqn:U.
    + cbn [fst]. destruct Hi, s; constructor; cbn in *; assumption.
    + destruct p; [|cbn [fst]; destruct Hi, s; constructor; cbn in *; assumption].
      destruct (mgr s); [|exact Hi].
      destruct (latest_signed s) as [s1 sg] eqn:L. pose proof (latest_signed_invA _ _ _ Hi L) as H1.
      destruct (flush sg (unsent s1) true s1) as [s2 evs] eqn:F.
      pose proof (flush_invA _ _ _ _ _ _ H1 F) as H2. cbn [fst].
      destruct H2, s2; constructor; cbn in *; assumption.
  - destruct (mgr s); [|exact Hi].
    destruct (gen_signed s) as [s1 sg] eqn:G. pose proof (gen_signed_invA _ _ _ Hi G) as H1.
    destruct (level batch true s1) as [s2 nk] eqn:L. pose proof (level_invA _ _ _ _ _ H1 L) as H2.
    destruct (flush sg nk false s2) as [s3 evs] eqn:F. exact (flush_invA _ _ _ _ _ _ H2 F).
  - destruct (find_up iq (pending s)) as [u|] eqn:Fu; [|exact Hi].
    apply find_up_in in Fu.
    assert (Hnew : invA (set_conf_ups (conf_ups s ++ [u])
                          (set_rows (mark_sent (u_flag_ids u) (rows s))
                             (set_pending (remove_up iq (pending s)) s)))).
    { destruct Hi as [a1 a2 a3 a4]. destruct s; constructor; cbn in *.
      - intros i k H. apply mark_sent_true in H. destruct H as [H|H].
        + destruct (a1 _ _ H) as [u' [Hu' Hi']]. exists u'. split; [apply in_or_app; left; exact Hu'|exact Hi'].
        + exists u. split; [apply in_or_app; right; left; reflexivity|exact H].
      - intros u' H. apply in_app_or in H. destruct H as [H|[<-|[]]]; [apply a2; exact H|apply a3; exact Fu].
      - intros u' H. apply a3. eapply remove_up_in. exact H.
      - exact a4. }
    destruct (mgr s).
    + destruct (u_reboot u); cbn [fst].
      * destruct Hnew as [a1 a2 a3 a4]. destruct s; constructor; cbn in *; assumption.
      * exact Hnew.
    + cbn [fst]. destruct Hi as [a1 a2 a3 a4]. destruct s; constructor; cbn in *; try assumption.
      intros u' H. apply a3. eapply remove_up_in. exact H.
  - destruct (find_up iq (pending s)) as [u|]; [|exact Hi]. cbn [fst].
    destruct Hi as [a1 a2 a3 a4]. destruct s; constructor; cbn in *; try assumption.
    intros u' H. apply a3. eapply remove_up_in. exact H.
  - destruct (reboot s); cbn [fst]; destruct Hi, s; constructor; cbn in *; assumption.
  - destruct (lookup_row id (rows s)) as [ser|]; [|exact Hi]. cbn [fst].
    destruct Hi as [a1 a2 a3 a4]. destruct s; constructor; cbn in *; try assumption.
    intros i k H. apply (a1 i k). eapply remove_row_in. exact H.
  - cbn [fst]. destruct Hi as [a1 a2 a3 a4]. destruct s; constructor; cbn in *; try assumption.
    intros u [].
Qed.

Lemma invA_init : invA init.
Proof. constructor; cbn; intros; contradiction. Qed.

(* A stored prekey carries the sent flag only if an upload stanza that was really sent
   (sent_ups) and whose <list> contained its id has been confirmed by an iq result. *)
Theorem sent_only_after_confirm_thm : forall batch ops i k,
  In (i, (k, true)) (rows (final batch ops)) ->
  exists u, In u (conf_ups (final batch ops)) /\ In u (sent_ups (final batch ops)) /\
            In i (map fst (u_keys u)).
Proof.
  intros batch ops i k H. unfold final in *.
  pose proof (run_inv invA batch (step_invA batch) ops init invA_init) as [a1 a2 a3 a4].
  destruct (a1 _ _ H) as [u [Hu Hi]]. exists u. split; [exact Hu|]. split; [apply a2; exact Hu|].
  apply (a4 u (a2 u Hu)). exact Hi.
Qed.

(* confirmations only come from iq results: conf_ups grows exactly in the Result step, by
   the pending upload with that iq id, and only while the manager is there *)
Lemma confirm_only_by_result batch s o u :
  In u (conf_ups (fst (step batch s o))) -> ~ In u (conf_ups s) ->
  exists iq, o = Result iq /\ find_up iq (pending s) = Some u /\ mgr s = true.
Proof.
  intros H Hn. destruct o as [|p| |iq|iq| |id|]; cbn [step] in H.
  - destruct (level batch false _) as [s2 nk] eqn:L. cbn [fst] in H. exfalso. apply Hn.
    unfold level in L. destruct (_ || _)%bool in L; apply pair_inj in L; destruct L as [<- _];
      destruct s; cbn in *; exact H.
  - exfalso. apply Hn. destruct (unsent s); [destruct s; exact H|].
    destruct p; [|destruct s; exact H]. destruct (mgr s); [|exact H].
    unfold latest_signed, gen_signed, flush in H. destruct (rev (signed s)); destruct s; cbn in *; exact H.
  - exfalso. apply Hn. destruct (mgr s); [|exact H].
    unfold gen_signed, level, flush in H. cbn [fst snd] in H.
    destruct (true || _)%bool in H; destruct s; cbn in *; exact H.
  - destruct (find_up iq (pending s)) as [u'|] eqn:Fu; [|contradiction].
    destruct (mgr s) eqn:M.
    + assert (Hin : In u (conf_ups s ++ [u'])).
      { destruct (u_reboot u'); destruct s; cbn in *; exact H. }
      apply in_app_or in Hin. destruct Hin as [Hin|[<-|[]]]; [contradiction|].
      exists iq. auto.
    + exfalso. apply Hn. destruct s; cbn in *; exact H.
  - exfalso. apply Hn. destruct (find_up iq (pending s)); [destruct s; exact H|exact H].
  - exfalso. apply Hn. destruct (reboot s); destruct s; exact H.
  - exfalso. apply Hn. destruct (lookup_row id (rows s)); [destruct s; exact H|exact H].
  - exfalso. apply Hn. destruct s; exact H.
Qed.

(* ------------------------------------------------------------------ invariant C: keys are consumed once *)
Record invC (s : st) : Prop := {
  C1 : NoDup (map ser_of (rows s));
  C2 : NoDup (map snd (consumed s));
  C3 : forall x, In x (map snd (consumed s)) -> ~ In x (map ser_of (rows s));
  C4 : forall x, In x (map ser_of (rows s)) \/ In x (map snd (consumed s)) -> x < next_ser s
}.

Lemma nseq_nodup : forall n a, NoDup (nseq a n).
Proof.
  induction n as [|n IH]; intros a; cbn [nseq]; constructor; [|apply IH].
  intros H. apply nseq_in in H. lia.
Qed.

Lemma new_keys_sers mx ser batch :
  map ser_of (map (fun e : N * N => (fst e, (snd e, false))) (new_keys mx ser batch)) = nseq ser batch.
Proof.
  rewrite map_map. unfold ser_of, new_keys. cbn [fst snd].
  generalize (mx + 1) ser. induction batch as [|n IH]; intros a b; cbn [nseq combine map]; [reflexivity|].
  cbn [snd]. rewrite IH. reflexivity.
Qed.

Lemma NoDup_app_intro {A} (l m : list A) :
  NoDup l -> NoDup m -> (forall x, In x l -> ~ In x m) -> NoDup (l ++ m).
Proof.
  induction l as [|a l IH]; intros Hl Hm Hd; cbn [app]; [exact Hm|].
  inversion Hl as [|a' l' Ha Hl']; subst. constructor.
  - intros H. apply in_app_or in H. destruct H as [H|H]; [contradiction|].
    exact (Hd a (or_introl eq_refl) H).
  - apply IH; [exact Hl'|exact Hm|]. intros x Hx. apply Hd. right. exact Hx.
Qed.

Lemma level_invC batch force s s' nk : invC s -> level batch force s = (s', nk) -> invC s'.
Proof.
  intros [c1 c2 c3 c4]. unfold level.
  destruct (force || Nat.ltb (length (rows s)) THRESHOLD)%bool; intros H; apply pair_inj in H;
    destruct H as [<- _]; [|constructor; assumption].
  destruct s; constructor; cbn in *.
  - rewrite map_app, new_keys_sers. apply NoDup_app_intro; [exact c1|apply nseq_nodup|].
    intros x Hx Hn. apply nseq_in in Hn. specialize (c4 x (or_introl Hx)). lia.
  - exact c2.
  - intros x Hx H. rewrite map_app, new_keys_sers in H. apply in_app_or in H. destruct H as [H|H].
    + exact (c3 x Hx H).
    + apply nseq_in in H. specialize (c4 x (or_intror Hx)). lia.
  - intros x H. rewrite map_app, new_keys_sers in H. destruct H as [H|H].
    + apply in_app_or in H. destruct H as [H|H].
      * specialize (c4 x (or_introl H)). lia.
      * apply nseq_in in H. lia.
    + specialize (c4 x (or_intror H)). lia.
Qed.

Lemma mark_sent_sers ids r : map ser_of (mark_sent ids r) = map ser_of r.
Proof.
  unfold mark_sent. rewrite map_map. apply map_ext. intros [i [k f]]. unfold ser_of. cbn [fst snd].
  destruct (existsb (N.eqb i) ids); reflexivity.
Qed.

Lemma remove_row_sers_incl id r x : In x (map ser_of (remove_row id r)) -> In x (map ser_of r).
Proof.
  intros H. apply in_map_iff in H. destruct H as [e [<- He]]. apply in_map. eapply remove_row_in. exact He.
Qed.

Lemma remove_row_nodup id r : NoDup (map ser_of r) -> NoDup (map ser_of (remove_row id r)).
Proof.
  unfold remove_row. induction r as [|e r IH]; cbn [map filter]; intros H; [constructor|].
  inversion H as [|a l Ha Hl]; subst. destruct (negb (fst e =? id)); cbn [map].
  - constructor; [|apply IH; exact Hl]. intros Hin. apply Ha.
    apply (remove_row_sers_incl id). exact Hin.
  - apply IH. exact Hl.
Qed.

Lemma remove_row_gone id r ser f : NoDup (map ser_of r) -> In (id, (ser, f)) r ->
  ~ In ser (map ser_of (remove_row id r)).
Proof.
  unfold remove_row. induction r as [|e r IH]; cbn [map filter In]; intros Hn Hin; [contradiction|].
  inversion Hn as [|a l Ha Hl]; subst. destruct Hin as [->|Hin].
  - cbn [fst]. rewrite N.eqb_refl. cbn [negb]. intros H. apply Ha.
    apply (remove_row_sers_incl id). exact H.
  - destruct (negb (fst e =? id)); cbn [map In].
    + intros [H|H].
      * apply Ha. rewrite H. apply (in_map ser_of) in Hin. exact Hin.
      * exact (IH Hl Hin H).
    + exact (IH Hl Hin).
Qed.

Lemma invC_ext s s' : map ser_of (rows s') = map ser_of (rows s) -> consumed s' = consumed s ->
  next_ser s' = next_ser s -> invC s -> invC s'.
Proof. intros E1 E2 E3 [c1 c2 c3 c4]. constructor; rewrite ?E1, ?E2, ?E3; assumption. Qed.

Lemma step_invC batch s o : invC s -> invC (fst (step batch s o)).
Proof.
  intros Hi. destruct o as [|p| |iq|iq| |id|]; cbn [step].
  - set (s1 := set_mgr true (set_authed false (set_conn (conn s + 1) s))).
    assert (H1 : invC s1). { destruct Hi, s; constructor; cbn in *; assumption. }
    destruct (level batch false s1) as [s2 nk] eqn:L. pose proof (level_invC _ _ _ _ _ H1 L) as H2.
    cbn [fst]. destruct H2, s2; constructor; cbn in *; assumption.
  - destruct (unsent s) eqn:U.
    + cbn [fst]. destruct Hi, s; constructor; cbn in *; assumption.
    + destruct p; [|cbn [fst]; destruct Hi, s; constructor; cbn in *; assumption].
      destruct (mgr s); [|exact Hi].
      unfold latest_signed, gen_signed, flush. destruct (rev (signed s)); cbn [fst];
        destruct Hi, s; constructor; cbn in *; assumption.
  - destruct (mgr s); [|exact Hi].
    destruct (gen_signed s) as [s1 sg] eqn:G.
    assert (H1 : invC s1).
    { unfold gen_signed in G. apply pair_inj in G. destruct G as [<- _].
      destruct Hi, s; constructor; cbn in *; assumption. }
    destruct (level batch true s1) as [s2 nk] eqn:L. pose proof (level_invC _ _ _ _ _ H1 L) as H2.
    unfold flush. cbn [fst]. destruct H2, s2; constructor; cbn in *; assumption.
  - destruct (find_up iq (pending s)) as [u|]; [|exact Hi].
    destruct (mgr s).
    + destruct (u_reboot u); cbn [fst]; apply (invC_ext s); try exact Hi; destruct s; cbn;
        try reflexivity; apply mark_sent_sers.
    + cbn [fst]. destruct Hi, s; constructor; cbn in *; assumption.
  - destruct (find_up iq (pending s)) as [u|]; [|exact Hi]. cbn [fst].
    destruct Hi, s; constructor; cbn in *; assumption.
  - destruct (reboot s); cbn [fst]; destruct Hi, s; constructor; cbn in *; assumption.
  - destruct (lookup_row id (rows s)) as [ser|] eqn:Lk; [|exact Hi]. cbn [fst].
    apply lookup_row_in in Lk. destruct Lk as [f Hf].
    destruct Hi as [c1 c2 c3 c4]. destruct s; constructor; cbn in *.
    + apply remove_row_nodup. exact c1.
    + rewrite map_app. cbn [map snd]. apply NoDup_app_intro; [exact c2|constructor; [intros []|constructor]|].
      intros x Hx [E|[]]. subst x. apply (c3 ser Hx). apply (in_map ser_of) in Hf. exact Hf.
    + intros x Hx. rewrite map_app in Hx. apply in_app_or in Hx. destruct Hx as [Hx|[<-|[]]].
      * intros H. apply (c3 x Hx). eapply remove_row_sers_incl. exact H.
      * eapply remove_row_gone; [exact c1|exact Hf].
    + intros x [H|H].
      * apply c4. left. eapply remove_row_sers_incl. exact H.
      * rewrite map_app in H. apply in_app_or in H. destruct H as [H|[<-|[]]].
        -- apply c4. right. exact H.
        -- apply c4. left. apply (in_map ser_of) in Hf. exact Hf.
  - cbn [fst]. destruct Hi, s; constructor; cbn in *; assumption.
Qed.

Lemma invC_init : invC init.
Proof. constructor; cbn; intros; try constructor; try tauto. Qed.

(* No key is consumed twice: the keys that first messages were decrypted with over the whole
   history are pairwise different, and none of them is in the store any more. *)
Theorem consumed_once_thm : forall batch ops,
  NoDup (map snd (consumed (final batch ops))) /\
  forall x, In x (map snd (consumed (final batch ops))) ->
            ~ In x (map ser_of (rows (final batch ops))).
Proof.
  intros batch ops. unfold final.
  pose proof (run_inv invC batch (step_invC batch) ops init invC_init) as [c1 c2 c3 c4].
  split; assumption.
Qed.

(* a second first-message naming a consumed id is refused as long as the id has not been
   issued again (which never happens when rf holds, see id_names_one_key) *)
Lemma consume_absent batch s id :
  lookup_row id (rows s) = None -> step batch s (Consume id) = (s, [EInvalidKey]).
Proof. intros H. cbn [step]. rewrite H. reflexivity. Qed.

Lemma lookup_remove_row id r : lookup_row id (remove_row id r) = None.
Proof.
  unfold remove_row. induction r as [|e r IH]; cbn [filter lookup_row]; [reflexivity|].
  destruct (N.eqb_spec (fst e) id) as [E|E]; cbn [negb]; [exact IH|].
  cbn [lookup_row]. destruct (N.eqb_spec (fst e) id); [contradiction|exact IH].
Qed.

Theorem consume_twice_refused_thm : forall batch s id s1 e1,
  step batch s (Consume id) = (s1, e1) -> step batch s1 (Consume id) = (s1, [EInvalidKey]).
Proof.
  intros batch s id s1 e1 H. cbn [step] in H. destruct (lookup_row id (rows s)) eqn:L.
  - apply pair_inj in H. destruct H as [<- _]. apply consume_absent. destruct s; cbn. apply lookup_remove_row.
  - apply pair_inj in H. destruct H as [<- _]. apply consume_absent. exact L.
Qed.

(* ------------------------------------------------------------------ adjustId *)
Lemma be_bytes_0 f acc : be_bytes f 0 acc = acc.
Proof. destruct f; reflexivity. Qed.

Lemma be_bytes_pos f n acc : n <> 0 ->
  be_bytes (S f) n acc = be_bytes f (n / 256) (n mod 256 :: acc).
Proof. intros H. cbn [be_bytes]. destruct (N.eqb_spec n 0); [contradiction|reflexivity]. Qed.

Theorem adjust_id_thm : forall n, n < 16777216 ->
  adjust_id n = [n / 65536; (n / 256) mod 256; n mod 256].
Proof.
  intros n H. unfold adjust_id.
  destruct (N.eq_dec n 0) as [->|H0]; [reflexivity|].
  rewrite (be_bytes_pos 15 n []) by exact H0.
  destruct (N.eq_dec (n / 256) 0) as [E1|E1].
  - rewrite E1, be_bytes_0. cbn [length repeat Nat.sub app].
    replace (n / 65536) with 0 by lia. reflexivity.
  - rewrite (be_bytes_pos 14 (n / 256) _) by exact E1.
    destruct (N.eq_dec (n / 256 / 256) 0) as [E2|E2].
    + rewrite E2, be_bytes_0. cbn [length repeat Nat.sub app].
      replace (n / 65536) with 0 by lia. reflexivity.
    + rewrite (be_bytes_pos 13 (n / 256 / 256) _) by exact E2.
      replace (n / 256 / 256 / 256) with 0 by lia. rewrite be_bytes_0.
      cbn [length repeat Nat.sub app].
      replace ((n / 256 / 256) mod 256) with (n / 65536) by lia. reflexivity.
Qed.

(* every (id, key) pair ever put into an upload stanza was generated by level_prekeys *)
Theorem offered_issued_thm : forall batch ops x,
  In x (offered (final batch ops)) -> In x (issued (final batch ops)).
Proof.
  intros batch ops x H. unfold final in *.
  pose proof (run_inv invB batch (step_invB batch) ops init invB_init) as [b1 b2 b3 b4 b5].
  apply b5. exact H.
Qed.

Theorem upload_wellformed_partial_thm :
  (forall batch ops x, In x (offered (final batch ops)) -> In x (issued (final batch ops))) /\
  (forall n, n < 16777216 -> adjust_id n = [n / 65536; (n / 256) mod 256; n mod 256]).
Proof. split; [exact offered_issued_thm|exact adjust_id_thm]. Qed.

(* ------------------------------------------------------------------ the stale in-memory list *)
(* Outside the well-formed histories (a NON-passive login although keys are waiting) the
   in-memory _unsent_prekeys list goes stale: a key consumed meanwhile is offered again at the
   next passive login on the same layer although it is no longer stored. *)
Definition stale_history : list op :=
  [Connect; Authed true; Disconnected; Connect; Authed false; Consume 3; Disconnected; Connect].

Theorem consumed_key_reoffered_refuted_thm :
  wf 5 init (stale_history ++ [Authed true]) = false /\
  let s := final 5 stale_history in
  exists u x, snd (step 5 s (Authed true)) = [EUpload u] /\ In x (u_keys u) /\
              In x (consumed s) /\ lookup_row (fst x) (rows s) = None.
Proof.
  split; [vm_compute; reflexivity|]. cbn zeta.
  eexists. exists (3, 2). split; [vm_compute; reflexivity|]. split; [|split].
  - vm_compute. right. right. left. reflexivity.
  - vm_compute. left. reflexivity.
  - vm_compute. reflexivity.
Qed.
