(* C07 — mandatory acknowledgements, on the dispatch model of C06 (coq/C06/C06Dispatch.v).
   All theorems quantify over EVERY feature vector with the given tag: every type string
   (recognised or not), every child list, every id / JID / participant, every module selection,
   with and without the encryption layers, every iq registry.                                  *)
From Coq Require Import Arith Lia.
From YV Require Import C06.C06Base C06.C06Dispatch C06.C06Kinds Gen.C06Layers Gen.C06HandleMaps C06.C06Generic C06.C06Reply.

(* the designed exception: a picture notification that is neither a set nor a delete *)
Definition picture_rejected (n : feat) : bool :=
  oeq (f_type n) "picture" && negb (has_child n "set") && negb (has_child n "delete").

Definition consumed_by_control (n : feat) : bool :=
  oeq (f_type n) "encrypt" && (has_child n "count" || has_child n "identity").

Ltac flags_cases c := destruct c as [[] [] [] []].

Ltac crunch :=
  repeat (first [ str_case | if_case ]); cbn in *; try discriminate; try reflexivity.

(* tag = notification: no layer's iq registry is consulted *)
Lemma notif_registry st l n : f_tag n = "notification" -> registry_recv st l n = None.
Proof. intros H. apply registry_recv_not_iq. rewrite H. reflexivity. Qed.

Theorem notification_ack_thm : forall c ax st n,
  f_tag n = "notification" -> picture_rejected n = false ->
  let a := stack_recv repaired c ax st n in
  acks a = [notification_ack n] /\ answers a = [notification_ack n] /\ raises a = 0.
Proof.
  intros c ax st n Ht Hp.
  destruct n as [tag x t i fr to p mro ch hp mt cv ex sk mo enq]. cbn in Ht. subst tag.
  unfold picture_rejected in Hp. cbv zeta.
  unfold stack_recv, ctl_recv, pair_recv, axsend_recv, axrecv_recv, par_recv, layer_recv, registry_recv.
  flags_cases c; destruct ax; destruct t as [t|]; cbn in *; unf;
    unfold ctl_ack, ack, notification_ack, ack; cbn in *;
    repeat (first [ str_case | if_case ]); cbn in *; try discriminate; repeat split; reflexivity.
Qed.

(* the unrepaired control layer drops the participant: witness kept so the regression is recognised *)
Lemma notification_ack_unrepaired_refuted : exists c st n,
  f_tag n = "notification" /\ picture_rejected n = false /\
  acks (stack_recv unrepaired c true st n) <> [notification_ack n].
Proof.
  exists (mkFlags true true true true), [],
    (mkFeat "notification" None (Some "encrypt") (Some "1") (Some "s.whatsapp.net") None
            (Some "4915@s.whatsapp.net") [] [("count", None)] false None false false false false false).
  repeat split; vm_compute; congruence.
Qed.

(* ---------------------------------------------------------------- calls *)
Theorem call_thm : forall c ax st n, f_tag n = "call" ->
  let a := stack_recv repaired c ax st n in
  ups a = ["CallProtocolEntity"] /\ raises a = 0 /\
  answers a = (if has_child n "offer"
               then [SReceipt (f_id n) (f_from n) None None (nz (child_callid n "offer"))]
               else [SAck (f_id n) "call" None (f_from n) None]).
Proof.
  intros c ax st n Ht.
  destruct n as [tag x t i fr to p mro ch hp mt cv ex sk mo enq]. cbn in Ht. subst tag. cbv zeta.
  unfold stack_recv, ctl_recv, pair_recv, axsend_recv, axrecv_recv, par_recv, layer_recv, registry_recv.
  flags_cases c; destruct ax; cbn in *; unf; unfold has_child; cbn;
    destruct (existsb (fun c => (fst c =? "offer")%string) ch); cbn; repeat split; reflexivity.
Qed.

(* ---------------------------------------------------------------- server ping *)
Definition unregistered (st : registry) (n : feat) : Prop :=
  forall l, reg_find st l (f_id n) = None.

Theorem ping_thm : forall c ax st n, f_tag n = "iq" -> oeq (f_xmlns n) "urn:xmpp:ping" = true ->
  unregistered st n ->
  (oeq (f_type n) "result" && has_child n "sync") = false ->
  let a := stack_recv repaired c ax st n in
  answers a = [SPong (f_id n) "s.whatsapp.net" "w:p"] /\ ups a = [] /\ raises a = 0.
Proof.
  intros c ax st n Ht Hx Hu Hs.
  destruct n as [tag x t i fr to p mro ch hp mt cv ex sk mo enq]. cbn in Ht. subst tag. cbv zeta.
  unfold unregistered in Hu. cbn in Hu, Hx, Hs.
  unfold stack_recv, ctl_recv, pair_recv, axsend_recv, axrecv_recv, par_recv, layer_recv, registry_recv.
  flags_cases c; destruct ax; cbn; rewrite ?Hu; cbn; unf; unfold oeq in Hx; rewrite ?Hx; cbn;
    unfold has_child in Hs; cbn in Hs; unfold oeq in Hs; rewrite ?Hs; cbn; repeat split; reflexivity.
Qed.

(* ---------------------------------------------------------------- messages the library cannot present *)
(* well-formed message stanza as servers send them: type = media  <=>  proto carries a mediatype *)
Definition wf_message (n : feat) : bool :=
  f_has_proto n && negb (has_child n "enc") &&
  Bool.eqb (oeq (f_type n) "media") (match f_mediatype n with Some _ => true | None => false end).

Definition presentable (n : feat) : bool :=
  match f_mediatype n with
  | None => f_conv n || f_ext n
  | Some _ => match media_class (f_mediatype n) with Some _ => true | None => false end
  end.

Theorem unsupported_message_thm : forall c ax st n,
  f_tag n = "message" -> wf_message n = true -> presentable n = false ->
  skdm_only n = false ->                   (* not the pkmsg part of a group message: that one gets nothing, below *)
  (match f_mediatype n with Some _ => fl_media c | None => true end) = true ->
  let a := stack_recv repaired c ax st n in
  receipts a = [SReceipt (f_id n) (f_from n) (nz (f_participant n))
                         (match f_mediatype n with Some _ => Some "read" | None => None end) None] /\
  answers a = receipts a /\ ups a = [] /\ raises a = 0.
Proof.
  intros c ax st n Ht Hwf Hpr Hsk Hmod.
  destruct n as [tag x t i fr to p mro ch hp mt cv ex sk mo enq]. unfold skdm_only in Hsk. cbn in Ht, Hsk. subst tag. cbv zeta.
  unfold wf_message, presentable in *. cbn in Hwf, Hpr, Hmod.
  destruct hp; cbn in Hwf; [|discriminate].
  unfold has_child in Hwf; cbn in Hwf.
  destruct (existsb (fun c => (fst c =? "enc")%string) ch) eqn:Henc; cbn in Hwf; [discriminate|].
  unfold stack_recv, ctl_recv, pair_recv, axsend_recv, axrecv_recv, par_recv, layer_recv, registry_recv.
  destruct mt as [m|].
  - (* media *)
    destruct (oeq t "media") eqn:Hty; cbn in Hwf; [|discriminate].
    flags_cases c; cbn in Hmod; try discriminate; destruct ax; cbn; unf; unfold has_child; cbn;
      rewrite ?Henc; cbn; unfold oeq in Hty; rewrite ?Hty; cbn;
      unfold media_class, oeq in Hpr; cbn in Hpr;
      unfold media_class, oeq; cbn;
      destruct (media_class (Some m)) eqn:Hmc; unfold media_class, oeq in Hmc; cbn in Hmc;
      rewrite ?Hmc in *; try discriminate; cbn; unfold skdm_only; cbn; rewrite ?Hsk; cbn;
      rewrite ?Hmc; cbn; repeat split; reflexivity.
  - (* not media *)
    destruct (oeq t "media") eqn:Hty; cbn in Hwf; [discriminate|].
    apply Bool.orb_false_iff in Hpr. destruct Hpr as [-> ->].
    flags_cases c; destruct ax; cbn; unf; unfold has_child; cbn;
      rewrite ?Henc; cbn; unfold oeq in Hty; rewrite ?Hty; cbn; unfold skdm_only; cbn; rewrite ?Hsk; cbn;
      repeat split; reflexivity.
Qed.

(* media module left out: media messages belong to it and produce nothing at all (C06 off-is-silent) *)
Theorem media_off_silent_thm : forall c ax st n,
  f_tag n = "message" -> wf_message n = true -> fl_media c = false ->
  (match f_mediatype n with Some _ => true | None => false end) = true ->
  stack_recv repaired c ax st n = [].
Proof.
  intros c ax st n Ht Hwf Hm Hmt.
  destruct n as [tag x t i fr to p mro ch hp mt cv ex sk mo enq]. cbn in Ht. subst tag.
  unfold wf_message in *. cbn in Hwf, Hmt. destruct mt as [m|]; [|discriminate].
  destruct hp; cbn in Hwf; [|discriminate].
  unfold has_child in Hwf; cbn in Hwf.
  destruct (existsb (fun c => (fst c =? "enc")%string) ch) eqn:Henc; cbn in Hwf; [discriminate|].
  unfold stack_recv, ctl_recv, pair_recv, axsend_recv, axrecv_recv, par_recv, layer_recv, registry_recv.
  flags_cases c; cbn in Hm; try discriminate; destruct ax; cbn; unf; unfold has_child; cbn;
    rewrite ?Henc; cbn; reflexivity.
Qed.

(* repaired finding, witness kept: the messages layer used to test `not sender_key_distribution_message`, so a key
   distribution together with unpresentable content (a retry resend of a revoke) was dropped without a receipt *)
Definition unrepaired_text : variant := mkVariant true true true false true.
Definition unrepaired_media : variant := mkVariant true true true true false.
Lemma unsupported_with_skdm_refuted : exists c n,
  f_tag n = "message" /\ wf_message n = true /\ presentable n = false /\ skdm_only n = false /\
  answers (stack_recv unrepaired_text c false [] n) = [].
Proof.
  exists (mkFlags true true true true),
    (mkFeat "message" None (Some "text") (Some "1") (Some "a@s.whatsapp.net") None None []
            [("proto", None)] true None false false true true false).
  repeat split; vm_compute; reflexivity.
Qed.

(* the pkmsg part of a group message carries nothing but the sender key (the content travels in the skmsg part,
   which is acknowledged on its own): no entity, no receipt, nothing raised - text and media alike *)
Theorem skdm_only_silent_thm : forall c ax st n,
  f_tag n = "message" -> wf_message n = true -> skdm_only n = true ->
  f_conv n = false -> f_ext n = false ->
  stack_recv repaired c ax st n = [].
Proof.
  intros c ax st n Ht Hwf Hsk Hcv Hex.
  destruct n as [tag x t i fr to p mro ch hp mt cv ex sk mo enq]. unfold skdm_only in Hsk.
  cbn in Ht, Hsk, Hcv, Hex. subst tag cv ex.
  unfold wf_message in *. cbn in Hwf.
  destruct hp; cbn in Hwf; [|discriminate].
  unfold has_child in Hwf; cbn in Hwf.
  destruct (existsb (fun c => (fst c =? "enc")%string) ch) eqn:Henc; cbn in Hwf; [discriminate|].
  unfold stack_recv, ctl_recv, pair_recv, axsend_recv, axrecv_recv, par_recv, layer_recv, registry_recv.
  destruct mt as [m|].
  - destruct (oeq t "media") eqn:Hty; cbn in Hwf; [|discriminate].
    flags_cases c; destruct ax; cbn; unf; unfold has_child; cbn;
      rewrite ?Henc; cbn; unfold oeq in Hty; rewrite ?Hty; cbn; unfold skdm_only; cbn; rewrite ?Hsk; cbn;
      reflexivity.
  - destruct (oeq t "media") eqn:Hty; cbn in Hwf; [discriminate|].
    flags_cases c; destruct ax; cbn; unf; unfold has_child; cbn;
      rewrite ?Henc; cbn; unfold oeq in Hty; rewrite ?Hty; cbn; unfold skdm_only; cbn; rewrite ?Hsk; cbn;
      reflexivity.
Qed.

(* repaired finding (C03), witness kept: the media layer used to dispatch on the mediatype attribute alone, so the
   pkmsg part of a first group media message surfaced as a second media entity *)
Lemma media_skdm_only_unrepaired_refuted : exists c n,
  f_tag n = "message" /\ wf_message n = true /\ skdm_only n = true /\
  ups (stack_recv unrepaired_media c false [] n) = ["ImageDownloadableMediaMessageProtocolEntity"] /\
  stack_recv repaired c false [] n = [].
Proof.
  exists (mkFlags true true true true),
    (mkFeat "message" None (Some "media") (Some "1") (Some "g@g.us") None (Some "a@s.whatsapp.net") []
            [("proto", None)] true (Some "image") false false true false false).
  repeat split; vm_compute; reflexivity.
Qed.

(* ---------------------------------------------------------------- histories
   The layers keep state between stanzas (iq registries; a layer could remember ids).  The acknowledgement duty is
   per stanza, whatever was received before - the same id again, the same stanza again, another sender using the
   same id.  run_recvs threads the registry exactly as the stack does. *)
Fixpoint run_recvs (v : variant) (c : flags) (ax : bool) (st : registry) (ns : list feat) : list (list action) :=
  match ns with
  | [] => []
  | n :: r => stack_recv v c ax st n :: run_recvs v c ax (st_after_recv c ax st n) r
  end.

Lemma run_recvs_nth : forall ns v c ax st k n, nth_error ns k = Some n ->
  exists st', nth_error (run_recvs v c ax st ns) k = Some (stack_recv v c ax st' n).
Proof.
  induction ns as [|n0 ns IH]; intros v c ax st k n H.
  - destruct k; discriminate.
  - destruct k as [|k]; cbn in H.
    + injection H as <-. exists st. reflexivity.
    + destruct (IH v c ax (st_after_recv c ax st n0) k n H) as [st' H']. exists st'. exact H'.
Qed.

Theorem notification_ack_history_thm : forall ns c ax st k n,
  nth_error ns k = Some n -> f_tag n = "notification" -> picture_rejected n = false ->
  exists a, nth_error (run_recvs repaired c ax st ns) k = Some a /\
            acks a = [notification_ack n] /\ answers a = [notification_ack n] /\ raises a = 0.
Proof.
  intros ns c ax st k n Hk Ht Hp.
  destruct (run_recvs_nth ns repaired c ax st k n Hk) as [st' H'].
  exists (stack_recv repaired c ax st' n). split; [exact H'|].
  exact (notification_ack_thm c ax st' n Ht Hp).
Qed.

Theorem call_history_thm : forall ns c ax st k n,
  nth_error ns k = Some n -> f_tag n = "call" ->
  exists a, nth_error (run_recvs repaired c ax st ns) k = Some a /\
    ups a = ["CallProtocolEntity"] /\ raises a = 0 /\
    answers a = (if has_child n "offer"
                 then [SReceipt (f_id n) (f_from n) None None (nz (child_callid n "offer"))]
                 else [SAck (f_id n) "call" None (f_from n) None]).
Proof.
  intros ns c ax st k n Hk Ht.
  destruct (run_recvs_nth ns repaired c ax st k n Hk) as [st' H'].
  exists (stack_recv repaired c ax st' n). split; [exact H'|].
  exact (call_thm c ax st' n Ht).
Qed.

Theorem unsupported_message_history_thm : forall ns c ax st k n,
  nth_error ns k = Some n ->
  f_tag n = "message" -> wf_message n = true -> presentable n = false -> skdm_only n = false ->
  (match f_mediatype n with Some _ => fl_media c | None => true end) = true ->
  exists a, nth_error (run_recvs repaired c ax st ns) k = Some a /\
    receipts a = [SReceipt (f_id n) (f_from n) (nz (f_participant n))
                           (match f_mediatype n with Some _ => Some "read" | None => None end) None] /\
    answers a = receipts a /\ ups a = [] /\ raises a = 0.
Proof.
  intros ns c ax st k n Hk Ht Hwf Hpr Hsk Hmod.
  destruct (run_recvs_nth ns repaired c ax st k n Hk) as [st' H'].
  exists (stack_recv repaired c ax st' n). split; [exact H'|].
  exact (unsupported_message_thm c ax st' n Ht Hwf Hpr Hsk Hmod).
Qed.

(* outside the well-formed domain (observation, not an alarm): type=media without mediatype is
   answered by two layers *)
Lemma media_without_mediatype_two_receipts : exists c n,
  f_tag n = "message" /\ wf_message n = false /\
  length (receipts (stack_recv repaired c false [] n)) = 2.
Proof.
  exists (mkFlags true true true true),
    (mkFeat "message" None (Some "media") (Some "1") (Some "a@s.whatsapp.net") None None []
            [("proto", None)] true None false false false false false).
  repeat split; vm_compute; reflexivity.
Qed.

(* non-vacuity: the hypotheses of the four theorems are met by ordinary stanzas *)
Example notification_example :
  let n := mkFeat "notification" None (Some "web") (Some "77") (Some "s.whatsapp.net") None
                  (Some "49@s.whatsapp.net") [] [] false None false false false false false in
  f_tag n = "notification" /\ picture_rejected n = false /\
  acks (stack_recv repaired (mkFlags true false true false) true [] n)
  = [SAck (Some "77") "notification" (Some "web") (Some "s.whatsapp.net") (Some "49@s.whatsapp.net")].
Proof. repeat split; vm_compute; reflexivity. Qed.

(* ---------------------------------------------------------------- a server ping is answered whatever is pending
   The ping is a request (type get / set, never result / error), so no registry entry -- not even one registered
   under the very id the ping carries -- has any say in what happens to it. *)
Theorem ping_whatever_is_pending_thm : forall c ax st n, f_tag n = "iq" -> oeq (f_xmlns n) "urn:xmpp:ping" = true ->
  oeq (f_type n) "result" = false -> oeq (f_type n) "error" = false ->
  let a := stack_recv repaired c ax st n in
  answers a = [SPong (f_id n) "s.whatsapp.net" "w:p"] /\ ups a = [] /\ raises a = 0.
Proof.
  intros c ax st n Ht Hx Hr He. cbv zeta.
  rewrite (C06Reply.recv_history_independent_thm repaired c ax st n).
  - apply ping_thm; [exact Ht|exact Hx| |rewrite Hr; reflexivity].
    intros l. unfold reg_find. destruct (f_id n); reflexivity.
  - unfold C06Reply.is_reply. rewrite Hr, He. cbn. apply Bool.andb_false_r.
Qed.
