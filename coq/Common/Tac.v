(* Shared arithmetic set-up: lia understands boolean comparisons, div and mod. *)
From Coq Require Export ZArith NArith List Bool Lia ZifyBool ZifyNat ZifyN.
Export ListNotations.
Ltac Zify.zify_post_hook ::= Z.to_euclidean_division_equations.

Lemma Some_inj {A} (a b : A) : Some a = Some b -> a = b.
Proof. intros H; congruence. Qed.

Lemma cons_inj {A} (a b : A) (l m : list A) : a :: l = b :: m -> a = b /\ l = m.
Proof. intros H; split; congruence. Qed.

Lemma pair_inj {A B} (a c : A) (b d : B) : (a, b) = (c, d) -> a = c /\ b = d.
Proof. intros H; split; congruence. Qed.
