(* Sx: the one value format exchanged between the extracted models and the harness.
   N<dec> | B<hex> | ( sx ... )                                                     *)
From Coq Require Import NArith List.
Import ListNotations.

Inductive sx : Type :=
| SN (n : N)
| SB (b : list N)
| SL (l : list sx).

Definition sx_err (code : N) : sx := SL [SN 999; SN code].

Definition sx_bool (b : bool) : sx := SN (if b then 1 else 0)%N.

Definition sx_get_n (s : sx) : N := match s with SN n => n | _ => 0%N end.
Definition sx_get_b (s : sx) : list N := match s with SB b => b | _ => [] end.
Definition sx_get_l (s : sx) : list sx := match s with SL l => l | _ => [] end.
Definition sx_nth (s : sx) (i : nat) : sx := nth i (sx_get_l s) (SL []).
Definition sx_get_bool (s : sx) : bool := negb (N.eqb (sx_get_n s) 0).

Definition sx_opt {A} (f : A -> sx) (o : option A) : sx :=
  match o with None => SL [] | Some a => SL [f a] end.
