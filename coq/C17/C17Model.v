(* C17 - model of ONE yowsup account as an input-enabled machine, 1:1 messaging only, with the
   identity-key bookkeeping made explicit.  The environment (server, contacts, their installs) is
   arbitrary: every input below may carry any values, so theorems over all input lists cover every
   history of (contact publishes keys, contact reinstalls, message either way, restart), any number of
   contacts, and also a hostile server.

   What is modelled, and after which code:
     python-axolotl 0.2.2 (documented behaviour, "modelled, not verified")
       SessionBuilder.processPreKeyBundle        -> process_bundle
       SessionBuilder.process (first message)    -> decrypt, EPk branch
       SessionCipher.decryptMsg / decryptPkmsg   -> decrypt  (abstract ratchet: a session record is a list of
                                                    states, head = current; a state is identified by its base key
                                                    `sid`, remembers the remote identity it was built for, whether a
                                                    prekey message is still unacknowledged, how many messages were
                                                    encrypted with it and which message numbers were decrypted)
     yowsup
       LiteIdentityKeyStore.isTrustedIdentity / saveIdentity      -> trusted / save_identity
       AxolotlManager.create_session / trust_identity             -> create_session (repaired: fixes/C17-autotrust-rebuild-session.patch;
                                                                     create_session_unrepaired = the code before the fix)
       AxolotlBaseLayer.getKeysFor.onSuccess                      -> keys_result
       AxolotlSendLayer.send / processPlaintextNodeAndSend / sendToContact / receive(receipt) /
         on_get_keys_process_errors / enqueueSent / getEnqueuedMessageNode  -> app_send, send_to_contact, on_receipt
       AxolotlReceivelayer.handleEncMessage (all except-branches), send_retry, reset_retries,
         pendingIncomingMessages / processPendingIncomingMessages -> handle_enc, process_pending
       YowMessagesProtocolLayer + the application on top (acks every message with a delivery receipt)
       AxolotlControlLayer.onIdentityChangeEncryptNotification    -> INotify: ack, key fetch with a no-op callback
                                                                     (KNotify): on the answer the bundle is processed -
                                                                     trust check, session built, identity saved - and
                                                                     nothing is sent, errors are dropped
     Durability.  All five sqlite stores share ONE connection.  a_ids/a_sess are the tables as that connection
     sees them (what the running process works with); a_dids/a_dsess are the COMMITTED tables = what a new
     process finds.  A store write is made on the connection; `commit` makes everything written so far durable.
     LiteSessionStore.storeSession and LiteIdentityKeyStore.saveIdentity both end with dbConn.commit()
     (store_session / store_identity).  Restart = the process ends (the connection is closed, an open
     transaction is rolled back) and a new one starts: the working tables are re-read from the committed ones.
     build_session_nocommit is the variant in which saveIdentity has no commit of its own (seeded defect C17-2).
   Numbers (contacts, message ids, identity keys, base keys) are opaque N.  Definitions only. *)
From YV Require Import Common.Tac.
Local Open Scope N_scope.

(* ---------- association lists ---------- *)
Fixpoint lookup {A} (k : N) (l : list (N * A)) : option A :=
  match l with
  | [] => None
  | (k', v) :: r => if (k' =? k)%N then Some v else lookup k r
  end.

Fixpoint remove_key {A} (k : N) (l : list (N * A)) : list (N * A) :=
  match l with
  | [] => []
  | (k', v) :: r => if (k' =? k)%N then remove_key k r else (k', v) :: remove_key k r
  end.

Definition upd {A} (k : N) (v : A) (l : list (N * A)) : list (N * A) := (k, v) :: remove_key k l.

Fixpoint memN (x : N) (l : list N) : bool :=
  match l with [] => false | y :: r => if (y =? x)%N then true else memN x r end.

(* ---------- abstract ratchet ---------- *)
Record sstate := mkS {
  s_sid : N;          (* base key of the session = its name *)
  s_ident : N;        (* remote identity key this state was built for *)
  s_unack : bool;     (* we created it from a bundle and nothing came back yet: we still send pkmsg *)
  s_sent : N;         (* messages encrypted with this state so far *)
  s_seen : list N     (* message numbers already decrypted with this state *)
}.

Inductive ekind := EPk | EMsg.

(* one ciphertext as it arrives: which state of the sender produced it, its number, and for a prekey
   message the identity it presents and whether the one-time prekey it names is still in our store *)
Record enc := mkE {
  e_kind : ekind; e_sid : N; e_n : N; e_ident : N; e_pkok : bool; e_corrupt : bool; e_payload : N }.

Inductive dres := DOk (payload : N) | DNoSession | DInvalidKeyId | DInvalidMsg | DDuplicate | DUntrusted (k : N).

Fixpoint find_state (sid : N) (r : list sstate) : option sstate :=
  match r with
  | [] => None
  | s :: t => if (s_sid s =? sid)%N then Some s else find_state sid t
  end.

Fixpoint drop_state (sid : N) (r : list sstate) : list sstate :=
  match r with
  | [] => []
  | s :: t => if (s_sid s =? sid)%N then t else s :: drop_state sid t
  end.

(* ---------- the account ---------- *)
Inductive cont := KSend (c m : N) | KRetry (c m t : N) | KIncoming (c : N) | KNotify (c : N).

Record acct := mkA {
  a_auto : bool;                          (* PROP_IDENTITY_AUTOTRUST *)
  a_ids : list (N * N);                   (* identities table, contact -> key, as the process's connection sees it *)
  a_sess : list (N * list sstate);        (* sessions table, as the process's connection sees it *)
  a_dids : list (N * N);                  (* durable: identities table as committed *)
  a_dsess : list (N * list sstate);       (* durable: sessions table as committed *)
  a_sentq : list (N * N);                 (* volatile: sentQueue (message id, to), oldest first *)
  a_pend : list (N * list (N * enc));     (* volatile: pendingIncomingMessages *)
  a_retries : list (N * N);               (* volatile: _retries *)
  a_iqs : list (N * cont);                (* volatile: iq registries of the three layers *)
  a_skip : list N;                        (* volatile: skipEncJids *)
  a_iqctr : N;                            (* ghost: numbering of key requests *)
  a_log : list (list (N * N) * list (N * list sstate))
                                          (* ghost: the committed tables after every commit so far, newest first -
                                             the durable states the store file has passed through *)
}.

Definition init (auto : bool) : acct := mkA auto [] [] [] [] [] [] [] [] [] 0 [].

Definition set_ids (a : acct) (ids : list (N * N)) : acct :=
  mkA (a_auto a) ids (a_sess a) (a_dids a) (a_dsess a) (a_sentq a) (a_pend a) (a_retries a) (a_iqs a) (a_skip a) (a_iqctr a) (a_log a).
Definition set_sess (a : acct) (s : list (N * list sstate)) : acct :=
  mkA (a_auto a) (a_ids a) s (a_dids a) (a_dsess a) (a_sentq a) (a_pend a) (a_retries a) (a_iqs a) (a_skip a) (a_iqctr a) (a_log a).
Definition set_sentq (a : acct) (q : list (N * N)) : acct :=
  mkA (a_auto a) (a_ids a) (a_sess a) (a_dids a) (a_dsess a) q (a_pend a) (a_retries a) (a_iqs a) (a_skip a) (a_iqctr a) (a_log a).
Definition set_pend (a : acct) (p : list (N * list (N * enc))) : acct :=
  mkA (a_auto a) (a_ids a) (a_sess a) (a_dids a) (a_dsess a) (a_sentq a) p (a_retries a) (a_iqs a) (a_skip a) (a_iqctr a) (a_log a).
Definition set_retries (a : acct) (r : list (N * N)) : acct :=
  mkA (a_auto a) (a_ids a) (a_sess a) (a_dids a) (a_dsess a) (a_sentq a) (a_pend a) r (a_iqs a) (a_skip a) (a_iqctr a) (a_log a).
Definition set_iqs (a : acct) (q : list (N * cont)) (ctr : N) : acct :=
  mkA (a_auto a) (a_ids a) (a_sess a) (a_dids a) (a_dsess a) (a_sentq a) (a_pend a) (a_retries a) q (a_skip a) ctr (a_log a).
Definition set_skip (a : acct) (s : list N) : acct :=
  mkA (a_auto a) (a_ids a) (a_sess a) (a_dids a) (a_dsess a) (a_sentq a) (a_pend a) (a_retries a) (a_iqs a) s (a_iqctr a) (a_log a).

(* dbConn.commit(): everything written on the connection so far becomes durable *)
Definition commit (a : acct) : acct :=
  mkA (a_auto a) (a_ids a) (a_sess a) (a_ids a) (a_sess a) (a_sentq a) (a_pend a) (a_retries a) (a_iqs a) (a_skip a)
      (a_iqctr a) ((a_ids a, a_sess a) :: a_log a).

Definition set_log (a : acct) (l : list (list (N * N) * list (N * list sstate))) : acct :=
  mkA (a_auto a) (a_ids a) (a_sess a) (a_dids a) (a_dsess a) (a_sentq a) (a_pend a) (a_retries a) (a_iqs a) (a_skip a)
      (a_iqctr a) l.

Definition record_of (a : acct) (c : N) : list sstate :=
  match lookup c (a_sess a) with Some r => r | None => [] end.

(* LiteIdentityKeyStore.isTrustedIdentity: unknown, or byte-equal to the stored key *)
Definition trusted (ids : list (N * N)) (c k : N) : bool :=
  match lookup c ids with None => true | Some k' => (k' =? k)%N end.

(* LiteIdentityKeyStore.saveIdentity: delete + insert ... *)
Definition save_identity (ids : list (N * N)) (c k : N) : list (N * N) := upd c k ids.

(* variant, shape of seeded defect C17-4 ("one key, one contact"): the DELETE also removes the row of every OTHER
   contact that holds the same key *)
Definition save_identity_exclusive (ids : list (N * N)) (c k : N) : list (N * N) :=
  (c, k) :: filter (fun p => negb ((snd p =? k)%N)) (remove_key c ids).

(* ... + dbConn.commit() *)
Definition store_identity (a : acct) (c k : N) : acct := commit (set_ids a (save_identity (a_ids a) c k)).

(* LiteSessionStore.storeSession: delete + insert + dbConn.commit() *)
Definition store_session (a : acct) (c : N) (r : list sstate) : acct := commit (set_sess a (upd c r (a_sess a))).

(* ---------- inputs and outputs ---------- *)
 (* the inputs whose handling writes to the store, i.e. during which the process can die at a write boundary *)
Inductive kin :=
| KiSend (c m : N)
| KiKeys (iq : N) (res : list (N * (N * N)))
| KiMsg (c m : N) (e : enc).

Inductive input :=
| IAppSend (c m : N)                         (* the application sends text message m to contact c *)
| IKeys (iq : N) (res : list (N * (N * N)))  (* key-directory answer: contact -> (identity, base key our builder draws) *)
| IMsg (c m : N) (e : enc)                   (* message stanza from c *)
| IReceipt (c m : N) (retry : bool)          (* receipt stanza from c *)
| IRestart                                   (* the process ends and a new one starts: volatile state gone, open
                                                transaction rolled back, the committed store kept *)
| IWipe                                      (* this account reinstalls: empty store *)
| INotify (c m : N)                          (* identity-change `encrypt` notification m about contact c *)
| IKill (k : kin) (n : N)                    (* the process is KILLED while it handles input k, after the n-th commit
                                                of that handling (n = 0: before the first), and a new process starts:
                                                the store is left in the durable state it had at that moment *)
| IReadFault (k : kin)                       (* input k arrives while the identities table cannot be READ (database
                                                locked past the busy timeout): the trust decision has no answer *).

Inductive output :=
| OGetKeys (iq : N) (c : N)
| OMsg (c m : N) (k : ekind) (sid n : N) (ident : N)  (* enc stanza; ident = identity the state was built for *)
| OPlain (c m : N)                                    (* stanza passed down un-encrypted (skipEncJids) *)
| OReceipt (c m : N)                                  (* delivery receipt *)
| ORetry (c m count : N)                              (* retry receipt *)
| OErr (c : N)                                        (* per-jid error: untrusted identity, message not sent *)
| ODeliver (c m payload : N)                          (* text entity handed to the application *)
| OTopReceipt (c m : N) (retry : bool)                (* receipt handed to the application *)
| ONotifAck (c m : N).                                (* ack of an encrypt notification *)

(* ---------- python-axolotl ---------- *)
Definition new_state (sid k : N) (alice : bool) : sstate := mkS sid k alice 0 [].

(* the body of SessionBuilder.processPreKeyBundle after the trust check: new current state, old one archived,
   identity saved *)
Definition build_session (a : acct) (c k sid : N) : acct :=
  let a1 := store_session a c (new_state sid k true :: record_of a c) in    (* storeSession FIRST ... *)
  store_identity a1 c k.                                                    (* ... saveIdentity LAST *)

(* variant, shape of seeded defect C17-2: saveIdentity without a commit of its own ("the session store commits on
   the same connection") - but here nothing is stored after it *)
Definition build_session_nocommit (a : acct) (c k sid : N) : acct :=
  let a1 := store_session a c (new_state sid k true :: record_of a c) in
  set_ids a1 (save_identity (a_ids a1) c k).

(* SessionBuilder.processPreKeyBundle: None = UntrustedIdentityException *)
Definition process_bundle (a : acct) (c k sid : N) : option acct :=
  if trusted (a_ids a) c k then Some (build_session a c k sid) else None.

Definition mark_seen (s : sstate) (n : N) : sstate :=
  mkS (s_sid s) (s_ident s) false (s_sent s) (n :: s_seen s).

(* decryptWithSessionRecord on record r for a message of state sid, number n *)
Definition decrypt_record (r : list sstate) (sid n : N) (corrupt : bool) (payload : N)
  : option (list sstate) * dres :=
  match find_state sid r with
  | None => (None, DInvalidMsg)
  | Some s =>
    if memN n (s_seen s) then (None, DDuplicate)
    else if corrupt then (None, DInvalidMsg)
    else (Some (mark_seen s n :: drop_state sid r), DOk payload)     (* the state used becomes current *)
  end.

(* SessionCipher.decryptPkmsg / decryptMsg.  The store is written only on success, except that
   SessionBuilder.process saves the identity before the message is decrypted. *)
Definition decrypt (a : acct) (c : N) (e : enc) : acct * dres :=
  match e_kind e with
  | EMsg =>
    match record_of a c with
    | [] => (a, DNoSession)
    | r =>
      match decrypt_record r (e_sid e) (e_n e) (e_corrupt e) (e_payload e) with
      | (Some r', res) => (store_session a c r', res)
      | (None, res) => (a, res)
      end
    end
  | EPk =>
    if trusted (a_ids a) c (e_ident e) then
      let r := record_of a c in
      let have := match find_state (e_sid e) r with Some _ => true | None => false end in
      if negb have && negb (e_pkok e) then (a, DInvalidKeyId)
      else
        let r1 := if have then r else new_state (e_sid e) (e_ident e) false :: r in
        let a1 := store_identity a c (e_ident e) in
        match decrypt_record r1 (e_sid e) (e_n e) (e_corrupt e) (e_payload e) with
        | (Some r', res) => (store_session a1 c r', res)
        | (None, res) => (a1, res)
        end
    else (a, DUntrusted (e_ident e))
  end.

(* SessionCipher.encrypt with the current state *)
Definition encrypt (a : acct) (c : N) : option (acct * (ekind * N * N * N)) :=
  match record_of a c with
  | [] => None
  | s :: t =>
    let s' := mkS (s_sid s) (s_ident s) (s_unack s) (s_sent s + 1) (s_seen s) in
    Some (store_session a c (s' :: t),
          ((if s_unack s then EPk else EMsg), s_sid s, s_sent s, s_ident s))
  end.

(* ---------- yowsup ---------- *)
(* AxolotlManager.create_session: returns false when UntrustedIdentityException is re-raised.
   With auto-trust: trust_identity, then the bundle is processed again and the session built
   (fixes/C17-autotrust-rebuild-session.patch). *)
Definition create_session (a : acct) (c k sid : N) : acct * bool :=
  match process_bundle a c k sid with
  | Some a' => (a', true)
  | None =>
    if a_auto a then (build_session (store_identity a c k) c k sid, true)
    else (a, false)
  end.

(* the unrepaired code: trust_identity only, no session is built although the caller is told "success" *)
Definition create_session_unrepaired (a : acct) (c k sid : N) : acct * bool :=
  match process_bundle a c k sid with
  | Some a' => (a', true)
  | None =>
    if a_auto a then (store_identity a c k, true)
    else (a, false)
  end.

Definition enqueue_sent (q : list (N * N)) (m c : N) : list (N * N) :=
  (if (100 <=? N.of_nat (length q))%N then tl q else q) ++ [(m, c)].

Definition send_to_contact (a : acct) (c m : N) : acct * list output :=
  match encrypt a c with
  | None => (a, [])                                    (* unreachable: callers test session_exists *)
  | Some (a1, (k, sid, n, ident)) =>
    (set_sentq a1 (enqueue_sent (a_sentq a1) m c), [OMsg c m k sid n ident])
  end.

Definition get_keys (a : acct) (c : N) (k : cont) : acct * list output :=
  (set_iqs a ((a_iqctr a, k) :: a_iqs a) (a_iqctr a + 1), [OGetKeys (a_iqctr a) c]).

Definition session_exists (a : acct) (c : N) : bool :=
  match record_of a c with [] => false | _ => true end.

(* processPlaintextNodeAndSend, contact branch *)
Definition plaintext_send (a : acct) (c m : N) : acct * list output :=
  if session_exists a c then send_to_contact a c m else get_keys a c (KSend c m).

Definition app_send (a : acct) (c m : N) : acct * list output :=
  if memN c (a_skip a) then (a, [OPlain c m]) else plaintext_send a c m.

Definition bump_retry (a : acct) (m : N) : acct * N :=
  let cnt := match lookup m (a_retries a) with Some x => x + 1 | None => 1 end in
  (set_retries a (upd m cnt (a_retries a)), cnt).

(* handleEncMessage without the auto-trust re-entry *)
Definition handle_enc1 (a : acct) (c m : N) (e : enc) : acct * list output :=
  match decrypt a c e with
  | (a1, DOk p) => (set_retries a1 (remove_key m (a_retries a1)), [ODeliver c m p; OReceipt c m])
  | (a1, DInvalidKeyId) | (a1, DInvalidMsg) =>
    let '(a2, cnt) := bump_retry a1 m in (a2, [ORetry c m cnt])
  | (a1, DNoSession) =>
    let parked := match lookup c (a_pend a1) with Some l => l | None => [] end in
    get_keys (set_pend a1 (upd c (parked ++ [(m, e)]) (a_pend a1))) c (KIncoming c)
  | (a1, DDuplicate) => (a1, [OReceipt c m])
  | (a1, DUntrusted _) => (a1, [])
  end.

Definition handle_enc (a : acct) (c m : N) (e : enc) : acct * list output :=
  match decrypt a c e with
  | (a1, DUntrusted k) =>
    if a_auto a then handle_enc1 (store_identity a1 c k) c m e
    else (a1, [])
  | _ => handle_enc1 a c m e
  end.

Fixpoint process_pending (a : acct) (c : N) (l : list (N * enc)) : acct * list output :=
  match l with
  | [] => (a, [])
  | (m, e) :: r =>
    let '(a1, o1) := handle_enc a c m e in
    let '(a2, o2) := process_pending a1 c r in (a2, o1 ++ o2)
  end.

Definition cont_contact (k : cont) : N :=
  match k with KSend c _ | KRetry c _ _ | KIncoming c | KNotify c => c end.

(* getKeysFor.onSuccess for a single requested jid, followed by the caller's callback *)
Definition keys_result (a : acct) (k : cont) (res : list (N * (N * N))) : acct * list output :=
  let c := cont_contact k in
  match lookup c res with
  | None =>                                        (* jid missing from the answer: out of the honest domain *)
    match k with
    | KNotify _ => (a, [])                         (* the control layer's own skipEncJids: never consulted *)
    | _ => (set_skip a (a_skip a ++ [c]), [])
    end
  | Some (ident, sid) =>
    let '(a1, ok) := create_session a c ident sid in
    match k with
    | KSend _ m => if ok then send_to_contact a1 c m else (a1, [OErr c])
    | KRetry _ m t => if ok then plaintext_send a1 t m else (a1, [OErr c])
    | KIncoming _ =>
      if ok then
        match lookup c (a_pend a1) with
        | Some l => let '(a2, o) := process_pending a1 c l in
                    (set_pend a2 (remove_key c (a_pend a2)), o)
        | None => (a1, [])
        end
      else (a1, [])
    | KNotify _ => (a1, [])        (* resultClbk = lambda _, __: None - nothing is sent, errors are dropped *)
    end
  end.

Fixpoint take_sent (m : N) (q : list (N * N)) : option (N * N) * list (N * N) :=
  match q with
  | [] => (None, [])
  | (m', c) :: r =>
    if (m' =? m)%N then (Some (m', c), r)
    else let '(f, r') := take_sent m r in (f, (m', c) :: r')
  end.

(* AxolotlSendLayer.receive for a receipt (1:1: the queued message is popped) *)
Definition on_receipt (a : acct) (c m : N) (retry : bool) : acct * list output :=
  match take_sent m (a_sentq a) with
  | (None, _) => (a, [OTopReceipt c m retry])
  | (Some (_, to), q') =>
    let a1 := set_sentq a q' in
    if retry then get_keys a1 c (KRetry c m to) else (a1, [OTopReceipt c m retry])
  end.

(* the process ends (connection closed, nothing committed any more: an open transaction is rolled back) and a new
   process opens the store: it sees the committed tables *)
Definition restart (a : acct) : acct :=
  mkA (a_auto a) (a_dids a) (a_dsess a) (a_dids a) (a_dsess a) [] [] [] [] [] (a_iqctr a) (a_log a).

(* AxolotlControlLayer.onIdentityChangeEncryptNotification: ack, then getKeysFor([jid], no-op callback) *)
Definition on_notify (a : acct) (c m : N) : acct * list output :=
  let '(a1, o) := get_keys a c (KNotify c) in (a1, ONotifAck c m :: o).

Definition kin_input (k : kin) : input :=
  match k with KiSend c m => IAppSend c m | KiKeys iq res => IKeys iq res | KiMsg c m e => IMsg c m e end.

(* The identities table cannot be read while input k is handled.  Every lookup of that table (the trust check first)
   precedes every store write of the handling, and the code as it is lets sqlite3.OperationalError leave the stack:
   the handling ABORTS - no output, no table touched; only what was consumed before the store was asked is gone: the
   answered key request has left the iq registry. *)
Definition read_fault (a : acct) (k : kin) : acct :=
  match k with
  | KiKeys iq _ => match lookup iq (a_iqs a) with
                   | Some _ => set_iqs a (remove_key iq (a_iqs a)) (a_iqctr a)
                   | None => a
                   end
  | _ => a
  end.

(* variant, shape of seeded defect C17-11: the failed lookup is read as "no row" = contact never seen = trusted; the
   handling goes on with the tables as they are - for the trust decision the contact's row is not there *)
Definition trusted_when_unreadable (ids : list (N * N)) (c k : N) : bool := true.

(* handling of every input but a kill *)
Definition step_nk (a : acct) (i : input) : acct * list output :=
  match i with
  | IAppSend c m => app_send a c m
  | IKeys iq res =>
    match lookup iq (a_iqs a) with
    | None => (a, [])
    | Some k => keys_result (set_iqs a (remove_key iq (a_iqs a)) (a_iqctr a)) k res
    end
  | IMsg c m e => handle_enc a c m e
  | IReceipt c m retry => on_receipt a c m retry
  | IRestart => (restart a, [])
  | IWipe => (mkA (a_auto a) [] [] [] [] [] [] [] [] [] (a_iqctr a) (a_log a), [])
  | INotify c m => on_notify a c m
  | IKill _ _ => (a, [])
  | IReadFault k => (read_fault a k, [])
  end.

(* a new process over committed tables d: nothing volatile *)
Definition reborn (a : acct) (d : list (N * N) * list (N * list sstate)) : acct :=
  mkA (a_auto a) (fst d) (snd d) (fst d) (snd d) [] [] [] [] [] (a_iqctr a) (a_log a).

(* the durable states the store passes through while input k is handled, oldest first: the one before, then one per
   commit.  Between two commits the file shows the older one (a transaction not committed is rolled back when the
   database is opened again), so these are ALL the states a kill at a write boundary can leave behind *)
Definition durable_states (a : acct) (k : kin) : list (list (N * N) * list (N * list sstate)) :=
  (a_dids a, a_dsess a) :: rev (a_log (fst (step_nk (set_log a []) (kin_input k)))).

(* killed after the n-th commit (beyond the last one: the last state) *)
Definition kill_image (a : acct) (k : kin) (n : N) : acct :=
  let ds := durable_states a k in
  reborn a (nth (N.to_nat n) ds (last ds (a_dids a, a_dsess a))).

Definition step (a : acct) (i : input) : acct * list output :=
  match i with
  | IKill k n => (kill_image a k n, [])      (* whatever was put out before the kill is not modelled: see the notes *)
  | _ => step_nk a i
  end.

(* variant, shape of seeded defect C17-6 (connection in autocommit mode): saveIdentity's DELETE and INSERT are two
   transactions, the store passes through a state in which the contact has no row *)
Definition save_identity_nonatomic_states (a : acct) (c k : N) : list (list (N * N) * list (N * list sstate)) :=
  [ (a_dids a, a_dsess a); (remove_key c (a_ids a), a_sess a); (save_identity (a_ids a) c k, a_sess a) ].

(* a run: state and outputs after each input *)
Fixpoint run (a : acct) (ins : list input) : acct * list (list output) :=
  match ins with
  | [] => (a, [])
  | i :: r =>
    let '(a1, o) := step a i in
    let '(a2, os) := run a1 r in (a2, o :: os)
  end.

Fixpoint states (a : acct) (ins : list input) : list acct :=
  match ins with
  | [] => []
  | i :: r => let a1 := fst (step a i) in a1 :: states a1 r
  end.
