(* C17 - proofs about the account machine of C17Model.v. *)
From YV Require Import Common.Tac C17.C17Model.
Local Open Scope N_scope.

(* ---------- association lists ---------- *)
Lemma lookup_remove_same {A} k (l : list (N * A)) : lookup k (remove_key k l) = None.
Proof.
  induction l as [|[k' v] l IH]; cbn [remove_key lookup]; auto.
  destruct (k' =? k) eqn:E; auto. cbn [lookup]. rewrite E. auto.
Qed.

Lemma lookup_remove_other {A} k k0 (l : list (N * A)) : k <> k0 -> lookup k0 (remove_key k l) = lookup k0 l.
Proof.
  intros Hne. induction l as [|[k' v] l IH]; cbn [remove_key lookup]; auto.
  destruct (k' =? k) eqn:E.
  - apply N.eqb_eq in E. subst k'. destruct (k =? k0) eqn:E2; auto. apply N.eqb_eq in E2. congruence.
  - cbn [lookup]. destruct (k' =? k0); auto.
Qed.

Lemma lookup_upd_same {A} k (v : A) l : lookup k (upd k v l) = Some v.
Proof. unfold upd. cbn [lookup]. rewrite N.eqb_refl. auto. Qed.

Lemma lookup_upd_other {A} k k0 (v : A) l : k <> k0 -> lookup k0 (upd k v l) = lookup k0 l.
Proof.
  intros Hne. unfold upd. cbn [lookup]. destruct (k =? k0) eqn:E.
  - apply N.eqb_eq in E. congruence.
  - apply lookup_remove_other; auto.
Qed.

Lemma lookup_upd {A} k k0 (v : A) l :
  lookup k0 (upd k v l) = if k =? k0 then Some v else lookup k0 l.
Proof.
  destruct (k =? k0) eqn:E.
  - apply N.eqb_eq in E. subst. apply lookup_upd_same.
  - apply lookup_upd_other. apply N.eqb_neq. auto.
Qed.

(* ---------- projections of the setters ---------- *)
Lemma ids_set_sess a s : a_ids (set_sess a s) = a_ids a. Proof. reflexivity. Qed.
Lemma ids_set_sentq a s : a_ids (set_sentq a s) = a_ids a. Proof. reflexivity. Qed.
Lemma ids_set_pend a s : a_ids (set_pend a s) = a_ids a. Proof. reflexivity. Qed.
Lemma ids_set_retries a s : a_ids (set_retries a s) = a_ids a. Proof. reflexivity. Qed.
Lemma ids_set_iqs a s n : a_ids (set_iqs a s n) = a_ids a. Proof. reflexivity. Qed.
Lemma ids_set_skip a s : a_ids (set_skip a s) = a_ids a. Proof. reflexivity. Qed.
Lemma ids_set_ids a s : a_ids (set_ids a s) = s. Proof. reflexivity. Qed.
Lemma sess_set_sess a s : a_sess (set_sess a s) = s. Proof. reflexivity. Qed.
Lemma sess_set_sentq a s : a_sess (set_sentq a s) = a_sess a. Proof. reflexivity. Qed.
Lemma sess_set_pend a s : a_sess (set_pend a s) = a_sess a. Proof. reflexivity. Qed.
Lemma sess_set_retries a s : a_sess (set_retries a s) = a_sess a. Proof. reflexivity. Qed.
Lemma sess_set_iqs a s n : a_sess (set_iqs a s n) = a_sess a. Proof. reflexivity. Qed.
Lemma sess_set_skip a s : a_sess (set_skip a s) = a_sess a. Proof. reflexivity. Qed.
Lemma sess_set_ids a s : a_sess (set_ids a s) = a_sess a. Proof. reflexivity. Qed.
Lemma auto_set_sess a s : a_auto (set_sess a s) = a_auto a. Proof. reflexivity. Qed.
Lemma auto_set_sentq a s : a_auto (set_sentq a s) = a_auto a. Proof. reflexivity. Qed.
Lemma auto_set_pend a s : a_auto (set_pend a s) = a_auto a. Proof. reflexivity. Qed.
Lemma auto_set_retries a s : a_auto (set_retries a s) = a_auto a. Proof. reflexivity. Qed.
Lemma auto_set_iqs a s n : a_auto (set_iqs a s n) = a_auto a. Proof. reflexivity. Qed.
Lemma auto_set_skip a s : a_auto (set_skip a s) = a_auto a. Proof. reflexivity. Qed.
Lemma auto_set_ids a s : a_auto (set_ids a s) = a_auto a. Proof. reflexivity. Qed.
Lemma ids_commit a : a_ids (commit a) = a_ids a. Proof. reflexivity. Qed.
Lemma sess_commit a : a_sess (commit a) = a_sess a. Proof. reflexivity. Qed.
Lemma auto_commit a : a_auto (commit a) = a_auto a. Proof. reflexivity. Qed.
Lemma ids_store_identity a c k : a_ids (store_identity a c k) = save_identity (a_ids a) c k. Proof. reflexivity. Qed.
Lemma sess_store_identity a c k : a_sess (store_identity a c k) = a_sess a. Proof. reflexivity. Qed.
Lemma auto_store_identity a c k : a_auto (store_identity a c k) = a_auto a. Proof. reflexivity. Qed.
Lemma ids_store_session a c r : a_ids (store_session a c r) = a_ids a. Proof. reflexivity. Qed.
Lemma sess_store_session a c r : a_sess (store_session a c r) = upd c r (a_sess a). Proof. reflexivity. Qed.
Lemma auto_store_session a c r : a_auto (store_session a c r) = a_auto a. Proof. reflexivity. Qed.
#[export] Hint Rewrite ids_commit sess_commit auto_commit ids_store_identity sess_store_identity auto_store_identity
  ids_store_session sess_store_session auto_store_session : acct.
#[export] Hint Rewrite ids_set_sess ids_set_sentq ids_set_pend ids_set_retries ids_set_iqs ids_set_skip ids_set_ids
  sess_set_sess sess_set_sentq sess_set_pend sess_set_retries sess_set_iqs sess_set_skip sess_set_ids
  auto_set_sess auto_set_sentq auto_set_pend auto_set_retries auto_set_iqs auto_set_skip auto_set_ids : acct.

Lemma record_of_set_ids a s c : record_of (set_ids a s) c = record_of a c. Proof. reflexivity. Qed.
Lemma record_of_set_sentq a s c : record_of (set_sentq a s) c = record_of a c. Proof. reflexivity. Qed.
Lemma record_of_set_pend a s c : record_of (set_pend a s) c = record_of a c. Proof. reflexivity. Qed.
Lemma record_of_set_retries a s c : record_of (set_retries a s) c = record_of a c. Proof. reflexivity. Qed.
Lemma record_of_set_iqs a s n c : record_of (set_iqs a s n) c = record_of a c. Proof. reflexivity. Qed.
Lemma record_of_set_skip a s c : record_of (set_skip a s) c = record_of a c. Proof. reflexivity. Qed.
Lemma record_of_commit a c : record_of (commit a) c = record_of a c. Proof. reflexivity. Qed.
Lemma record_of_store_identity a c0 k c : record_of (store_identity a c0 k) c = record_of a c. Proof. reflexivity. Qed.
#[export] Hint Rewrite record_of_commit record_of_store_identity : acct.
#[export] Hint Rewrite record_of_set_ids record_of_set_sentq record_of_set_pend record_of_set_retries
  record_of_set_iqs record_of_set_skip : acct.

(* =====================================================================================================
   The invariant.  G a a' : the step from a to a' kept the auto-trust flag and, when it is off,
   (1) every remembered key is still the remembered key,
   (2) if every session state of a was built for the remembered key of its contact, so is every state of a'. *)
Definition pins_kept (a a' : acct) : Prop :=
  forall c k, lookup c (a_ids a) = Some k -> lookup c (a_ids a') = Some k.

Definition tagged (a : acct) : Prop :=
  forall c r s, lookup c (a_sess a) = Some r -> In s r -> lookup c (a_ids a) = Some (s_ident s).

(* (0) durability: nothing the process works with is missing from the committed tables - a restart loses nothing *)
Definition durable (a : acct) : Prop := a_dids a = a_ids a /\ a_dsess a = a_sess a.

(* (0') every durable state the store has passed through since a - the ghost log grows by one entry per commit -
   keeps the keys remembered in a (auto-trust off): whatever write boundary the process is killed at, no pin is lost *)
Definition dstate := (list (N * N) * list (N * list sstate))%type.

Definition goodd (a : acct) (d : dstate) : Prop :=
  a_auto a = false -> durable a -> forall c k, lookup c (a_ids a) = Some k -> lookup c (fst d) = Some k.

Definition logged (a a' : acct) : Prop := exists new, a_log a' = new ++ a_log a /\ Forall (goodd a) new.

Definition G (a a' : acct) : Prop :=
  ((a_auto a' = a_auto a /\ logged a a') /\ (durable a -> durable a')) /\
  (a_auto a = false -> durable a -> pins_kept a a' /\ (tagged a -> tagged a')).

Lemma logged_refl a : logged a a.
Proof. exists []. split; [reflexivity | constructor]. Qed.

Lemma logged_same a a' : a_log a' = a_log a -> logged a a'.
Proof. intros H. exists []. split; [exact H | constructor]. Qed.

Lemma logged_trans a b c :
  a_auto b = a_auto a -> (durable a -> durable b) -> (a_auto a = false -> durable a -> pins_kept a b) ->
  logged a b -> logged b c -> logged a c.
Proof.
  intros HA HD HP [n1 [E1 F1]] [n2 [E2 F2]]. exists (n2 ++ n1). split; [rewrite E2, E1; apply app_assoc|].
  apply Forall_app. split; [|exact F1].
  eapply Forall_impl; [|exact F2]. intros d Hg Hf Hd x k H.
  apply Hg; [congruence | auto | apply (HP Hf Hd), H].
Qed.

Lemma logged_auto a a' : a_auto a = true -> (exists new, a_log a' = new ++ a_log a) -> logged a a'.
Proof.
  intros Ht [new E]. exists new. split; [exact E|]. apply Forall_forall. intros d _ Hf. congruence.
Qed.

Lemma G_refl a : G a a.
Proof. split; [split; [split; [reflexivity | apply logged_refl] | auto]|]. intros _ _. split; [intros c k H; exact H | auto]. Qed.

Lemma G_trans a b c : G a b -> G b c -> G a c.
Proof.
  intros [[[A1 L1] D1] B1] [[[A2 L2] D2] B2]. split; [split; [split; [congruence|] | auto]|].
  - eapply logged_trans; eauto. intros Hf Hd. apply (B1 Hf Hd).
  - intros Hf Hd.
    destruct (B1 Hf Hd) as [P1 T1]. assert (Hb : a_auto b = false) by congruence.
    destruct (B2 Hb (D1 Hd)) as [P2 T2]. split; [intros x k H; apply P2, P1, H | auto].
Qed.

Lemma durable_commit a : durable (commit a).
Proof. split; reflexivity. Qed.

(* G only looks at the flag, the two working tables, durability and the log *)
Lemma G_view a b b' :
  G a b -> a_auto b' = a_auto b -> a_ids b' = a_ids b -> a_sess b' = a_sess b -> (durable a -> durable b') ->
  logged a b' -> G a b'.
Proof.
  intros [[[A L] D] B] HA HI HS HD HL. split; [split; [split; [congruence | exact HL] | exact HD]|].
  intros Hf Hd. destruct (B Hf Hd) as [P T]. split.
  - intros c k H. rewrite HI. apply P, H.
  - intros Ta c r s H1 H2. rewrite HI. rewrite HS in H1. eapply T; eauto.
Qed.

(* a change that touches no table *)
Lemma G_same a a' :
  a_auto a' = a_auto a -> a_ids a' = a_ids a -> a_sess a' = a_sess a ->
  a_dids a' = a_dids a -> a_dsess a' = a_dsess a -> a_log a' = a_log a -> G a a'.
Proof.
  intros HA HI HS HDI HDS HL. apply (G_view a a a' (G_refl a)); auto.
  - intros [D1 D2]. split; congruence.
  - apply logged_same, HL.
Qed.

Lemma trusted_save_kept ids c k :
  trusted ids c k = true -> forall c0 k0, lookup c0 ids = Some k0 -> lookup c0 (save_identity ids c k) = Some k0.
Proof.
  intros Ht c0 k0 H. unfold save_identity. rewrite lookup_upd. destruct (c =? c0) eqn:E; auto.
  apply N.eqb_eq in E. subst c0. unfold trusted in Ht. rewrite H in Ht. apply N.eqb_eq in Ht. congruence.
Qed.

Lemma goodd_same_ids a (d : dstate) : fst d = a_ids a -> goodd a d.
Proof. intros E _ _ c k H. rewrite E. exact H. Qed.

Lemma logged_store_session a c r : logged a (store_session a c r).
Proof.
  exists [(a_ids a, upd c r (a_sess a))]. split; [reflexivity|]. constructor; [|constructor].
  apply goodd_same_ids. reflexivity.
Qed.

Lemma logged_store_identity a c k : trusted (a_ids a) c k = true -> logged a (store_identity a c k).
Proof.
  intros Ht. exists [(save_identity (a_ids a) c k, a_sess a)]. split; [reflexivity|]. constructor; [|constructor].
  intros _ _ c0 k0 H. cbn [fst]. apply trusted_save_kept; auto.
Qed.

(* session stored, then identity saved (bundle) / identity saved, then session stored (first message): two commits *)
Lemma logged_session_identity a c r k :
  trusted (a_ids a) c k = true -> logged a (store_identity (store_session a c r) c k).
Proof.
  intros Ht. exists [(save_identity (a_ids a) c k, upd c r (a_sess a)); (a_ids a, upd c r (a_sess a))].
  split; [reflexivity|]. constructor; [|constructor; [|constructor]].
  - intros _ _ c0 k0 H. cbn [fst]. apply trusted_save_kept; auto.
  - apply goodd_same_ids. reflexivity.
Qed.

Lemma logged_identity_session a c r k :
  trusted (a_ids a) c k = true -> logged a (store_session (store_identity a c k) c r).
Proof.
  intros Ht. exists [(save_identity (a_ids a) c k, upd c r (a_sess a)); (save_identity (a_ids a) c k, a_sess a)].
  split; [reflexivity|]. constructor; [|constructor; [|constructor]];
    intros _ _ c0 k0 H; cbn [fst]; apply trusted_save_kept; auto.
Qed.

Lemma record_of_in a c s : In s (record_of a c) -> exists r, lookup c (a_sess a) = Some r /\ In s r.
Proof. unfold record_of. destruct (lookup c (a_sess a)) eqn:E; [eauto | intros []]. Qed.

(* Installing for contact c a record whose states are all built for key k or inherit the identity of a state
   c's record already had, together with pinning k, keeps G provided k was trusted. *)
Lemma G_install a c k r :
  trusted (a_ids a) c k = true ->
  (forall s, In s r -> s_ident s = k \/ exists s0, In s0 (record_of a c) /\ s_ident s0 = s_ident s) ->
  G a (store_identity (store_session a c r) c k).
Proof.
  intros Ht Hr. split; [split; [split; [reflexivity | apply logged_session_identity, Ht] | intros _; apply durable_commit]|].
  intros _ _. split.
  - intros c0 k0 H. autorewrite with acct. apply trusted_save_kept; auto.
  - intros T c0 r0 s H1 H2. autorewrite with acct in *. unfold save_identity. rewrite lookup_upd.
    rewrite lookup_upd in H1. destruct (c =? c0) eqn:E.
    + apply N.eqb_eq in E. subst c0. apply Some_inj in H1. subst r0.
      destruct (Hr s H2) as [Hk | [s0 [Hin Hid]]]; [congruence|].
      apply record_of_in in Hin. destruct Hin as [r1 [L1 I1]]. specialize (T c r1 s0 L1 I1).
      unfold trusted in Ht. rewrite T in Ht. apply N.eqb_eq in Ht. congruence.
    + eapply T; eauto.
Qed.

(* Replacing c's record by states it already had (possibly with counters changed) keeps G. *)
Lemma G_shuffle a c r :
  (forall s, In s r -> exists s0, In s0 (record_of a c) /\ s_ident s0 = s_ident s) ->
  G a (store_session a c r).
Proof.
  intros Hr. split; [split; [split; [reflexivity | apply logged_store_session] | intros _; apply durable_commit]|].
  intros _ _. split.
  - intros c0 k0 H. exact H.
  - intros T c0 r0 s H1 H2. autorewrite with acct in *. rewrite lookup_upd in H1.
    destruct (c =? c0) eqn:E.
    + apply N.eqb_eq in E. subst c0. apply Some_inj in H1. subst r0.
      destruct (Hr s H2) as [s0 [Hin Hid]]. apply record_of_in in Hin. destruct Hin as [r1 [L1 I1]].
      rewrite <- Hid. eapply T; eauto.
    + eapply T; eauto.
Qed.

Lemma in_drop_state sid r s : In s (drop_state sid r) -> In s r.
Proof.
  induction r as [|x r IH]; cbn [drop_state]; auto.
  destruct (s_sid x =? sid); cbn [In]; intuition.
Qed.

Lemma find_state_in sid r s : find_state sid r = Some s -> In s r.
Proof.
  induction r as [|x r IH]; cbn [find_state]; [discriminate|].
  destruct (s_sid x =? sid); intros H; [apply Some_inj in H; subst; left; auto | right; auto].
Qed.

Lemma decrypt_record_states r sid n cor p r' res :
  decrypt_record r sid n cor p = (Some r', res) ->
  forall s, In s r' -> exists s0, In s0 r /\ s_ident s0 = s_ident s.
Proof.
  unfold decrypt_record. destruct (find_state sid r) as [st|] eqn:F; [|discriminate].
  destruct (memN n (s_seen st)); [discriminate|]. destruct cor; [discriminate|].
  intros H. apply pair_inj in H. destruct H as [H _]. apply Some_inj in H. subst r'.
  intros s [Hs | Hs].
  - subst s. exists st. split; [eapply find_state_in; eauto | reflexivity].
  - exists s. split; [eapply in_drop_state; eauto | reflexivity].
Qed.

(* ---------- python-axolotl operations ---------- *)
Lemma G_process_bundle a c k sid a' : process_bundle a c k sid = Some a' -> G a a'.
Proof.
  unfold process_bundle, build_session. destruct (trusted (a_ids a) c k) eqn:Ht; [|discriminate].
  intros H. apply Some_inj in H. subst a'. autorewrite with acct.
  apply G_install; auto. intros s [Hs | Hs]; [left; subst; reflexivity | right; exists s; auto].
Qed.

Lemma G_decrypt a c e : G a (fst (decrypt a c e)).
Proof.
  unfold decrypt. destruct (e_kind e).
  - (* prekey message *)
    destruct (trusted (a_ids a) c (e_ident e)) eqn:Ht; [|apply G_refl].
    set (r := record_of a c).
    set (have := match find_state (e_sid e) r with Some _ => true | None => false end).
    destruct (negb have && negb (e_pkok e)); [apply G_refl|].
    set (r1 := if have then r else new_state (e_sid e) (e_ident e) false :: r).
    assert (Hr1 : forall s, In s r1 -> s_ident s = e_ident e \/ In s r).
    { intros s Hs. unfold r1 in Hs. destruct have; [right; exact Hs|].
      destruct Hs as [Hs | Hs]; [left; subst; reflexivity | right; exact Hs]. }
    destruct (decrypt_record r1 (e_sid e) (e_n e) (e_corrupt e) (e_payload e)) as [[r'|] res] eqn:D;
      cbn [fst].
    + apply (G_view a (store_identity (store_session a c r') c (e_ident e))); try reflexivity;
        [|intros _; apply durable_commit | apply logged_identity_session, Ht].
      apply (G_install a c (e_ident e) r'); auto.
      intros s Hs. destruct (decrypt_record_states _ _ _ _ _ _ _ D s Hs) as [s0 [I0 E0]].
      destruct (Hr1 s0 I0) as [Hk | Hin]; [left; congruence | right; exists s0; auto].
    + (* identity saved, record not stored *)
      split; [split; [split; [reflexivity | apply logged_store_identity, Ht] | intros _; apply durable_commit]|].
      intros _ _. split.
      * intros c0 k0 H. autorewrite with acct. apply trusted_save_kept; auto.
      * intros T c0 r0 s H1 H2. autorewrite with acct in *. unfold save_identity. rewrite lookup_upd.
        destruct (c =? c0) eqn:E; [|eapply T; eauto].
        apply N.eqb_eq in E. subst c0. specialize (T c r0 s H1 H2).
        unfold trusted in Ht. rewrite T in Ht. apply N.eqb_eq in Ht. congruence.
  - destruct (record_of a c) as [|s0 r0] eqn:R; [apply G_refl|].
    destruct (decrypt_record (s0 :: r0) (e_sid e) (e_n e) (e_corrupt e) (e_payload e)) as [[r'|] res] eqn:D;
      cbn [fst]; [|apply G_refl].
    apply G_shuffle. rewrite R. eapply decrypt_record_states; eauto.
Qed.

(* =====================================================================================================
   Outputs: every enc stanza produced names a session state built for the remembered key. *)
Definition outs_ok (a' : acct) (os : list output) : Prop :=
  forall c m k sid n ident, In (OMsg c m k sid n ident) os -> lookup c (a_ids a') = Some ident.

Definition S (a : acct) (r : acct * list output) : Prop :=
  G a (fst r) /\ (a_auto a = false -> durable a -> tagged a -> outs_ok (fst r) (snd r)).

Lemma G_auto_true a a' :
  a_auto a = true -> a_auto a' = true -> (durable a -> durable a') -> (exists new, a_log a' = new ++ a_log a) -> G a a'.
Proof.
  intros H1 H2 HD HL. split; [split; [split; [congruence | apply logged_auto; auto] | exact HD]|]. intros H. congruence.
Qed.

Lemma outs_ok_nil a : outs_ok a []. Proof. intros c m k sid n ident []. Qed.

Lemma S_noout a a' os :
  G a a' -> (forall c m k sid n ident, ~ In (OMsg c m k sid n ident) os) -> S a (a', os).
Proof. intros HG Hn. split; [exact HG|]. intros _ _ _ c m k sid n ident H. exfalso. eapply Hn; eauto. Qed.

Lemma S_seq a a1 o1 a2 o2 : S a (a1, o1) -> S a1 (a2, o2) -> S a (a2, o1 ++ o2).
Proof.
  intros [G1 O1] [G2 O2]. cbn [fst snd] in *. split; [eapply G_trans; eauto|].
  intros Hf Hd T. cbn [fst snd]. destruct G1 as [[[A1 L1] D1] B1]. destruct (B1 Hf Hd) as [P1 T1].
  assert (Hf1 : a_auto a1 = false) by congruence.
  destruct G2 as [[[A2 L2] D2] B2]. destruct (B2 Hf1 (D1 Hd)) as [P2 T2].
  intros c m k sid n ident Hin. apply in_app_or in Hin. destruct Hin as [Hin | Hin].
  - apply P2. eapply O1; eauto.
  - eapply (O2 Hf1 (D1 Hd) (T1 T)); eauto.
Qed.

Lemma S_G a a1 r : G a a1 -> S a1 r -> S a r.
Proof.
  intros G1 [G2 O2]. split; [eapply G_trans; eauto|]. intros Hf Hd T.
  destruct G1 as [[[A1 L1] D1] B1]. destruct (B1 Hf Hd) as [P1 T1]. apply O2; [congruence | auto | auto].
Qed.

Lemma S_then_G a a1 os a2 : S a (a1, os) -> G a1 a2 -> S a (a2, os).
Proof.
  intros HS HG. replace os with (os ++ []) by apply app_nil_r.
  eapply S_seq; [exact HS|]. apply S_noout; [exact HG | intros c m k sid n ident []].
Qed.

Ltac no_omsg := let H := fresh in intros ? ? ? ? ? ? H; cbn [In] in H; intuition discriminate.

Lemma S_send_to_contact a c m : S a (send_to_contact a c m).
Proof.
  unfold send_to_contact, encrypt. destruct (record_of a c) as [|s t] eqn:R.
  - apply S_noout; [apply G_refl | no_omsg].
  - split; cbn [fst snd].
    + eapply G_trans; [|apply G_same; reflexivity].
      apply G_shuffle. rewrite R. intros s1 [H | H].
      * subst s1. exists s. split; [left; auto | reflexivity].
      * exists s1. split; [right; auto | reflexivity].
    + intros Hf Hd T c0 m0 k sid n ident [H | []]. injection H as -> _ _ _ _ <-.
      autorewrite with acct.
      assert (Hin : In s (record_of a c0)) by (rewrite R; left; auto).
      apply record_of_in in Hin. destruct Hin as [r1 [L1 I1]]. eapply T; eauto.
Qed.

Lemma S_get_keys a c k : S a (get_keys a c k).
Proof. unfold get_keys. apply S_noout; [apply G_same; reflexivity | no_omsg]. Qed.

Lemma S_plaintext_send a c m : S a (plaintext_send a c m).
Proof. unfold plaintext_send. destruct (session_exists a c); [apply S_send_to_contact | apply S_get_keys]. Qed.

Lemma S_app_send a c m : S a (app_send a c m).
Proof.
  unfold app_send. destruct (memN c (a_skip a)); [|apply S_plaintext_send].
  apply S_noout; [apply G_refl | no_omsg].
Qed.

Lemma S_handle_enc1 a c m e : S a (handle_enc1 a c m e).
Proof.
  unfold handle_enc1. pose proof (G_decrypt a c e) as HG.
  destruct (decrypt a c e) as [a1 res]. cbn [fst] in HG.
  destruct res.
  - apply S_noout; [|no_omsg]. eapply G_trans; [exact HG | apply G_same; reflexivity].
  - eapply (S_G a (set_pend a1 _)); [eapply G_trans; [exact HG | apply G_same; reflexivity] | apply S_get_keys].
  - unfold bump_retry. apply S_noout; [|no_omsg]. eapply G_trans; [exact HG | apply G_same; reflexivity].
  - unfold bump_retry. apply S_noout; [|no_omsg]. eapply G_trans; [exact HG | apply G_same; reflexivity].
  - apply S_noout; [exact HG | no_omsg].
  - apply S_noout; [exact HG | no_omsg].
Qed.

Lemma auto_decrypt a c e : a_auto (fst (decrypt a c e)) = a_auto a.
Proof. destruct (G_decrypt a c e) as [[[H _] _] _]. exact H. Qed.

Lemma S_handle_enc a c m e : S a (handle_enc a c m e).
Proof.
  unfold handle_enc. pose proof (G_decrypt a c e) as HG. pose proof (auto_decrypt a c e) as HA.
  destruct (decrypt a c e) as [a1 res] eqn:D. cbn [fst] in HG, HA.
  destruct res; try apply S_handle_enc1.
  destruct (a_auto a) eqn:Hauto.
  - eapply S_G; [|apply S_handle_enc1]. apply G_auto_true; [exact Hauto | autorewrite with acct; congruence | intros _; apply durable_commit|].
    destruct HG as [[[_ [n [E _]]] _] _]. eexists (_ :: n). unfold store_identity, commit, set_ids. cbn [a_log a_ids a_sess]. rewrite E. reflexivity.
  - apply S_noout; [exact HG | no_omsg].
Qed.

Lemma S_process_pending l : forall a c, S a (process_pending a c l).
Proof.
  induction l as [|[m e] l IH]; intros a c; cbn [process_pending].
  - apply S_noout; [apply G_refl | no_omsg].
  - pose proof (S_handle_enc a c m e) as H1. destruct (handle_enc a c m e) as [a1 o1].
    pose proof (IH a1 c) as H2. destruct (process_pending a1 c l) as [a2 o2].
    eapply S_seq; eauto.
Qed.

Lemma G_create_session a c k sid : G a (fst (create_session a c k sid)).
Proof.
  unfold create_session. destruct (process_bundle a c k sid) as [a'|] eqn:P; cbn [fst].
  - eapply G_process_bundle; eauto.
  - destruct (a_auto a) eqn:Hauto; cbn [fst]; [|apply G_refl].
    apply G_auto_true; [exact Hauto | unfold build_session; autorewrite with acct; exact Hauto
                        | intros _; apply durable_commit | eexists (_ :: _ :: _ :: nil); reflexivity].
Qed.

Lemma S_keys_result a k res : S a (keys_result a k res).
Proof.
  unfold keys_result.
  set (c := cont_contact k).
  destruct (lookup c res) as [[ident sid]|].
  2:{ destruct k; apply S_noout; (apply G_same; reflexivity) || no_omsg. }
  pose proof (G_create_session a c ident sid) as HG.
  destruct (create_session a c ident sid) as [a1 ok]. cbn [fst] in HG.
  destruct k as [c0 m | c0 m t | c0 | c0].
  4:{ apply S_noout; [exact HG | no_omsg]. }
  - destruct ok; [eapply S_G; [exact HG | apply S_send_to_contact] | apply S_noout; [exact HG | no_omsg]].
  - destruct ok; [eapply S_G; [exact HG | apply S_plaintext_send] | apply S_noout; [exact HG | no_omsg]].
  - destruct ok; [|apply S_noout; [exact HG | no_omsg]].
    destruct (lookup c (a_pend a1)) as [l|]; [|apply S_noout; [exact HG | no_omsg]].
    pose proof (S_process_pending l a1 c) as HP. destruct (process_pending a1 c l) as [a2 o].
    eapply S_G; [exact HG|]. eapply S_then_G; [exact HP | apply G_same; reflexivity].
Qed.

Lemma S_on_receipt a c m retry : S a (on_receipt a c m retry).
Proof.
  unfold on_receipt. destruct (take_sent m (a_sentq a)) as [[[m' to]|] q'].
  - destruct retry.
    + eapply S_G; [|apply S_get_keys]. apply G_same; reflexivity.
    + apply S_noout; [apply G_same; reflexivity | no_omsg].
  - apply S_noout; [apply G_refl | no_omsg].
Qed.

Lemma G_restart a : G a (restart a).
Proof.
  split; [split; [split; [reflexivity | apply logged_same; reflexivity] | intros _; split; reflexivity]|].
  intros _ [DI DS]. split.
  - intros c k H. cbn [restart a_ids]. rewrite DI. exact H.
  - intros T c r s H1 H2. cbn [restart a_ids a_sess] in *. rewrite DI. rewrite DS in H1. eapply T; eauto.
Qed.

Lemma S_step_nk a i : i <> IWipe -> S a (step_nk a i).
Proof.
  intros Hw. destruct i; cbn [step_nk].
  - apply S_app_send.
  - destruct (lookup iq (a_iqs a)) as [k|].
    + eapply S_G; [|apply S_keys_result]. apply G_same; reflexivity.
    + apply S_noout; [apply G_refl | no_omsg].
  - apply S_handle_enc.
  - apply S_on_receipt.
  - apply S_noout; [apply G_restart | no_omsg].
  - congruence.
  - unfold on_notify, get_keys. apply S_noout; [apply G_same; reflexivity | no_omsg].
  - apply S_noout; [apply G_refl | no_omsg].
  - apply S_noout; [|no_omsg]. unfold read_fault. destruct k; try apply G_refl.
    destruct (lookup iq (a_iqs a)); [apply G_same; reflexivity | apply G_refl].
Qed.

Definition is_kill (i : input) : bool := match i with IKill _ _ => true | _ => false end.

Lemma step_not_kill a i : is_kill i = false -> step a i = step_nk a i.
Proof. destruct i; cbn [is_kill step]; intros H; try reflexivity. discriminate. Qed.

Lemma S_step a i : i <> IWipe -> is_kill i = false -> S a (step a i).
Proof. intros Hw Hk. rewrite step_not_kill; auto. apply S_step_nk, Hw. Qed.

Definition no_wipe (ins : list input) : Prop := Forall (fun i => i <> IWipe) ins.
Definition no_kill (ins : list input) : Prop := Forall (fun i => is_kill i = false) ins.

Lemma run_G ins : forall a, no_wipe ins -> no_kill ins -> G a (fst (run a ins)).
Proof.
  induction ins as [|i r IH]; intros a Hw Hk; cbn [run]; [apply G_refl|].
  inversion Hw as [|? ? Hi Hr]; subst. inversion Hk as [|? ? Hki Hkr]; subst.
  pose proof (S_step a i Hi Hki) as [HG _]. destruct (step a i) as [a1 o]. cbn [fst] in HG.
  specialize (IH a1 Hr Hkr). destruct (run a1 r) as [a2 os]. cbn [fst] in *. eapply G_trans; eauto.
Qed.

Lemma tagged_init auto : tagged (init auto).
Proof. intros c r s H. cbn in H. discriminate. Qed.

Lemma durable_init auto : durable (init auto).
Proof. split; reflexivity. Qed.

(* =====================================================================================================
   Kills.  P = G without the session-tagging part: what holds across a kill at ANY write boundary of ANY input. *)
Definition P (a a' : acct) : Prop :=
  a_auto a' = a_auto a /\ (durable a -> durable a') /\ (a_auto a = false -> durable a -> pins_kept a a').

Lemma G_P a a' : G a a' -> P a a'.
Proof. intros [[[A _] D] B]. split; [exact A|]. split; [exact D|]. intros Hf Hd. apply (B Hf Hd). Qed.

Lemma P_refl a : P a a.
Proof. split; [reflexivity|]. split; [auto|]. intros _ _ c k H. exact H. Qed.

Lemma P_trans a b c : P a b -> P b c -> P a c.
Proof.
  intros [A1 [D1 B1]] [A2 [D2 B2]]. split; [congruence|]. split; [auto|]. intros Hf Hd x k H.
  apply B2; [congruence | auto | apply (B1 Hf Hd), H].
Qed.

Lemma last_in {A} (l : list A) d : l <> [] -> In (last l d) l.
Proof.
  induction l as [|x l IH]; [congruence|]. intros _. destruct l as [|y l]; [left; reflexivity|].
  right. apply IH. discriminate.
Qed.

Lemma nth_or_last_in {A} n (l : list A) d : l <> [] -> In (nth n l (last l d)) l.
Proof.
  intros Hl. destruct (nth_in_or_default n l (last l d)) as [H | H]; [exact H|]. rewrite H. apply last_in, Hl.
Qed.

(* every durable state the store passes through while a (non-kill) input is handled keeps the remembered keys *)
Lemma durable_states_good a k : durable a -> Forall (goodd a) (durable_states a k).
Proof.
  intros [DI DS]. unfold durable_states. constructor.
  - apply goodd_same_ids. cbn [fst]. exact DI.
  - assert (Hw : kin_input k <> IWipe) by (destruct k; discriminate).
    destruct (S_step_nk (set_log a []) (kin_input k) Hw) as [[[[_ [new [E F]]] _] _] _].
    cbn [set_log a_log] in E. rewrite app_nil_r in E. rewrite E.
    apply Forall_rev. eapply Forall_impl; [|exact F]. intros d Hg. exact Hg.
Qed.

Lemma kill_image_in a k n : In (nth (N.to_nat n) (durable_states a k) (last (durable_states a k) (a_dids a, a_dsess a)))
                               (durable_states a k).
Proof. apply nth_or_last_in. unfold durable_states. discriminate. Qed.

Lemma P_kill a k n : P a (kill_image a k n).
Proof.
  unfold kill_image. cbv zeta.
  set (d := nth (N.to_nat n) (durable_states a k) (last (durable_states a k) (a_dids a, a_dsess a))).
  split; [reflexivity|]. split; [intros _; split; reflexivity|].
  intros Hf Hd c key H. cbn [reborn a_ids].
  pose proof (durable_states_good a k Hd) as F. rewrite Forall_forall in F.
  apply (F d (kill_image_in a k n) Hf Hd), H.
Qed.

Lemma P_step a i : i <> IWipe -> P a (fst (step a i)).
Proof.
  intros Hw. destruct (is_kill i) eqn:K.
  - destruct i; try discriminate. cbn [step fst]. apply P_kill.
  - apply G_P. apply (S_step a i Hw K).
Qed.

Lemma run_P ins : forall a, no_wipe ins -> P a (fst (run a ins)).
Proof.
  induction ins as [|i r IH]; intros a Hw; cbn [run]; [apply P_refl|].
  inversion Hw as [|? ? Hi Hr]; subst.
  pose proof (P_step a i Hi) as HP. destruct (step a i) as [a1 o]. cbn [fst] in HP.
  specialize (IH a1 Hr). destruct (run a1 r) as [a2 os]. cbn [fst] in *. eapply P_trans; eauto.
Qed.

(* durability is kept by EVERY input: the account's own reinstall and kills included *)
Lemma durable_step a i : durable a -> durable (fst (step a i)).
Proof.
  intros Hd. assert (Hi : i = IWipe \/ i <> IWipe) by (destruct i; (left; reflexivity) || (right; discriminate)).
  destruct Hi as [-> | Hi]; [split; reflexivity|].
  destruct (P_step a i Hi) as [_ [D _]]. auto.
Qed.

Lemma durable_run ins : forall a, durable a -> durable (fst (run a ins)).
Proof.
  induction ins as [|i r IH]; intros a Hd; cbn [run]; [exact Hd|].
  pose proof (durable_step a i Hd) as H1. destruct (step a i) as [a1 o]. cbn [fst] in H1.
  specialize (IH a1 H1). destruct (run a1 r) as [a2 os]. exact IH.
Qed.

Lemma run_app : forall l1 l2 b, fst (run b (l1 ++ l2)) = fst (run (fst (run b l1)) l2).
Proof.
  induction l1 as [|i l1 IH]; intros l2 b; cbn [run app]; [reflexivity|].
  destruct (step b i) as [b1 o]. specialize (IH l2 b1).
  destruct (run b1 (l1 ++ l2)) as [x xs]. destruct (run b1 l1) as [y ys]. cbn [fst] in *.
  destruct (run y l2); cbn [fst] in *. exact IH.
Qed.

(* ---------- the theorems ---------- *)
(* 1. once pinned, the stored key of c never changes (auto-trust off) - ins may contain restarts AND kills at any write
   boundary of any input *)
Theorem pin_immutable_thm : forall a ins c k,
  a_auto a = false -> durable a -> no_wipe ins ->
  lookup c (a_ids a) = Some k -> lookup c (a_ids (fst (run a ins))) = Some k.
Proof.
  intros a ins c k Hf Hd Hw H. destruct (run_P ins a Hw) as [_ [_ B]]. apply (B Hf Hd), H.
Qed.

(* 2. every ciphertext produced for c is under a session state built for the pinned identity *)
Theorem no_encrypt_to_stranger_thm : forall auto pre i c m k sid n ident,
  auto = false -> no_wipe pre -> no_kill pre ->
  let a1 := fst (run (init auto) pre) in
  In (OMsg c m k sid n ident) (snd (step a1 i)) ->
  lookup c (a_ids (fst (step a1 i))) = Some ident.
Proof.
  intros auto pre i c m k sid n ident Hf Hw Hnk a1 Hin.
  destruct (run_G pre (init auto) Hw Hnk) as [[[A _] D] B]. fold a1 in A, B, D.
  assert (Hf0 : a_auto (init auto) = false) by (subst; reflexivity).
  destruct (B Hf0 (durable_init auto)) as [_ T]. specialize (T (tagged_init auto)).
  specialize (D (durable_init auto)).
  assert (Hf1 : a_auto a1 = false) by congruence.
  assert (Hi : i = IWipe \/ i <> IWipe) by (destruct i; (left; reflexivity) || (right; discriminate)).
  destruct Hi as [-> | Hi]; [cbn in Hin; contradiction|].
  destruct (is_kill i) eqn:K; [destruct i; try discriminate; cbn [step snd] in Hin; contradiction|].
  destruct (S_step a1 i Hi K) as [_ O]. eapply O; eauto.
Qed.

(* 3a. a bundle presenting a different identity: per-jid error, nothing sent, nothing changed *)
Theorem refused_bundle_thm : forall a iq res c m k k' sid,
  a_auto a = false -> lookup iq (a_iqs a) = Some (KSend c m) ->
  lookup c (a_ids a) = Some k -> lookup c res = Some (k', sid) -> k' <> k ->
  snd (step a (IKeys iq res)) = [OErr c] /\
  a_ids (fst (step a (IKeys iq res))) = a_ids a /\
  a_sess (fst (step a (IKeys iq res))) = a_sess a /\
  a_sentq (fst (step a (IKeys iq res))) = a_sentq a.
Proof.
  intros a iq res c m k k' sid Hf Hq Hp Hr Hne. cbn [step step_nk]. rewrite Hq.
  unfold keys_result. cbn [cont_contact]. rewrite Hr. unfold create_session, process_bundle. autorewrite with acct.
  unfold trusted. rewrite Hp. destruct (k =? k') eqn:E; [apply N.eqb_eq in E; congruence|].
  rewrite Hf. cbn [fst snd]. auto.
Qed.

Theorem refused_retry_bundle_thm : forall a iq res c m t k k' sid,
  a_auto a = false -> lookup iq (a_iqs a) = Some (KRetry c m t) ->
  lookup c (a_ids a) = Some k -> lookup c res = Some (k', sid) -> k' <> k ->
  snd (step a (IKeys iq res)) = [OErr c] /\
  a_ids (fst (step a (IKeys iq res))) = a_ids a /\
  a_sess (fst (step a (IKeys iq res))) = a_sess a.
Proof.
  intros a iq res c m t k k' sid Hf Hq Hp Hr Hne. cbn [step step_nk]. rewrite Hq.
  unfold keys_result. cbn [cont_contact]. rewrite Hr. unfold create_session, process_bundle. autorewrite with acct.
  unfold trusted. rewrite Hp. destruct (k =? k') eqn:E; [apply N.eqb_eq in E; congruence|].
  rewrite Hf. cbn [fst snd]. auto.
Qed.

(* 3b. a first message presenting a different identity is ignored: no output at all, state untouched *)
Theorem refused_first_message_thm : forall a c m e k,
  a_auto a = false -> lookup c (a_ids a) = Some k -> e_kind e = EPk -> e_ident e <> k ->
  step a (IMsg c m e) = (a, []).
Proof.
  intros a c m e k Hf Hp Hk Hne. cbn [step step_nk]. unfold handle_enc, decrypt. rewrite Hk.
  unfold trusted. rewrite Hp. destruct (k =? e_ident e) eqn:E; [apply N.eqb_eq in E; congruence|].
  rewrite Hf. reflexivity.
Qed.

Lemma record_of_upd_same b c r s : record_of (set_sess b (upd c r s)) c = r.
Proof. unfold record_of. autorewrite with acct. rewrite lookup_upd_same. reflexivity. Qed.

Lemma record_of_store_session_same b c r : record_of (store_session b c r) c = r.
Proof. unfold record_of. autorewrite with acct. rewrite lookup_upd_same. reflexivity. Qed.

(* 4a. auto-trust on: the new key of a bundle replaces the old one, the session is built and the message goes out *)
Theorem autotrust_bundle_replaces_thm : forall a iq res c m k' sid,
  a_auto a = true -> lookup iq (a_iqs a) = Some (KSend c m) -> lookup c res = Some (k', sid) ->
  lookup c (a_ids (fst (step a (IKeys iq res)))) = Some k' /\
  snd (step a (IKeys iq res)) = [OMsg c m EPk sid 0 k'].
Proof.
  intros a iq res c m k' sid Ht Hq Hr. cbn [step step_nk]. rewrite Hq. unfold keys_result. cbn [cont_contact]. rewrite Hr.
  set (a0 := set_iqs a (remove_key iq (a_iqs a)) (a_iqctr a)).
  assert (Hcs : exists b, fst (create_session a0 c k' sid) = build_session b c k' sid /\
                          snd (create_session a0 c k' sid) = true).
  { unfold create_session, process_bundle. destruct (trusted (a_ids a0) c k').
    - exists a0. auto.
    - replace (a_auto a0) with true by (symmetry; exact Ht). eexists. split; reflexivity. }
  destruct Hcs as [b [Hb Hok]]. destruct (create_session a0 c k' sid) as [a1 ok]. cbn [fst snd] in Hb, Hok.
  subst a1 ok. unfold send_to_contact, encrypt, build_session. autorewrite with acct.
  rewrite !record_of_store_session_same. cbn [new_state s_unack s_sid s_sent s_ident fst snd]. autorewrite with acct.
  split; [unfold save_identity; apply lookup_upd_same | reflexivity].
Qed.

(* 4b. auto-trust on: a first message with a new identity replaces the key and is delivered *)
Theorem autotrust_first_message_thm : forall a c m e,
  a_auto a = true -> e_kind e = EPk -> e_pkok e = true -> e_corrupt e = false ->
  find_state (e_sid e) (record_of a c) = None ->
  snd (step a (IMsg c m e)) = [ODeliver c m (e_payload e); OReceipt c m] /\
  lookup c (a_ids (fst (step a (IMsg c m e)))) = Some (e_ident e).
Proof.
  intros a c m e Ht Hk Hpk Hc Hfs. cbn [step step_nk].
  assert (Core : forall b, record_of b c = record_of a c -> trusted (a_ids b) c (e_ident e) = true ->
            snd (handle_enc1 b c m e) = [ODeliver c m (e_payload e); OReceipt c m] /\
            lookup c (a_ids (fst (handle_enc1 b c m e))) = Some (e_ident e)).
  { intros b Hrec Htr. unfold handle_enc1, decrypt. rewrite Hk, Htr, Hrec, Hfs, Hpk. cbn [negb andb].
    unfold decrypt_record. cbn [find_state new_state s_sid]. rewrite N.eqb_refl. cbn [s_seen memN].
    rewrite Hc. cbn [fst snd]. autorewrite with acct. split; [reflexivity|].
    unfold save_identity. apply lookup_upd_same. }
  unfold handle_enc. destruct (trusted (a_ids a) c (e_ident e)) eqn:Htr.
  - destruct (Core a eq_refl Htr) as [C1 C2].
    destruct (decrypt a c e) as [a1 res] eqn:D.
    assert (res = DOk (e_payload e)).
    { unfold decrypt in D. rewrite Hk, Htr, Hfs, Hpk in D. cbn [negb andb] in D.
      unfold decrypt_record in D. cbn [find_state new_state s_sid] in D. rewrite N.eqb_refl in D.
      cbn [s_seen memN] in D. rewrite Hc in D. apply pair_inj in D. destruct D; auto. }
    subst res. auto.
  - assert (D : decrypt a c e = (a, DUntrusted (e_ident e))).
    { unfold decrypt. rewrite Hk, Htr. reflexivity. }
    rewrite D, Ht. apply Core; [reflexivity|].
    autorewrite with acct. unfold trusted, save_identity. rewrite lookup_upd_same. apply N.eqb_refl.
Qed.

(* 4c. ... and messaging resumes: once the new key is the remembered one, the next key fetch for the queued
   message builds a session for the new identity and the message goes out under it *)
Theorem autotrust_resumes_thm : forall a iq res c m k' sid,
  lookup iq (a_iqs a) = Some (KRetry c m c) -> lookup c res = Some (k', sid) ->
  lookup c (a_ids a) = Some k' ->
  snd (step a (IKeys iq res)) = [OMsg c m EPk sid 0 k'].
Proof.
  intros a iq res c m k' sid Hq Hr Hp. cbn [step step_nk]. rewrite Hq. unfold keys_result. cbn [cont_contact]. rewrite Hr.
  unfold create_session, process_bundle, build_session. autorewrite with acct. unfold trusted. rewrite Hp, N.eqb_refl.
  unfold plaintext_send, session_exists, send_to_contact, encrypt.
  autorewrite with acct. rewrite !record_of_store_session_same.
  cbn [new_state s_unack s_sid s_sent s_ident snd]. reflexivity.
Qed.

(* 3c/6. the identity-change notification: the ack and a key request, nothing else; on the key answer the bundle is
   processed and NOTHING is sent.  Unknown contact: session built, identity remembered - and committed;
   different identity with auto-trust off: nothing at all changes (the error is dropped by the no-op callback) *)
Theorem notify_fetches_keys_thm : forall a c m,
  snd (step a (INotify c m)) = [ONotifAck c m; OGetKeys (a_iqctr a) c] /\
  lookup (a_iqctr a) (a_iqs (fst (step a (INotify c m)))) = Some (KNotify c) /\
  a_ids (fst (step a (INotify c m))) = a_ids a /\ a_sess (fst (step a (INotify c m))) = a_sess a.
Proof.
  intros a c m. cbn [step step_nk]. unfold on_notify, get_keys. cbn [fst snd]. autorewrite with acct.
  repeat split. cbn [set_iqs a_iqs lookup]. rewrite N.eqb_refl. reflexivity.
Qed.

Theorem notify_bundle_pins_thm : forall a iq res c k sid,
  lookup iq (a_iqs a) = Some (KNotify c) -> lookup c res = Some (k, sid) -> trusted (a_ids a) c k = true ->
  let a' := fst (step a (IKeys iq res)) in
  snd (step a (IKeys iq res)) = [] /\
  lookup c (a_ids a') = Some k /\ lookup c (a_dids a') = Some k /\
  record_of a' c = new_state sid k true :: record_of a c /\ durable a'.
Proof.
  intros a iq res c k sid Hq Hr Ht. cbn [step step_nk]. rewrite Hq. unfold keys_result. cbn [cont_contact]. rewrite Hr.
  unfold create_session, process_bundle. autorewrite with acct. rewrite Ht. cbn [fst snd].
  split; [reflexivity|]. unfold build_session.
  split; [autorewrite with acct; unfold save_identity; apply lookup_upd_same|].
  split; [cbn [store_identity commit a_dids]; autorewrite with acct; unfold save_identity; apply lookup_upd_same|].
  split; [|apply durable_commit].
  autorewrite with acct. rewrite record_of_store_session_same. reflexivity.
Qed.

Theorem refused_notify_bundle_thm : forall a iq res c k k' sid,
  a_auto a = false -> lookup iq (a_iqs a) = Some (KNotify c) ->
  lookup c (a_ids a) = Some k -> lookup c res = Some (k', sid) -> k' <> k ->
  step a (IKeys iq res) = (set_iqs a (remove_key iq (a_iqs a)) (a_iqctr a), []).
Proof.
  intros a iq res c k k' sid Hf Hq Hp Hr Hne. cbn [step step_nk]. rewrite Hq.
  unfold keys_result. cbn [cont_contact]. rewrite Hr. unfold create_session, process_bundle. autorewrite with acct.
  unfold trusted. rewrite Hp. destruct (k =? k') eqn:E; [apply N.eqb_eq in E; congruence|].
  rewrite Hf. reflexivity.
Qed.

(* 5. the pin is in the durable store.
   5a. every state the account can reach - by ANY history, its own reinstalls included, whichever path saved an
       identity (bundle for a send, bundle for a retry, bundle fetched after an identity-change notification, bundle
       fetched for a parked message, first message, auto-trust) - has everything it works with committed *)
Theorem reachable_durable_thm : forall auto ins, durable (fst (run (init auto) ins)).
Proof. intros auto ins. apply durable_run, durable_init. Qed.

(* 5b. hence: every identity (and session) the account has remembered is still remembered after a restart *)
Theorem survives_restart_thm : forall auto ins,
  let a := fst (run (init auto) ins) in
  a_ids (fst (step a IRestart)) = a_ids a /\ a_sess (fst (step a IRestart)) = a_sess a /\
  a_auto (fst (step a IRestart)) = a_auto a.
Proof.
  intros auto ins a. destruct (reachable_durable_thm auto ins) as [DI DS]. fold a in DI, DS.
  cbn [step step_nk fst restart a_ids a_sess a_auto]. auto.
Qed.

Theorem remembered_survives_restart_thm : forall auto ins c k,
  let a := fst (run (init auto) ins) in
  lookup c (a_ids a) = Some k -> lookup c (a_ids (fst (run (init auto) (ins ++ [IRestart])))) = Some k.
Proof.
  intros auto ins c k a H. rewrite run_app. fold a. cbn [run fst].
  destruct (survives_restart_thm auto ins) as [E _]. fold a in E. cbn [step step_nk fst] in E.
  cbn [step step_nk fst]. rewrite E. exact H.
Qed.

(* 5c. the same stated on one state: a restart of a durable state changes neither table nor the flag *)
Theorem restart_of_durable_thm : forall a, durable a ->
  a_ids (fst (step a IRestart)) = a_ids a /\ a_sess (fst (step a IRestart)) = a_sess a /\
  a_auto (fst (step a IRestart)) = a_auto a /\ durable (fst (step a IRestart)).
Proof. intros a [DI DS]. cbn [step step_nk fst restart a_ids a_sess a_auto]. repeat split; auto. Qed.

Theorem pin_enforced_after_restart_thm : forall a ins1 ins2 c k,
  a_auto a = false -> durable a -> no_wipe ins1 -> no_wipe ins2 ->
  lookup c (a_ids (fst (run a ins1))) = Some k ->
  let a' := fst (run a (ins1 ++ IRestart :: ins2)) in
  lookup c (a_ids a') = Some k /\ a_auto a' = false /\
  (forall m e, e_kind e = EPk -> e_ident e <> k -> step a' (IMsg c m e) = (a', [])) /\
  (forall iq res m k' sid, lookup iq (a_iqs a') = Some (KSend c m) -> lookup c res = Some (k', sid) -> k' <> k ->
     snd (step a' (IKeys iq res)) = [OErr c]) /\
  (forall iq res k' sid, lookup iq (a_iqs a') = Some (KNotify c) -> lookup c res = Some (k', sid) -> k' <> k ->
     step a' (IKeys iq res) = (set_iqs a' (remove_key iq (a_iqs a')) (a_iqctr a'), [])).
Proof.
  intros a ins1 ins2 c k Hf Hd H1 H2 Hp a'.
  assert (Hw : no_wipe (IRestart :: ins2)) by (constructor; [discriminate | exact H2]).
  assert (Ha1 : a_auto (fst (run a ins1)) = false).
  { destruct (run_P ins1 a H1) as [A _]. congruence. }
  assert (Hd1 : durable (fst (run a ins1))) by (apply durable_run; exact Hd).
  assert (Hk : lookup c (a_ids a') = Some k).
  { unfold a'. rewrite run_app. apply pin_immutable_thm; auto. }
  assert (Ha' : a_auto a' = false).
  { unfold a'. rewrite run_app. destruct (run_P (IRestart :: ins2) (fst (run a ins1)) Hw) as [A _]. congruence. }
  split; [exact Hk|]. split; [exact Ha'|]. split; [|split].
  - intros m e He Hne. eapply refused_first_message_thm; eauto.
  - intros iq res m k' sid Hq Hr Hne. eapply refused_bundle_thm; eauto.
  - intros iq res k' sid Hq Hr Hne. eapply refused_notify_bundle_thm; eauto.
Qed.

(* ---------- non-vacuity: the history observed on the real code, computed ---------- *)
(* contact 7 has key 1, reinstalls with key 2.  We (auto-trust on) hold a session for key 1, send message 3
   under it, receive a retry receipt: the key fetch replaces the key, builds a session for key 2 and message 3
   goes out as a prekey message under it. *)
Definition history_autotrust : list input :=
  [ IAppSend 7 1; IKeys 0 [(7, (1, 50))]; IMsg 7 2 (mkE EMsg 50 0 0 true false 2);
    IAppSend 7 3; IReceipt 7 3 true; IKeys 1 [(7, (2, 51))] ].

Example resume_history_autotrust :
  snd (run (init true) history_autotrust) =
  [ [OGetKeys 0 7]; [OMsg 7 1 EPk 50 0 1]; [ODeliver 7 2 2; OReceipt 7 2];
    [OMsg 7 3 EMsg 50 1 1]; [OGetKeys 1 7]; [OMsg 7 3 EPk 51 0 2] ]
  /\ lookup 7 (a_ids (fst (run (init true) history_autotrust))) = Some 2.
Proof. vm_compute. split; reflexivity. Qed.

(* the same history with auto-trust off: per-jid error, key 1 stays, nothing is sent for key 2 *)
Example refuse_history_no_autotrust :
  snd (run (init false) history_autotrust) =
  [ [OGetKeys 0 7]; [OMsg 7 1 EPk 50 0 1]; [ODeliver 7 2 2; OReceipt 7 2];
    [OMsg 7 3 EMsg 50 1 1]; [OGetKeys 1 7]; [OErr 7] ]
  /\ lookup 7 (a_ids (fst (run (init false) history_autotrust))) = Some 1.
Proof. vm_compute. split; reflexivity. Qed.

(* the unrepaired create_session (trust_identity only): the caller is told "success" although no session exists -
   on the real code sendToContact then raises out of the stack (found by the random histories) *)
Example create_session_unrepaired_refuted :
  exists a c k sid,
    a_auto a = true /\ snd (create_session_unrepaired a c k sid) = true /\
    session_exists (fst (create_session_unrepaired a c k sid)) c = false /\
    session_exists (fst (create_session a c k sid)) c = true.
Proof.
  exists (mkA true [(7, 1)] [] [(7, 1)] [] [] [] [] [] [] 0 []), 7, 2, 51. vm_compute. repeat split; reflexivity.
Qed.

(* with auto-trust ON the invariant of theorem 2 does not hold (archived states keep the old identity); it is
   stated for auto-trust off only, as the property is *)
Example autotrust_keeps_old_states_witness :
  exists a, a_auto a = true /\ tagged a /\ ~ tagged (fst (create_session a 7 2 51)).
Proof.
  exists (mkA true [(7, 1)] [(7, [mkS 50 1 false 0 []])] [(7, 1)] [(7, [mkS 50 1 false 0 []])] [] [] [] [] [] 0 []). split; [reflexivity|]. split.
  - intros c r s H Hin. cbn [a_sess lookup] in H. destruct (7 =? c) eqn:E; [|discriminate]. apply N.eqb_eq in E. subst c.
    apply Some_inj in H. subst r. destruct Hin as [<- | []]. reflexivity.
  - intros T. specialize (T 7 _ (mkS 50 1 false 0 []) eq_refl (or_intror (or_introl eq_refl))).
    vm_compute in T. discriminate.
Qed.

(* ---------- non-vacuity for the notification path and the no-session receive path ---------- *)
(* the server announces a new identity of contact 7; we fetch its bundle (key 1, base key 50): session built, key 1
   remembered, nothing sent.  The process restarts at once.  7 reinstalls (key 2).  Our message 2 goes out under the
   session for key 1, 7 asks for a retry, the bundle now shows key 2: per-jid error, nothing re-sent; a first message
   of 7 presenting key 2 is ignored; a second notification + bundle with key 2 changes nothing.  Key 1 stays. *)
Definition history_notify : list input :=
  [ INotify 7 1; IKeys 0 [(7, (1, 50))]; IRestart;
    IAppSend 7 2; IReceipt 7 2 true; IKeys 1 [(7, (2, 51))];
    IMsg 7 3 (mkE EPk 60 0 2 true false 3);
    INotify 7 4; IKeys 2 [(7, (2, 52))] ].

Example notify_history_no_autotrust :
  snd (run (init false) history_notify) =
  [ [ONotifAck 7 1; OGetKeys 0 7]; []; [];
    [OMsg 7 2 EPk 50 0 1]; [OGetKeys 1 7]; [OErr 7];
    [];
    [ONotifAck 7 4; OGetKeys 2 7]; [] ]
  /\ lookup 7 (a_ids (fst (run (init false) history_notify))) = Some 1
  /\ map s_ident (record_of (fst (run (init false) history_notify)) 7) = [1].
Proof. vm_compute. repeat split; reflexivity. Qed.

(* the no-session receive path: a message of contact 7 under a session we do not have is parked and 7's bundle
   fetched (key 1); the parked message then fails to decrypt (retry receipt) - nothing else touches the store.
   Restart.  A first message presenting key 2 is ignored, key 1 stays. *)
Definition history_nosession : list input :=
  [ IMsg 7 1 (mkE EMsg 40 0 0 true false 1); IKeys 0 [(7, (1, 50))]; IRestart;
    IMsg 7 2 (mkE EPk 60 0 2 true false 2) ].

Example nosession_history_no_autotrust :
  snd (run (init false) history_nosession) = [ [OGetKeys 0 7]; [ORetry 7 1 1]; []; [] ]
  /\ lookup 7 (a_ids (fst (run (init false) history_nosession))) = Some 1.
Proof. vm_compute. split; reflexivity. Qed.

(* the variant in which saveIdentity has no commit of its own (seeded defect C17-2): processPreKeyBundle stores the
   session FIRST (committed) and saves the identity LAST (left in the open transaction).  Inside the process the
   pin is there; the state is not durable; after a restart the session survives, the pin does not, and the real
   step function then takes ANOTHER identity for the contact from a bundle (auto-trust off) and remembers that. *)
Example saveIdentity_without_commit_refuted :
  exists a c k sid,
    a_auto a = false /\ durable a /\ trusted (a_ids a) c k = true /\
    let a1 := build_session_nocommit a c k sid in
    lookup c (a_ids a1) = Some k /\ ~ durable a1 /\
    lookup c (a_ids (restart a1)) = None /\ session_exists (restart a1) c = true /\
    exists k' sid', k' <> k /\
      let a2 := fst (step (restart a1) (INotify c 9)) in
      lookup c (a_ids (fst (step a2 (IKeys (a_iqctr (restart a1)) [(c, (k', sid'))])))) = Some k' /\
      (* ... whereas with the code as it is the same two steps leave k in place *)
      let b1 := restart (build_session a c k sid) in
      let b2 := fst (step b1 (INotify c 9)) in
      lookup c (a_ids (fst (step b2 (IKeys (a_iqctr b1) [(c, (k', sid'))])))) = Some k.
Proof.
  exists (init false), 7, 1, 50. split; [reflexivity|]. split; [apply durable_init|]. split; [reflexivity|].
  cbv zeta. split; [reflexivity|]. split.
  - intros [D _]. vm_compute in D. discriminate.
  - split; [reflexivity|]. split; [reflexivity|]. exists 2, 51. split; [discriminate|]. split; reflexivity.
Qed.

(* ---------- two contacts with the SAME identity key ---------- *)
(* the identities table is a map contact -> key and saveIdentity for c touches the row of c only *)
Lemma save_identity_other ids c k c0 : c <> c0 -> lookup c0 (save_identity ids c k) = lookup c0 ids.
Proof. intros H. unfold save_identity. apply lookup_upd_other. exact H. Qed.

(* whatever a step does for ANOTHER contact - a bundle or first message of c0 presenting the very key k that is
   remembered for c included - the remembered key of c stays (auto-trust off; this is pin_immutable for one step,
   stated to make the equal-key case explicit) *)
Theorem shared_key_pin_kept_thm : forall a i c k,
  a_auto a = false -> durable a -> i <> IWipe ->
  lookup c (a_ids a) = Some k -> lookup c (a_ids (fst (step a i))) = Some k.
Proof.
  intros a i c k Hf Hd Hi H.
  assert (Hw : no_wipe [i]) by (constructor; [exact Hi | constructor]).
  pose proof (pin_immutable_thm a [i] c k Hf Hd Hw H) as P. cbn [run] in P.
  destruct (step a i) as [a1 o]. exact P.
Qed.

(* contacts 7 and 8 hold the same key 1 (8 = the same installation under a second number): 7 is learnt by a send,
   8 by its first message.  Restart.  7 reinstalls (key 2): the retry bundle is refused (per-jid error), 7's first
   message is ignored.  Then 8 changes to key 3: its first message is ignored too.  Both pins stay at key 1, and 8
   - whose key did not change - keeps talking to us in between. *)
Definition history_shared_key : list input :=
  [ IAppSend 7 1; IKeys 0 [(7, (1, 50))];
    IMsg 8 2 (mkE EPk 60 0 1 true false 2);
    IRestart;
    IAppSend 7 3; IReceipt 7 3 true; IKeys 1 [(7, (2, 51))];
    IMsg 7 4 (mkE EPk 61 0 2 true false 4);
    IMsg 8 5 (mkE EMsg 60 1 0 true false 5);
    IMsg 8 6 (mkE EPk 62 0 3 true false 6) ].

Example shared_key_history_no_autotrust :
  snd (run (init false) history_shared_key) =
  [ [OGetKeys 0 7]; [OMsg 7 1 EPk 50 0 1];
    [ODeliver 8 2 2; OReceipt 8 2];
    [];
    [OMsg 7 3 EPk 50 1 1]; [OGetKeys 1 7]; [OErr 7];
    [];
    [ODeliver 8 5 5; OReceipt 8 5];
    [] ]
  /\ lookup 7 (a_ids (fst (run (init false) history_shared_key))) = Some 1
  /\ lookup 8 (a_ids (fst (run (init false) history_shared_key))) = Some 1.
Proof. vm_compute. repeat split; reflexivity. Qed.

(* the variant whose save also drops the rows of other contacts holding the same key (seeded defect C17-4): saving
   key k for contact c makes contact c0, remembered with k, unknown - any identity is then trusted for c0 - whereas
   the save of the code as it is leaves c0's row alone *)
Example save_identity_exclusive_refuted :
  exists ids c c0 k k',
    c <> c0 /\ k' <> k /\ lookup c0 ids = Some k /\ trusted ids c0 k' = false /\
    lookup c0 (save_identity_exclusive ids c k) = None /\ trusted (save_identity_exclusive ids c k) c0 k' = true /\
    lookup c0 (save_identity ids c k) = Some k /\ trusted (save_identity ids c k) c0 k' = false.
Proof.
  exists [(7, 1)], 8, 7, 1, 2. vm_compute. repeat split; try reflexivity; discriminate.
Qed.

(* =====================================================================================================
   Kills at a write boundary (seeded defect C17-6: a connection in autocommit mode makes saveIdentity's DELETE
   durable on its own). *)
(* saveIdentity takes the store through exactly ONE new durable state - the one with the new row.  Its DELETE and
   INSERT share a transaction: there is no durable state in which the contact has no row *)
Theorem store_identity_two_states_thm : forall a c k,
  a_log (store_identity a c k) = (save_identity (a_ids a) c k, a_sess a) :: a_log a /\
  lookup c (save_identity (a_ids a) c k) = Some k /\
  (forall c0, c <> c0 -> lookup c0 (save_identity (a_ids a) c k) = lookup c0 (a_ids a)).
Proof.
  intros a c k. split; [reflexivity|]. split; [unfold save_identity; apply lookup_upd_same|].
  intros c0 H. apply save_identity_other, H.
Qed.

(* every durable state the store passes through while ANY store-writing input is handled - the states a kill at a
   write boundary can leave behind - still holds every remembered key (auto-trust off) *)
Theorem kill_states_keep_pins_thm : forall a k c key d,
  a_auto a = false -> durable a -> lookup c (a_ids a) = Some key ->
  In d (durable_states a k) -> lookup c (fst d) = Some key.
Proof.
  intros a k c key d Hf Hd H Hin. pose proof (durable_states_good a k Hd) as F. rewrite Forall_forall in F.
  apply (F d Hin Hf Hd), H.
Qed.

(* for every history - restarts and kills at any write boundary of any input, in any number and order - a remembered
   key is still the remembered key, the state is durable, and the pin is enforced: first message, bundle fetched for
   a send, bundle fetched after a notification presenting another identity are refused *)
Theorem pin_survives_kill_thm : forall a ins c key,
  a_auto a = false -> durable a -> no_wipe ins ->
  lookup c (a_ids a) = Some key ->
  let a' := fst (run a ins) in
  lookup c (a_ids a') = Some key /\ a_auto a' = false /\ durable a' /\
  (forall m e, e_kind e = EPk -> e_ident e <> key -> step a' (IMsg c m e) = (a', [])) /\
  (forall iq res m k' sid, lookup iq (a_iqs a') = Some (KSend c m) -> lookup c res = Some (k', sid) -> k' <> key ->
     snd (step a' (IKeys iq res)) = [OErr c]) /\
  (forall iq res k' sid, lookup iq (a_iqs a') = Some (KNotify c) -> lookup c res = Some (k', sid) -> k' <> key ->
     step a' (IKeys iq res) = (set_iqs a' (remove_key iq (a_iqs a')) (a_iqctr a'), [])).
Proof.
  intros a ins c key Hf Hd Hw H a'.
  assert (Hk : lookup c (a_ids a') = Some key) by (apply pin_immutable_thm; auto).
  assert (Ha' : a_auto a' = false) by (destruct (run_P ins a Hw) as [A _]; unfold a'; congruence).
  split; [exact Hk|]. split; [exact Ha'|]. split; [apply durable_run, Hd|]. split; [|split].
  - intros m e He Hne. eapply refused_first_message_thm; eauto.
  - intros iq res m k' sid Hq Hr Hne. eapply refused_bundle_thm; eauto.
  - intros iq res k' sid Hq Hr Hne. eapply refused_notify_bundle_thm; eauto.
Qed.

(* one kill, stated on its own *)
Theorem kill_keeps_pin_thm : forall a k n c key,
  a_auto a = false -> durable a -> lookup c (a_ids a) = Some key ->
  lookup c (a_ids (fst (step a (IKill k n)))) = Some key /\ durable (fst (step a (IKill k n))) /\
  a_auto (fst (step a (IKill k n))) = false.
Proof.
  intros a k n c key Hf Hd H. cbn [step fst]. destruct (P_kill a k n) as [A [D B]].
  split; [apply (B Hf Hd), H|]. split; [auto | congruence].
Qed.

(* non-vacuity, computed: contact 7 pinned with key 1 and talking to us; a notification makes us fetch its bundle
   again (same key 1, base key 51) and the process is KILLED after the session store's commit, before saveIdentity's:
   the new process finds key 1 and the refreshed session; message 4 goes out under it; 7 reinstalls (key 2): retry
   bundle refused, first message ignored *)
Definition history_kill : list input :=
  [ IAppSend 7 1; IKeys 0 [(7, (1, 50))]; IMsg 7 2 (mkE EMsg 50 0 0 true false 2);
    INotify 7 3; IKill (KiKeys 1 [(7, (1, 51))]) 1;
    IAppSend 7 4; IReceipt 7 4 true; IKeys 2 [(7, (2, 52))];
    IMsg 7 5 (mkE EPk 60 0 2 true false 5) ].

Example kill_history_no_autotrust :
  snd (run (init false) history_kill) =
  [ [OGetKeys 0 7]; [OMsg 7 1 EPk 50 0 1]; [ODeliver 7 2 2; OReceipt 7 2];
    [ONotifAck 7 3; OGetKeys 1 7]; [];
    [OMsg 7 4 EPk 51 0 1]; [OGetKeys 2 7]; [OErr 7];
    [] ]
  /\ lookup 7 (a_ids (fst (run (init false) history_kill))) = Some 1
  /\ map (fun d => lookup 7 (fst d))
         (durable_states (fst (run (init false) (firstn 4 history_kill))) (KiKeys 1 [(7, (1, 51))]))
     = [Some 1; Some 1; Some 1].
Proof. vm_compute. repeat split; reflexivity. Qed.

(* the variant in which saveIdentity's DELETE and INSERT are two transactions (seeded defect C17-6): the store passes
   through a state without a row for the contact; a process reborn from it trusts any identity for the contact -
   whereas every durable state of the code as it is keeps key k *)
Example save_identity_nonatomic_refuted :
  exists a c k k' sid,
    a_auto a = false /\ durable a /\ lookup c (a_ids a) = Some k /\ k' <> k /\
    let d := nth 1 (save_identity_nonatomic_states a c k) (a_dids a, a_dsess a) in
    lookup c (fst d) = None /\
    let b := reborn a d in
    let b1 := fst (step b (INotify c 9)) in
    lookup c (a_ids (fst (step b1 (IKeys (a_iqctr b) [(c, (k', sid))])))) = Some k' /\
    Forall (fun d => lookup c (fst d) = Some k) (durable_states a (KiKeys 1 [(c, (k, sid))])) /\
    length (durable_states a (KiKeys 1 [(c, (k, sid))])) = 3%nat.
Proof.
  exists (fst (run (init false) [INotify 7 1; IKeys 0 [(7, (1, 50))]; INotify 7 2])), 7, 1, 2, 51.
  vm_compute. repeat split; try reflexivity; try discriminate. repeat constructor.
Qed.

(* what the kill theorems do NOT claim.  python-axolotl's processPreKeyBundle stores the session first and saves the
   identity last, in two transactions: a kill between them AT FIRST CONTACT leaves a session for an identity that is
   not remembered; the next message is encrypted under it with no key stored for the contact.  Hence
   no_encrypt_to_stranger is stated for kill-free histories (the pin theorems hold with kills) *)
Example no_encrypt_to_stranger_with_kill_refuted :
  exists pre i c m k sid n ident,
    no_wipe pre /\ In (OMsg c m k sid n ident) (snd (step (fst (run (init false) pre)) i)) /\
    lookup c (a_ids (fst (step (fst (run (init false) pre)) i))) = None.
Proof.
  exists [IAppSend 7 1; IKill (KiKeys 0 [(7, (1, 50))]) 1], (IAppSend 7 2), 7, 2, EPk, 50, 0, 1.
  split; [repeat constructor; discriminate|]. vm_compute. split; [left; reflexivity | reflexivity].
Qed.

(* =====================================================================================================
   Read fault during the trust decision (seeded defect C17-11: a lookup that fails is read as "no row"). *)
(* the code as it is fails closed: no output, both tables (as the process sees them and as committed), the sent queue,
   the parked messages and the retry counters are what they were; at most the answered key request is forgotten *)
Theorem read_fault_fails_closed_thm : forall a k,
  let a' := fst (step a (IReadFault k)) in
  snd (step a (IReadFault k)) = [] /\
  a_ids a' = a_ids a /\ a_sess a' = a_sess a /\ a_dids a' = a_dids a /\ a_dsess a' = a_dsess a /\
  a_auto a' = a_auto a /\ a_sentq a' = a_sentq a /\ a_pend a' = a_pend a /\ a_retries a' = a_retries a /\
  (forall iq x, lookup iq (a_iqs a') = Some x -> lookup iq (a_iqs a) = Some x).
Proof.
  intros a k. cbn [step step_nk fst snd]. unfold read_fault.
  assert (Hrm : forall iq iq0 x, lookup iq0 (remove_key iq (a_iqs a)) = Some x -> lookup iq0 (a_iqs a) = Some x).
  { intros iq iq0 x H. destruct (N.eq_dec iq iq0) as [-> | Hne].
    - rewrite lookup_remove_same in H. discriminate.
    - rewrite lookup_remove_other in H; auto. }
  destruct k as [c m | iq res | c m e]; [do 9 (split; [reflexivity|]); auto | | do 9 (split; [reflexivity|]); auto].
  destruct (lookup iq (a_iqs a)) eqn:E; do 9 (split; [reflexivity|]); [|auto].
  intros iq0 x H. cbn [set_iqs a_iqs] in H. eapply Hrm; eauto.
Qed.

(* ... in particular, for every history with read faults (and restarts and kills) a remembered key stays and is
   enforced: this is pin_survives_kill_thm, whose histories range over ALL inputs, IReadFault included *)
Theorem read_fault_keeps_pin_thm : forall a ins c key,
  a_auto a = false -> durable a -> no_wipe ins -> lookup c (a_ids a) = Some key ->
  lookup c (a_ids (fst (run a ins))) = Some key.
Proof. intros. apply pin_immutable_thm; auto. Qed.

(* the variant that answers "trusted" when the lookup fails: a pinned contact's bundle with ANOTHER identity is
   processed like a first contact's - session built for it, pin overwritten and committed - with auto-trust off;
   the code as it is (read fault = abort; readable table = refusal) keeps the key either way *)
Example read_fault_trusted_refuted :
  exists a c k k' sid iq,
    a_auto a = false /\ durable a /\ lookup c (a_ids a) = Some k /\ k' <> k /\ lookup iq (a_iqs a) = Some (KNotify c) /\
    trusted (a_ids a) c k' = false /\ trusted_when_unreadable (a_ids a) c k' = true /\
    (* what the variant then does: the body of processPreKeyBundle after a positive trust answer *)
    lookup c (a_dids (build_session a c k' sid)) = Some k' /\
    map s_ident (record_of (build_session a c k' sid) c) = [k'; k] /\
    (* the code as it is, under the fault and without it *)
    lookup c (a_ids (fst (step a (IReadFault (KiKeys iq [(c, (k', sid))]))))) = Some k /\
    lookup c (a_ids (fst (step a (IKeys iq [(c, (k', sid))])))) = Some k.
Proof.
  exists (fst (run (init false) [INotify 7 1; IKeys 0 [(7, (1, 50))]; INotify 7 2])), 7, 1, 2, 51, 1.
  vm_compute. repeat split; try reflexivity; discriminate.
Qed.

(* non-vacuity, computed: contact 7 pinned (key 1); 7 reinstalls (key 2); the bundle fetched to serve its retry
   arrives while the table cannot be read: nothing happens; the next attempt, table readable, is refused with the
   per-jid error; a first message with key 2 arriving under a read fault and then without is ignored both times *)
Definition history_read_fault : list input :=
  [ IAppSend 7 1; IKeys 0 [(7, (1, 50))]; IMsg 7 2 (mkE EMsg 50 0 0 true false 2);
    IAppSend 7 3; IReceipt 7 3 true; IReadFault (KiKeys 1 [(7, (2, 51))]);
    IAppSend 7 4; IReceipt 7 4 true; IKeys 2 [(7, (2, 52))];
    IReadFault (KiMsg 7 5 (mkE EPk 60 0 2 true false 5)); IMsg 7 5 (mkE EPk 60 0 2 true false 5); IRestart ].

Example read_fault_history_no_autotrust :
  snd (run (init false) history_read_fault) =
  [ [OGetKeys 0 7]; [OMsg 7 1 EPk 50 0 1]; [ODeliver 7 2 2; OReceipt 7 2];
    [OMsg 7 3 EMsg 50 1 1]; [OGetKeys 1 7]; [];
    [OMsg 7 4 EMsg 50 2 1]; [OGetKeys 2 7]; [OErr 7];
    []; []; [] ]
  /\ lookup 7 (a_ids (fst (run (init false) history_read_fault))) = Some 1
  /\ map s_ident (record_of (fst (run (init false) history_read_fault)) 7) = [1].
Proof. vm_compute. repeat split; reflexivity. Qed.
