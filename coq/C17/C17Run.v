(* Glue between the sx line format and the C17 model (unverified, trusted, small). *)
From YV Require Import Common.Tac Common.Sx C17.C17Model.

Definition n_at (s : sx) (i : nat) : N := sx_get_n (sx_nth s i).
Definition b_at (s : sx) (i : nat) : bool := sx_get_bool (sx_nth s i).

Definition enc_of (s : sx) : enc :=
  mkE (if (n_at s 0 =? 0)%N then EPk else EMsg) (n_at s 1) (n_at s 2) (n_at s 3) (b_at s 4) (b_at s 5) (n_at s 6).

Definition kin_of (u : sx) : kin :=
  match n_at u 0 with
  | 0 => KiSend (n_at u 1) (n_at u 2)
  | 1 => KiKeys (n_at u 1) (map (fun v => (n_at v 0, (n_at v 1, n_at v 2))) (sx_get_l (sx_nth u 2)))
  | _ => KiMsg (n_at u 1) (n_at u 2) (enc_of (sx_nth u 3))
  end%N.

Definition input_of (s : sx) : input :=
  match n_at s 0 with
  | 0 => IAppSend (n_at s 1) (n_at s 2)
  | 1 => IKeys (n_at s 1) (map (fun u => (n_at u 0, (n_at u 1, n_at u 2))) (sx_get_l (sx_nth s 2)))
  | 2 => IMsg (n_at s 1) (n_at s 2) (enc_of (sx_nth s 3))
  | 3 => IReceipt (n_at s 1) (n_at s 2) (b_at s 3)
  | 4 => IRestart
  | 6 => INotify (n_at s 1) (n_at s 2)
  | 7 => IKill (kin_of (sx_nth s 2)) (n_at s 1)     (* (7 n inner): killed while handling inner, after n commits *)
  | 8 => IReadFault (kin_of (sx_nth s 1))           (* (8 inner): inner aborted, the identities table was unreadable *)
  | _ => IWipe
  end%N.

Definition sx_kind (k : ekind) : sx := SN (match k with EPk => 0 | EMsg => 1 end)%N.

Definition sx_output (o : output) : sx :=
  match o with
  | OGetKeys iq c => SL [SN 0; SN iq; SN c]
  | OMsg c m k sid n ident => SL [SN 1; SN c; SN m; sx_kind k; SN sid; SN n; SN ident]
  | OPlain c m => SL [SN 2; SN c; SN m]
  | OReceipt c m => SL [SN 3; SN c; SN m]
  | ORetry c m cnt => SL [SN 4; SN c; SN m; SN cnt]
  | OErr c => SL [SN 5; SN c]
  | ODeliver c m p => SL [SN 6; SN c; SN m; SN p]
  | OTopReceipt c m r => SL [SN 7; SN c; SN m; sx_bool r]
  | ONotifAck c m => SL [SN 8; SN c; SN m]
  end%N.

Definition sx_ids (ids : list (N * N)) : sx := SL (map (fun p => SL [SN (fst p); SN (snd p)]) ids).

Definition sx_sess (t : list (N * list sstate)) : sx :=
  SL (map (fun p => SL [SN (fst p); SL (map (fun s => SL [SN (s_sid s); SN (s_ident s)]) (snd p))]) t).

Fixpoint run_sx (a : acct) (ins : list input) : list sx :=
  match ins with
  | [] => []
  | i :: r => let '(a1, o) := step a i in
              SL [SL (map sx_output o); sx_ids (a_dids a1); sx_sess (a_dsess a1);
                  sx_ids (a_ids a1); sx_sess (a_sess a1)] :: run_sx a1 r
  end.

(* arg: (N autotrust (input ...)) -> ( ((output ...) ids sessions ids' sessions') ... ) one entry per input;
   ids/sessions = the COMMITTED tables (what the harness reads through a connection of its own),
   ids'/sessions' = the tables as the account's own connection sees them *)
Definition run_history (arg : sx) : sx :=
  SL (run_sx (init (b_at arg 0)) (map input_of (sx_get_l (sx_nth arg 1)))).
