(* Packed (nibble / hex) strings: what the decoder model reads back from the format's packing. *)
From YV Require Import Common.Tac C01.C01Model C01.C01Lib C02.C02Spec.
Local Open Scope N_scope.

Lemma list_ind2 {A} (P : list A -> Prop) :
  P [] -> (forall a, P [a]) -> (forall a b r, P r -> P (a :: b :: r)) -> forall l, P l.
Proof.
  intros H0 H1 H2. fix IH 1. intros [|a [|b r]]; [exact H0|apply H1|apply H2, IH].
Qed.

Lemma lenN_pack_pairs vs : lenN (pack_pairs vs) = (lenN vs + 1) / 2.
Proof.
  induction vs as [| a | a b r IH] using list_ind2.
  - reflexivity.
  - reflexivity.
  - cbn [pack_pairs]. rewrite !lenN_cons, IH. lia.
Qed.

Lemma nibbles_pack_pairs vs : Forall (fun v => v < 16) vs ->
  nibbles (pack_pairs vs) = if N.even (lenN vs) then vs else vs ++ [15].
Proof.
  induction vs as [| a | a b r IH] using list_ind2; intros H.
  - reflexivity.
  - inversion H as [|? ? Ha _]; subst. cbn [pack_pairs nibbles flat_map app].
    change (N.even (lenN [a])) with false. cbv iota.
    f_equal; [lia|]. f_equal. lia.
  - inversion H as [|? ? Ha H']; subst. inversion H' as [|? ? Hb Hr]; subst.
    cbn [pack_pairs]. unfold nibbles in *. cbn [flat_map app]. rewrite (IH Hr).
    rewrite !lenN_cons.
    replace (N.even (1 + (1 + lenN r))) with (N.even (lenN r)).
    2:{ replace (1 + (1 + lenN r)) with (2 + lenN r) by lia.
        rewrite <- (N.even_add_mul_2 (lenN r) 1). f_equal. lia. }
    replace ((16 * a + b) / 16) with a by lia.
    replace ((16 * a + b) mod 16) with b by lia.
    destruct (N.even (lenN r)); reflexivity.
Qed.

Lemma vals_length f : forall s vs, vals f s = Some vs -> lenN vs = lenN s.
Proof.
  induction s as [|c r IH]; intros vs H; cbn [vals] in H.
  - apply Some_inj in H. subst. reflexivity.
  - destruct (f c) as [v|]; [|discriminate]. destruct (vals f r) as [vr|]; [|discriminate].
    apply Some_inj in H. subst. rewrite !lenN_cons, (IH vr eq_refl). reflexivity.
Qed.

Lemma nibble_val_spec c v : nibble_val c = Some v ->
  v <= 11 /\ unpack_nibble v = Ok c.
Proof.
  unfold nibble_val, unpack_nibble. intros H.
  destruct ((48 <=? c) && (c <=? 57)) eqn:E1.
  { apply Some_inj in H. subst v. split; [lia|].
    destruct (c - 48 <? 10) eqn:E2; [f_equal; lia|lia]. }
  destruct (c =? 45) eqn:E2.
  { apply Some_inj in H. subst v. apply N.eqb_eq in E2. subst c. split; [lia|reflexivity]. }
  destruct (c =? 46) eqn:E3; [|discriminate].
  apply Some_inj in H. subst v. apply N.eqb_eq in E3. subst c. split; [lia|reflexivity].
Qed.

Lemma hex_val_spec c v : hex_val c = Some v ->
  v < 16 /\ unpack_hex v = Ok c /\ hexchar v = c.
Proof.
  unfold hex_val, unpack_hex, hexchar. intros H.
  destruct ((48 <=? c) && (c <=? 57)) eqn:E1.
  { apply Some_inj in H. subst v. split; [lia|].
    destruct (c - 48 <? 10) eqn:E2; [|lia]. split; [f_equal; lia|lia]. }
  destruct ((65 <=? c) && (c <=? 70)) eqn:E2; [|discriminate].
  apply Some_inj in H. subst v. split; [lia|].
  destruct (c - 55 <? 10) eqn:E3; [lia|].
  destruct (c - 55 <? 16) eqn:E4; [|lia]. split; [f_equal; lia|lia].
Qed.

Lemma unpack_all_cons n v r : r <> [] ->
  unpack_all n (v :: r) =
  bind (unpack_byte n v) (fun c => bind (unpack_all n r) (fun cs => Ok (c :: cs))).
Proof. destruct r; [congruence|reflexivity]. Qed.

Lemma vals_lt16 f : (forall c v, f c = Some v -> v < 16) ->
  forall s vs, vals f s = Some vs -> Forall (fun v => v < 16) vs.
Proof.
  intros Hf. induction s as [|c r IH]; intros vs H; cbn [vals] in H.
  - apply Some_inj in H. subst. constructor.
  - destruct (f c) as [v|] eqn:E; [|discriminate]. destruct (vals f r) as [vr|]; [|discriminate].
    apply Some_inj in H. subst. constructor; [eapply Hf; eassumption|apply IH; reflexivity].
Qed.

(* nibble alphabet: the decoder's loop recovers s, with or without the 0xF pad *)
Lemma unpack_nibbles : forall s vs, vals nibble_val s = Some vs ->
  unpack_all 255 vs = Ok s /\ unpack_all 255 (vs ++ [15]) = Ok s.
Proof.
  induction s as [|c r IH]; intros vs H; cbn [vals] in H.
  - apply Some_inj in H. subst. split; reflexivity.
  - destruct (nibble_val c) as [v|] eqn:E; [|discriminate].
    destruct (vals nibble_val r) as [vr|] eqn:Er; [|discriminate].
    apply Some_inj in H. subst vs. destruct (nibble_val_spec c v E) as [Hv Hu].
    destruct (IH vr eq_refl) as [IH1 IH2].
    assert (Hb : unpack_byte 255 v = Ok c) by (unfold unpack_byte; exact Hu).
    split.
    + destruct vr as [|v2 vr'].
      * destruct r; [|cbn [vals] in Er; destruct (nibble_val n); [destruct (vals nibble_val r)|]; discriminate].
        cbn [unpack_all]. destruct (11 <? v) eqn:E2; [lia|]. cbn [andb]. rewrite Hb. reflexivity.
      * rewrite unpack_all_cons by discriminate. rewrite Hb, IH1. reflexivity.
    + change ((v :: vr) ++ [15]) with (v :: (vr ++ [15])).
      rewrite unpack_all_cons by (destruct vr; discriminate). rewrite Hb, IH2. reflexivity.
Qed.

Lemma unpack_hexes : forall s vs, vals hex_val s = Some vs ->
  unpack_all 251 vs = Ok s /\ map hexchar vs = s.
Proof.
  induction s as [|c r IH]; intros vs H; cbn [vals] in H.
  - apply Some_inj in H. subst. split; reflexivity.
  - destruct (hex_val c) as [v|] eqn:E; [|discriminate].
    destruct (vals hex_val r) as [vr|] eqn:Er; [|discriminate].
    apply Some_inj in H. subst vs. destruct (hex_val_spec c v E) as (Hv & Hu & Hc).
    destruct (IH vr eq_refl) as [IH1 IH2].
    assert (Hb : unpack_byte 251 v = Ok c) by (unfold unpack_byte; exact Hu).
    split.
    + destruct vr as [|v2 vr'].
      * destruct r; [|cbn [vals] in Er; destruct (hex_val n); [destruct (vals hex_val r)|]; discriminate].
        cbn [unpack_all]. change (negb (251 =? 251)) with false. rewrite andb_false_r.
        rewrite Hb. reflexivity.
      * rewrite unpack_all_cons by discriminate. rewrite Hb, IH1. reflexivity.
    + cbn [map]. rewrite Hc, IH2. reflexivity.
Qed.

Lemma header_facts len : len <= 254 ->
  packed_header len mod 128 = (len + 1) / 2 /\
  ((packed_header len / 128) mod 2 =? 1) = (len mod 2 =? 1).
Proof.
  intros H. unfold packed_header. split; [lia|].
  destruct (N.eqb_spec ((len mod 2 * 128 + (len + 1) / 2) / 128 mod 2) 1) as [E|E];
  destruct (N.eqb_spec (len mod 2) 1) as [E2|E2]; try reflexivity; lia.
Qed.

Lemma even_mod2 n : N.even n = (n mod 2 =? 0).
Proof.
  destruct (N.Even_or_Odd n) as [[k Hk]|[k Hk]]; subst n.
  - rewrite N.even_mul, N.even_2. cbn [orb].
    destruct (N.eqb_spec ((2 * k) mod 2) 0); [reflexivity|lia].
  - rewrite N.add_comm, N.even_add_mul_2. 
    destruct (N.eqb_spec ((1 + 2 * k) mod 2) 0); [lia|reflexivity].
Qed.
