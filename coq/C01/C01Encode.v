(* Encoder soundness: what the encoder model writes for a well-formed tree is a frame of the format. *)
From YV Require Import Common.Tac C01.C01Model C01.C01Lib C02.C02Spec C01.C01Packed.
Local Open Scope N_scope.

(* computed side condition on the dictionary *)
Definition dict_okb (D : dict) : bool :=
  (lenN (primary D) <=? 236) && (lenN (secondary D) <=? 1024) &&
  match primary D with [] :: _ => true | _ => false end.

Definition reserved (D : dict) (s : str) : Prop :=
  nthN (primary D) 1 = Some s \/ nthN (primary D) 2 = Some s.

(* a string the library can put on the wire *)
Definition wf_str (s : str) : Prop :=
  s <> [] /\ last s 0 <> 64 /\ lenN s < 2147483648 /\ Forall (fun c => c < 256) s.

Section S.
Variable D : dict.

Inductive wf_node : node -> Prop :=
| WF tag attrs data kids :
    wf_str tag -> ~ reserved D tag ->
    Forall (fun kv => wf_str (fst kv) /\ wf_str (snd kv)) attrs ->
    NoDup (map fst attrs) ->
    (data = None \/ kids = []) ->
    (forall d, data = Some d -> lenN d < 2147483648 /\ Forall (fun c => c < 256) d) ->
    wf_kids kids ->
    wf_node (Node tag attrs data kids)
with wf_kids : list node -> Prop :=
| WK_nil : wf_kids []
| WK_cons k r : wf_node k -> wf_kids r -> wf_kids (k :: r).

Hypothesis Dok : dict_okb D = true.

Lemma dict_facts : lenN (primary D) <= 236 /\ lenN (secondary D) <= 1024 /\
                   nthN (primary D) 0 = Some [].
Proof.
  unfold dict_okb in Dok. apply andb_true_iff in Dok. destruct Dok as [H12 H3].
  apply andb_true_iff in H12. destruct H12 as [H1 H2].
  split; [lia|]. split; [lia|].
  destruct (primary D) as [|[|c w] r]; try discriminate. reflexivity.
Qed.

(* ---- packing: the encoder's functions are the format's *)

Lemma pack_byte_255 c : pack_byte 255 c = nibble_val c.
Proof.
  unfold pack_byte, pack_nibble, nibble_val. change (255 =? 251) with false.
  change (255 =? 255) with true. cbv iota.
  destruct (c =? 45) eqn:E1; destruct (c =? 46) eqn:E2; cbn [orb];
  destruct ((48 <=? c) && (c <? 58)) eqn:E3; destruct ((48 <=? c) && (c <=? 57)) eqn:E4;
    try reflexivity; try lia; f_equal; lia.
Qed.

Lemma pack_byte_251 c : pack_byte 251 c = hex_val c.
Proof.
  unfold pack_byte, pack_hex, hex_val. change (251 =? 251) with true. cbv iota.
  destruct ((48 <=? c) && (c <? 58)) eqn:E3; destruct ((48 <=? c) && (c <=? 57)) eqn:E4;
    try reflexivity; try lia.
  destruct ((65 <=? c) && (c <? 71)) eqn:E5; destruct ((65 <=? c) && (c <=? 70)) eqn:E6;
    try reflexivity; try lia. f_equal. lia.
Qed.

Lemma pack_all_vals v f : (forall c, pack_byte v c = f c) -> forall s, pack_all v s = vals f s.
Proof.
  intros Hf. induction s as [|c r IH]; cbn [pack_all vals]; [reflexivity|].
  rewrite Hf, IH. reflexivity.
Qed.

Lemma pair_up_pack_pairs vs : pair_up vs = pack_pairs vs.
Proof.
  induction vs as [| a | a b r IH] using list_ind2; cbn [pair_up pack_pairs].
  - reflexivity.
  - f_equal. lia.
  - rewrite IH. f_equal. lia.
Qed.

Lemma try_pack_enc v f s r : (v = 255 /\ f = nibble_val) \/ (v = 251 /\ f = hex_val) ->
  (forall c, pack_byte v c = f c) ->
  try_pack v s = Some r -> exists vs, vals f s = Some vs /\ lenN s < 128 /\
                                      r = v :: packed_header (lenN s) :: pack_pairs vs.
Proof.
  intros Hv Hf H. unfold try_pack in H.
  destruct (128 <=? lenN s) eqn:E; [discriminate|].
  destruct s as [|c s']; [discriminate|].
  rewrite (pack_all_vals v f Hf) in H.
  destruct (vals f (c :: s')) as [ns|] eqn:Ev; [|discriminate].
  apply Some_inj in H. subst r. exists ns. split; [reflexivity|]. split; [lia|].
  rewrite pair_up_pack_pairs, lenN_pack_pairs, (vals_length _ _ _ Ev).
  unfold packed_header. f_equal. f_equal. lia.
Qed.

Lemma write_bytes_enc packed s : lenN s < 2147483648 -> EncStr D s (write_bytes packed s).
Proof.
  intros Hl. unfold write_bytes.
  destruct (1048576 <=? lenN s) eqn:E1.
  { replace (write_int31 (lenN s)) with (int31 (lenN s)).
    - apply ES_raw31. exact Hl.
    - unfold write_int31, int31. f_equal. lia. }
  destruct (256 <=? lenN s) eqn:E2.
  { replace (write_int20 (lenN s)) with (int20 (lenN s)).
    - apply ES_raw20. lia.
    - unfold write_int20, int20. f_equal. lia. }
  destruct (packed && (lenN s <? 128)) eqn:E3.
  - destruct (try_pack 255 s) as [r|] eqn:T1.
    + destruct (try_pack_enc 255 nibble_val s r (or_introl (conj eq_refl eq_refl)) pack_byte_255 T1)
        as (vs & Hv & Hl2 & ->).
      apply ES_nibble; [exact Hv|lia].
    + destruct (try_pack 251 s) as [r|] eqn:T2.
      * destruct (try_pack_enc 251 hex_val s r (or_intror (conj eq_refl eq_refl)) pack_byte_251 T2)
          as (vs & Hv & Hl2 & ->).
        apply ES_hex; [exact Hv|lia].
      * unfold write_int8. replace (lenN s mod 256) with (lenN s) by lia. cbn [app].
        apply ES_raw8. lia.
  - unfold write_int8. replace (lenN s mod 256) with (lenN s) by lia. cbn [app].
    apply ES_raw8. lia.
Qed.

Lemma write_bytes_hd packed s : 251 <= hd 0 (write_bytes packed s).
Proof.
  unfold write_bytes.
  destruct (1048576 <=? lenN s); [cbn [hd]; lia|].
  destruct (256 <=? lenN s); [cbn [hd]; lia|].
  destruct (packed && (lenN s <? 128)).
  - destruct (try_pack 255 s) as [r|] eqn:T1.
    + unfold try_pack in T1. destruct (128 <=? lenN s); [discriminate|].
      destruct s; [discriminate|]. destruct (pack_all 255 (n :: s)); [|discriminate].
      apply Some_inj in T1. subst r. cbn [hd]. lia.
    + destruct (try_pack 251 s) as [r|] eqn:T2; [|cbn [hd]; lia].
      unfold try_pack in T2. destruct (128 <=? lenN s); [discriminate|].
      destruct s; [discriminate|]. destruct (pack_all 251 (n :: s)); [|discriminate].
      apply Some_inj in T2. subst r. cbn [hd]. lia.
  - cbn [hd]. lia.
Qed.

(* ---- tokens *)

Lemma get_index_spec s t : get_index D s = Some t ->
  (exists i, t = (i, false) /\ nthN (primary D) i = Some s /\ i < lenN (primary D)) \/
  (exists j, t = (j, true) /\ nthN (secondary D) j = Some s /\ j < lenN (secondary D)).
Proof.
  unfold get_index. intros H.
  destruct (index_of s (primary D) 0) as [i|] eqn:E1.
  - apply Some_inj in H. subst t. left. exists i. apply index_of_nthN in E1. tauto.
  - destruct (index_of s (secondary D) 0) as [j|] eqn:E2; [|discriminate].
    apply Some_inj in H. subst t. right. exists j. apply index_of_nthN in E2. tauto.
Qed.

Lemma write_tok_enc s t : s <> [] -> get_index D s = Some t -> EncStr D s (write_tok t).
Proof.
  intros Hs H. destruct dict_facts as (L1 & L2 & H0).
  destruct (get_index_spec s t H) as [(i & -> & Hn & Hi) | (j & -> & Hn & Hj)]; cbn [write_tok].
  - apply ES_tok; [|exact Hn|exact Hs]. split; [|lia].
    destruct (N.eq_dec i 0) as [->|]; [|lia]. rewrite H0 in Hn. congruence.
  - apply ES_tok2; [lia|exact Hn|exact Hs].
Qed.

Lemma write_tok_hd s t : ~ reserved D s -> s <> [] -> get_index D s = Some t ->
  hd 0 (write_tok t) <> 1 /\ hd 0 (write_tok t) <> 2.
Proof.
  intros Hr Hs H.
  destruct (get_index_spec s t H) as [(i & -> & Hn & Hi) | (j & -> & Hn & Hj)]; cbn [write_tok hd].
  - split; intros ->; apply Hr; [left|right]; exact Hn.
  - lia.
Qed.

(* ---- JIDs *)

Lemma split_at_spec : forall s u v, split_at s = Some (u, v) -> s = u ++ 64 :: v.
Proof.
  induction s as [|c r IH]; intros u v H; cbn [split_at] in H; [discriminate|].
  destruct (N.eqb_spec c 64) as [->|Hc].
  - apply Some_inj in H. apply pair_inj in H. destruct H as [<- <-]. reflexivity.
  - destruct (split_at r) as [[u' v']|] eqn:E; [|discriminate].
    apply Some_inj in H. apply pair_inj in H. destruct H as [<- <-].
    cbn [app]. f_equal. apply IH. reflexivity.
Qed.

Lemma wf_str_server u v : wf_str (u ++ 64 :: v) -> wf_str v.
Proof.
  intros (Hne & Hlast & Hlen & Hall).
  assert (Hv : v <> []).
  { intros ->. apply Hlast. rewrite last_last. reflexivity. }
  split; [exact Hv|]. split.
  - intros E. apply Hlast. change (u ++ 64 :: v) with (u ++ [64] ++ v).
    rewrite app_assoc. destruct v as [|c v']; [congruence|].
    rewrite last_app_ne; [exact E|discriminate].
  - split.
    + rewrite lenN_app, lenN_cons in Hlen. lia.
    + apply Forall_app in Hall. destruct Hall as [_ Hall]. inversion Hall; assumption.
Qed.

Lemma wf_str_user u v : u <> [] -> wf_str (u ++ 64 :: v) -> lenN u < 2147483648.
Proof. intros _ (_ & _ & Hlen & _). rewrite lenN_app in Hlen. lia. Qed.

Lemma write_string_nojid_enc packed u : u <> [] -> lenN u < 2147483648 ->
  EncStr D u (write_string_nojid D packed u).
Proof.
  intros Hu Hl. unfold write_string_nojid. destruct (get_index D u) as [t|] eqn:E.
  - apply write_tok_enc; assumption.
  - apply write_bytes_enc. exact Hl.
Qed.

Lemma write_string_enc : forall fuel packed s, (length s <= fuel)%nat -> wf_str s ->
  EncStr D s (write_string D fuel packed s).
Proof.
  induction fuel as [|f IH]; intros packed s Hf Hwf.
  - destruct Hwf as [Hne _]. destruct s; [congruence|cbn [length] in Hf; lia].
  - cbn [write_string]. destruct (get_index D s) as [t|] eqn:E.
    + apply write_tok_enc; [apply Hwf|exact E].
    + destruct (split_at s) as [[[|u us] srv]|] eqn:Es;
        try (apply write_bytes_enc; apply Hwf).
      pose proof (split_at_spec s _ _ Es) as ->.
      apply ES_jid.
      * apply write_string_nojid_enc; [discriminate|]. eapply wf_str_user; [discriminate|exact Hwf].
      * apply IH; [|eapply wf_str_server; exact Hwf].
        rewrite app_length in Hf. cbn [length] in Hf. lia.
Qed.

Lemma write_str_enc packed s : wf_str s -> EncStr D s (write_str D packed s).
Proof. intros H. apply write_string_enc; [lia|exact H]. Qed.

Lemma write_str_hd packed s : wf_str s -> ~ reserved D s ->
  hd 0 (write_str D packed s) <> 1 /\ hd 0 (write_str D packed s) <> 2.
Proof.
  intros Hwf Hr. unfold write_str. destruct (length s) as [|f] eqn:El.
  - destruct Hwf as [Hne _]. destruct s; [congruence|discriminate].
  - cbn [write_string]. destruct (get_index D s) as [t|] eqn:E.
    + eapply write_tok_hd; [exact Hr|apply Hwf|exact E].
    + pose proof (write_bytes_hd packed s).
      destruct (split_at s) as [[[|u us] srv]|]; cbn [hd]; lia.
Qed.

Lemma write_attrs_enc attrs :
  Forall (fun kv => wf_str (fst kv) /\ wf_str (snd kv)) attrs ->
  EncAttrs D attrs (write_attrs D attrs).
Proof.
  induction 1 as [|[k v] r [Hk Hv] Hr IH]; unfold write_attrs; cbn [flat_map].
  - constructor.
  - cbn [fst snd] in *. rewrite <- app_assoc. apply EA_cons; [apply write_str_enc; exact Hk
      |apply write_str_enc; exact Hv|exact IH].
Qed.

Lemma write_list_start_enc n b : write_list_start n = Some b -> EncList n b.
Proof.
  unfold write_list_start. intros H.
  destruct (N.eqb_spec n 0) as [->|Hn].
  { apply Some_inj in H. subst b. constructor. }
  destruct (n <? 256) eqn:E1.
  { apply Some_inj in H. subst b. unfold write_int8. replace (n mod 256) with n by lia.
    apply EL_8. lia. }
  destruct (n <? 65536) eqn:E2; [|discriminate].
  apply Some_inj in H. subst b. replace (write_int16 n) with (int16 n).
  - apply EL_16. lia.
  - unfold write_int16, int16. f_equal. lia.
Qed.

(* ---- nodes *)

Lemma node_ind2 (P : node -> Prop) (Q : list node -> Prop) :
  (forall tag attrs data kids, Q kids -> P (Node tag attrs data kids)) ->
  Q [] -> (forall k r, P k -> Q r -> Q (k :: r)) -> forall n, P n.
Proof.
  intros HN Hnil Hcons. fix IH 1. intros [tag attrs data kids]. apply HN.
  revert kids. fix IHk 1. intros [|k r]; [exact Hnil|].
  apply Hcons; [apply IH|apply IHk].
Qed.

Theorem write_node_enc : forall t b, wf_node t -> write_node D t = Some b -> EncNode D t b.
Proof.
  intros t. induction t as [tag attrs data kids IHk | | k r IHk IHr] using node_ind2 with
    (Q := fun kids => forall bks, wf_kids kids -> write_kids (write_node D) kids = Some bks ->
                                  EncKids D kids bks).
  - intros b Hwf H. inversion Hwf as [? ? ? ? Htag Hres Hattrs Hnd Hexcl Hdata Hkids]; subst.
    cbn [write_node] in H.
    destruct (write_list_start (header_size attrs data kids)) as [hdr|] eqn:Eh; [|discriminate].
    apply write_list_start_enc in Eh.
    assert (Ht : EncTag D tag (write_str D false tag)).
    { split; [apply write_str_enc; exact Htag|apply write_str_hd; assumption]. }
    pose proof (write_attrs_enc attrs Hattrs) as Ha.
    destruct kids as [|k0 kr].
    + apply Some_inj in H. subst b. destruct data as [d|].
      * replace (header_size attrs (Some d) []) with (2 * lenN attrs + 2) in Eh
          by (unfold header_size; lia).
        apply EN_data; try assumption. apply write_bytes_enc. apply (Hdata d eq_refl).
      * replace (header_size attrs None []) with (2 * lenN attrs + 1) in Eh
          by (unfold header_size; lia).
        rewrite app_nil_r. apply EN_empty; assumption.
    + destruct Hexcl as [->|Hk0]; [|discriminate].
      destruct (write_list_start (lenN (k0 :: kr))) as [khdr|] eqn:Ek; [|discriminate].
      apply write_list_start_enc in Ek.
      destruct (write_kids (write_node D) (k0 :: kr)) as [ks|] eqn:Eks; [|discriminate].
      apply Some_inj in H. subst b.
      replace (header_size attrs None (k0 :: kr)) with (2 * lenN attrs + 2) in Eh
        by (unfold header_size; lia).
      rewrite app_nil_r. rewrite <- !app_assoc.
      apply EN_kids; try assumption. apply IHk; [assumption|reflexivity].
  - intros bks _ H. cbn in H. apply Some_inj in H. subst. constructor.
  - intros bks Hwf H. inversion Hwf as [|? ? Hk Hr]; subst.
    cbn [write_kids] in H. destruct (write_node D k) as [a|] eqn:Ea; [|discriminate].
    fold (write_kids (write_node D)) in H.
    destruct (write_kids (write_node D) r) as [b'|] eqn:Eb; [|discriminate].
    apply Some_inj in H. subst bks. apply EK_cons; [apply IHk; [assumption|reflexivity]|apply IHr; [assumption|reflexivity]].
Qed.

End S.
