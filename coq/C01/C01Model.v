(* Model of yowsup/layers/coder/{encoder,decoder}.py over an arbitrary token dictionary.
   Definitions only.  Bytes and characters are N (< 256 in well-formed input); a Python
   str with characters < 256 and a bytes object are both `list N`.                    *)
From YV Require Import Common.Tac.

Definition str := list N.

Record dict := { primary : list str; secondary : list str }.

(* ProtocolTreeNode(tag, attributes, children, data): attributes in dict insertion order *)
Inductive node :=
| Node (tag : str) (attrs : list (str * str)) (data : option (list N)) (kids : list node).

Definition lenN {A} (l : list A) : N := N.of_nat (length l).

Fixpoint str_eqb (a b : str) : bool :=
  match a, b with
  | [], [] => true
  | x :: a', y :: b' => (x =? y)%N && str_eqb a' b'
  | _, _ => false
  end.

Fixpoint takeN {A} (n : N) (l : list A) : list A :=
  match l with
  | [] => []
  | x :: r => if (n =? 0)%N then [] else x :: takeN (N.pred n) r
  end.

Fixpoint dropN {A} (n : N) (l : list A) : list A :=
  match l with
  | [] => []
  | x :: r => if (n =? 0)%N then l else dropN (N.pred n) r
  end.

Definition nthN {A} (l : list A) (i : N) : option A := nth_error l (N.to_nat i).

Local Open Scope N_scope.

(* ------------------------------------------------------------------ encoder *)

Fixpoint index_of (s : str) (l : list str) (i : N) : option N :=
  match l with
  | [] => None
  | w :: r => if str_eqb w s then Some i else index_of s r (N.succ i)
  end.

(* TokenDictionary.getIndex: (index, secondary?) *)
Definition get_index (D : dict) (s : str) : option (N * bool) :=
  match index_of s (primary D) 0 with
  | Some i => Some (i, false)
  | None => match index_of s (secondary D) 0 with
            | Some j => Some (j, true)
            | None => None
            end
  end.

Definition write_int8 (v : N) : list N := [v mod 256].
Definition write_int16 (v : N) : list N := [(v / 256) mod 256; v mod 256].
Definition write_int20 (v : N) : list N := [(v / 65536) mod 16; (v / 256) mod 256; v mod 256].
Definition write_int31 (v : N) : list N :=
  [(v / 16777216) mod 128; (v / 65536) mod 256; (v / 256) mod 256; v mod 256].

(* writeListStart; None = ValueError (size does not fit 16 bits) *)
Definition write_list_start (i : N) : option (list N) :=
  if i =? 0 then Some [0]
  else if i <? 256 then Some (248 :: write_int8 i)
  else if i <? 65536 then Some (249 :: write_int16 i)
  else None.

Definition pack_nibble (c : N) : option N :=
  if (c =? 45) || (c =? 46) then Some (10 + (c - 45))
  else if (48 <=? c) && (c <? 58) then Some (c - 48)
  else None.

Definition pack_hex (c : N) : option N :=
  if (48 <=? c) && (c <? 58) then Some (c - 48)
  else if (65 <=? c) && (c <? 71) then Some (10 + (c - 65))
  else None.

Definition pack_byte (v c : N) : option N :=
  if v =? 251 then pack_hex c else if v =? 255 then pack_nibble c else None.

Fixpoint pack_all (v : N) (s : list N) : option (list N) :=
  match s with
  | [] => Some []
  | c :: r => match pack_byte v c, pack_all v r with
              | Some n, Some ns => Some (n :: ns)
              | _, _ => None
              end
  end.

(* two nibbles per byte, high first; an odd tail is padded with 15 *)
Fixpoint pair_up (ns : list N) : list N :=
  match ns with
  | [] => []
  | [a] => [a * 16 + 15]
  | a :: b :: r => (a * 16 + b) :: pair_up r
  end.

(* tryPackAndWriteHeader: Some (v :: header :: packed bytes) or None *)
Definition try_pack (v : N) (bs : list N) : option (list N) :=
  if 128 <=? lenN bs then None
  else match bs with
       | [] => None
       | _ => match pack_all v bs with
              | None => None
              | Some ns => let arr := pair_up ns in
                           Some (v :: ((lenN bs mod 2) * 128 + lenN arr) mod 256 :: arr)
              end
       end.

Definition write_bytes (packed : bool) (bs : list N) : list N :=
  let size := lenN bs in
  if 1048576 <=? size then 254 :: write_int31 size ++ bs
  else if 256 <=? size then 253 :: write_int20 size ++ bs
  else
    match (if packed && (size <? 128)
           then match try_pack 255 bs with Some r => Some r | None => try_pack 251 bs end
           else None) with
    | Some r => r
    | None => 252 :: write_int8 size ++ bs
    end.

(* split at the first '@' *)
Fixpoint split_at (s : str) : option (str * str) :=
  match s with
  | [] => None
  | c :: r => if c =? 64 then Some ([], r)
              else match split_at r with
                   | Some (u, v) => Some (c :: u, v)
                   | None => None
                   end
  end.

Definition write_tok (t : N * bool) : list N :=
  let '(i, sec) := t in
  if sec then [236 + i / 256; i mod 256] else [i].

(* writeString for a string without '@' (the user part of a JID) *)
Definition write_string_nojid (D : dict) (packed : bool) (s : str) : list N :=
  match get_index D s with
  | Some t => write_tok t
  | None => write_bytes packed s
  end.

(* writeString; fuel bounds the recursion on the server part of nested JIDs *)
Fixpoint write_string (D : dict) (fuel : nat) (packed : bool) (s : str) : list N :=
  match get_index D s with
  | Some t => write_tok t
  | None =>
    match fuel, split_at s with
    | S f, Some (u :: us, srv) =>
      250 :: write_string_nojid D true (u :: us) ++ write_string D f false srv
    | _, _ => write_bytes packed s
    end
  end.

Definition write_str (D : dict) (packed : bool) (s : str) : list N :=
  write_string D (length s) packed s.

Definition write_attrs (D : dict) (attrs : list (str * str)) : list N :=
  flat_map (fun kv => write_str D false (fst kv) ++ write_str D true (snd kv)) attrs.

(* the `for c in node.children: self.writeInternal(c, data)` loop *)
Definition write_kids (wn : node -> option (list N)) : list node -> option (list N) :=
  fix go (l : list node) : option (list N) :=
    match l with
    | [] => Some []
    | k :: r => match wn k, go r with
                | Some a, Some b => Some (a ++ b)
                | _, _ => None
                end
    end.

(* number of items announced in a node's list header *)
Definition header_size (attrs : list (str * str)) (data : option (list N)) (kids : list node) : N :=
  1 + 2 * lenN attrs + (match kids with [] => 0 | _ => 1 end)
    + (match data with None => 0 | Some _ => 1 end).

(* writeInternal; None = ValueError (a list size does not fit 16 bits) *)
Fixpoint write_node (D : dict) (n : node) : option (list N) :=
  match n with
  | Node tag attrs data kids =>
    match write_list_start (header_size attrs data kids) with
    | None => None
    | Some hdr =>
      let body := hdr ++ write_str D false tag ++ write_attrs D attrs
                      ++ (match data with Some d => write_bytes false d | None => [] end) in
      match kids with
      | [] => Some body
      | _ =>
        match write_list_start (lenN kids) with
        | None => None
        | Some khdr =>
          match write_kids (write_node D) kids with
          | None => None
          | Some ks => Some (body ++ khdr ++ ks)
          end
        end
      end
    end
  end.

(* WriteEncoder.protocolTreeNodeToBytes; None = ValueError *)
Definition encode (D : dict) (n : node) : option (list N) :=
  match write_node D n with Some b => Some (0 :: b) | None => None end.

(* ------------------------------------------------------------------ decoder *)

Inductive res (A : Type) : Type :=
| Ok (a : A)
| Err (code : N).
Arguments Ok {A} a.
Arguments Err {A} code.

Definition bind {A B} (r : res A) (f : A -> res B) : res B :=
  match r with Ok a => f a | Err c => Err c end.
Notation "' p <- r ;; k" := (bind r (fun p => k))
  (at level 200, p pattern, r at level 100, k at level 200, right associativity).

(* error codes (informative only) *)
Definition E_SHORT := 1.      (* pop from empty buffer: IndexError *)
Definition E_LIST := 2.       (* invalid list size token *)
Definition E_TOKEN := 3.      (* invalid / unknown token *)
Definition E_NIBBLE := 4.     (* bad nibble *)
Definition E_JID := 5.        (* readString couldn't reconstruct jid *)
Definition E_NULLTAG := 6.    (* 0 list or null tag *)
Definition E_NULLSTR := 7.    (* None as attribute key/value or child: node rejected by the harness *)
Definition E_FUEL := 8.       (* model only; excluded by the theorems *)
Definition E_FLAG := 9.       (* segmented flag / zlib error / empty frame *)

Definition read_int8 (d : list N) : res (N * list N) :=
  match d with [] => Err E_SHORT | x :: r => Ok (x, r) end.

Definition read_int16 (d : list N) : res (N * list N) :=
  '(a, d) <- read_int8 d ;; '(b, d) <- read_int8 d ;; Ok (a * 256 + b, d).

Definition read_int20 (d : list N) : res (N * list N) :=
  '(a, d) <- read_int8 d ;; '(b, d) <- read_int8 d ;; '(c, d) <- read_int8 d ;;
  Ok ((a mod 16) * 65536 + b * 256 + c, d).

Definition read_int31 (d : list N) : res (N * list N) :=
  '(a, d) <- read_int8 d ;; '(b, d) <- read_int8 d ;; '(c, d) <- read_int8 d ;;
  '(e, d) <- read_int8 d ;;
  Ok ((a mod 128) * 16777216 + b * 65536 + c * 256 + e, d).

Definition read_list_size (tok : N) (d : list N) : res (N * list N) :=
  if tok =? 0 then Ok (0, d)
  else if tok =? 248 then read_int8 d
  else if tok =? 249 then read_int16 d
  else Err E_LIST.

Definition is_list_tag (b : N) : bool := (b =? 248) || (b =? 0) || (b =? 249).

Definition nibbles (bs : list N) : list N := flat_map (fun b => [b / 16; b mod 16]) bs.

Definition unpack_hex (v : N) : res N :=
  if v <? 10 then Ok (v + 48) else if v <? 16 then Ok (65 + (v - 10)) else Err E_NIBBLE.

Definition unpack_nibble (v : N) : res N :=
  if v <? 10 then Ok (v + 48) else if v <? 12 then Ok (45 + (v - 10)) else Err E_NIBBLE.

Definition unpack_byte (n v : N) : res N :=
  if n =? 251 then unpack_hex v else if n =? 255 then unpack_nibble v else Err E_TOKEN.

(* the loop of readPacked8 when remove = 0: the last nibble is skipped when > 11 (not for hex) *)
Fixpoint unpack_all (n : N) (vs : list N) : res (list N) :=
  match vs with
  | [] => Ok []
  | [v] => if (11 <? v) && negb (n =? 251) then Ok []
           else 'c <- unpack_byte n v ;; Ok [c]
  | v :: r => 'c <- unpack_byte n v ;; 'cs <- unpack_all n r ;; Ok (c :: cs)
  end.

(* upper-case hex digit of a nibble value (binascii.hexlify(..).upper()) *)
Definition hexchar (v : N) : N := if v <? 10 then 48 + v else 55 + v.

Definition read_packed8 (n : N) (d : list N) : res (list N * list N) :=
  '(sb, d) <- read_int8 d ;;
  let remove := ((sb / 128) mod 2 =? 1) && (n =? 251) in
  let size := sb mod 128 in
  let text := takeN size d in
  let d := dropN size d in
  if remove then Ok (map hexchar (removelast (nibbles text)), d)
  else 'out <- unpack_all n (nibbles text) ;; Ok (out, d).

Definition nonempty_word (o : option str) : option str :=
  match o with Some (c :: w) => Some (c :: w) | _ => None end.

(* readString; fuel bounds JID nesting.  Ok None = Python None (token 0) *)
Fixpoint read_string (D : dict) (fuel : nat) (tok : N) (d : list N) : res (option str * list N) :=
  if (0 <? tok) && (tok <? 236) then
    match nonempty_word (nthN (primary D) tok) with
    | Some w => Ok (Some w, d)
    | None => '(idx, d) <- read_int8 d ;;
              match nonempty_word (nthN (secondary D) idx) with
              | Some w => Ok (Some w, d)
              | None => Err E_TOKEN
              end
    end
  else if tok =? 0 then Ok (None, d)
  else if (236 <=? tok) && (tok <=? 239) then
    '(r, d) <- read_int8 d ;;
    match nonempty_word (nthN (secondary D) (r + (tok - 236) * 256)) with
    | Some w => Ok (Some w, d)
    | None => Err E_TOKEN
    end
  else if tok =? 250 then
    match fuel with
    | O => Err E_FUEL
    | S f =>
      '(t1, d) <- read_int8 d ;; '(user, d) <- read_string D f t1 d ;;
      '(t2, d) <- read_int8 d ;; '(server, d) <- read_string D f t2 d ;;
      match user, server with
      | Some u, Some s => Ok (Some (u ++ 64 :: s), d)
      | None, Some s => Ok (Some s, d)
      | _, None => Err E_JID
      end
    end
  else if (tok =? 251) || (tok =? 255) then
    '(out, d) <- read_packed8 tok d ;; Ok (Some out, d)
  else if tok =? 252 then
    '(n, d) <- read_int8 d ;; Ok (Some (takeN n d), dropN n d)
  else if tok =? 253 then
    '(n, d) <- read_int20 d ;; Ok (Some (takeN n d), dropN n d)
  else if tok =? 254 then
    '(n, d) <- read_int31 d ;; Ok (Some (takeN n d), dropN n d)
  else Err E_TOKEN.

(* attribs[key] = value on a Python dict kept as an insertion-ordered list *)
Fixpoint attr_set (k v : str) (l : list (str * str)) : list (str * str) :=
  match l with
  | [] => [(k, v)]
  | (k', v') :: r => if str_eqb k' k then (k', v) :: r else (k', v') :: attr_set k v r
  end.

Fixpoint read_attrs (D : dict) (fuel : nat) (count : nat) (acc : list (str * str)) (d : list N)
  : res (list (str * str) * list N) :=
  match count with
  | O => Ok (acc, d)
  | S c =>
    '(t1, d) <- read_int8 d ;; '(k, d) <- read_string D fuel t1 d ;;
    '(t2, d) <- read_int8 d ;; '(v, d) <- read_string D fuel t2 d ;;
    match k, v with
    | Some k', Some v' => read_attrs D fuel c (attr_set k' v' acc) d
    | _, _ => Err E_NULLSTR
    end
  end.

Fixpoint read_n {A} (rd : list N -> res (option A * list N)) (n : nat) (d : list N)
  : res (list A * list N) :=
  match n with
  | O => Ok ([], d)
  | S n' => '(x, d) <- rd d ;;
            match x with
            | None => Err E_NULLSTR
            | Some a => '(xs, d) <- read_n rd n' d ;; Ok (a :: xs, d)
            end
  end.

(* nextTreeInternal; Ok None = the stream-end token 2 *)
Fixpoint next_tree (D : dict) (fuel : nat) (d : list N) : res (option node * list N) :=
  match fuel with
  | O => Err E_FUEL
  | S f =>
    '(b, d) <- read_int8 d ;;
    '(size, d) <- read_list_size b d ;;
    '(tok, d) <- read_int8 d ;;
    '(tok, d) <- (if tok =? 1 then read_int8 d else Ok (tok, d)) ;;
    if tok =? 2 then Ok (None, d) else
    '(tag, d) <- read_string D fuel tok d ;;
    match tag with
    | None => Err E_NULLTAG
    | Some tg =>
      if size =? 0 then Err E_NULLTAG else
      '(attrs, d) <- read_attrs D fuel (N.to_nat ((size + size mod 2 - 2) / 2)) [] d ;;
      if size mod 2 =? 1 then Ok (Some (Node tg attrs None []), d) else
      '(r2, d) <- read_int8 d ;;
      if is_list_tag r2 then
        '(n, d) <- read_list_size r2 d ;;
        '(kids, d) <- read_n (next_tree D f) (N.to_nat n) d ;;
        Ok (Some (Node tg attrs None kids), d)
      else
        '(s, d) <- read_string D fuel r2 d ;;
        match s with
        | Some x => Ok (Some (Node tg attrs (Some x) []), d)
        | None => Err E_NULLSTR
        end
    end
  end.

(* ReadDecoder.getProtocolTreeNode; inflate = zlib.decompress (None = zlib.error) *)
Definition decode (D : dict) (inflate : list N -> option (list N)) (b : list N)
  : res (option node) :=
  match b with
  | [] => Err E_SHORT
  | flag :: rest =>
    if (flag / 2) mod 2 =? 1 then
      match inflate rest with
      | Some d => '(t, _) <- next_tree D (S (length d)) d ;; Ok t
      | None => Err E_FLAG
      end
    else if flag mod 2 =? 1 then Err E_FLAG
    else '(t, _) <- next_tree D (S (length rest)) rest ;; Ok t
  end.
