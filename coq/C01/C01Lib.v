(* Generic lemmas for the codec proofs. *)
From YV Require Import Common.Tac C01.C01Model.

Lemma lenN_nil {A} : lenN (@nil A) = 0%N.
Proof. reflexivity. Qed.

Lemma lenN_cons {A} (x : A) l : lenN (x :: l) = (1 + lenN l)%N.
Proof. unfold lenN. cbn [length]. lia. Qed.

Lemma lenN_app {A} (a b : list A) : lenN (a ++ b) = (lenN a + lenN b)%N.
Proof. unfold lenN. rewrite app_length. lia. Qed.

Lemma takeN_firstn {A} : forall (l : list A) n, takeN n l = firstn (N.to_nat n) l.
Proof.
  induction l as [|x l IH]; intros n; cbn [takeN].
  - rewrite firstn_nil. reflexivity.
  - destruct (N.eqb_spec n 0) as [->|Hn]; [reflexivity|].
    replace (N.to_nat n) with (S (N.to_nat (N.pred n))) by lia.
    cbn [firstn]. rewrite IH. reflexivity.
Qed.

Lemma dropN_skipn {A} : forall (l : list A) n, dropN n l = skipn (N.to_nat n) l.
Proof.
  induction l as [|x l IH]; intros n; cbn [dropN].
  - rewrite skipn_nil. reflexivity.
  - destruct (N.eqb_spec n 0) as [->|Hn]; [reflexivity|].
    replace (N.to_nat n) with (S (N.to_nat (N.pred n))) by lia.
    cbn [skipn]. rewrite IH. reflexivity.
Qed.

Lemma takeN_app {A} (a b : list A) : takeN (lenN a) (a ++ b) = a.
Proof.
  rewrite takeN_firstn. unfold lenN. rewrite Nat2N.id.
  rewrite firstn_app, Nat.sub_diag, firstn_all. cbn [firstn]. apply app_nil_r.
Qed.

Lemma dropN_app {A} (a b : list A) : dropN (lenN a) (a ++ b) = b.
Proof.
  rewrite dropN_skipn. unfold lenN. rewrite Nat2N.id.
  rewrite skipn_app, Nat.sub_diag, skipn_all. reflexivity.
Qed.

Lemma str_eqb_spec : forall a b, str_eqb a b = true <-> a = b.
Proof.
  induction a as [|x a IH]; intros [|y b]; cbn [str_eqb]; split; intros H;
    try reflexivity; try discriminate.
  - apply andb_true_iff in H. destruct H as [H1 H2]. apply N.eqb_eq in H1. apply IH in H2.
    subst. reflexivity.
  - apply cons_inj in H. destruct H as [-> ->]. apply andb_true_iff. split.
    + apply N.eqb_refl.
    + apply IH. reflexivity.
Qed.

Lemma str_eqb_refl a : str_eqb a a = true.
Proof. apply str_eqb_spec. reflexivity. Qed.

Lemma str_eqb_neq a b : a <> b -> str_eqb a b = false.
Proof.
  intros H. destruct (str_eqb a b) eqn:E; [|reflexivity].
  apply str_eqb_spec in E. contradiction.
Qed.

(* index_of finds the first position holding s *)
Lemma index_of_nth : forall l s i0 i, index_of s l i0 = Some i ->
  (i0 <= i)%N /\ nth_error l (N.to_nat (i - i0)) = Some s.
Proof.
  induction l as [|w l IH]; intros s i0 i H; cbn [index_of] in H; [discriminate|].
  destruct (str_eqb w s) eqn:E.
  - apply Some_inj in H. subst i. apply str_eqb_spec in E. subst w.
    split; [lia|]. replace (N.to_nat (i0 - i0)) with O by lia. reflexivity.
  - apply IH in H. destruct H as [H1 H2]. split; [lia|].
    replace (N.to_nat (i - i0)) with (S (N.to_nat (i - N.succ i0))) by lia. exact H2.
Qed.

Lemma index_of_nthN l s i : index_of s l 0 = Some i -> nthN l i = Some s /\ (i < lenN l)%N.
Proof.
  intros H. apply index_of_nth in H. destruct H as [_ H].
  rewrite N.sub_0_r in H. split; [exact H|].
  unfold lenN. assert (N.to_nat i < length l)%nat.
  { apply nth_error_Some. rewrite H. discriminate. }
  lia.
Qed.

Lemma last_app_ne {A} (a b : list A) d : b <> [] -> last (a ++ b) d = last b d.
Proof.
  intros Hb. induction a as [|x a IH]; [reflexivity|].
  cbn [app]. destruct (a ++ b) as [|y r] eqn:E.
  - apply app_eq_nil in E. destruct E as [_ E]. congruence.
  - cbn [last]. exact IH.
Qed.
