(* sx glue for the codec model, instantiated with the generated dictionary. *)
From YV Require Import Common.Tac Common.Sx C01.C01Model Gen.C01Dict.

(* node  <->  (B tag  ((B k B v) ...)  () | (B data)  (node ...)) *)
Fixpoint node_of_sx (s : sx) : node :=
  match s with
  | SL (SB tag :: SL attrs :: SL dat :: SL kids :: _) =>
    Node tag
         (map (fun a => (sx_get_b (sx_nth a 0), sx_get_b (sx_nth a 1))) attrs)
         (match dat with SB d :: _ => Some d | _ => None end)
         (map node_of_sx kids)
  | _ => Node [] [] None []
  end.

Fixpoint sx_of_node (n : node) : sx :=
  match n with
  | Node tag attrs data kids =>
    SL [SB tag; SL (map (fun kv => SL [SB (fst kv); SB (snd kv)]) attrs);
        SL (match data with Some d => [SB d] | None => [] end);
        SL (map sx_of_node kids)]
  end.

(* (node) -> () | (B bytes) *)
Definition run_encode (arg : sx) : sx :=
  sx_opt SB (encode D (node_of_sx arg)).

Definition sx_of_res (r : res (option node)) : sx :=
  match r with
  | Ok (Some t) => SL [SN 0; sx_of_node t]
  | Ok None => SL [SN 1]
  | Err c => SL [SN 2; SN c]
  end.

(* B frame -> (0 node) | (1) | (2 code); zlib unavailable: deflate frames are errors *)
Definition run_decode (arg : sx) : sx :=
  sx_of_res (decode D (fun _ => None) (sx_get_b arg)).

(* the same with inflate answered by the harness (real zlib): oracle (B z) = () | (B d) *)
Definition orun_decode (oracle : sx -> sx) (arg : sx) : sx :=
  sx_of_res (decode D (fun z => match oracle (SB z) with SL (SB d :: _) => Some d | _ => None end)
                    (sx_get_b arg)).

(* B string, N packed -> B bytes written by writeString *)
Definition run_write_string (arg : sx) : sx :=
  SB (write_str D (sx_get_bool (sx_nth arg 1)) (sx_get_b (sx_nth arg 0))).
