(* Instantiation of the generic codec theorems with the dictionary regenerated from
   tokendictionary.py (Gen/C01Dict.v).  Re-checked on every run. *)
From YV Require Import Common.Tac C01.C01Model C01.C01Lib C02.C02Spec
     C01.C01DecodeNode C01.C01Encode C01.C01Proofs Gen.C01Dict.
Local Open Scope N_scope.

Lemma D_ok : dict_okb D = true.
Proof. vm_compute. reflexivity. Qed.

(* the two reserved stream words are entries 1 and 2 of the primary table *)
Definition xmlstreamstart : str := [120;109;108;115;116;114;101;97;109;115;116;97;114;116].
Definition xmlstreamend : str := [120;109;108;115;116;114;101;97;109;101;110;100].

Lemma reserved_words : nthN (primary D) 1 = Some xmlstreamstart /\
                       nthN (primary D) 2 = Some xmlstreamend.
Proof. split; vm_compute; reflexivity. Qed.

Lemma reserved_iff s : reserved D s <-> s = xmlstreamstart \/ s = xmlstreamend.
Proof.
  destruct reserved_words as [H1 H2]. unfold reserved. rewrite H1, H2.
  split; intros [H|H]; [left|right|left|right]; congruence.
Qed.

(* non-vacuity: a tree using a JID, nibble- and hex-packed values, a secondary token, a
   20-bit-length payload, an attribute list and more than 255 children is well-formed and
   round-trips through the model *)
Definition ex_leaf : node := Node [99] [] None [].
Definition ex_tree : node :=
  Node [109;101;115;115;97;103;101]
       [([116;111], [52;57;49;53;49;64;115;46;119;104;97;116;115;97;112;112;46;110;101;116]);
        ([105;100], [51;65;70;48]);
        ([116], [49;53;48;48;45;46]);
        ([110;111;116;105;102;121], [72;105;32;116;104;101;114;101])]
       None
       (Node [101;110;99] [([118], [50])] (Some (repeat 7 300)) []
        :: Node [87;101;98;75;105;116] [] None []
        :: repeat ex_leaf 260).

Lemma wf_str_b s : (match s with [] => false | _ => true end) = true ->
  (negb (last s 0 =? 64)) = true -> forallb (fun c => c <? 256) s = true ->
  lenN s < 2147483648 -> wf_str s.
Proof.
  intros H1 H2 H3 H4. split; [destruct s; [discriminate|discriminate]|].
  split; [apply negb_true_iff in H2; lia|]. split; [exact H4|].
  apply Forall_forall. intros c Hc. rewrite forallb_forall in H3. specialize (H3 c Hc). lia.
Qed.

Ltac wfstr := apply wf_str_b; vm_compute; reflexivity.

Lemma ex_leaf_wf : wf_node D ex_leaf.
Proof.
  unfold ex_leaf. constructor.
  - wfstr.
  - rewrite reserved_iff. intros [H|H]; discriminate.
  - constructor.
  - constructor.
  - left. reflexivity.
  - intros d Hd. discriminate.
  - constructor.
Qed.

Lemma wf_kids_repeat n : wf_kids D (repeat ex_leaf n).
Proof. induction n; cbn [repeat]; constructor; [apply ex_leaf_wf|assumption]. Qed.

Example ex_tree_wf : wf_node D ex_tree.
Proof.
  unfold ex_tree. constructor.
  - wfstr.
  - rewrite reserved_iff. intros [H|H]; discriminate.
  - repeat constructor; cbn [fst snd]; wfstr.
  - repeat constructor; cbn [map fst In]; intuition discriminate.
  - left. reflexivity.
  - intros d Hd. discriminate.
  - constructor; [|constructor; [|apply wf_kids_repeat]].
    + constructor.
      * wfstr.
      * rewrite reserved_iff. intros [H|H]; discriminate.
      * repeat constructor; cbn [fst snd]; wfstr.
      * repeat constructor. cbn [map fst In]. tauto.
      * right. reflexivity.
      * intros d Hd. apply Some_inj in Hd. subst d. split; [vm_compute; reflexivity|].
        apply Forall_forall. intros c Hc. apply repeat_spec in Hc. subst c. lia.
      * constructor.
    + constructor.
      * wfstr.
      * rewrite reserved_iff. intros [H|H]; discriminate.
      * constructor.
      * constructor.
      * left. reflexivity.
      * intros d Hd. discriminate.
      * constructor.
Qed.

Example ex_tree_roundtrips :
  exists b, encode D ex_tree = Some b /\ (1000 < lenN b) /\
            decode D (fun _ => None) b = Ok (Some ex_tree).
Proof.
  destruct (encode D ex_tree) as [b|] eqn:E.
  - exists b. split; [reflexivity|]. split.
    + revert E. vm_compute. intros E. apply Some_inj in E. subst b. reflexivity.
    + apply (roundtrip_thm D _ D_ok ex_tree b ex_tree_wf E).
  - exfalso. revert E. vm_compute. discriminate.
Qed.
