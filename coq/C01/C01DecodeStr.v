(* Decoder completeness for strings: every encoding the format allows is read back. *)
From YV Require Import Common.Tac C01.C01Model C01.C01Lib C02.C02Spec C01.C01Packed.
Local Open Scope N_scope.

Section S.
Variable D : dict.

Lemma rs_unfold fuel tok d :
  read_string D fuel tok d =
  if (0 <? tok) && (tok <? 236) then
    match nonempty_word (nthN (primary D) tok) with
    | Some w => Ok (Some w, d)
    | None => '(idx, d) <- read_int8 d ;;
              match nonempty_word (nthN (secondary D) idx) with
              | Some w => Ok (Some w, d)
              | None => Err E_TOKEN
              end
    end
  else if tok =? 0 then Ok (None, d)
  else if (236 <=? tok) && (tok <=? 239) then
    '(r, d) <- read_int8 d ;;
    match nonempty_word (nthN (secondary D) (r + (tok - 236) * 256)) with
    | Some w => Ok (Some w, d)
    | None => Err E_TOKEN
    end
  else if tok =? 250 then
    match fuel with
    | O => Err E_FUEL
    | S f =>
      '(t1, d) <- read_int8 d ;; '(user, d) <- read_string D f t1 d ;;
      '(t2, d) <- read_int8 d ;; '(server, d) <- read_string D f t2 d ;;
      match user, server with
      | Some u, Some s => Ok (Some (u ++ 64 :: s), d)
      | None, Some s => Ok (Some s, d)
      | _, None => Err E_JID
      end
    end
  else if (tok =? 251) || (tok =? 255) then
    '(out, d) <- read_packed8 tok d ;; Ok (Some out, d)
  else if tok =? 252 then
    '(n, d) <- read_int8 d ;; Ok (Some (takeN n d), dropN n d)
  else if tok =? 253 then
    '(n, d) <- read_int20 d ;; Ok (Some (takeN n d), dropN n d)
  else if tok =? 254 then
    '(n, d) <- read_int31 d ;; Ok (Some (takeN n d), dropN n d)
  else Err E_TOKEN.
Proof. destruct fuel; reflexivity. Qed.

Lemma nonempty_word_some (s : str) : s <> [] -> nonempty_word (Some s) = Some s.
Proof. destruct s; [congruence|reflexivity]. Qed.

Lemma rs_tok fuel i s d : 1 <= i < 236 -> nthN (primary D) i = Some s -> s <> [] ->
  read_string D fuel i d = Ok (Some s, d).
Proof.
  intros Hi Hn Hs. rewrite rs_unfold.
  replace ((0 <? i) && (i <? 236)) with true by lia.
  rewrite Hn, (nonempty_word_some s Hs). reflexivity.
Qed.

Lemma rs_tok2 fuel j s d : j < 1024 -> nthN (secondary D) j = Some s -> s <> [] ->
  read_string D fuel (236 + j / 256) (j mod 256 :: d) = Ok (Some s, d).
Proof.
  intros Hj Hn Hs. rewrite rs_unfold.
  replace ((0 <? 236 + j / 256) && (236 + j / 256 <? 236)) with false by lia.
  replace (236 + j / 256 =? 0) with false by lia.
  replace ((236 <=? 236 + j / 256) && (236 + j / 256 <=? 239)) with true by lia.
  cbn [read_int8 bind].
  replace (j mod 256 + (236 + j / 256 - 236) * 256) with j by lia.
  rewrite Hn, (nonempty_word_some s Hs). reflexivity.
Qed.

Lemma rs_252 fuel d : read_string D fuel 252 d =
  ('(n, d) <- read_int8 d ;; Ok (Some (takeN n d), dropN n d)).
Proof. destruct fuel; reflexivity. Qed.
Lemma rs_253 fuel d : read_string D fuel 253 d =
  ('(n, d) <- read_int20 d ;; Ok (Some (takeN n d), dropN n d)).
Proof. destruct fuel; reflexivity. Qed.
Lemma rs_254 fuel d : read_string D fuel 254 d =
  ('(n, d) <- read_int31 d ;; Ok (Some (takeN n d), dropN n d)).
Proof. destruct fuel; reflexivity. Qed.
Lemma rs_255 fuel d : read_string D fuel 255 d =
  ('(out, d) <- read_packed8 255 d ;; Ok (Some out, d)).
Proof. destruct fuel; reflexivity. Qed.
Lemma rs_251 fuel d : read_string D fuel 251 d =
  ('(out, d) <- read_packed8 251 d ;; Ok (Some out, d)).
Proof. destruct fuel; reflexivity. Qed.
Lemma rs_250 f d : read_string D (S f) 250 d =
  ('(t1, d) <- read_int8 d ;; '(user, d) <- read_string D f t1 d ;;
   '(t2, d) <- read_int8 d ;; '(server, d) <- read_string D f t2 d ;;
   match user, server with
   | Some u, Some s => Ok (Some (u ++ 64 :: s), d)
   | None, Some s => Ok (Some s, d)
   | _, None => Err E_JID
   end).
Proof. reflexivity. Qed.
Lemma rs_0 fuel d : read_string D fuel 0 d = Ok (None, d).
Proof. destruct fuel; reflexivity. Qed.

Lemma rs_raw8 fuel s d : lenN s < 256 ->
  read_string D fuel 252 (lenN s :: s ++ d) = Ok (Some s, d).
Proof.
  intros H. rewrite rs_252. cbn [read_int8 bind]. rewrite takeN_app, dropN_app. reflexivity.
Qed.

Lemma rs_raw20 fuel s d : lenN s < 1048576 ->
  read_string D fuel 253 (int20 (lenN s) ++ s ++ d) = Ok (Some s, d).
Proof.
  intros H. rewrite rs_253. unfold int20, read_int20. cbn [app read_int8 bind].
  replace ((lenN s / 65536) mod 16 * 65536 + (lenN s / 256) mod 256 * 256 + lenN s mod 256)
    with (lenN s) by lia.
  rewrite takeN_app, dropN_app. reflexivity.
Qed.

Lemma rs_raw31 fuel s d : lenN s < 2147483648 ->
  read_string D fuel 254 (int31 (lenN s) ++ s ++ d) = Ok (Some s, d).
Proof.
  intros H. rewrite rs_254. unfold int31, read_int31. cbn [app read_int8 bind].
  replace ((lenN s / 16777216) mod 128 * 16777216 + (lenN s / 65536) mod 256 * 65536
           + (lenN s / 256) mod 256 * 256 + lenN s mod 256) with (lenN s) by lia.
  rewrite takeN_app, dropN_app. reflexivity.
Qed.

Lemma read_packed8_spec n (s vs : list N) d : lenN vs = lenN s -> lenN s <= 254 ->
  Forall (fun v => v < 16) vs ->
  read_packed8 n (packed_header (lenN s) :: pack_pairs vs ++ d) =
  let nb := if lenN s mod 2 =? 0 then vs else vs ++ [15] in
  if (lenN s mod 2 =? 1) && (n =? 251) then Ok (map hexchar (removelast nb), d)
  else bind (unpack_all n nb) (fun out => Ok (out, d)).
Proof.
  intros Hl Hs Hv. unfold read_packed8. cbn [read_int8 bind].
  destruct (header_facts (lenN s) Hs) as [H1 H2]. rewrite H1, H2.
  assert (Hp : (lenN s + 1) / 2 = lenN (pack_pairs vs)) by (rewrite lenN_pack_pairs, Hl; reflexivity).
  rewrite Hp, takeN_app, dropN_app. rewrite (nibbles_pack_pairs vs Hv), even_mod2, Hl.
  reflexivity.
Qed.

Lemma rs_nibble fuel s vs d : vals nibble_val s = Some vs -> lenN s <= 254 ->
  read_string D fuel 255 (packed_header (lenN s) :: pack_pairs vs ++ d) = Ok (Some s, d).
Proof.
  intros Hv Hs. rewrite rs_255.
  rewrite (read_packed8_spec 255 s vs d (vals_length _ _ _ Hv) Hs).
  2:{ eapply vals_lt16; [|exact Hv]. intros c v Hc. apply nibble_val_spec in Hc. lia. }
  cbv zeta. change (255 =? 251) with false. rewrite andb_false_r.
  destruct (unpack_nibbles s vs Hv) as [U1 U2].
  destruct (lenN s mod 2 =? 0); [rewrite U1|rewrite U2]; reflexivity.
Qed.

Lemma rs_hex fuel s vs d : vals hex_val s = Some vs -> lenN s <= 254 ->
  read_string D fuel 251 (packed_header (lenN s) :: pack_pairs vs ++ d) = Ok (Some s, d).
Proof.
  intros Hv Hs. rewrite rs_251.
  rewrite (read_packed8_spec 251 s vs d (vals_length _ _ _ Hv) Hs).
  2:{ eapply vals_lt16; [|exact Hv]. intros c v Hc. apply hex_val_spec in Hc. lia. }
  cbv zeta. change (251 =? 251) with true. rewrite andb_true_r.
  destruct (unpack_hexes s vs Hv) as [U1 U2].
  destruct (N.eqb_spec (lenN s mod 2) 1) as [E|E].
  - replace (lenN s mod 2 =? 0) with false by lia.
    rewrite removelast_last, U2. reflexivity.
  - replace (lenN s mod 2 =? 0) with true by lia. rewrite U1. reflexivity.
Qed.

(* the general statement: any derivation of EncStr is read back, leaving the rest untouched *)
Theorem read_string_complete : forall s bb, EncStr D s bb ->
  forall fuel rest, (length bb <= fuel)%nat ->
  exists tok b, bb = tok :: b /\ read_string D fuel tok (b ++ rest) = Ok (Some s, rest).
Proof.
  induction 1 as [i s Hi Hn Hs | j s Hj Hn Hs | s Hl | s Hl | s Hl | s vs Hv Hl | s vs Hv Hl
                  | u s bu bs Hu IHu Hsv IHs | s bs Hsv IHs]; intros fuel rest Hf.
  - exists i, []. split; [reflexivity|]. apply rs_tok; assumption.
  - exists (236 + j / 256), [j mod 256]. split; [reflexivity|]. apply rs_tok2; assumption.
  - exists 252, (lenN s :: s). split; [reflexivity|]. cbn [app]. apply rs_raw8; assumption.
  - exists 253, (int20 (lenN s) ++ s). split; [reflexivity|].
    rewrite <- app_assoc. apply rs_raw20; assumption.
  - exists 254, (int31 (lenN s) ++ s). split; [reflexivity|].
    rewrite <- app_assoc. apply rs_raw31; assumption.
  - exists 255, (packed_header (lenN s) :: pack_pairs vs). split; [reflexivity|].
    cbn [app]. apply rs_nibble; assumption.
  - exists 251, (packed_header (lenN s) :: pack_pairs vs). split; [reflexivity|].
    cbn [app]. apply rs_hex; assumption.
  - exists 250, (bu ++ bs). split; [reflexivity|].
    destruct fuel as [|f]; [cbn [length] in Hf; lia|].
    cbn [length] in Hf. rewrite app_length in Hf.
    destruct (IHu f (bs ++ rest)) as (t1 & b1 & -> & R1); [lia|].
    destruct (IHs f rest) as (t2 & b2 & -> & R2); [lia|].
    rewrite rs_250. rewrite <- app_assoc. cbn [app] in R1. cbn [app read_int8 bind]. rewrite R1.
    cbn [bind read_int8]. rewrite R2. reflexivity.
  - exists 250, (0 :: bs). split; [reflexivity|].
    destruct fuel as [|f]; [cbn [length] in Hf; lia|].
    cbn [length] in Hf.
    destruct (IHs f rest) as (t2 & b2 & -> & R2); [lia|].
    rewrite rs_250. cbn [app read_int8 bind]. rewrite rs_0. cbn [bind read_int8]. rewrite R2.
    reflexivity.
Qed.

End S.
