(* Decoder completeness for nodes: every frame the format allows decodes to its tree. *)
From YV Require Import Common.Tac C01.C01Model C01.C01Lib C02.C02Spec C01.C01DecodeStr.
Local Open Scope N_scope.

(* attribute keys are distinct (a Python dict), at every node *)
Inductive attrs_ok : node -> Prop :=
| AO tag attrs data kids : NoDup (map fst attrs) -> all_ok kids ->
                           attrs_ok (Node tag attrs data kids)
with all_ok : list node -> Prop :=
| AO_nil : all_ok []
| AO_cons k r : attrs_ok k -> all_ok r -> all_ok (k :: r).

Section S.
Variable D : dict.

Lemma rl_complete n b : EncList n b -> forall rest,
  exists tok b', b = tok :: b' /\ is_list_tag tok = true /\
                 read_list_size tok (b' ++ rest) = Ok (n, rest).
Proof.
  intros [| m Hm | m Hm] rest.
  - exists 0, []. repeat split.
  - exists 248, [m]. repeat split.
  - exists 249, (int16 m). repeat split.
    unfold int16, read_list_size. change (249 =? 0) with false. change (249 =? 248) with false.
    change (249 =? 249) with true. cbv iota. unfold read_int16. cbn [app read_int8 bind].
    replace (m / 256 * 256 + m mod 256) with m by lia. reflexivity.
Qed.

Lemma encstr_hd s bb : EncStr D s bb ->
  exists tok b, bb = tok :: b /\ is_list_tag tok = false.
Proof.
  intros H. destruct H as [i s Hi _ _ | j s Hj _ _ | | | | | | |]; eexists _, _;
    (split; [reflexivity|]); try reflexivity; unfold is_list_tag; lia.
Qed.

Lemma attr_set_fresh k v l : ~ In k (map fst l) -> attr_set k v l = l ++ [(k, v)].
Proof.
  induction l as [|[k' v'] l IH]; intros H; cbn [attr_set app]; [reflexivity|].
  cbn [map fst In] in H. rewrite str_eqb_neq by (intros E; apply H; left; exact E).
  rewrite IH; [reflexivity|]. intros Hin. apply H. right. exact Hin.
Qed.

Lemma read_attrs_complete : forall attrs ba, EncAttrs D attrs ba ->
  forall acc fuel rest, (length ba <= fuel)%nat -> NoDup (map fst (acc ++ attrs)) ->
  read_attrs D fuel (length attrs) acc (ba ++ rest) = Ok (acc ++ attrs, rest).
Proof.
  induction 1 as [| k v r bk bv br Hk Hv Hr IH]; intros acc fuel rest Hf Hnd.
  - cbn [length read_attrs app]. rewrite app_nil_r. reflexivity.
  - cbn [length read_attrs]. rewrite !app_length in Hf.
    destruct (read_string_complete D k bk Hk fuel ((bv ++ br) ++ rest)) as (t1 & b1 & -> & R1); [lia|].
    destruct (read_string_complete D v bv Hv fuel (br ++ rest)) as (t2 & b2 & -> & R2); [lia|].
    rewrite <- !app_assoc in *. cbn [app] in *. cbn [read_int8 bind]. rewrite R1.
    cbn [read_int8 bind]. rewrite R2. cbn [bind].
    rewrite attr_set_fresh.
    2:{ rewrite map_app in Hnd. cbn [map fst] in Hnd. apply NoDup_remove_2 in Hnd.
        intros Hin. apply Hnd. apply in_or_app. left. exact Hin. }
    rewrite IH.
    + rewrite <- app_assoc. reflexivity.
    + lia.
    + rewrite <- app_assoc. exact Hnd.
Qed.

Lemma next_tree_S f d :
  next_tree D (S f) d =
  ('(b, d) <- read_int8 d ;;
   '(size, d) <- read_list_size b d ;;
   '(tok, d) <- read_int8 d ;;
   '(tok, d) <- (if tok =? 1 then read_int8 d else Ok (tok, d)) ;;
   if tok =? 2 then Ok (None, d) else
   '(tag, d) <- read_string D (S f) tok d ;;
   match tag with
   | None => Err E_NULLTAG
   | Some tg =>
     if size =? 0 then Err E_NULLTAG else
     '(attrs, d) <- read_attrs D (S f) (N.to_nat ((size + size mod 2 - 2) / 2)) [] d ;;
     if size mod 2 =? 1 then Ok (Some (Node tg attrs None []), d) else
     '(r2, d) <- read_int8 d ;;
     if is_list_tag r2 then
       '(n, d) <- read_list_size r2 d ;;
       '(kids, d) <- read_n (next_tree D f) (N.to_nat n) d ;;
       Ok (Some (Node tg attrs None kids), d)
     else
       '(s, d) <- read_string D (S f) r2 d ;;
       match s with
       | Some x => Ok (Some (Node tg attrs (Some x) []), d)
       | None => Err E_NULLSTR
       end
   end).
Proof. reflexivity. Qed.

(* common prefix of the three node shapes: header, tag, attributes *)
Lemma node_prefix f size tag attrs bh bt ba rest
      (K : N * list N -> res (option node * list N)) :
  EncList size bh -> EncTag D tag bt -> EncAttrs D attrs ba ->
  NoDup (map fst attrs) -> (length (bh ++ bt ++ ba) <= S f)%nat ->
  (size = 2 * lenN attrs + 1 \/ size = 2 * lenN attrs + 2) ->
  next_tree D (S f) (bh ++ bt ++ ba ++ rest) =
  if size mod 2 =? 1 then Ok (Some (Node tag attrs None []), rest) else
  ('(r2, d) <- read_int8 rest ;;
   if is_list_tag r2 then
     '(n, d) <- read_list_size r2 d ;;
     '(kids, d) <- read_n (next_tree D f) (N.to_nat n) d ;;
     Ok (Some (Node tag attrs None kids), d)
   else
     '(s, d) <- read_string D (S f) r2 d ;;
     match s with
     | Some x => Ok (Some (Node tag attrs (Some x) []), d)
     | None => Err E_NULLSTR
     end).
Proof.
  intros Hh [Ht [Ht1 Ht2]] Ha Hnd Hf Hsz. rewrite !app_length in Hf.
  destruct (rl_complete size bh Hh (bt ++ ba ++ rest)) as (tk & b' & -> & _ & RL).
  destruct (read_string_complete D tag bt Ht (S f) (ba ++ rest)) as (t1 & b1 & -> & R1); [lia|].
  cbn [hd] in Ht1, Ht2.
  cbn [app] in RL, R1. rewrite next_tree_S. cbn [app read_int8 bind]. rewrite RL. cbn [app read_int8 bind].
  replace (t1 =? 1) with false by lia. cbn [bind]. replace (t1 =? 2) with false by lia.
  rewrite R1. cbn [bind].
  replace (size =? 0) with false by lia.
  replace (N.to_nat ((size + size mod 2 - 2) / 2)) with (length attrs) by (unfold lenN in Hsz; lia).
  rewrite (read_attrs_complete attrs ba Ha [] (S f) rest); [|lia|exact Hnd].
  cbn [app bind]. reflexivity.
Qed.

Theorem next_tree_complete :
  forall t b, EncNode D t b -> attrs_ok t ->
  forall fuel rest, (length b < fuel)%nat -> next_tree D fuel (b ++ rest) = Ok (Some t, rest).
Proof.
  apply (EncNode_mut D
    (fun t b => attrs_ok t -> forall fuel rest, (length b < fuel)%nat ->
                next_tree D fuel (b ++ rest) = Ok (Some t, rest))
    (fun kids bks => all_ok kids -> forall f rest, (length bks < f)%nat \/ kids = [] ->
                read_n (next_tree D f) (length kids) (bks ++ rest) = Ok (kids, rest))).
  - (* EN_empty *)
    intros tag attrs bh bt ba Hh Ht Ha Hok fuel rest Hf.
    inversion Hok as [? ? ? ? Hnd _]; subst.
    destruct fuel as [|f]; [lia|]. rewrite <- !app_assoc.
    rewrite (node_prefix f _ tag attrs bh bt ba rest (fun _ => Err 0) Hh Ht Ha Hnd); [|lia|lia].
    replace ((2 * lenN attrs + 1) mod 2 =? 1) with true by lia. reflexivity.
  - (* EN_data *)
    intros tag attrs d bh bt ba bd Hh Ht Ha Hd Hok fuel rest Hf.
    inversion Hok as [? ? ? ? Hnd _]; subst.
    destruct fuel as [|f]; [lia|]. rewrite !app_length in Hf. rewrite <- !app_assoc.
    rewrite (node_prefix f _ tag attrs bh bt ba (bd ++ rest) (fun _ => Err 0) Hh Ht Ha Hnd);
      [|rewrite !app_length; lia|lia].
    replace ((2 * lenN attrs + 2) mod 2 =? 1) with false by lia.
    destruct (encstr_hd d bd Hd) as (tk & b' & E & Hl).
    destruct (read_string_complete D d bd Hd (S f) rest) as (t1 & b1 & E1 & R1); [lia|].
    rewrite E in E1. apply cons_inj in E1. destruct E1 as [<- <-]. subst bd.
    cbn [app read_int8 bind]. rewrite Hl, R1. reflexivity.
  - (* EN_kids *)
    intros tag attrs kids bh bt ba bl bks Hh Ht Ha Hl Hk IHk Hok fuel rest Hf.
    inversion Hok as [? ? ? ? Hnd Hall]; subst.
    destruct fuel as [|f]; [lia|]. rewrite !app_length in Hf. rewrite <- !app_assoc.
    rewrite (node_prefix f _ tag attrs bh bt ba (bl ++ bks ++ rest) (fun _ => Err 0) Hh Ht Ha Hnd);
      [|rewrite !app_length; lia|lia].
    replace ((2 * lenN attrs + 2) mod 2 =? 1) with false by lia.
    destruct (rl_complete _ bl Hl (bks ++ rest)) as (tk & b' & -> & Hlt & RL).
    cbn [app read_int8 bind]. rewrite Hlt, RL. cbn [bind].
    replace (N.to_nat (lenN kids)) with (length kids) by (unfold lenN; lia).
    rewrite (IHk Hall f rest); [reflexivity|]. left. cbn [length] in Hf. lia.
  - (* EK_nil *)
    intros _ f rest _. reflexivity.
  - (* EK_cons *)
    intros k ks bk bks Hk IHk Hks IHks Hall f rest Hf.
    inversion Hall as [|? ? Hok Hall']; subst.
    destruct Hf as [Hf|Hf]; [|discriminate]. rewrite app_length in Hf.
    cbn [length read_n]. rewrite <- app_assoc.
    rewrite (IHk Hok f (bks ++ rest)); [|lia]. cbn [bind].
    rewrite (IHks Hall' f rest); [reflexivity|]. left. lia.
Qed.

Section Frames.
Variable inflate : list N -> option (list N).

Theorem decode_complete t b : Frame D inflate t b -> attrs_ok t ->
  decode D inflate b = Ok (Some t).
Proof.
  intros [t0 b0 He | t0 z b0 Hz He] Hok; unfold decode.
  - change ((0 / 2) mod 2 =? 1) with false. change (0 mod 2 =? 1) with false. cbv iota.
    rewrite <- (app_nil_r b0). rewrite (next_tree_complete t0 b0 He Hok); [reflexivity|].
    rewrite app_nil_r. lia.
  - change ((2 / 2) mod 2 =? 1) with true. cbv iota. rewrite Hz.
    rewrite <- (app_nil_r b0). rewrite (next_tree_complete t0 b0 He Hok); [reflexivity|].
    rewrite app_nil_r. lia.
Qed.

(* the format is unambiguous on trees with distinct attribute keys *)
Corollary frame_unambiguous t t' b : Frame D inflate t b -> Frame D inflate t' b ->
  attrs_ok t -> attrs_ok t' -> t = t'.
Proof.
  intros H1 H2 O1 O2. pose proof (decode_complete t b H1 O1) as E1.
  pose proof (decode_complete t' b H2 O2) as E2. rewrite E1 in E2. congruence.
Qed.
End Frames.

End S.
