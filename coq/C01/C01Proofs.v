(* Top-level codec theorems, generic in the dictionary. *)
From YV Require Import Common.Tac C01.C01Model C01.C01Lib C02.C02Spec
     C01.C01DecodeStr C01.C01DecodeNode C01.C01Encode.
Local Open Scope N_scope.

Scheme wf_node_mut := Minimality for wf_node Sort Prop
  with wf_kids_mut := Minimality for wf_kids Sort Prop.

(* every list size of the tree fits the format's 16-bit list header *)
Fixpoint fitsb (t : node) : bool :=
  match t with
  | Node tag attrs data kids =>
    (header_size attrs data kids <? 65536) && (lenN kids <? 65536) && forallb fitsb kids
  end.

Section S.
Variable D : dict.
Variable inflate : list N -> option (list N).

Lemma wf_attrs_ok : forall t, wf_node D t -> attrs_ok t.
Proof.
  apply (wf_node_mut D (fun t => attrs_ok t) (fun ks => all_ok ks)).
  - intros tag attrs data kids _ _ _ Hnd _ _ _ Hall. constructor; assumption.
  - constructor.
  - intros k r _ Hk _ Hr. constructor; assumption.
Qed.

Hypothesis Dok : dict_okb D = true.

Theorem encode_frame_thm t b : wf_node D t -> encode D t = Some b -> Frame D inflate t b.
Proof.
  intros Hwf H. unfold encode in H. destruct (write_node D t) as [b0|] eqn:E; [|discriminate].
  apply Some_inj in H. subst b. apply F_plain. apply write_node_enc; assumption.
Qed.

Theorem accepts_all_thm t b : attrs_ok t -> Frame D inflate t b ->
  decode D inflate b = Ok (Some t).
Proof. intros Hok HF. apply decode_complete; assumption. Qed.

Theorem roundtrip_thm t b : wf_node D t -> encode D t = Some b ->
  decode D inflate b = Ok (Some t).
Proof.
  intros Hwf H. apply accepts_all_thm; [apply wf_attrs_ok; exact Hwf|].
  apply encode_frame_thm; assumption.
Qed.

(* decoding consumes exactly the node's bytes: whatever follows is left untouched *)
Theorem trailing_thm t b rest : wf_node D t -> write_node D t = Some b ->
  next_tree D (S (length (b ++ rest))) (b ++ rest) = Ok (Some t, rest).
Proof.
  intros Hwf H. apply next_tree_complete.
  - apply write_node_enc; assumption.
  - apply wf_attrs_ok. exact Hwf.
  - rewrite app_length. lia.
Qed.

End S.

(* the encoder refuses (ValueError) exactly the trees with a list size beyond 16 bits;
   it never truncates one *)
Lemma wls_some n : (exists b, write_list_start n = Some b) <-> (n <? 65536) = true.
Proof.
  unfold write_list_start. destruct (n =? 0) eqn:E0.
  { split; [intros _; lia|intros _; eexists; reflexivity]. }
  destruct (n <? 256) eqn:E1.
  { split; [intros _; lia|intros _; eexists; reflexivity]. }
  destruct (n <? 65536) eqn:E2.
  { split; [intros _; reflexivity|intros _; eexists; reflexivity]. }
  split; [intros [b Hb]; discriminate|discriminate].
Qed.

Theorem refuses_thm (D : dict) : forall t, (exists b, encode D t = Some b) <-> fitsb t = true.
Proof.
  assert (Hw : forall t, (exists b, write_node D t = Some b) <-> fitsb t = true).
  { induction t as [tag attrs data kids IHk | | k r IHk IHr] using node_ind2 with
      (Q := fun kids => (exists b, write_kids (write_node D) kids = Some b) <->
                        forallb fitsb kids = true).
    - cbn [write_node fitsb].
      destruct (write_list_start (header_size attrs data kids)) as [hdr|] eqn:Eh.
      + assert (H1 : (header_size attrs data kids <? 65536) = true)
          by (apply wls_some; eexists; exact Eh).
        rewrite H1. cbn [andb]. destruct kids as [|k0 kr].
        * cbn [forallb]. change (lenN (@nil node) <? 65536) with true.
          split; [reflexivity|intros _; eexists; reflexivity].
        * destruct (write_list_start (lenN (k0 :: kr))) as [khdr|] eqn:Ek.
          -- assert (H2 : (lenN (k0 :: kr) <? 65536) = true)
               by (apply wls_some; eexists; exact Ek).
             rewrite H2. cbn [andb]. rewrite <- IHk.
             destruct (write_kids (write_node D) (k0 :: kr)) as [ks|].
             ++ split; intros _; eexists; reflexivity.
             ++ split; intros [b Hb]; discriminate.
          -- assert (H2 : (lenN (k0 :: kr) <? 65536) = false).
             { destruct (lenN (k0 :: kr) <? 65536) eqn:E; [|reflexivity].
               apply wls_some in E. destruct E as [b Hb]. congruence. }
             rewrite H2. cbn [andb]. split; [intros [b Hb]; discriminate|discriminate].
      + assert (H1 : (header_size attrs data kids <? 65536) = false).
        { destruct (header_size attrs data kids <? 65536) eqn:E; [|reflexivity].
          apply wls_some in E. destruct E as [b Hb]. congruence. }
        rewrite H1. cbn [andb]. split; [intros [b Hb]; discriminate|discriminate].
    - cbn. split; [reflexivity|intros _; eexists; reflexivity].
    - cbn [write_kids forallb]. fold (write_kids (write_node D)).
      destruct (write_node D k) as [a|] eqn:Ea.
      + assert (Hk : fitsb k = true) by (apply IHk; eexists; reflexivity).
        rewrite Hk. cbn [andb]. rewrite <- IHr.
        destruct (write_kids (write_node D) r) as [b'|].
        * split; intros _; eexists; reflexivity.
        * split; intros [b Hb]; discriminate.
      + assert (Hk : fitsb k = false).
        { destruct (fitsb k) eqn:E; [|reflexivity]. destruct (proj2 IHk eq_refl) as [b Hb]. discriminate. }
        rewrite Hk. cbn [andb]. split; [intros [b Hb]; discriminate|discriminate]. }
  intros t. rewrite <- Hw. unfold encode. destruct (write_node D t) as [b0|].
  - split; intros _; eexists; reflexivity.
  - split; intros [b Hb]; discriminate.
Qed.
