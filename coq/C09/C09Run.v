(* Glue between the sx line format and the C09 model (unverified, trusted, small).
   node   = (B tag ((B key aval) ...) data (node ...))     aval = (N0 B str) | (N1 N int) | (N2)
   data   = () | (B bytes)                                                               *)
From YV Require Import Common.Tac Common.Sx C09.C09Model C09.C09Schemas.
Local Open Scope N_scope.

Definition aval_of_sx (x : sx) : aval :=
  match x with
  | SL [SN 0; SB b] => AStr b
  | SL [SN 1; SN n] => AInt n
  | _ => ANone
  end.

Definition attr_of_sx (x : sx) : str * aval :=
  match x with
  | SL [SB k; a] => (k, aval_of_sx a)
  | _ => ([], ANone)
  end.

Fixpoint node_of_sx (x : sx) : node :=
  match x with
  | SL [SB t; SL attrs; d; SL kids] =>
    Node t (map attr_of_sx attrs)
         (match d with SL [SB b] => Some b | _ => None end)
         (map node_of_sx kids)
  | _ => Node [] [] None []
  end.

Definition sx_of_aval (a : aval) : sx :=
  match a with AStr b => SL [SN 0; SB b] | AInt n => SL [SN 1; SN n] | ANone => SL [SN 2] end.

Fixpoint sx_of_node (n : node) : sx :=
  match n with
  | Node t attrs d kids =>
    SL [SB t; SL (map (fun kv => SL [SB (fst kv); sx_of_aval (snd kv)]) attrs);
        match d with Some b => SL [SB b] | None => SL [] end;
        SL (map sx_of_node kids)]
  end.

(* --- schema export, so that the harness generates its nodes from the very schema the
       theorems are about *)
Definition sx_of_conv (c : conv) : sx :=
  match c with
  | CStr => SL [SN 0] | CInt => SL [SN 1] | CIntOpt => SL [SN 2] | CIntDef0 => SL [SN 3]
  | CIntRaw => SL [SN 4]
  | CEqC c t f => SL [SN 5; SB c; SB t; SB f]
  | CEqCOpt c t f => SL [SN 6; SB c; SB t; SB f]
  | CTruthy t f => SL [SN 7; SB t; SB f]
  | CConst v => SL [SN 8; SB v]
  | CIntClock => SL [SN 9]
  | CIntOr d => SL [SN 11; SN d]
  | CParent k => SL [SN 10; SB k]
  end.

Definition sx_of_emit (e : emit) : sx :=
  SN (match e with EAlways => 0 | EIfNotNone => 1 | EIfTruthy => 2 end).

Definition sx_of_shape (x : shape) : sx :=
  match x with ShReq => SL [SN 0] | ShOpt => SL [SN 1] | ShExcl o => SL [SN 2; SB o] end.

Definition sx_of_dom (d : dom) : sx :=
  match d with
  | DAny => SL [SN 0] | DDec => SL [SN 1] | DEnum l => SL [SN 2; SL (map SB l)] | DDecPos => SL [SN 3]
  end.

Definition sx_of_arule (r : arule) : sx :=
  SL [SB (a_name r); sx_of_conv (a_conv r); sx_of_emit (a_emit r); sx_of_shape (a_shape r);
      sx_of_dom (a_dom r)].

Definition sx_of_mult (m : mult) : sx :=
  match m with
  | MOne => SL [SN 0]
  | MOpt ne => SL [SN 1; sx_bool ne]
  | MList UNone => SL [SN 2; SL [SN 0]]
  | MList (UAttr k) => SL [SN 2; SL [SN 1; SB k]]
  | MList UData => SL [SN 2; SL [SN 2]]
  | MList (UKid t) => SL [SN 2; SL [SN 3; SB t]]
  end.

Definition sx_of_drule (d : drule) : sx :=
  match d with
  | DNone => SL [SN 0] | DBytes => SL [SN 1] | DUtf8 => SL [SN 2] | DBytesNE => SL [SN 3]
  | DByte => SL [SN 4] | DBe32 => SL [SN 5] | DConst c => SL [SN 6; SB c] | DPayload => SL [SN 7]
  end.

Fixpoint sx_of_schema (c : schema) : sx :=
  match c with
  | SNode tags ars d ks =>
    SL [SL (map SB tags); SL (map sx_of_arule ars);
        sx_of_drule d;
        SL (sx_of_krules ks)]
  end
with sx_of_krules (ks : krules) : list sx :=
  match ks with
  | KNil => []
  | KCons m c ks' => SL [sx_of_mult m; sx_of_schema c] :: sx_of_krules ks'
  end.

(* The executable instance uses the IDEAL payload lens pl_id (the payload bytes reproduced
   exactly): it embodies the hypothesis pl_lossless of the lens theorem; the harness compares the
   real payload against it as parsed protobuf messages.
   () -> ((B class  B variant  N dir  N kind  N lossless  N codec_safe  N tags_disjoint  schema) ...) *)
Definition run_registry (arg : sx) : sx :=
  SL (map (fun e =>
             SL [SB (e_name e); SB (e_variant e); SN (e_dir e); SN (e_kind e);
                 sx_bool (lossless (e_schema e)); sx_bool (codec_safe (e_schema e));
                 sx_bool (tags_disjoint (e_schema e)); sx_of_schema (e_schema e)])
          all_entries).

(* (N index  node) -> (N matches  N codec_wf(n)  () | (node' N codec_wf(node') N val_wf)) *)
Definition run_rt (arg : sx) : sx :=
  let idx := N.to_nat (sx_get_n (sx_nth arg 0)) in
  let n := node_of_sx (sx_nth arg 1) in
  match nth_error all_entries idx with
  | None => sx_err 1
  | Some e =>
    let sc := e_schema e in
    SL [sx_bool (matches pl_id sc [] n); sx_bool (codec_wf n);
        match get pl_id sc n with
        | None => SL []
        | Some v =>
          match put pl_id sc [] v with
          | None => SL []
          | Some n' => SL [sx_of_node n'; sx_bool (codec_wf n'); sx_bool (val_wf pl_id sc v)]
          end
        end]
  end.
