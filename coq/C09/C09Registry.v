(* C09 — per-class instances: every registered schema is lossless (by computation), hence
   the lens theorem applies to every registered class; refutation witnesses for the classes
   (and pre-fix variants) that are not. *)
From Coq Require Import String.
From YV Require Import Common.Tac C09.C09Model C09.C09Proofs C09.C09Schemas.
Local Open Scope string_scope.
Local Open Scope N_scope.

Theorem registry_lossless_thm : Forall (fun e => lossless (e_schema e) = true) registry.
Proof. apply Forall_forall. apply forallb_forall. vm_compute. reflexivity. Qed.

(* FULL STATEMENT (proved for the registered classes and every payload lens that is lossless on
   its payload domain; "partial" = the registry is every reachable class except the two legacy
   classes that cannot build or serialise an entity under the pinned interpreter, and the
   documented domain excludes the open findings) *)
Theorem all_classes_thm : forall PL, pl_lossless PL ->
  forall e n, In e registry -> matches PL (e_schema e) [] n = true ->
  exists v n', get PL (e_schema e) n = Some v /\ put PL (e_schema e) [] v = Some n' /\ neqv PL n' n.
Proof.
  intros PL HPL e n Hin Hm. apply lens_get_put_thm; [exact HPL| |exact Hm].
  pose proof registry_lossless_thm as H. rewrite Forall_forall in H. apply H. exact Hin.
Qed.

(* the classes without a payload rule need no assumption at all, and ~ is strict on data *)
Theorem payload_free_classes_thm : forall e n, In e registry -> payload_free (e_schema e) = true ->
  matches pl_id (e_schema e) [] n = true ->
  exists v n', get pl_id (e_schema e) n = Some v /\ put pl_id (e_schema e) [] v = Some n' /\
               neqv pl_id n' n.
Proof. intros e n Hin _ Hm. exact (all_classes_thm pl_id pl_id_lossless e n Hin Hm). Qed.

(* non-vacuity: the registry is not empty and a documented example matches its schema *)
Definition ex_receipt : node :=
  Node (s "receipt")
       [(s "from", AStr (s "4915225256022@s.whatsapp.net")); (s "id", AStr (s "1415577964-1"));
        (s "t", AStr (s "1415578027")); (s "offline", AStr (s "0")); (s "type", AStr (s "read"))]
       None
       [Node (s "list") [] None
             [Node (s "item") [(s "id", AStr (s "1431364572-189"))] None [];
              Node (s "item") [(s "id", AStr (s "1431364575-190"))] None []]].

(* a text message with a (here: ideal-lens) payload, and a retry receipt whose <retry> repeats
   the receipt id *)
Definition ex_message : node :=
  Node (s "message")
       [(s "t", AStr (s "1431204094")); (s "from", AStr (s "4915212345678@s.whatsapp.net"));
        (s "type", AStr (s "text")); (s "id", AStr (s "1431204051-9")); (s "offline", AStr (s "0"));
        (s "notify", AStr (s "peer"))]
       None [Node (s "proto") [] (Some [10; 2; 104; 105]) []].
Definition ex_retry (rid : str) : node :=
  Node (s "receipt")
       [(s "id", AStr (s "1415389947-12")); (s "from", AStr (s "49@s.whatsapp.net"));
        (s "t", AStr (s "1432833777")); (s "type", AStr (s "retry"))]
       None
       [Node (s "retry") [(s "count", AStr (s "1")); (s "id", AStr rid); (s "v", AStr (s "1"));
                          (s "t", AStr (s "1432833266"))] None [];
        Node (s "registration") [] (Some [122; 156; 236; 75]) []].

Definition rt_wf (sc : schema) (n : node) : bool :=
  match get pl_id sc n with
  | Some v => match put pl_id sc [] v with Some n' => codec_wf n' | None => false end
  | None => false
  end.

Example nonvacuous : (130 <=? N.of_nat (length registry)) = true /\
  matches pl_id schema_IncomingReceipt [] ex_receipt = true /\
  rt_wf schema_IncomingReceipt ex_receipt = true /\
  matches pl_id (msg_in ty_text proto_text) [] ex_message = true /\
  rt_wf (msg_in ty_text proto_text) ex_message = true /\
  matches pl_id schema_RetryIncomingReceipt [] (ex_retry (s "1415389947-12")) = true /\
  rt_wf schema_RetryIncomingReceipt (ex_retry (s "1415389947-12")) = true /\
  (* the cross-field constraint is part of the documented shape *)
  matches pl_id schema_RetryIncomingReceipt [] (ex_retry (s "another-id")) = false.
Proof. vm_compute. repeat split. Qed.

(* every registered schema passes the computed codec-safety check, so put_wf_thm applies *)
Theorem registry_codec_safe_thm : Forall (fun e => codec_safe (e_schema e) = true) registry.
Proof. apply Forall_forall. apply forallb_forall. vm_compute. reflexivity. Qed.

Theorem all_classes_put_wf_thm : forall PL e v n, In e registry ->
  val_wf PL (e_schema e) v = true -> put PL (e_schema e) [] v = Some n -> codec_wf n = true.
Proof.
  intros PL e v n Hin Hw Hp. apply (put_wf_thm PL (e_schema e) v n); auto.
  pose proof registry_codec_safe_thm as H. rewrite Forall_forall in H. apply H. exact Hin.
Qed.

(* ------------------------------------------------------------------ refutations *)
(* the class accepts the documented stanza n, builds an entity, serialises it again without
   raising, and what comes out is NOT n (not even up to number normalisation) *)
(* stated with the ideal payload lens: not even with a perfect payload converter *)
Definition refutes (sc : schema) (n : node) : Prop :=
  matches pl_id sc [] n = true /\
  (exists v n', get pl_id sc n = Some v /\ put pl_id sc [] v = Some n') /\
  forall v n', get pl_id sc n = Some v -> put pl_id sc [] v = Some n' -> ~ neqv pl_id n' n.

Lemma Forall2_hd {A B} (R : A -> B -> Prop) x l y l' : Forall2 R (x :: l) (y :: l') -> R x y.
Proof. intros H. inversion H. assumption. Qed.

Ltac refute_start :=
  split; [vm_compute; reflexivity|]; split; [do 2 eexists; split; vm_compute; reflexivity|];
  let v := fresh "v" in let n' := fresh "n'" in let Hg := fresh "Hg" in let Hp := fresh "Hp" in
  intros v n' Hg Hp; vm_compute in Hg; apply Some_inj in Hg; subst v;
  vm_compute in Hp; apply Some_inj in Hp; subst n'; intros Hn.
Ltac kid0 H := apply (neqv_kids pl_id) in H; cbn [node_kids] in H; apply Forall2_hd in H.
Ltac attr_differs H key := apply (neqv_attr pl_id _ _ key) in H; vm_compute in H; discriminate H.

Definition a (k v : string) : str * aval := (s k, AStr (s v)).
Definition iq_hdr := [a "id" "1"; a "type" "result"; a "from" "s.whatsapp.net"].

(* open finding: <error backoff="0"> comes back without backoff *)
Definition wit_ErrorIq :=
  Node (s "iq") [a "id" "1"; a "type" "error"; a "from" "s.whatsapp.net"] None
       [Node (s "error") [a "text" "not-acceptable"; a "code" "406"; a "backoff" "0"] None []].
Lemma ErrorIq_backoff0_refuted : refutes schema_ErrorIq_wide wit_ErrorIq.
Proof. refute_start. kid0 Hn. attr_differs Hn (s "backoff"). Qed.

(* fixed by fixes/C09-remove-groups-mode.patch (witness of the pre-fix class): the documented mode="none" of a
   group removal notification was dropped *)
Definition notif_hdr := [a "t" "1420402514"; a "from" "49-14@g.us"; a "type" "w:gp2"; a "id" "7";
                         a "notify" "WhatsApp"; a "participant" "49@s.whatsapp.net"].
Definition wit_RemoveGroups :=
  Node (s "notification") (notif_hdr ++ [a "mode" "none"]) None
       [Node (s "remove") [a "subject" "x"] None [Node (s "participant") [a "jid" "50@s.whatsapp.net"] None []]].
Lemma RemoveGroupsNotification_mode_refuted : refutes schema_RemoveGroupsNotification_mode wit_RemoveGroups.
Proof. refute_start. attr_differs Hn (s "mode"). Qed.

(* fixed by fixes/C09-message-offline-optional.patch: an incoming message that carries no offline
   attribute came back with offline="0" (MessageMetaAttributes turned the absent value into False) *)
Definition msg_hdr0 := [a "type" "text"; a "id" "1431204051-9"; a "from" "49@s.whatsapp.net"].
Definition msg_hdr := (msg_hdr0 ++ [a "t" "1431204094"])%list.
Definition wit_Message_offline := Node (s "message") msg_hdr None [].
Lemma Message_offline_prefix_refuted : refutes (msg_in_prefix_offline ty_any KNil) wit_Message_offline.
Proof. refute_start. attr_differs Hn (s "offline"). Qed.

(* fixed by fixes/C09-message-retry-zero.patch: retry="0" was dropped (written only when truthy) *)
Definition wit_Message_retry0 := Node (s "message") (msg_hdr ++ [a "offline" "0"; a "retry" "0"]) None [].
Lemma Message_retry0_prefix_refuted : refutes (msg_in_prefix_retry ty_any KNil) wit_Message_retry0.
Proof. refute_start. attr_differs Hn (s "retry"). Qed.

(* fixed by fixes/C09-message-timestamp-zero.patch: t="0" was replaced by the clock
   (`timestamp or now()`); witness with the clock reading 1700000000 *)
Definition wit_Message_t0 := Node (s "message") (msg_hdr0 ++ [a "t" "0"]) None [].
Lemma Message_t0_prefix_refuted : refutes (msg_in_prefix_t 1700000000 ty_any KNil) wit_Message_t0.
Proof. refute_start. attr_differs Hn (s "t"). Qed.

Theorem message_prefix_variants_refuted_thm :
  refutes (msg_in_prefix_offline ty_any KNil) wit_Message_offline /\
  refutes (msg_in_prefix_retry ty_any KNil) wit_Message_retry0 /\
  refutes (msg_in_prefix_t 1700000000 ty_any KNil) wit_Message_t0.
Proof.
  split; [apply Message_offline_prefix_refuted|].
  split; [apply Message_retry0_prefix_refuted | apply Message_t0_prefix_refuted].
Qed.

(* the repaired schema accepts the same three witnesses (it is in the registry, hence lossless
   on them) *)
Example message_repaired_accepts_witnesses :
  matches pl_id (msg_in ty_any KNil) [] wit_Message_offline = true /\
  matches pl_id (msg_in ty_any KNil) [] wit_Message_retry0 = true /\
  matches pl_id (msg_in ty_any KNil) [] wit_Message_t0 = true /\
  rt_wf (msg_in ty_any KNil) wit_Message_t0 = true.
Proof. vm_compute. repeat split. Qed.

(* fixed by fixes/C09-notification-optional-attrs.patch: offline="0" appears from nowhere *)
Definition wit_Notification :=
  Node (s "notification") [a "t" "1437251557"; a "from" "49@s.whatsapp.net"; a "type" "contacts"; a "id" "4174521704"]
       None [].
Lemma Notification_prefix_refuted : refutes schema_Notification_prefix wit_Notification.
Proof. refute_start. attr_differs Hn (s "offline"). Qed.

(* fixed by fixes/C09-account-ib.patch: creation comes back as an int, not a str *)
Definition wit_AccountIb :=
  Node (s "ib") [] None
       [Node (s "account") [a "status" "active"; a "kind" "paid"; a "creation" "1415470561"; a "expiration" "1447006561"] None []].
Lemma AccountIb_prefix_refuted : refutes schema_AccountIb_prefix wit_AccountIb.
Proof. refute_start. kid0 Hn. attr_differs Hn (s "creation"). Qed.

(* fixed by fixes/C09-group-subject-time-str.patch: s_t comes back as an int *)
Definition wit_group :=
  Node (s "group") [a "subject" "x"; a "creation" "1"; a "creator" "49@s.whatsapp.net"; a "s_t" "2";
                    a "s_o" "49@s.whatsapp.net"; a "id" "49-14"] None
       [Node (s "participant") [a "jid" "49@s.whatsapp.net"; a "type" "admin"] None []].
Definition wit_InfoGroupsResult := Node (s "iq") iq_hdr None [wit_group].
Lemma InfoGroupsResultIq_prefix_refuted : refutes schema_InfoGroupsResultIq_prefix wit_InfoGroupsResult.
Proof. refute_start. kid0 Hn. attr_differs Hn (s "s_t"). Qed.

Definition wit_CreateGroups :=
  Node (s "notification") notif_hdr None [Node (s "create") [a "type" "new"; a "key" "49-1@temp"] None [wit_group]].
Lemma CreateGroupsNotification_prefix_refuted :
  refutes schema_CreateGroupsNotification_prefix wit_CreateGroups.
Proof. refute_start. kid0 Hn. kid0 Hn. attr_differs Hn (s "s_t"). Qed.

(* fixed by fixes/C09-sync-last.patch: last="false" comes back as last="true" *)
Definition wit_sync (extra : list (str * aval)) kids :=
  Node (s "iq") [a "id" "1"; a "type" "result"; a "from" "49@s.whatsapp.net"] None
       [Node (s "sync") ([a "sid" "1"; a "index" "0"; a "last" "false"] ++ extra) None kids].
Definition wit_GetSync := wit_sync [a "mode" "full"; a "context" "interactive"] [].
Definition wit_ResultSync := wit_sync [a "version" "1"] [].
Lemma GetSyncIq_prefix_refuted : refutes (schema_GetSyncIq last_prefix) wit_GetSync.
Proof. refute_start. kid0 Hn. attr_differs Hn (s "last"). Qed.
Lemma ResultSyncIq_prefix_refuted : refutes (schema_ResultSyncIq last_prefix) wit_ResultSync.
Proof. refute_start. kid0 Hn. attr_differs Hn (s "last"). Qed.

Theorem prefix_variants_refuted_thm :
  refutes schema_Notification_prefix wit_Notification /\
  refutes schema_AccountIb_prefix wit_AccountIb /\
  refutes schema_InfoGroupsResultIq_prefix wit_InfoGroupsResult /\
  refutes schema_CreateGroupsNotification_prefix wit_CreateGroups /\
  refutes (schema_GetSyncIq last_prefix) wit_GetSync /\
  refutes (schema_ResultSyncIq last_prefix) wit_ResultSync.
Proof.
  split; [apply Notification_prefix_refuted|]. split; [apply AccountIb_prefix_refuted|].
  split; [apply InfoGroupsResultIq_prefix_refuted|]. split; [apply CreateGroupsNotification_prefix_refuted|].
  split; [apply GetSyncIq_prefix_refuted | apply ResultSyncIq_prefix_refuted].
Qed.

(* the repaired schemas accept the same witnesses and are lossless on them (they are in the
   registry): the refutations above are about the pre-fix code only *)
Example repaired_accept_witnesses :
  matches pl_id schema_Notification [] wit_Notification = true /\
  matches pl_id schema_AccountIb [] wit_AccountIb = true /\
  matches pl_id schema_InfoGroupsResultIq [] wit_InfoGroupsResult = true /\
  matches pl_id schema_CreateGroupsNotification [] wit_CreateGroups = true /\
  matches pl_id (schema_ResultSyncIq last_fixed) [] (wit_sync [a "version" "1"] []) = true.
Proof. vm_compute. repeat split. Qed.
