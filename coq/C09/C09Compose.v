(* C09 x C10 — the hypothesis of the C09 lens theorem on payload-carrying schemas
   (pl_lossless) discharged by C10's round-trip theorem, for the payload fragment C10 models.

   C10 works on PARSED protobuf messages (pmsg = finite map of the present fields); the wire
   format itself is protobuf's (trusted there, and here): it enters as two Section variables
   with the one fact used, parse (serialise p) = p.  Everything else is C10's model:
     pl_get b  = from_proto (parse b)             (ParseFromString + proto_to_message)
     pl_put a  = serialise (to_proto a)           (message_to_protobytes)
     pl_dom b  = b parses, converts, and the attribute object lies in C10's computed domain
     pl_eqv b' b = the library's view of b' covers the library's view of b (C10's `covers`:
                   every field that was set has the same value; an unset one may read as the
                   proto default).
   This equivalence is the one C10 proves (its _partial gap — equality stated on proto fields
   rather than through the library's view — is inherited and stated in design_notes/C09.md);
   the harness checks the field-wise equality of the parsed protobuf messages on the real code. *)
From YV Require Import Common.Tac C09.C09Model C09.C09Proofs C09.C09Schemas C09.C09Registry.
From YV Require C10.C10Model C10.C10Proofs.

Section WithC10.
Variable wire_parse : list N -> option C10Model.pmsg.
Variable wire_ser : C10Model.pmsg -> list N.
Hypothesis wire_rt : forall p, wire_parse (wire_ser p) = Some p.
Variable T : C10Model.table.        (* any converter table, in particular the generated one *)
Variable fuel : nat.                (* nesting depth bound of C10's interpreter; any *)
Variable cn : C10Model.name.        (* the converter: "message" *)

Definition c10_get (b : list N) : option C10Model.val :=
  match wire_parse b with
  | Some p => match C10Model.from_proto_f fuel T cn p with C10Model.Ok a => Some a | _ => None end
  | None => None
  end.

Definition c10_put (a : C10Model.val) : option (list N) :=
  match C10Model.to_proto_f fuel T cn a with C10Model.Ok p => Some (wire_ser p) | _ => None end.

Definition c10_dom (b : list N) : bool :=
  match c10_get b with Some a => C10Model.in_domain_f fuel T cn a | None => false end.

Definition c10_eqv (b' b : list N) : Prop :=
  exists a a', c10_get b = Some a /\ c10_get b' = Some a' /\ C10Model.covers a a'.

Definition pl_c10 : paylens := PayLens C10Model.val c10_get c10_put c10_dom c10_eqv.

Lemma pl_c10_lossless : pl_lossless pl_c10.
Proof.
  intros b H. cbn [pl_dom pl_c10] in H. unfold c10_dom in H.
  destruct (c10_get b) as [a|] eqn:Eg; [|discriminate].
  destruct (C10Proofs.set_fields_preserved_thm T fuel cn a H) as (p' & a' & Hto & Hfrom & Hcov).
  exists a, (wire_ser p'). cbn [pl_get pl_put pl_eqv pl_c10].
  split; [exact Eg|]. split; [unfold c10_put; rewrite Hto; reflexivity|].
  exists a, a'. split; [exact Eg|]. split; [|exact Hcov].
  unfold c10_get. rewrite wire_rt, Hfrom. reflexivity.
Qed.

(* C09's lens law for every registered class, message classes included, with C10's model of
   the payload converter as the payload lens *)
Theorem all_classes_with_C10_thm : forall e n, In e registry ->
  matches pl_c10 (e_schema e) [] n = true ->
  exists v n', get pl_c10 (e_schema e) n = Some v /\ put pl_c10 (e_schema e) [] v = Some n' /\
               neqv pl_c10 n' n.
Proof. exact (all_classes_thm pl_c10 pl_c10_lossless). Qed.

End WithC10.
