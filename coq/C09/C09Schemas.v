(* C09 — one schema per entity class: documented stanza shape + what the class's
   fromProtocolTreeNode / toProtocolTreeNode do with it (as the code is, see design_notes/C09.md).
   Attribute rules are listed in the order toProtocolTreeNode writes them; child rules in the
   order it appends children.                                                              *)
From YV Require Import Common.Tac C09.C09Model.
From Coq Require Import String.
Local Open Scope string_scope.
Local Open Scope N_scope.

Record entry := E { e_name : str; e_variant : str; e_dir : N; e_kind : N; e_schema : schema }.
(* e_dir: 0 = built by a layer's receive handler, 1 = sent by the library/application,
          2 = base class / both.   e_kind: 0 = claimed lossless, 1 = faithful schema of a class
          with a known loss (refuted), 2 = pre-fix variant kept for regression               *)

(* ---- attribute rule shorthands *)
Definition A (n : string) c e sh d := AR (s n) c e sh d.
Definition req n := A n CStr EAlways ShReq DAny.                (* x = node[n] ... {n: x}       *)
Definition reqf n := A n CStr EIfTruthy ShReq DAny.             (* ... if x: {n: x}             *)
Definition opt n := A n CStr EIfNotNone ShOpt DAny.             (* ... if x is not None         *)
Definition optf n := A n CStr EIfTruthy ShOpt DAny.             (* ... if x                     *)
Definition int n := A n CInt EAlways ShReq DDec.                (* int(node[n]) ... str(i)      *)
Definition reqdec n := A n CStr EAlways ShReq DDec.             (* decimal, kept as str         *)
Definition enum n (l : list string) := A n CStr EAlways ShReq (DEnum (map s l)).
Definition const n (v : string) := A n (CConst (s v)) EAlways ShReq (DEnum [s v]).
Definition b10 := CEqC (s "1") (s "1") (s "0").
Definition b10opt := CEqCOpt (s "1") (s "1") (s "0").
Definition d01 := DEnum [s "0"; s "1"].
Definition bool10 n := A n b10 EAlways ShReq d01.               (* x == "1" ... "1" if b else "0" *)
Definition dropped n := A n (CConst []) EIfNotNone ShOpt DAny.  (* documented, never read/written *)

Definition N1 (t : string) ars d ks := SNode [s t] ars d ks.
Definition leaf (t : string) ars := SNode [s t] ars DNone KNil.
Definition tagchoice (l : list string) ars := SNode (map s l) ars DNone KNil.
Definition K1 c := KCons MOne c KNil.
Definition listof u c := KCons (MList u) c KNil.
Definition one_or_more c := KCons MOne c (KCons (MList UNone) c KNil).

(* ================================================================== acks *)
Definition ack_attrs := [req "id"; req "class"].
Definition schema_Ack := leaf "ack" ack_attrs.
Definition schema_IncomingAck := leaf "ack" (ack_attrs ++ [req "from"; reqdec "t"]).
Definition schema_OutgoingAck :=
  leaf "ack" (ack_attrs ++ [optf "type"; req "to"; optf "participant"]).

(* ================================================================== receipts *)
Definition items_list := N1 "list" [] DNone (listof UNone (leaf "item" [req "id"])).
Definition schema_Receipt := leaf "receipt" [req "id"].
Definition schema_IncomingReceipt :=
  N1 "receipt"
     [req "id"; req "from"; reqdec "t"; A "offline" b10opt EIfNotNone ShOpt d01;
      opt "type"; opt "participant"]
     DNone (KCons (MOpt false) items_list KNil).
(* single-id form (the <list> form makes fromProtocolTreeNode raise: no getChildren()) *)
Definition schema_OutgoingReceipt :=
  leaf "receipt"
       [req "id";
        A "type" (CEqC (s "read") (s "read") (s "read")) EIfTruthy ShOpt (DEnum [s "read"]);
        optf "participant"; req "to"].

(* ================================================================== chatstate *)
Definition state_kid := K1 (tagchoice ["composing"; "paused"] []).
Definition schema_Chatstate := N1 "chatstate" [] DNone state_kid.
Definition schema_IncomingChatstate := N1 "chatstate" [req "from"] DNone state_kid.
Definition schema_OutgoingChatstate := N1 "chatstate" [req "to"] DNone state_kid.

(* ================================================================== iq *)
Definition iq_types := ["set"; "get"; "result"; "error"].
Definition iq_attrs :=
  [req "id"; enum "type" iq_types; optf "xmlns"; optf "to";
   A "from" CStr EIfTruthy (ShExcl (s "to")) DAny].
(* ResultIqProtocolEntity built with (_id, _from) only: xmlns and to never survive *)
Definition result_from_attrs := [req "id"; const "type" "result"; reqf "from"].
Definition iq ks := N1 "iq" iq_attrs DNone ks.
Definition schema_Iq := iq KNil.
Definition error_kid :=
  K1 (leaf "error" [req "text"; req "code"; A "backoff" CIntDef0 EIfTruthy ShOpt DDec]).
(* documented shape narrowed to a positive back-off *)
Definition error_kid_nobackoff0 :=
  K1 (leaf "error" [req "text"; req "code";
                    A "backoff" CIntDef0 EIfTruthy ShOpt (DEnum [s "1"; s "60"; s "3600"])]).
Definition schema_ErrorIq_wide := iq error_kid.
Definition schema_ErrorIq := iq error_kid_nobackoff0.

(* ================================================================== presence *)
Definition presence_attrs := [optf "type"; optf "name"; optf "from"; optf "last"].
Definition schema_Presence := leaf "presence" presence_attrs.
Definition schema_PresenceTo := leaf "presence" (presence_attrs ++ [req "to"]).
Definition schema_ResultLastseen :=
  N1 "iq" result_from_attrs DNone (K1 (leaf "query" [int "seconds"])).

(* ================================================================== ib *)
Definition schema_Ib := leaf "ib" [].
Definition schema_DirtyIb := N1 "ib" [] DNone (K1 (leaf "dirty" [int "timestamp"; req "type"])).
Definition schema_OfflineIb := N1 "ib" [] DNone (K1 (leaf "offline" [int "count"])).
Definition schema_AccountIb :=
  N1 "ib" [] DNone
     (K1 (leaf "account" [req "status"; req "kind"; int "creation"; int "expiration"])).
(* before fixes/C09-account-ib.patch: creation/expiration written back as ints (and
   fromProtocolTreeNode returned None) *)
Definition schema_AccountIb_prefix :=
  N1 "ib" [] DNone
     (K1 (leaf "account" [req "status"; req "kind";
                          A "creation" CIntRaw EAlways ShReq DDec;
                          A "expiration" CIntRaw EAlways ShReq DDec])).
Definition schema_CleanIq := iq (K1 (leaf "clean" [req "type"])).

(* ================================================================== calls *)
Definition schema_Call :=
  N1 "call"
     [int "t"; bool10 "offline"; req "id"; opt "from"; opt "to"; opt "retry"; opt "e"; opt "notify"]
     DNone
     (KCons (MOpt false)
            (tagchoice ["offer"; "transport"; "relaylatency"; "reject"; "terminate"] [req "call-id"])
            KNil).

(* ================================================================== auth *)
Definition schema_Success := leaf "success" [req "location"; int "creation"; req "props"; int "t"].
Definition schema_Failure := leaf "failure" [req "reason"].
(* after fixes/C09-stream-error-serialise.patch (before it toProtocolTreeNode always raised: it
   called the abstract ProtocolEntity.toProtocolTreeNode, which returns None).  Two documented
   shapes: <conflict/> with an optional <text>, or one of the bare types. *)
Definition schema_StreamError_conflict :=
  N1 "stream:error" [] DNone
     (KCons MOne (leaf "conflict" []) (KCons (MOpt false) (N1 "text" [] DBytes KNil) KNil)).
Definition schema_StreamError_other :=
  N1 "stream:error" [] DNone (K1 (tagchoice ["ack"; "xml-not-well-formed"] [])).

(* ================================================================== notifications *)
(* after fixes/C09-notification-optional-attrs.patch: offline and notify are written back only
   when the stanza carried them *)
Definition notif_attrs :=
  [int "t"; req "from"; A "offline" b10opt EIfNotNone ShOpt d01; req "type"; req "id"; opt "notify"].
(* before the patch: offline="0" and notify=None materialise when absent *)
Definition notif_attrs_prefix :=
  [int "t"; req "from"; A "offline" b10 EAlways ShOpt d01; req "type"; req "id";
   A "notify" CStr EAlways ShOpt DAny].
Definition notif ars ks := N1 "notification" (notif_attrs ++ ars) DNone ks.
Definition schema_Notification := notif [] KNil.
Definition schema_Notification_prefix := N1 "notification" notif_attrs_prefix DNone KNil.
Definition schema_SetPictureNotification := notif [] (K1 (leaf "set" [req "jid"; req "id"])).
Definition schema_DeletePictureNotification := notif [] (K1 (leaf "delete" [req "jid"])).
Definition schema_StatusNotification := notif [] (K1 (N1 "set" [] DBytes KNil)).
Definition schema_AddContactNotification := notif [] (K1 (leaf "add" [req "jid"])).
Definition schema_RemoveContactNotification := notif [] (K1 (leaf "remove" [req "jid"])).
Definition schema_UpdateContactNotification := notif [] (K1 (leaf "update" [req "jid"])).
Definition schema_ContactsSyncNotification := notif [] (K1 (leaf "sync" [int "after"])).

(* ---- groups *)
Definition participants_dict :=
  listof (UAttr (s "jid")) (leaf "participant" [req "jid"; optf "type"]).
Definition participants_list := listof UNone (leaf "participant" [req "jid"]).
Definition gnotif ks := notif [req "participant"] ks.
(* built through the constructor chain: type is not read, "w:gp2" is written *)
Definition gnotif_c ks :=
  N1 "notification"
     ([int "t"; req "from"; A "offline" b10opt EIfNotNone ShOpt d01; const "type" "w:gp2"; req "id";
       opt "notify"; req "participant"]) DNone ks.
Definition schema_GroupsNotification := gnotif KNil.
Definition schema_SubjectGroupsNotification :=
  gnotif (K1 (leaf "subject" [int "s_t"; req "s_o"; req "subject"])).
Definition group_attrs_info st :=
  [req "subject"; int "creation"; req "creator"; st; req "s_o"; req "id"].
Definition s_t_fixed := int "s_t".
Definition s_t_prefix := A "s_t" CIntRaw EAlways ShReq DDec.     (* written back as an int *)
Definition create_kid st :=
  K1 (N1 "create" [req "type"; req "key"] DNone
         (K1 (N1 "group" (group_attrs_info st) DNone participants_dict))).
Definition schema_CreateGroupsNotification := gnotif_c (create_kid s_t_fixed).
Definition schema_CreateGroupsNotification_prefix := gnotif_c (create_kid s_t_prefix).
Definition schema_AddGroupsNotification := gnotif_c (K1 (N1 "add" [] DNone participants_list)).
(* after fixes/C09-remove-groups-mode.patch: the documented mode attribute is read and written back when present *)
Definition schema_RemoveGroupsNotification :=
  N1 "notification"
     ([int "t"; req "from"; A "offline" b10opt EIfNotNone ShOpt d01; const "type" "w:gp2"; req "id";
       opt "notify"; req "participant"; opt "mode"]) DNone
     (K1 (N1 "remove" [req "subject"] DNone participants_list)).
(* before the patch: the documented <notification ... mode="none"> of a removal was never read *)
Definition schema_RemoveGroupsNotification_mode :=
  N1 "notification"
     ([int "t"; req "from"; A "offline" b10opt EIfNotNone ShOpt d01; const "type" "w:gp2"; req "id";
       opt "notify"; req "participant"; dropped "mode"]) DNone
     (K1 (N1 "remove" [req "subject"] DNone participants_list)).

Definition schema_CreateGroupsIq :=
  iq (K1 (N1 "create" [req "subject"] DNone participants_list)).
Definition schema_SuccessCreateGroupsIq := iq (K1 (leaf "group" [req "id"])).
Definition schema_InfoGroupsIq := iq (K1 (leaf "query" [const "request" "interactive"])).
Definition schema_LeaveGroupsIq :=
  iq (K1 (N1 "leave" [const "action" "delete"] DNone (one_or_more (leaf "group" [req "id"])))).
Definition schema_SuccessLeaveGroupsIq :=
  iq (K1 (N1 "leave" [] DNone (K1 (leaf "group" [req "id"])))).
Definition schema_ListGroupsIq := iq (K1 (tagchoice ["participating"; "owning"] [])).
Definition schema_SubjectGroupsIq := iq (K1 (N1 "subject" [] DBytes KNil)).
Definition schema_SuccessAddParticipantsIq :=
  iq (listof UNone (leaf "add" [const "type" "success"; req "participant"])).
Definition schema_SuccessRemoveParticipantsIq :=
  iq (listof UNone (leaf "remove" [const "type" "success"; req "participant"])).
Definition schema_ListParticipantsResultIq := iq participants_list.
Definition schema_InfoGroupsResultIq :=
  N1 "iq" result_from_attrs DNone
     (K1 (N1 "group" (group_attrs_info s_t_fixed) DNone participants_dict)).
Definition schema_InfoGroupsResultIq_prefix :=
  N1 "iq" result_from_attrs DNone
     (K1 (N1 "group" (group_attrs_info s_t_prefix) DNone participants_dict)).
Definition schema_ListGroupsResultIq :=
  iq (K1 (N1 "groups" [] DNone
             (listof UNone
                (N1 "group" [req "id"; req "creator"; req "subject"; req "s_o"; int "s_t"; int "creation"]
                    DNone participants_dict)))).

(* ================================================================== profiles / privacy *)
Definition schema_SetStatusIq := iq (K1 (N1 "status" [] DBytes KNil)).
Definition schema_GetStatusesIq :=
  iq (K1 (N1 "status" [] DNone (listof UNone (leaf "user" [req "jid"])))).
Definition schema_ResultStatusesIq :=
  iq (K1 (N1 "status" [] DNone
             (listof (UAttr (s "jid")) (N1 "user" [req "jid"; req "t"] DBytes KNil)))).
Definition schema_GetPrivacyIq := iq (K1 (leaf "privacy" [])).
(* after fixes/C09-privacy-result.patch (before it toProtocolTreeNode wrote an empty <privacy>) *)
Definition schema_ResultPrivacyIq :=
  iq (K1 (N1 "privacy" [] DNone
             (listof (UAttr (s "name")) (leaf "category" [req "name"; req "value"])))).
Definition schema_UnregisterIq :=
  iq (K1 (leaf "remove" [const "xmlns" "urn:xmpp:whatsapp:account"])).
Definition schema_ListPicturesIq :=
  iq (K1 (N1 "list" [] DNone (one_or_more (leaf "user" [req "jid"])))).
(* after fixes/C09-picture-result.patch *)
Definition schema_ResultGetPictureIq :=
  iq (K1 (N1 "picture"
             [A "type" (CEqC (s "preview") (s "preview") (s "image")) EAlways ShReq
                (DEnum [s "image"; s "preview"]);
              req "id"] DBytes KNil)).
Definition schema_PrivacyListIq :=
  iq (K1 (N1 "query" [] DNone (K1 (leaf "list" [req "name"])))).

(* ================================================================== contacts sync *)
Definition tf := DEnum [s "true"; s "false"].
(* last is kept as the node's string, so "false" is truthy and comes back as "true" *)
Definition last_prefix := A "last" (CTruthy (s "true") (s "false")) EAlways ShReq tf.
(* after fixes/C09-sync-last.patch: fromProtocolTreeNode passes node["last"] == "true" *)
Definition last_fixed := A "last" (CEqC (s "true") (s "true") (s "false")) EAlways ShReq tf.
Definition sync_attrs l := [req "sid"; int "index"; l].
Definition user_data ars := N1 "user" ars DUtf8 KNil.
Definition schema_GetSyncIq l :=
  iq (K1 (N1 "sync"
             (sync_attrs l ++ [enum "mode" ["full"; "delta"];
                               enum "context" ["registration"; "interactive"]])
             DNone (listof UNone (user_data [])))).
Definition schema_ResultSyncIq l :=
  iq (K1 (N1 "sync"
             (sync_attrs l ++ [req "version"; A "wait" CIntOpt EIfNotNone ShOpt DDec])
             DNone
             (KCons (MOpt true) (N1 "out" [] DNone (listof UData (user_data [req "jid"])))
             (KCons (MOpt true) (N1 "in" [] DNone (listof UData (user_data [req "jid"])))
             (KCons (MOpt true) (N1 "invalid" [] DNone (listof UNone (user_data []))) KNil))))).


(* ================================================================== more iq / axolotl / media *)
Definition schema_SyncIq l := iq (K1 (leaf "sync" (sync_attrs l))).
Definition schema_Enc :=
  N1 "enc" [enum "type" ["pkmsg"; "msg"; "skmsg"]; int "v"; optf "mediatype"] DBytes KNil.
Definition schema_IdentityChangeEncryptNotification := notif [] (K1 (leaf "identity" [])).
Definition schema_RequestKeysEncryptNotification := notif [] (K1 (leaf "count" [reqdec "value"])).
Definition iq_attrs_set :=
  [req "id"; enum "type" ["set"]; optf "xmlns"; optf "to";
   A "from" CStr EIfTruthy (ShExcl (s "to")) DAny].
Definition schema_RequestUploadIq :=
  N1 "iq" iq_attrs_set DNone
     (K1 (leaf "encr_media" [req "hash"; enum "type" ["audio"; "image"; "video"; "document"];
                             int "size"; optf "orighash"])).
Definition schema_ResultRequestUploadIq_media :=
  iq (K1 (leaf "encr_media" [req "url"; optf "ip"; A "resume" CStr EIfTruthy ShOpt DDec])).
Definition schema_ResultRequestUploadIq_duplicate := iq (K1 (leaf "duplicate" [req "url"])).
(* send-only classes: entity built through the constructor (harness BUILDERS), not from a node *)
Definition out_iq (ty xmlns : string) ars ks :=
  N1 "iq" ([req "id"; const "type" ty; const "xmlns" xmlns] ++ ars) DNone ks.
Definition schema_PropsIq := out_iq "get" "w" [] (K1 (leaf "props" [])).
Definition schema_PushIq := out_iq "get" "urn:xmpp:whatsapp:push" [] (K1 (leaf "config" [])).
Definition schema_LastseenIq := out_iq "get" "jabber:iq:last" [req "to"] (K1 (leaf "query" [])).
Definition schema_ParticipantsIq (mode : string) :=
  out_iq "set" "w:g2" [req "to"] (K1 (N1 mode [] DNone participants_list)).
Definition schema_ParticipantsGroupsIq :=
  out_iq "set" "w:g2" [req "to"]
         (K1 (SNode (map s ["add"; "promote"; "remove"; "demote"]) [] DNone participants_list)).
Definition schema_Response := N1 "response" [req "xmlns"] DBytes KNil.
(* the two <picture> children are told apart by their type attribute; image first, preview second *)
Definition schema_SetPictureIq :=
  iq (KCons MOne (N1 "picture" [const "type" "image"; req "id"] DBytes KNil)
     (KCons MOne (N1 "picture" [const "type" "preview"] DBytes KNil) KNil)).
Definition schema_GetPictureIq :=
  out_iq "get" "w:profile:picture" [req "to"]
         (K1 (leaf "picture" [A "type" (CEqC (s "preview") (s "preview") (s "image")) EAlways ShReq
                                (DEnum [s "image"; s "preview"])])).

(* ================================================================== messages *)
(* MessageProtocolEntity + MessageMetaAttributes, after fixes/C09-message-offline-optional.patch,
   C09-message-retry-zero.patch and C09-message-timestamp-zero.patch.  Two documented forms:
   incoming (from, t, [offline], [notify], [retry], [participant]) and outgoing (to, [participant]).
     t       int(t) if t is not None ... `t if t is not None else now()` ... str(t)
     offline None if absent else offline in ("1", True) ... written when not None
     retry   int(retry) if retry else None ... written when not None
   Before the patches: a zero t was replaced by the clock (`timestamp or now()`), an absent offline
   became False and was written as "0", a zero retry was dropped (written only when truthy).     *)
Definition msg_in_attrs ty t offl retry :=
  [ty; req "id"; optf "participant"; req "from"; t; offl; optf "notify"; retry].
Definition t_fixed := A "t" CIntClock EAlways ShReq DDec.
Definition t_prefix (now : N) := A "t" (CIntOr now) EAlways ShReq DDec.
Definition offline_fixed := A "offline" b10opt EIfNotNone ShOpt d01.
Definition offline_prefix := A "offline" b10 EAlways ShOpt d01.
Definition retry_fixed := A "retry" CIntOpt EIfNotNone ShOpt DDec.
Definition retry_prefix := A "retry" CIntOpt EIfTruthy ShOpt DDec.
Definition msg_out_attrs ty := [ty; req "id"; optf "participant"; req "to"].
Definition ty_any := req "type".
Definition ty_text := enum "type" ["text"].
Definition ty_media := enum "type" ["media"].
Definition ty_both := enum "type" ["text"; "media"].

Definition msg_in ty ks := N1 "message" (msg_in_attrs ty t_fixed offline_fixed retry_fixed) DNone ks.
Definition msg_in_prefix_offline ty ks :=
  N1 "message" (msg_in_attrs ty t_fixed offline_prefix retry_fixed) DNone ks.
Definition msg_in_prefix_retry ty ks :=
  N1 "message" (msg_in_attrs ty t_fixed offline_fixed retry_prefix) DNone ks.
Definition msg_in_prefix_t now ty ks :=
  N1 "message" (msg_in_attrs ty (t_prefix now) offline_fixed retry_fixed) DNone ks.
Definition msg_out ty ks := N1 "message" (msg_out_attrs ty) DNone ks.

(* <proto [mediatype]>PAYLOAD</proto>: the data is the opaque payload *)
Definition proto_text := K1 (N1 "proto" [] DPayload KNil).
Definition proto_media := K1 (N1 "proto" [req "mediatype"] DPayload KNil).
(* ProtoProtocolEntity itself keeps the bytes as they are *)
Definition schema_Proto := N1 "proto" [optf "mediatype"] DBytes KNil.

(* EncryptedMessageProtocolEntity: one or more <enc>; when sending to a group's devices the
   per-recipient ones are wrapped: <participants><to jid><enc/></to>...</participants> *)
Definition enc_kids := one_or_more schema_Enc.
Definition schema_EncTo := N1 "to" [req "jid"] DNone (K1 schema_Enc).
Definition enc_fanout_kids :=
  KCons (MList UNone) schema_Enc
        (KCons MOne (N1 "participants" [] DNone (one_or_more schema_EncTo)) KNil).

(* BroadcastTextMessage: <message to=...@broadcast><proto/><broadcast><to jid/>...</broadcast> *)
Definition broadcast_kids :=
  KCons MOne (N1 "proto" [] DPayload KNil)
        (KCons MOne (N1 "broadcast" [] DNone (listof UNone (leaf "to" [req "jid"]))) KNil).

(* ================================================================== retry receipts *)
(* the <retry> child repeats the receipt id: CParent "id" *)
Definition retry_kid count v t :=
  KCons MOne (leaf "retry" [count; A "id" (CParent (s "id")) EAlways ShReq DAny; v; t])
        (KCons MOne (N1 "registration" [] DBe32 KNil) KNil).
Definition schema_RetryIncomingReceipt :=
  N1 "receipt"
     [req "id"; req "from"; reqdec "t"; A "offline" b10opt EIfNotNone ShOpt d01;
      A "type" CStr EIfNotNone ShReq (DEnum [s "retry"]); opt "participant"]
     DNone (retry_kid (int "count") (int "v") (int "t")).
(* built through the constructor (fromProtocolTreeNode calls the non-existent setRetryData) *)
Definition schema_RetryOutgoingReceipt :=
  N1 "receipt" [req "id"; const "type" "retry"; optf "participant"; req "to"]
     DNone (retry_kid (int "count") (int "v") (reqdec "t")).

(* ================================================================== axolotl key iqs *)
Definition bytes_kid (t : string) := N1 t [] DBytes KNil.
Definition be32_kid (t : string) := N1 t [] DBe32 KNil.
Definition server_to := const "to" "s.whatsapp.net".
(* send-only, built through the constructor: one reason for all users *)
Definition schema_GetKeysIq (user_attrs : list arule) :=
  out_iq "get" "encrypt" [server_to]
         (K1 (N1 "key" [] DNone (listof UNone (leaf "user" ([req "jid"] ++ user_attrs))))).
Definition schema_SetKeysIq :=
  out_iq "set" "encrypt" [server_to]
         (KCons MOne (N1 "list" [] DNone
                         (listof (UKid (s "id"))
                                 (N1 "key" [] DNone
                                     (KCons MOne (bytes_kid "id") (KCons MOne (bytes_kid "value") KNil)))))
         (KCons MOne (bytes_kid "identity")
         (KCons MOne (N1 "registration" [] DBytesNE KNil)
         (KCons MOne (N1 "type" [] DByte KNil)
         (KCons MOne (N1 "skey" [] DNone
                         (KCons MOne (bytes_kid "id") (KCons MOne (bytes_kid "value")
                         (KCons MOne (bytes_kid "signature") KNil)))) KNil))))).
(* as its own serialiser and the repo fixture shape it: 4-byte big-endian ids, type 00000005 *)
Definition schema_ResultGetKeysIq :=
  N1 "iq" [req "id"; const "type" "result"; const "from" "s.whatsapp.net"] DNone
     (K1 (N1 "list" [] DNone
             (listof (UAttr (s "jid"))
                (N1 "user" [req "jid"] DNone
                    (KCons MOne (be32_kid "registration")
                    (KCons MOne (N1 "type" [] (DConst [0; 0; 0; 5]) KNil)
                    (KCons MOne (bytes_kid "identity")
                    (KCons MOne (N1 "skey" [] DNone
                                    (KCons MOne (be32_kid "id") (KCons MOne (bytes_kid "value")
                                    (KCons MOne (bytes_kid "signature") KNil))))
                    (KCons MOne (N1 "key" [] DNone
                                    (KCons MOne (be32_kid "id") (KCons MOne (bytes_kid "value") KNil)))
                     KNil))))))))).

(* ================================================================== stream:features, privacy, auth *)
(* children with arbitrary tags: the tag is the feature *)
Definition schema_StreamFeatures :=
  N1 "stream:features" [] DNone (listof UNone (SNode [] [] DNone KNil)).
(* send-only, built through the constructor: one value for all categories *)
Definition schema_SetPrivacyIq (v : string) :=
  out_iq "set" "privacy" []
         (K1 (N1 "privacy" [] DNone
                 (one_or_more (leaf "category" [enum "name" ["status"; "profile"; "last"]; const "value" v])))).
Definition schema_Auth :=
  N1 "auth" [req "user"; req "mechanism";
             A "passive" (CEqC (s "true") (s "true") (s "false")) EAlways ShReq tf] DBytes KNil.

(* ================================================================== registry *)
Definition e (n : string) (dir : N) sc := E (s n) [] dir 0 sc.
Definition ev (n v : string) (dir kind : N) sc := E (s n) (s v) dir kind sc.

Definition registry : list entry := [
  e "AckProtocolEntity" 2 schema_Ack;
  e "IncomingAckProtocolEntity" 0 schema_IncomingAck;
  e "OutgoingAckProtocolEntity" 1 schema_OutgoingAck;
  e "ReceiptProtocolEntity" 2 schema_Receipt;
  e "IncomingReceiptProtocolEntity" 0 schema_IncomingReceipt;
  e "OutgoingReceiptProtocolEntity" 1 schema_OutgoingReceipt;
  e "ChatstateProtocolEntity" 2 schema_Chatstate;
  e "IncomingChatstateProtocolEntity" 0 schema_IncomingChatstate;
  e "OutgoingChatstateProtocolEntity" 1 schema_OutgoingChatstate;
  e "IqProtocolEntity" 2 schema_Iq;
  e "ResultIqProtocolEntity" 0 schema_Iq;
  e "PingIqProtocolEntity" 2 schema_Iq;
  e "PongResultIqProtocolEntity" 1 schema_Iq;
  ev "ErrorIqProtocolEntity" "positive back-off" 0 0 schema_ErrorIq;
  ev "FailureAddParticipantsIqProtocolEntity" "positive back-off" 0 0 schema_ErrorIq;
  e "PresenceProtocolEntity" 2 schema_Presence;
  e "AvailablePresenceProtocolEntity" 1 schema_Presence;
  e "UnavailablePresenceProtocolEntity" 1 schema_Presence;
  e "SubscribePresenceProtocolEntity" 1 schema_PresenceTo;
  e "UnsubscribePresenceProtocolEntity" 1 schema_PresenceTo;
  e "ResultLastseenIqProtocolEntity" 0 schema_ResultLastseen;
  e "IbProtocolEntity" 2 schema_Ib;
  e "DirtyIbProtocolEntity" 0 schema_DirtyIb;
  e "OfflineIbProtocolEntity" 0 schema_OfflineIb;
  e "AccountIbProtocolEntity" 0 schema_AccountIb;
  e "CleanIqProtocolEntity" 1 schema_CleanIq;
  e "CallProtocolEntity" 0 schema_Call;
  e "SuccessProtocolEntity" 0 schema_Success;
  e "FailureProtocolEntity" 0 schema_Failure;
  ev "StreamErrorProtocolEntity" "conflict" 0 0 schema_StreamError_conflict;
  ev "StreamErrorProtocolEntity" "ack | xml-not-well-formed" 0 0 schema_StreamError_other;
  e "NotificationProtocolEntity" 0 schema_Notification;
  e "PictureNotificationProtocolEntity" 0 schema_Notification;
  e "SetPictureNotificationProtocolEntity" 0 schema_SetPictureNotification;
  e "DeletePictureNotificationProtocolEntity" 0 schema_DeletePictureNotification;
  e "StatusNotificationProtocolEntity" 0 schema_StatusNotification;
  e "ContactNotificationProtocolEntity" 0 schema_Notification;
  e "AddContactNotificationProtocolEntity" 0 schema_AddContactNotification;
  e "RemoveContactNotificationProtocolEntity" 0 schema_RemoveContactNotification;
  e "UpdateContactNotificationProtocolEntity" 0 schema_UpdateContactNotification;
  e "ContactsSyncNotificationProtocolEntity" 0 schema_ContactsSyncNotification;
  e "GroupsNotificationProtocolEntity" 0 schema_GroupsNotification;
  e "SubjectGroupsNotificationProtocolEntity" 0 schema_SubjectGroupsNotification;
  e "CreateGroupsNotificationProtocolEntity" 0 schema_CreateGroupsNotification;
  e "AddGroupsNotificationProtocolEntity" 0 schema_AddGroupsNotification;
  e "RemoveGroupsNotificationProtocolEntity" 0 schema_RemoveGroupsNotification;
  e "CreateGroupsIqProtocolEntity" 1 schema_CreateGroupsIq;
  e "SuccessCreateGroupsIqProtocolEntity" 0 schema_SuccessCreateGroupsIq;
  e "InfoGroupsIqProtocolEntity" 1 schema_InfoGroupsIq;
  e "LeaveGroupsIqProtocolEntity" 1 schema_LeaveGroupsIq;
  e "SuccessLeaveGroupsIqProtocolEntity" 0 schema_SuccessLeaveGroupsIq;
  e "ListGroupsIqProtocolEntity" 1 schema_ListGroupsIq;
  e "SubjectGroupsIqProtocolEntity" 1 schema_SubjectGroupsIq;
  e "SuccessAddParticipantsIqProtocolEntity" 0 schema_SuccessAddParticipantsIq;
  e "SuccessRemoveParticipantsIqProtocolEntity" 0 schema_SuccessRemoveParticipantsIq;
  e "ListParticipantsResultIqProtocolEntity" 0 schema_ListParticipantsResultIq;
  e "InfoGroupsResultIqProtocolEntity" 0 schema_InfoGroupsResultIq;
  e "ListGroupsResultIqProtocolEntity" 0 schema_ListGroupsResultIq;
  e "SetStatusIqProtocolEntity" 1 schema_SetStatusIq;
  e "GetStatusesIqProtocolEntity" 1 schema_GetStatusesIq;
  e "ResultStatusesIqProtocolEntity" 0 schema_ResultStatusesIq;
  e "GetPrivacyIqProtocolEntity" 1 schema_GetPrivacyIq;
  e "ResultPrivacyIqProtocolEntity" 0 schema_ResultPrivacyIq;
  e "UnregisterIqProtocolEntity" 1 schema_UnregisterIq;
  e "ListPicturesIqProtocolEntity" 1 schema_ListPicturesIq;
  e "ResultGetPictureIqProtocolEntity" 0 schema_ResultGetPictureIq;
  e "PrivacyListIqProtocolEntity" 1 schema_PrivacyListIq;
  e "GetSyncIqProtocolEntity" 1 (schema_GetSyncIq last_fixed);
  e "ResultSyncIqProtocolEntity" 0 (schema_ResultSyncIq last_fixed);
  e "SyncIqProtocolEntity" 2 (schema_SyncIq last_fixed);
  e "GroupsIqProtocolEntity" 2 schema_Iq;
  e "PictureIqProtocolEntity" 2 schema_Iq;
  e "EncProtocolEntity" 2 schema_Enc;
  e "IdentityChangeEncryptNotification" 0 schema_IdentityChangeEncryptNotification;
  e "RequestKeysEncryptNotification" 0 schema_RequestKeysEncryptNotification;
  e "RequestUploadIqProtocolEntity" 1 schema_RequestUploadIq;
  ev "ResultRequestUploadIqProtocolEntity" "encr_media" 0 0 schema_ResultRequestUploadIq_media;
  ev "ResultRequestUploadIqProtocolEntity" "duplicate" 0 0 schema_ResultRequestUploadIq_duplicate;
  e "PropsIqProtocolEntity" 1 schema_PropsIq;
  e "PushIqProtocolEntity" 1 schema_PushIq;
  e "LastseenIqProtocolEntity" 1 schema_LastseenIq;
  e "AddParticipantsIqProtocolEntity" 1 (schema_ParticipantsIq "add");
  e "PromoteParticipantsIqProtocolEntity" 1 (schema_ParticipantsIq "promote");
  e "DemoteParticipantsIqProtocolEntity" 1 (schema_ParticipantsIq "demote");
  e "RemoveParticipantsIqProtocolEntity" 1 (schema_ParticipantsIq "remove");
  e "GetPictureIqProtocolEntity" 1 schema_GetPictureIq;
  e "ParticipantsGroupsIqProtocolEntity" 1 schema_ParticipantsGroupsIq;
  e "ResponseProtocolEntity" 1 schema_Response;
  e "SetPictureIqProtocolEntity" 1 schema_SetPictureIq;
  ev "MessageProtocolEntity" "incoming" 0 0 (msg_in ty_any KNil);
  ev "MessageProtocolEntity" "outgoing" 1 0 (msg_out ty_any KNil);
  ev "ProtomessageProtocolEntity" "incoming" 0 0 (msg_in ty_both proto_text);
  ev "ProtomessageProtocolEntity" "outgoing" 1 0 (msg_out ty_both proto_text);
  ev "TextMessageProtocolEntity" "incoming" 0 0 (msg_in ty_text proto_text);
  ev "TextMessageProtocolEntity" "outgoing" 1 0 (msg_out ty_text proto_text);
  ev "ExtendedTextMessageProtocolEntity" "incoming" 0 0 (msg_in ty_text proto_text);
  ev "ExtendedTextMessageProtocolEntity" "outgoing" 1 0 (msg_out ty_text proto_text);
  ev "BroadcastTextMessage" "outgoing" 1 0 (msg_out ty_text broadcast_kids);
  ev "MediaMessageProtocolEntity" "incoming" 0 0 (msg_in ty_media proto_media);
  ev "MediaMessageProtocolEntity" "outgoing" 1 0 (msg_out ty_media proto_media);
  ev "DownloadableMediaMessageProtocolEntity" "incoming" 0 0 (msg_in ty_media proto_media);
  ev "DownloadableMediaMessageProtocolEntity" "outgoing" 1 0 (msg_out ty_media proto_media);
  ev "ImageDownloadableMediaMessageProtocolEntity" "incoming" 0 0 (msg_in ty_media proto_media);
  ev "ImageDownloadableMediaMessageProtocolEntity" "outgoing" 1 0 (msg_out ty_media proto_media);
  ev "VideoDownloadableMediaMessageProtocolEntity" "incoming" 0 0 (msg_in ty_media proto_media);
  ev "VideoDownloadableMediaMessageProtocolEntity" "outgoing" 1 0 (msg_out ty_media proto_media);
  ev "AudioDownloadableMediaMessageProtocolEntity" "incoming" 0 0 (msg_in ty_media proto_media);
  ev "AudioDownloadableMediaMessageProtocolEntity" "outgoing" 1 0 (msg_out ty_media proto_media);
  ev "DocumentDownloadableMediaMessageProtocolEntity" "incoming" 0 0 (msg_in ty_media proto_media);
  ev "DocumentDownloadableMediaMessageProtocolEntity" "outgoing" 1 0 (msg_out ty_media proto_media);
  ev "StickerDownloadableMediaMessageProtocolEntity" "incoming" 0 0 (msg_in ty_media proto_media);
  ev "StickerDownloadableMediaMessageProtocolEntity" "outgoing" 1 0 (msg_out ty_media proto_media);
  ev "LocationMediaMessageProtocolEntity" "incoming" 0 0 (msg_in ty_media proto_media);
  ev "LocationMediaMessageProtocolEntity" "outgoing" 1 0 (msg_out ty_media proto_media);
  ev "ContactMediaMessageProtocolEntity" "incoming" 0 0 (msg_in ty_media proto_media);
  ev "ContactMediaMessageProtocolEntity" "outgoing" 1 0 (msg_out ty_media proto_media);
  ev "ExtendedTextMediaMessageProtocolEntity" "incoming" 0 0 (msg_in ty_media proto_media);
  ev "ExtendedTextMediaMessageProtocolEntity" "outgoing" 1 0 (msg_out ty_media proto_media);
  e "ProtoProtocolEntity" 2 schema_Proto;
  ev "EncProtocolEntity" "to-wrapped" 1 0 schema_EncTo;
  ev "EncryptedMessageProtocolEntity" "incoming" 0 0 (msg_in ty_both enc_kids);
  ev "EncryptedMessageProtocolEntity" "outgoing" 1 0 (msg_out ty_both enc_kids);
  ev "EncryptedMessageProtocolEntity" "outgoing fan-out" 1 0 (msg_out ty_both enc_fanout_kids);
  e "RetryIncomingReceiptProtocolEntity" 0 schema_RetryIncomingReceipt;
  e "RetryOutgoingReceiptProtocolEntity" 1 schema_RetryOutgoingReceipt;
  ev "GetKeysIqProtocolEntity" "no reason" 1 0 (schema_GetKeysIq []);
  ev "GetKeysIqProtocolEntity" "reason=identity" 1 0 (schema_GetKeysIq [const "reason" "identity"]);
  e "SetKeysIqProtocolEntity" 1 schema_SetKeysIq;
  ev "ResultGetKeysIqProtocolEntity" "4-byte ids" 0 0 schema_ResultGetKeysIq;
  e "StreamFeaturesProtocolEntity" 0 schema_StreamFeatures;
  ev "SetPrivacyIqProtocolEntity" "value=all" 1 0 (schema_SetPrivacyIq "all");
  ev "SetPrivacyIqProtocolEntity" "value=contacts" 1 0 (schema_SetPrivacyIq "contacts");
  ev "SetPrivacyIqProtocolEntity" "value=none" 1 0 (schema_SetPrivacyIq "none");
  e "AuthProtocolEntity" 1 schema_Auth
].

(* faithful schemas of classes that lose something on their documented shape (open findings) *)
Definition refuted : list entry := [
  ev "ErrorIqProtocolEntity" "backoff=0" 0 1 schema_ErrorIq_wide
].

(* pre-fix variants, kept so that the regression is recognised if it returns *)
Definition prefix_variants : list entry := [
  ev "RemoveGroupsNotificationProtocolEntity" "pre-fix" 0 2 schema_RemoveGroupsNotification_mode;
  ev "NotificationProtocolEntity" "pre-fix" 0 2 schema_Notification_prefix;
  ev "AccountIbProtocolEntity" "pre-fix" 0 2 schema_AccountIb_prefix;
  ev "InfoGroupsResultIqProtocolEntity" "pre-fix" 0 2 schema_InfoGroupsResultIq_prefix;
  ev "CreateGroupsNotificationProtocolEntity" "pre-fix" 0 2 schema_CreateGroupsNotification_prefix;
  ev "GetSyncIqProtocolEntity" "pre-fix" 1 2 (schema_GetSyncIq last_prefix);
  ev "ResultSyncIqProtocolEntity" "pre-fix" 0 2 (schema_ResultSyncIq last_prefix);
  ev "MessageProtocolEntity" "pre-fix offline" 0 2 (msg_in_prefix_offline ty_any KNil);
  ev "MessageProtocolEntity" "pre-fix retry" 0 2 (msg_in_prefix_retry ty_any KNil);
  ev "MessageProtocolEntity" "pre-fix t (clock at 1700000000)" 0 2 (msg_in_prefix_t 1700000000 ty_any KNil)
].

(* fully evaluated, so that the extracted model does not depend on Coq's String module (its
   OCaml name would shadow Stdlib.String in the driver) *)
Definition all_entries : list entry := Eval vm_compute in (registry ++ refuted ++ prefix_variants).
