(* C09 — entities <-> stanzas.  Model (definitions only).

   Stanza tree = ProtocolTreeNode: tag, ordered attribute list (a Python dict in insertion
   order; values are str, but the code can also put an int or None there), data bytes,
   ordered children.  Strings are lists of Latin-1 codes (N < 256).

   A *schema* describes at the same time
     (a) the documented shape of a stanza class        -> matches : schema -> node -> bool
     (b) what Cls.fromProtocolTreeNode does with it     -> get     : schema -> node -> option val
     (c) what entity.toProtocolTreeNode produces        -> put     : schema -> val  -> option node
   and lossless : schema -> bool is a computed sufficient condition for
   put (get n) ~ n on every node of the documented shape (C09Proofs.lens_get_put_thm).

   Message payloads (<proto> data) are OPAQUE here: get/put/matches/~ take a payload lens
   PL : paylens (parse+convert, convert+serialise, payload domain, payload equivalence); the
   lens theorem assumes pl_lossless PL, which is C10's subject.                           *)
From YV Require Import Common.Tac.
From Coq Require Import Decimal DecimalN String Ascii.
Local Open Scope N_scope.

Definition str := list N.

(* ------------------------------------------------------------------ strings *)
Fixpoint str_eqb (a b : str) : bool :=
  match a, b with
  | [], [] => true
  | x :: a', y :: b' => N.eqb x y && str_eqb a' b'
  | _, _ => false
  end.

Fixpoint mem (k : str) (l : list str) : bool :=
  match l with [] => false | x :: l' => str_eqb k x || mem k l' end.

Fixpoint nodupb (l : list str) : bool :=
  match l with [] => true | x :: l' => negb (mem x l') && nodupb l' end.

Definition is_nil {A} (l : list A) : bool := match l with [] => true | _ => false end.

(* string literals of the schema file *)
Definition s (x : string) : str :=
  map (fun a => N.of_nat (nat_of_ascii a)) (list_ascii_of_string x).

(* ------------------------------------------------------------------ decimal: int(x) / str(i) *)
Definition digit_of (c : N) : option (uint -> uint) :=
  if c =? 48 then Some D0 else if c =? 49 then Some D1 else if c =? 50 then Some D2
  else if c =? 51 then Some D3 else if c =? 52 then Some D4 else if c =? 53 then Some D5
  else if c =? 54 then Some D6 else if c =? 55 then Some D7 else if c =? 56 then Some D8
  else if c =? 57 then Some D9 else None.

Fixpoint str_to_uint (x : str) : option uint :=
  match x with
  | [] => Some Nil
  | c :: x' =>
    match digit_of c, str_to_uint x' with
    | Some d, Some u => Some (d u)
    | _, _ => None
    end
  end.

Fixpoint uint_to_str (u : uint) : str :=
  match u with
  | Nil => []
  | D0 u => 48 :: uint_to_str u | D1 u => 49 :: uint_to_str u | D2 u => 50 :: uint_to_str u
  | D3 u => 51 :: uint_to_str u | D4 u => 52 :: uint_to_str u | D5 u => 53 :: uint_to_str u
  | D6 u => 54 :: uint_to_str u | D7 u => 55 :: uint_to_str u | D8 u => 56 :: uint_to_str u
  | D9 u => 57 :: uint_to_str u
  end.

(* int(x) on an ASCII-digit string (leading zeros allowed, "" refused) *)
Definition dec (x : str) : option N :=
  match x with
  | [] => None
  | _ => match str_to_uint x with Some u => Some (N.of_uint u) | None => None end
  end.

(* str(i) *)
Definition to_dec (n : N) : str := uint_to_str (N.to_uint n).

(* ------------------------------------------------------------------ trees *)
Inductive aval := AStr (x : str) | AInt (n : N) | ANone.

Inductive node := Node (tag : str) (attrs : list (str * aval)) (data : option (list N))
                       (kids : list node).

Definition node_tag (n : node) : str := match n with Node t _ _ _ => t end.
Definition node_attrs (n : node) := match n with Node _ a _ _ => a end.
Definition node_data (n : node) := match n with Node _ _ d _ => d end.
Definition node_kids (n : node) := match n with Node _ _ _ k => k end.

Fixpoint lookup (k : str) (l : list (str * aval)) : option aval :=
  match l with
  | [] => None
  | (k', v) :: l' => if str_eqb k k' then Some v else lookup k l'
  end.

(* "numbers compared by value": two attribute values are equivalent when identical or when
   both are decimal strings denoting the same number *)
Definition aval_eqvb (a b : aval) : bool :=
  match a, b with
  | AStr x, AStr y =>
    str_eqb x y ||
    match dec x, dec y with Some n, Some m => N.eqb n m | _, _ => false end
  | AInt n, AInt m => N.eqb n m
  | ANone, ANone => true
  | _, _ => false
  end.

Definition oa_eqvb (a b : option aval) : bool :=
  match a, b with
  | None, None => true
  | Some x, Some y => aval_eqvb x y
  | _, _ => false
  end.

(* ------------------------------------------------------------------ field values *)
(* attribute fields: what fromProtocolTreeNode keeps of one attribute *)
Inductive fv := FNone | FStr (x : str) | FInt (n : N) | FBool (b : bool).

Definition truthy (v : fv) : bool :=
  match v with
  | FNone => false
  | FStr x => negb (is_nil x)
  | FInt n => negb (n =? 0)
  | FBool b => b
  end.

Definition is_fnone (v : fv) : bool := match v with FNone => true | _ => false end.

(* ------------------------------------------------------------------ attribute rules *)
(* what the from-side does with node[name] and what the to-side writes back *)
Inductive conv :=
| CStr                       (* kept as is (None when absent)                              *)
| CInt                       (* int(x) ... str(i);  absent -> TypeError                    *)
| CIntOpt                    (* int(x) if x is not None else None                          *)
| CIntDef0                   (* int(x) if x else 0                                         *)
| CIntRaw                    (* int(x) ... written back as an int, not a str               *)
| CEqC (c t f : str)         (* x == c  ...  t if b else f          (absent -> False)      *)
| CEqCOpt (c t f : str)      (* None if absent else x == c ... t if b else f               *)
| CTruthy (t f : str)        (* kept as is ... t if x else f                               *)
| CConst (v : str)           (* ignored ... constant v                                     *)
| CIntClock                  (* int(x) if x is not None else None ... `v if v is not None else
                                now()` ... str(i): only an ABSENT value is replaced by the clock
                                (not modelled: put fails there)                              *)
| CIntOr (d : N)             (* int(x) if x else None ... `v or d` ... str(i): a zero or absent
                                value is replaced by d (the pre-fix message timestamp, d = the
                                clock reading)                                               *)
| CParent (k : str).         (* ignored ... the value the PARENT node carries under key k
                                (retry/@id = receipt/@id)                                    *)

Inductive emit := EAlways | EIfNotNone | EIfTruthy.
Inductive shape := ShReq | ShOpt | ShExcl (other : str).   (* ShExcl o: optional, never with o *)
Inductive dom := DAny | DDec | DDecPos | DEnum (l : list str).   (* DDecPos: decimal, value > 0 *)

Record arule := AR { a_name : str; a_conv : conv; a_emit : emit; a_shape : shape; a_dom : dom }.

Definition int_in (x : str) : option fv :=
  match dec x with Some n => Some (FInt n) | None => None end.

Definition conv_in (c : conv) (o : option str) : option fv :=
  match c, o with
  | CStr, Some x => Some (FStr x)
  | CStr, None => Some FNone
  | CInt, Some x => int_in x
  | CInt, None => None
  | CIntRaw, Some x => int_in x
  | CIntRaw, None => None
  | CIntOpt, Some x => int_in x
  | CIntOpt, None => Some FNone
  | CIntDef0, Some [] => Some (FInt 0)
  | CIntDef0, Some x => int_in x
  | CIntDef0, None => Some (FInt 0)
  | CEqC c _ _, Some x => Some (FBool (str_eqb x c))
  | CEqC _ _ _, None => Some (FBool false)
  | CEqCOpt c _ _, Some x => Some (FBool (str_eqb x c))
  | CEqCOpt _ _ _, None => Some FNone
  | CTruthy _ _, Some x => Some (FStr x)
  | CTruthy _ _, None => Some FNone
  | CConst _, _ => Some FNone
  | CIntClock, Some x => int_in x
  | CIntClock, None => Some FNone
  | CIntOr d, Some x =>
    match dec x with Some n => Some (FInt (if n =? 0 then d else n)) | None => None end
  | CIntOr d, None => Some (FInt d)
  | CParent _, _ => Some FNone
  end.

Definition conv_out (c : conv) (v : fv) : option aval :=
  match c, v with
  | CStr, FStr x => Some (AStr x)
  | CStr, FNone => Some ANone
  | CInt, FInt n => Some (AStr (to_dec n))
  | CIntOpt, FInt n => Some (AStr (to_dec n))
  | CIntOpt, FNone => Some ANone
  | CIntDef0, FInt n => Some (AStr (to_dec n))
  | CIntRaw, FInt n => Some (AInt n)
  | CEqC _ t f, FBool b => Some (AStr (if b then t else f))
  | CEqCOpt _ t f, FBool b => Some (AStr (if b then t else f))
  | CEqCOpt _ _ _, FNone => Some ANone
  | CTruthy t f, v => Some (AStr (if truthy v then t else f))
  | CConst c, _ => Some (AStr c)
  | CIntClock, FInt n => Some (AStr (to_dec n))
  | CIntOr _, FInt n => Some (AStr (to_dec n))
  | _, _ => None
  end.

(* env = the attributes the parent node carries (put: the ones just written for it) *)
Definition conv_out_e (c : conv) (env : list (str * aval)) (v : fv) : option aval :=
  match c with
  | CParent k => lookup k env
  | _ => conv_out c v
  end.

Definition emits (e : emit) (v : fv) : bool :=
  match e with EAlways => true | EIfNotNone => negb (is_fnone v) | EIfTruthy => truthy v end.

(* node[name] as the from-side sees it: Some None = absent; None = a non-str value (never
   on an incoming node) *)
Definition lookup_s (k : str) (attrs : list (str * aval)) : option (option str) :=
  match lookup k attrs with
  | None => Some None
  | Some (AStr x) => Some (Some x)
  | Some _ => None
  end.

Definition get_attr (r : arule) (attrs : list (str * aval)) : option fv :=
  match lookup_s (a_name r) attrs with
  | Some o => conv_in (a_conv r) o
  | None => None
  end.

Definition put_attr (r : arule) (env : list (str * aval)) (v : fv) : option (list (str * aval)) :=
  match conv_out_e (a_conv r) env v with
  | Some a => Some (if emits (a_emit r) v then [(a_name r, a)] else [])
  | None => None
  end.

Fixpoint get_attrs (rs : list arule) (attrs : list (str * aval)) : option (list fv) :=
  match rs with
  | [] => Some []
  | r :: rs' =>
    match get_attr r attrs, get_attrs rs' attrs with
    | Some v, Some vs => Some (v :: vs)
    | _, _ => None
    end
  end.

Fixpoint put_attrs (rs : list arule) (env : list (str * aval)) (vs : list fv)
  : option (list (str * aval)) :=
  match rs, vs with
  | [], [] => Some []
  | r :: rs', v :: vs' =>
    match put_attr r env v, put_attrs rs' env vs' with
    | Some a, Some rest => Some (a ++ rest)
    | _, _ => None
    end
  | _, _ => None
  end.

Definition in_dom (d : dom) (x : str) : bool :=
  match d with
  | DAny => negb (is_nil x)
  | DDec => match dec x with Some _ => true | None => false end
  | DDecPos => match dec x with Some n => negb (n =? 0) | None => false end
  | DEnum l => mem x l
  end.

(* env = the attributes of the parent node *)
Definition attr_matches (env attrs : list (str * aval)) (r : arule) : bool :=
  match lookup (a_name r) attrs with
  | None => match a_shape r with ShReq => false | _ => true end
  | Some (AStr x) =>
    in_dom (a_dom r) x &&
    match a_shape r with
    | ShExcl o => match lookup o attrs with None => true | Some _ => false end
    | _ => true
    end &&
    match a_conv r with
    | CParent k => match lookup k env with Some (AStr y) => str_eqb x y | _ => false end
    | _ => true
    end
  | Some _ => false
  end.

(* one attribute survives from->to on input o (None = absent) *)
Definition attr_rt (r : arule) (o : option str) : bool :=
  match conv_in (a_conv r) o with
  | None => false
  | Some v =>
    match conv_out (a_conv r) v with
    | None => false
    | Some a =>
      match o with
      | None => negb (emits (a_emit r) v)
      | Some x => emits (a_emit r) v && aval_eqvb a (AStr x)
      end
    end
  end.

(* the (conv, emit) pairs that are lossless on an infinite domain *)
Definition conv_inf_ok (c : conv) (e : emit) (d : dom) : bool :=
  match d, c, e with
  | DAny, CStr, _ => true
  | DDec, CStr, _ => true
  | DDec, CInt, EAlways => true
  | DDec, CInt, EIfNotNone => true
  | DDec, CIntOpt, EAlways => true
  | DDec, CIntOpt, EIfNotNone => true
  | DDec, CIntDef0, EAlways => true
  | DDec, CIntDef0, EIfNotNone => true
  | DDec, CIntClock, EAlways => true
  | DDec, CIntClock, EIfNotNone => true
  | DDecPos, CStr, _ => true
  | DDecPos, CInt, _ => true
  | DDecPos, CIntOpt, _ => true
  | DDecPos, CIntDef0, _ => true
  | DDecPos, CIntClock, _ => true
  | _, _, _ => false
  end.

Definition attr_lossless (r : arule) : bool :=
  match a_conv r with
  | CParent _ =>                       (* always written, equal to the parent's by matches *)
    match a_shape r, a_emit r with ShReq, EAlways => true | _, _ => false end
  | _ =>
    match a_shape r with ShReq => true | _ => attr_rt r None end &&
    match a_dom r with
    | DEnum l => forallb (fun x => attr_rt r (Some x)) l
    | d => conv_inf_ok (a_conv r) (a_emit r) d
    end
  end.

(* ------------------------------------------------------------------ data rules *)
Inductive drule :=
| DNone                      (* no data; never looked at                                    *)
| DBytes                     (* node.data kept as is (may be absent)                        *)
| DUtf8                      (* data.decode() ... s.encode()                                *)
| DBytesNE                   (* kept as is; the to-side replaces an empty value (`x or ...`) *)
| DByte                      (* one byte <-> int   (struct.pack('<B', i))                   *)
| DBe32                      (* int(hexlify(data), 16) ... unhexlify(format(i,'x').zfill(8)) *)
| DConst (c : list N)        (* never read; a constant is written                           *)
| DPayload.                  (* the message payload: handled by the payload lens            *)

Definition cont (c : N) : bool := (128 <=? c) && (c <=? 191).

(* bytes.decode() succeeds (strict UTF-8: no overlongs, no surrogates, <= U+10FFFF) *)
Fixpoint utf8_valid (b : list N) : bool :=
  match b with
  | [] => true
  | c :: r =>
    if c <? 128 then utf8_valid r
    else if (194 <=? c) && (c <=? 223) then
      match r with c1 :: r1 => cont c1 && utf8_valid r1 | _ => false end
    else if c =? 224 then
      match r with c1 :: c2 :: r2 => (160 <=? c1) && (c1 <=? 191) && cont c2 && utf8_valid r2
              | _ => false end
    else if c =? 237 then
      match r with c1 :: c2 :: r2 => (128 <=? c1) && (c1 <=? 159) && cont c2 && utf8_valid r2
              | _ => false end
    else if (225 <=? c) && (c <=? 239) then
      match r with c1 :: c2 :: r2 => cont c1 && cont c2 && utf8_valid r2 | _ => false end
    else if c =? 240 then
      match r with c1 :: c2 :: c3 :: r3 =>
                   (144 <=? c1) && (c1 <=? 191) && cont c2 && cont c3 && utf8_valid r3
              | _ => false end
    else if (241 <=? c) && (c <=? 243) then
      match r with c1 :: c2 :: c3 :: r3 => cont c1 && cont c2 && cont c3 && utf8_valid r3
              | _ => false end
    else if c =? 244 then
      match r with c1 :: c2 :: c3 :: r3 =>
                   (128 <=? c1) && (c1 <=? 143) && cont c2 && cont c3 && utf8_valid r3
              | _ => false end
    else false
  end.

Definition bytes_ok (b : list N) : bool := forallb (fun c => c <? 256) b.

(* big-endian value of a byte string *)
Definition be_val (b : list N) : N := fold_left (fun acc c => acc * 256 + c) b 0.

(* unhexlify(format(n, 'x').zfill(8)) for n < 2^32 (above, the real code writes more digits or
   raises on an odd count: not modelled, put fails) *)
Definition be32 (n : N) : list N :=
  [n / 16777216; (n / 65536) mod 256; (n / 256) mod 256; n mod 256].

(* ------------------------------------------------------------------ payload lens *)
(* What the message classes do with the <proto> data:
     pl_get = Message.ParseFromString + AttributesConverter.proto_to_message
     pl_put = AttributesConverter.message_to_protobytes
     pl_dom = the documented payloads
     pl_eqv out inp = the two byte strings parse to the same protobuf message (field-wise)  *)
Record paylens := PayLens {
  pl_obj : Type;
  pl_get : list N -> option pl_obj;
  pl_put : pl_obj -> option (list N);
  pl_dom : list N -> bool;
  pl_eqv : list N -> list N -> Prop }.

(* the hypothesis of the lens theorem on payload-carrying schemas (C10's subject) *)
Definition pl_lossless (PL : paylens) : Prop :=
  forall b, pl_dom PL b = true ->
  exists a b', pl_get PL b = Some a /\ pl_put PL a = Some b' /\ pl_eqv PL b' b.

(* the ideal payload lens: the bytes themselves, reproduced exactly *)
Definition pl_id : paylens :=
  PayLens (list N) (fun b => Some b) (fun b => Some b)
          (fun b => negb (is_nil b) && bytes_ok b) (fun b' b => b' = b).

(* tags of payload-carrying nodes: only there may data differ (up to pl_eqv) *)
Definition payload_tags : list str := Eval vm_compute in [s "proto"].

(* ------------------------------------------------------------------ schemas *)
Inductive ukey := UNone | UAttr (k : str) | UData | UKid (t : str).
(* list items are dict keys: distinct by an attribute, by their data, or by the data of their
   child t *)
Inductive mult :=
| MOne                      (* exactly one child                                            *)
| MOpt (nonempty : bool)    (* zero or one child; nonempty: when present it has children    *)
| MList (u : ukey).         (* zero or more consecutive children                            *)

(* tags = [] : any tag (the tag is a field: stream:features children) *)
Inductive schema := SNode (tags : list str) (ars : list arule) (d : drule) (ks : krules)
with krules := KNil | KCons (m : mult) (c : schema) (ks : krules).

Definition tag_ok (tags : list str) (t : str) : bool := is_nil tags || mem t tags.

Definition tag_in (c : schema) (n : node) : bool :=
  match c, n with SNode tags _ _ _, Node t _ _ _ => tag_ok tags t end.

Fixpoint span (p : node -> bool) (l : list node) : list node * list node :=
  match l with
  | [] => ([], [])
  | x :: l' => if p x then let '(a, b) := span p l' in (x :: a, b) else ([], l)
  end.

Fixpoint mapM {A B} (f : A -> option B) (l : list A) : option (list B) :=
  match l with
  | [] => Some []
  | x :: l' => match f x, mapM f l' with Some y, Some ys => Some (y :: ys) | _, _ => None end
  end.

Definition names (rs : list arule) : list str := map a_name rs.

Definition ukey_of (u : ukey) (n : node) : option str :=
  match u with
  | UNone => None
  | UAttr k => match lookup k (node_attrs n) with Some (AStr x) => Some x | _ => None end
  | UData => node_data n
  | UKid t =>
    match filter (fun k => str_eqb (node_tag k) t) (node_kids n) with
    | k :: _ => node_data k
    | [] => None
    end
  end.

Fixpoint omap {A B} (f : A -> option B) (l : list A) : list B :=
  match l with [] => [] | x :: l' => match f x with Some y => y :: omap f l' | None => omap f l' end end.

Definition uniq_ok (u : ukey) (l : list node) : bool :=
  match u with UNone => true | _ => nodupb (omap (ukey_of u) l) end.

Definition keys_in (attrs : list (str * aval)) (ns : list str) : bool :=
  forallb (fun kv => mem (fst kv) ns) attrs.

Section WithPayload.
Variable PL : paylens.

(* n' ~ n : same tag, same data (on a payload node: pl_eqv), attribute dicts equal as maps up
   to aval_eqvb, children pairwise equivalent IN ORDER *)
Definition deqv (t : str) (d' d : option (list N)) : Prop :=
  d' = d \/
  (mem t payload_tags = true /\ exists b' b, d' = Some b' /\ d = Some b /\ pl_eqv PL b' b).

Inductive neqv : node -> node -> Prop :=
| NEqv : forall t a a' d d' k k',
    NoDup (map fst a) -> NoDup (map fst a') ->
    (forall key, oa_eqvb (lookup key a) (lookup key a') = true) ->
    deqv t d d' ->
    Forall2 neqv k k' ->
    neqv (Node t a d k) (Node t a' d' k').

(* entity values: VList [VStr tag; VAttrs attribute-fields; data-field; VList child-fields] *)
Inductive val :=
| VNone | VStr (x : str) | VInt (n : N) | VBytes (b : list N) | VAttrs (l : list fv)
| VPay (a : pl_obj PL) | VList (l : list val).

Definition is_vnone (v : val) : bool := match v with VNone => true | _ => false end.

Definition get_data (d : drule) (data : option (list N)) : option val :=
  match d, data with
  | DNone, _ => Some VNone                       (* the code never looks at it *)
  | DBytes, Some b => Some (VBytes b)
  | DBytes, None => Some VNone
  | DUtf8, Some b => if utf8_valid b then Some (VBytes b) else None
  | DUtf8, None => None
  | DBytesNE, Some b => Some (VBytes b)
  | DBytesNE, None => Some VNone
  | DByte, Some [c] => Some (VInt c)
  | DByte, _ => None
  | DBe32, Some [] => None
  | DBe32, Some b => Some (VInt (be_val b))
  | DBe32, None => None
  | DConst _, _ => Some VNone
  | DPayload, Some b => match pl_get PL b with Some a => Some (VPay a) | None => None end
  | DPayload, None => None
  end.

Definition put_data (d : drule) (v : val) : option (option (list N)) :=
  match d, v with
  | DNone, _ => Some None
  | DBytes, VBytes b => Some (Some b)
  | DBytes, VNone => Some None
  | DUtf8, VBytes b => Some (Some b)
  | DBytesNE, VBytes b => if is_nil b then None else Some (Some b)
  | DByte, VInt n => if n <? 256 then Some (Some [n]) else None
  | DBe32, VInt n => if n <? 4294967296 then Some (Some (be32 n)) else None
  | DConst c, _ => Some (Some c)
  | DPayload, VPay a => match pl_put PL a with Some b => Some (Some b) | None => None end
  | _, _ => None
  end.

Definition data_matches (d : drule) (data : option (list N)) : bool :=
  match d, data with
  | DNone, None => true
  | DNone, Some _ => false
  | DBytes, _ => true
  | DUtf8, Some b => utf8_valid b
  | DUtf8, None => false
  | DBytesNE, Some b => negb (is_nil b)
  | DBytesNE, None => false
  | DByte, Some [c] => c <? 256
  | DByte, _ => false
  | DBe32, Some [a; b; c; e] => bytes_ok [a; b; c; e]
  | DBe32, _ => false
  | DConst c, Some b => str_eqb b c
  | DConst _, None => false
  | DPayload, Some b => pl_dom PL b
  | DPayload, None => false
  end.

End WithPayload.

Arguments VNone {PL}.
Arguments VStr {PL} x.
Arguments VInt {PL} n.
Arguments VBytes {PL} b.
Arguments VAttrs {PL} l.
Arguments VPay {PL} a.
Arguments VList {PL} l.
Arguments is_vnone {PL} v.

(* PL is a parameter of the fixpoints themselves (not a section variable), so that cbn can
   refold the mutual definitions *)
(* fromProtocolTreeNode *)
Fixpoint get (PL : paylens) (sc : schema) (n : node) {struct sc} : option (val PL) :=
  match sc, n with
  | SNode tags ars d ks, Node t attrs data kids =>
    if tag_ok tags t then
      match get_attrs ars attrs, get_data PL d data, get_kids PL ks kids with
      | Some va, Some vd, Some vk => Some (VList [VStr t; VAttrs va; vd; VList vk])
      | _, _, _ => None
      end
    else None
  end
with get_kids (PL : paylens) (ks : krules) (kids : list node) {struct ks} : option (list (val PL)) :=
  match ks with
  | KNil => match kids with [] => Some [] | _ => None end
  | KCons m c ks' =>
    match m with
    | MOne =>
      match kids with
      | x :: rest =>
        if tag_in c x then
          match get PL c x, get_kids PL ks' rest with
          | Some v, Some vs => Some (v :: vs)
          | _, _ => None
          end
        else None
      | [] => None
      end
    | MOpt _ =>
      match kids with
      | x :: rest =>
        if tag_in c x then
          match get PL c x, get_kids PL ks' rest with
          | Some v, Some vs => Some (v :: vs)
          | _, _ => None
          end
        else match get_kids PL ks' kids with Some vs => Some (VNone :: vs) | None => None end
      | [] => match get_kids PL ks' [] with Some vs => Some (VNone :: vs) | None => None end
      end
    | MList _ =>
      let '(pre, rest) := span (tag_in c) kids in
      match mapM (get PL c) pre, get_kids PL ks' rest with
      | Some vl, Some vs => Some (VList vl :: vs)
      | _, _ => None
      end
    end
  end.

(* toProtocolTreeNode; env = the attributes written for the parent node *)
Fixpoint put (PL : paylens) (sc : schema) (env : list (str * aval)) (v : val PL) {struct sc} : option node :=
  match sc with
  | SNode tags ars d ks =>
    match v with
    | VList (VStr t :: VAttrs va :: vd :: VList vk :: nil) =>
      if tag_ok tags t then
        match put_attrs ars env va with
        | Some a =>
          match put_data PL d vd, put_kids PL ks a vk with
          | Some dd, Some kk => Some (Node t a dd kk)
          | _, _ => None
          end
        | None => None
        end
      else None
    | _ => None
    end
  end
with put_kids (PL : paylens) (ks : krules) (env : list (str * aval)) (vs : list (val PL)) {struct ks}
  : option (list node) :=
  match ks with
  | KNil => match vs with [] => Some [] | _ => None end
  | KCons m c ks' =>
    match vs with
    | [] => None
    | v :: vs' =>
      match put_kids PL ks' env vs' with
      | None => None
      | Some rest =>
        match m with
        | MOne => match put PL c env v with Some x => Some (x :: rest) | None => None end
        | MOpt _ =>
          if is_vnone v then Some rest
          else match put PL c env v with Some x => Some (x :: rest) | None => None end
        | MList _ =>
          match v with
          | VList l => match mapM (put PL c env) l with Some xs => Some (xs ++ rest) | None => None end
          | _ => None
          end
        end
      end
    end
  end.

(* the documented shape; env = the attributes of the parent node *)
Fixpoint matches (PL : paylens) (sc : schema) (env : list (str * aval)) (n : node) {struct sc} : bool :=
  match sc, n with
  | SNode tags ars d ks, Node t attrs data kids =>
    tag_ok tags t && nodupb (map fst attrs) && keys_in attrs (names ars) &&
    forallb (attr_matches env attrs) ars && data_matches PL d data && matches_kids PL ks attrs kids
  end
with matches_kids (PL : paylens) (ks : krules) (env : list (str * aval)) (kids : list node) {struct ks} : bool :=
  match ks with
  | KNil => is_nil kids
  | KCons m c ks' =>
    match m with
    | MOne =>
      match kids with
      | x :: rest => tag_in c x && matches PL c env x && matches_kids PL ks' env rest
      | [] => false
      end
    | MOpt ne =>
      match kids with
      | x :: rest =>
        if tag_in c x then
          matches PL c env x && (negb ne || negb (is_nil (node_kids x))) && matches_kids PL ks' env rest
        else matches_kids PL ks' env kids
      | [] => matches_kids PL ks' env []
      end
    | MList u =>
      let '(pre, rest) := span (tag_in c) kids in
      forallb (matches PL c env) pre && uniq_ok u pre && matches_kids PL ks' env rest
    end
  end.

(* computed sufficient condition for put (get n) ~ n on matching nodes (given pl_lossless) *)
Definition data_lossless (tags : list str) (d : drule) : bool :=
  match d with
  | DPayload => negb (is_nil tags) && forallb (fun t => mem t payload_tags) tags
  | _ => true
  end.

Fixpoint lossless (sc : schema) : bool :=
  match sc with
  | SNode tags ars d ks =>
    nodupb (names ars) && forallb attr_lossless ars && data_lossless tags d && lossless_kids ks
  end
with lossless_kids (ks : krules) : bool :=
  match ks with
  | KNil => true
  | KCons m c ks' => lossless c && lossless_kids ks'
  end.

(* schemas without a payload rule: there ~ is strict on data whatever the payload lens *)
Fixpoint payload_free (sc : schema) : bool :=
  match sc with
  | SNode _ _ d ks => match d with DPayload => false | _ => true end && payload_free_kids ks
  end
with payload_free_kids (ks : krules) : bool :=
  match ks with KNil => true | KCons _ c ks' => payload_free c && payload_free_kids ks' end.

(* schema sanity for the tie (not needed by the lens theorem): the code finds children by
   tag (getChild(tag)), the model parses them left to right; both agree when sibling rules
   have pairwise disjoint tags *)
Definition schema_tags (c : schema) : list str := match c with SNode tags _ _ _ => tags end.

Fixpoint krules_tags (ks : krules) : list str :=
  match ks with KNil => [] | KCons _ c ks' => schema_tags c ++ krules_tags ks' end.

Fixpoint tags_disjoint (sc : schema) : bool :=
  match sc with SNode _ _ _ ks => nodupb (krules_tags ks) && tags_disjoint_kids ks end
with tags_disjoint_kids (ks : krules) : bool :=
  match ks with KNil => true | KCons _ c ks' => tags_disjoint c && tags_disjoint_kids ks' end.

(* ------------------------------------------------------------------ codec well-formedness *)
Definition xmlstreamstart : str := Eval vm_compute in (s "xmlstreamstart").
Definition xmlstreamend : str := Eval vm_compute in (s "xmlstreamend").

Definition str_wf (x : str) : bool :=
  negb (is_nil x) && forallb (fun c => c <? 256) x &&
  negb (last x 0 =? 64) &&
  negb (str_eqb x xmlstreamstart) && negb (str_eqb x xmlstreamend).

Definition attr_wf (kv : str * aval) : bool :=
  str_wf (fst kv) && match snd kv with AStr x => str_wf x | _ => false end.

Definition content_wf (d : option (list N)) (k : list node) : bool :=
  match d, k with
  | None, _ => true
  | Some b, [] => negb (is_nil b) && bytes_ok b
  | Some _, _ :: _ => false
  end.

(* what the binary codec can carry (C01's domain): non-empty Latin-1 strings not ending in
   '@' and not a reserved word, distinct attribute keys, string attribute values, data xor
   children *)
Fixpoint codec_wf (n : node) : bool :=
  match n with
  | Node t a d k =>
    str_wf t && nodupb (map fst a) && forallb attr_wf a && content_wf d k &&
    forallb codec_wf k
  end.

(* boolean on the schema: whatever put emits has a well-formed shape *)
Definition conv_consts_wf (c : conv) : bool :=
  match c with
  | CEqC _ t f => str_wf t && str_wf f
  | CEqCOpt _ t f => str_wf t && str_wf f
  | CTruthy t f => str_wf t && str_wf f
  | CConst v => str_wf v
  | CIntRaw => false
  | _ => true
  end.

Definition arule_safe (r : arule) : bool := str_wf (a_name r) && conv_consts_wf (a_conv r).

Definition drule_safe (d : drule) : bool :=
  match d with DConst c => negb (is_nil c) && bytes_ok c | _ => true end.

Fixpoint codec_safe (sc : schema) : bool :=
  match sc with
  | SNode tags ars d ks =>
    forallb str_wf tags && nodupb (names ars) && forallb arule_safe ars &&
    match d, ks with DNone, _ => true | _, KNil => true | _, _ => false end &&
    drule_safe d && codec_safe_kids ks
  end
with codec_safe_kids (ks : krules) : bool :=
  match ks with KNil => true | KCons _ c ks' => codec_safe c && codec_safe_kids ks' end.

(* value well-formedness: every string the entity's fields make put write is codec-safe
   (a value copied from the parent is well-formed because the parent's is) *)
Definition attr_val_wf (r : arule) (v : fv) : bool :=
  match a_conv r with
  | CParent _ => true
  | _ =>
    match put_attr r [] v with
    | Some l => forallb attr_wf l
    | None => true
    end
  end.

Fixpoint attr_vals_wf (rs : list arule) (vs : list fv) : bool :=
  match rs, vs with
  | r :: rs', v :: vs' => attr_val_wf r v && attr_vals_wf rs' vs'
  | _, _ => true
  end.

Definition data_val_wf (PL : paylens) (v : val PL) : bool :=
  match v with
  | VBytes b => negb (is_nil b) && bytes_ok b
  | VPay a => match pl_put PL a with Some b => negb (is_nil b) && bytes_ok b | None => true end
  | _ => true
  end.

Fixpoint val_wf (PL : paylens) (sc : schema) (v : val PL) {struct sc} : bool :=
  match sc with
  | SNode tags ars d ks =>
    match v with
    | VList (VStr t :: VAttrs va :: vd :: VList vk :: nil) =>
      (negb (is_nil tags) || str_wf t) && attr_vals_wf ars va && data_val_wf PL vd && vals_wf PL ks vk
    | _ => true
    end
  end
with vals_wf (PL : paylens) (ks : krules) (vs : list (val PL)) {struct ks} : bool :=
  match ks with
  | KNil => true
  | KCons m c ks' =>
    match vs with
    | [] => true
    | v :: vs' =>
      match m with
      | MList _ => match v with VList l => forallb (val_wf PL c) l | _ => true end
      | _ => if is_vnone v then true else val_wf PL c v
      end && vals_wf PL ks' vs'
    end
  end.
