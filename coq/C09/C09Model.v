(* C09 — entities <-> stanzas.  Model (definitions only).

   Stanza tree = ProtocolTreeNode: tag, ordered attribute list (a Python dict in insertion
   order; values are str, but the code can also put an int or None there), data bytes,
   ordered children.  Strings are lists of Latin-1 codes (N < 256).

   A *schema* describes at the same time
     (a) the documented shape of a stanza class        -> matches : schema -> node -> bool
     (b) what Cls.fromProtocolTreeNode does with it     -> get     : schema -> node -> option val
     (c) what entity.toProtocolTreeNode produces        -> put     : schema -> val  -> option node
   and lossless : schema -> bool is a computed sufficient condition for
   put (get n) ~ n on every node of the documented shape (C09Proofs.lens_get_put_thm).      *)
From YV Require Import Common.Tac.
From Coq Require Import Decimal DecimalN String Ascii.
Local Open Scope N_scope.

Definition str := list N.

(* ------------------------------------------------------------------ strings *)
Fixpoint str_eqb (a b : str) : bool :=
  match a, b with
  | [], [] => true
  | x :: a', y :: b' => N.eqb x y && str_eqb a' b'
  | _, _ => false
  end.

Fixpoint mem (k : str) (l : list str) : bool :=
  match l with [] => false | x :: l' => str_eqb k x || mem k l' end.

Fixpoint nodupb (l : list str) : bool :=
  match l with [] => true | x :: l' => negb (mem x l') && nodupb l' end.

Definition is_nil {A} (l : list A) : bool := match l with [] => true | _ => false end.

(* string literals of the schema file *)
Definition s (x : string) : str :=
  map (fun a => N.of_nat (nat_of_ascii a)) (list_ascii_of_string x).

(* ------------------------------------------------------------------ decimal: int(x) / str(i) *)
Definition digit_of (c : N) : option (uint -> uint) :=
  if c =? 48 then Some D0 else if c =? 49 then Some D1 else if c =? 50 then Some D2
  else if c =? 51 then Some D3 else if c =? 52 then Some D4 else if c =? 53 then Some D5
  else if c =? 54 then Some D6 else if c =? 55 then Some D7 else if c =? 56 then Some D8
  else if c =? 57 then Some D9 else None.

Fixpoint str_to_uint (x : str) : option uint :=
  match x with
  | [] => Some Nil
  | c :: x' =>
    match digit_of c, str_to_uint x' with
    | Some d, Some u => Some (d u)
    | _, _ => None
    end
  end.

Fixpoint uint_to_str (u : uint) : str :=
  match u with
  | Nil => []
  | D0 u => 48 :: uint_to_str u | D1 u => 49 :: uint_to_str u | D2 u => 50 :: uint_to_str u
  | D3 u => 51 :: uint_to_str u | D4 u => 52 :: uint_to_str u | D5 u => 53 :: uint_to_str u
  | D6 u => 54 :: uint_to_str u | D7 u => 55 :: uint_to_str u | D8 u => 56 :: uint_to_str u
  | D9 u => 57 :: uint_to_str u
  end.

(* int(x) on an ASCII-digit string (leading zeros allowed, "" refused) *)
Definition dec (x : str) : option N :=
  match x with
  | [] => None
  | _ => match str_to_uint x with Some u => Some (N.of_uint u) | None => None end
  end.

(* str(i) *)
Definition to_dec (n : N) : str := uint_to_str (N.to_uint n).

(* ------------------------------------------------------------------ trees *)
Inductive aval := AStr (x : str) | AInt (n : N) | ANone.

Inductive node := Node (tag : str) (attrs : list (str * aval)) (data : option (list N))
                       (kids : list node).

Definition node_tag (n : node) : str := match n with Node t _ _ _ => t end.
Definition node_attrs (n : node) := match n with Node _ a _ _ => a end.
Definition node_data (n : node) := match n with Node _ _ d _ => d end.
Definition node_kids (n : node) := match n with Node _ _ _ k => k end.

Fixpoint lookup (k : str) (l : list (str * aval)) : option aval :=
  match l with
  | [] => None
  | (k', v) :: l' => if str_eqb k k' then Some v else lookup k l'
  end.

(* "numbers compared by value": two attribute values are equivalent when identical or when
   both are decimal strings denoting the same number *)
Definition aval_eqvb (a b : aval) : bool :=
  match a, b with
  | AStr x, AStr y =>
    str_eqb x y ||
    match dec x, dec y with Some n, Some m => N.eqb n m | _, _ => false end
  | AInt n, AInt m => N.eqb n m
  | ANone, ANone => true
  | _, _ => false
  end.

Definition oa_eqvb (a b : option aval) : bool :=
  match a, b with
  | None, None => true
  | Some x, Some y => aval_eqvb x y
  | _, _ => false
  end.

(* n' ~ n : same tag, same data, attribute dicts equal as maps up to aval_eqvb, children
   pairwise equivalent IN ORDER *)
Inductive neqv : node -> node -> Prop :=
| NEqv : forall t a a' d k k',
    NoDup (map fst a) -> NoDup (map fst a') ->
    (forall key, oa_eqvb (lookup key a) (lookup key a') = true) ->
    Forall2 neqv k k' ->
    neqv (Node t a d k) (Node t a' d k').

(* ------------------------------------------------------------------ field values *)
Inductive val :=
| VNone | VStr (x : str) | VInt (n : N) | VBool (b : bool) | VBytes (b : list N)
| VList (l : list val).

Definition truthy (v : val) : bool :=
  match v with
  | VNone => false
  | VStr x => negb (is_nil x)
  | VInt n => negb (n =? 0)
  | VBool b => b
  | VBytes b => negb (is_nil b)
  | VList l => negb (is_nil l)
  end.

Definition is_vnone (v : val) : bool := match v with VNone => true | _ => false end.

(* ------------------------------------------------------------------ attribute rules *)
(* what the from-side does with node[name] and what the to-side writes back *)
Inductive conv :=
| CStr                       (* kept as is (None when absent)                              *)
| CInt                       (* int(x) ... str(i);  absent -> TypeError                    *)
| CIntOpt                    (* int(x) if x is not None else None                          *)
| CIntDef0                   (* int(x) if x else 0                                         *)
| CIntRaw                    (* int(x) ... written back as an int, not a str               *)
| CEqC (c t f : str)         (* x == c  ...  t if b else f          (absent -> False)      *)
| CEqCOpt (c t f : str)      (* None if absent else x == c ... t if b else f               *)
| CTruthy (t f : str)        (* kept as is ... t if x else f                               *)
| CConst (v : str).          (* ignored ... constant v                                     *)

Inductive emit := EAlways | EIfNotNone | EIfTruthy.
Inductive shape := ShReq | ShOpt | ShExcl (other : str).   (* ShExcl o: optional, never with o *)
Inductive dom := DAny | DDec | DEnum (l : list str).

Record arule := AR { a_name : str; a_conv : conv; a_emit : emit; a_shape : shape; a_dom : dom }.

Definition int_in (x : str) : option val :=
  match dec x with Some n => Some (VInt n) | None => None end.

Definition conv_in (c : conv) (o : option str) : option val :=
  match c, o with
  | CStr, Some x => Some (VStr x)
  | CStr, None => Some VNone
  | CInt, Some x => int_in x
  | CInt, None => None
  | CIntRaw, Some x => int_in x
  | CIntRaw, None => None
  | CIntOpt, Some x => int_in x
  | CIntOpt, None => Some VNone
  | CIntDef0, Some [] => Some (VInt 0)
  | CIntDef0, Some x => int_in x
  | CIntDef0, None => Some (VInt 0)
  | CEqC c _ _, Some x => Some (VBool (str_eqb x c))
  | CEqC _ _ _, None => Some (VBool false)
  | CEqCOpt c _ _, Some x => Some (VBool (str_eqb x c))
  | CEqCOpt _ _ _, None => Some VNone
  | CTruthy _ _, Some x => Some (VStr x)
  | CTruthy _ _, None => Some VNone
  | CConst _, _ => Some VNone
  end.

Definition conv_out (c : conv) (v : val) : option aval :=
  match c, v with
  | CStr, VStr x => Some (AStr x)
  | CStr, VNone => Some ANone
  | CInt, VInt n => Some (AStr (to_dec n))
  | CIntOpt, VInt n => Some (AStr (to_dec n))
  | CIntOpt, VNone => Some ANone
  | CIntDef0, VInt n => Some (AStr (to_dec n))
  | CIntRaw, VInt n => Some (AInt n)
  | CEqC _ t f, VBool b => Some (AStr (if b then t else f))
  | CEqCOpt _ t f, VBool b => Some (AStr (if b then t else f))
  | CEqCOpt _ _ _, VNone => Some ANone
  | CTruthy t f, v => Some (AStr (if truthy v then t else f))
  | CConst c, _ => Some (AStr c)
  | _, _ => None
  end.

Definition emits (e : emit) (v : val) : bool :=
  match e with EAlways => true | EIfNotNone => negb (is_vnone v) | EIfTruthy => truthy v end.

(* node[name] as the from-side sees it: Some None = absent; None = a non-str value (never
   on an incoming node) *)
Definition lookup_s (k : str) (attrs : list (str * aval)) : option (option str) :=
  match lookup k attrs with
  | None => Some None
  | Some (AStr x) => Some (Some x)
  | Some _ => None
  end.

Definition get_attr (r : arule) (attrs : list (str * aval)) : option val :=
  match lookup_s (a_name r) attrs with
  | Some o => conv_in (a_conv r) o
  | None => None
  end.

Definition put_attr (r : arule) (v : val) : option (list (str * aval)) :=
  match conv_out (a_conv r) v with
  | Some a => Some (if emits (a_emit r) v then [(a_name r, a)] else [])
  | None => None
  end.

Fixpoint get_attrs (rs : list arule) (attrs : list (str * aval)) : option (list val) :=
  match rs with
  | [] => Some []
  | r :: rs' =>
    match get_attr r attrs, get_attrs rs' attrs with
    | Some v, Some vs => Some (v :: vs)
    | _, _ => None
    end
  end.

Fixpoint put_attrs (rs : list arule) (vs : list val) : option (list (str * aval)) :=
  match rs, vs with
  | [], [] => Some []
  | r :: rs', v :: vs' =>
    match put_attr r v, put_attrs rs' vs' with
    | Some a, Some rest => Some (a ++ rest)
    | _, _ => None
    end
  | _, _ => None
  end.

Definition in_dom (d : dom) (x : str) : bool :=
  match d with
  | DAny => negb (is_nil x)
  | DDec => match dec x with Some _ => true | None => false end
  | DEnum l => mem x l
  end.

Definition attr_matches (attrs : list (str * aval)) (r : arule) : bool :=
  match lookup (a_name r) attrs with
  | None => match a_shape r with ShReq => false | _ => true end
  | Some (AStr x) =>
    in_dom (a_dom r) x &&
    match a_shape r with
    | ShExcl o => match lookup o attrs with None => true | Some _ => false end
    | _ => true
    end
  | Some _ => false
  end.

(* one attribute survives from->to on input o (None = absent) *)
Definition attr_rt (r : arule) (o : option str) : bool :=
  match conv_in (a_conv r) o with
  | None => false
  | Some v =>
    match conv_out (a_conv r) v with
    | None => false
    | Some a =>
      match o with
      | None => negb (emits (a_emit r) v)
      | Some x => emits (a_emit r) v && aval_eqvb a (AStr x)
      end
    end
  end.

(* the (conv, emit) pairs that are lossless on an infinite domain *)
Definition conv_inf_ok (c : conv) (e : emit) (d : dom) : bool :=
  match d, c, e with
  | DAny, CStr, _ => true
  | DDec, CStr, _ => true
  | DDec, CInt, EAlways => true
  | DDec, CInt, EIfNotNone => true
  | DDec, CIntOpt, EAlways => true
  | DDec, CIntOpt, EIfNotNone => true
  | DDec, CIntDef0, EAlways => true
  | DDec, CIntDef0, EIfNotNone => true
  | _, _, _ => false
  end.

Definition attr_lossless (r : arule) : bool :=
  match a_shape r with ShReq => true | _ => attr_rt r None end &&
  match a_dom r with
  | DEnum l => forallb (fun x => attr_rt r (Some x)) l
  | d => conv_inf_ok (a_conv r) (a_emit r) d
  end.

(* ------------------------------------------------------------------ data rules *)
Inductive drule := DNone | DBytes | DUtf8.

Definition cont (c : N) : bool := (128 <=? c) && (c <=? 191).

(* bytes.decode() succeeds (strict UTF-8: no overlongs, no surrogates, <= U+10FFFF) *)
Fixpoint utf8_valid (b : list N) : bool :=
  match b with
  | [] => true
  | c :: r =>
    if c <? 128 then utf8_valid r
    else if (194 <=? c) && (c <=? 223) then
      match r with c1 :: r1 => cont c1 && utf8_valid r1 | _ => false end
    else if c =? 224 then
      match r with c1 :: c2 :: r2 => (160 <=? c1) && (c1 <=? 191) && cont c2 && utf8_valid r2
              | _ => false end
    else if c =? 237 then
      match r with c1 :: c2 :: r2 => (128 <=? c1) && (c1 <=? 159) && cont c2 && utf8_valid r2
              | _ => false end
    else if (225 <=? c) && (c <=? 239) then
      match r with c1 :: c2 :: r2 => cont c1 && cont c2 && utf8_valid r2 | _ => false end
    else if c =? 240 then
      match r with c1 :: c2 :: c3 :: r3 =>
                   (144 <=? c1) && (c1 <=? 191) && cont c2 && cont c3 && utf8_valid r3
              | _ => false end
    else if (241 <=? c) && (c <=? 243) then
      match r with c1 :: c2 :: c3 :: r3 => cont c1 && cont c2 && cont c3 && utf8_valid r3
              | _ => false end
    else if c =? 244 then
      match r with c1 :: c2 :: c3 :: r3 =>
                   (128 <=? c1) && (c1 <=? 143) && cont c2 && cont c3 && utf8_valid r3
              | _ => false end
    else false
  end.

Definition get_data (d : drule) (data : option (list N)) : option val :=
  match d, data with
  | DNone, _ => Some VNone                       (* the code never looks at it *)
  | DBytes, Some b => Some (VBytes b)
  | DBytes, None => Some VNone
  | DUtf8, Some b => if utf8_valid b then Some (VBytes b) else None
  | DUtf8, None => None
  end.

Definition put_data (d : drule) (v : val) : option (option (list N)) :=
  match d, v with
  | DNone, _ => Some None
  | DBytes, VBytes b => Some (Some b)
  | DBytes, VNone => Some None
  | DUtf8, VBytes b => Some (Some b)
  | _, _ => None
  end.

Definition data_matches (d : drule) (data : option (list N)) : bool :=
  match d, data with
  | DNone, None => true
  | DNone, Some _ => false
  | DBytes, _ => true
  | DUtf8, Some b => utf8_valid b
  | DUtf8, None => false
  end.

(* ------------------------------------------------------------------ schemas *)
Inductive ukey := UNone | UAttr (k : str) | UData.     (* list items are dict keys: distinct *)
Inductive mult :=
| MOne                      (* exactly one child                                            *)
| MOpt (nonempty : bool)    (* zero or one child; nonempty: when present it has children    *)
| MList (u : ukey).         (* zero or more consecutive children                            *)

Inductive schema := SNode (tags : list str) (ars : list arule) (d : drule) (ks : krules)
with krules := KNil | KCons (m : mult) (c : schema) (ks : krules).

Definition tag_in (c : schema) (n : node) : bool :=
  match c, n with SNode tags _ _ _, Node t _ _ _ => mem t tags end.

Fixpoint span (p : node -> bool) (l : list node) : list node * list node :=
  match l with
  | [] => ([], [])
  | x :: l' => if p x then let '(a, b) := span p l' in (x :: a, b) else ([], l)
  end.

Fixpoint mapM {A B} (f : A -> option B) (l : list A) : option (list B) :=
  match l with
  | [] => Some []
  | x :: l' => match f x, mapM f l' with Some y, Some ys => Some (y :: ys) | _, _ => None end
  end.

Definition names (rs : list arule) : list str := map a_name rs.

(* fromProtocolTreeNode.  The entity is VList [VStr tag; VList attr-fields; data; VList kid-fields] *)
Fixpoint get (sc : schema) (n : node) {struct sc} : option val :=
  match sc, n with
  | SNode tags ars d ks, Node t attrs data kids =>
    if mem t tags then
      match get_attrs ars attrs, get_data d data, get_kids ks kids with
      | Some va, Some vd, Some vk => Some (VList [VStr t; VList va; vd; VList vk])
      | _, _, _ => None
      end
    else None
  end
with get_kids (ks : krules) (kids : list node) {struct ks} : option (list val) :=
  match ks with
  | KNil => match kids with [] => Some [] | _ => None end
  | KCons m c ks' =>
    match m with
    | MOne =>
      match kids with
      | x :: rest =>
        if tag_in c x then
          match get c x, get_kids ks' rest with
          | Some v, Some vs => Some (v :: vs)
          | _, _ => None
          end
        else None
      | [] => None
      end
    | MOpt _ =>
      match kids with
      | x :: rest =>
        if tag_in c x then
          match get c x, get_kids ks' rest with
          | Some v, Some vs => Some (v :: vs)
          | _, _ => None
          end
        else match get_kids ks' kids with Some vs => Some (VNone :: vs) | None => None end
      | [] => match get_kids ks' [] with Some vs => Some (VNone :: vs) | None => None end
      end
    | MList _ =>
      let '(pre, rest) := span (tag_in c) kids in
      match mapM (get c) pre, get_kids ks' rest with
      | Some vl, Some vs => Some (VList vl :: vs)
      | _, _ => None
      end
    end
  end.

(* toProtocolTreeNode *)
Fixpoint put (sc : schema) (v : val) {struct sc} : option node :=
  match sc with
  | SNode tags ars d ks =>
    match v with
    | VList (VStr t :: VList va :: vd :: VList vk :: nil) =>
      if mem t tags then
        match put_attrs ars va, put_data d vd, put_kids ks vk with
        | Some a, Some dd, Some kk => Some (Node t a dd kk)
        | _, _, _ => None
        end
      else None
    | _ => None
    end
  end
with put_kids (ks : krules) (vs : list val) {struct ks} : option (list node) :=
  match ks with
  | KNil => match vs with [] => Some [] | _ => None end
  | KCons m c ks' =>
    match vs with
    | [] => None
    | v :: vs' =>
      match put_kids ks' vs' with
      | None => None
      | Some rest =>
        match m with
        | MOne => match put c v with Some x => Some (x :: rest) | None => None end
        | MOpt _ =>
          if is_vnone v then Some rest
          else match put c v with Some x => Some (x :: rest) | None => None end
        | MList _ =>
          match v with
          | VList l => match mapM (put c) l with Some xs => Some (xs ++ rest) | None => None end
          | _ => None
          end
        end
      end
    end
  end.

Definition ukey_of (u : ukey) (n : node) : option str :=
  match u with
  | UNone => None
  | UAttr k => match lookup k (node_attrs n) with Some (AStr x) => Some x | _ => None end
  | UData => node_data n
  end.

Fixpoint omap {A B} (f : A -> option B) (l : list A) : list B :=
  match l with [] => [] | x :: l' => match f x with Some y => y :: omap f l' | None => omap f l' end end.

Definition uniq_ok (u : ukey) (l : list node) : bool :=
  match u with UNone => true | _ => nodupb (omap (ukey_of u) l) end.

Definition keys_in (attrs : list (str * aval)) (ns : list str) : bool :=
  forallb (fun kv => mem (fst kv) ns) attrs.

(* the documented shape *)
Fixpoint matches (sc : schema) (n : node) {struct sc} : bool :=
  match sc, n with
  | SNode tags ars d ks, Node t attrs data kids =>
    mem t tags && nodupb (map fst attrs) && keys_in attrs (names ars) &&
    forallb (attr_matches attrs) ars && data_matches d data && matches_kids ks kids
  end
with matches_kids (ks : krules) (kids : list node) {struct ks} : bool :=
  match ks with
  | KNil => is_nil kids
  | KCons m c ks' =>
    match m with
    | MOne =>
      match kids with
      | x :: rest => tag_in c x && matches c x && matches_kids ks' rest
      | [] => false
      end
    | MOpt ne =>
      match kids with
      | x :: rest =>
        if tag_in c x then
          matches c x && (negb ne || negb (is_nil (node_kids x))) && matches_kids ks' rest
        else matches_kids ks' kids
      | [] => matches_kids ks' []
      end
    | MList u =>
      let '(pre, rest) := span (tag_in c) kids in
      forallb (matches c) pre && uniq_ok u pre && matches_kids ks' rest
    end
  end.

(* computed sufficient condition for put (get n) ~ n on matching nodes *)
Fixpoint lossless (sc : schema) : bool :=
  match sc with
  | SNode tags ars d ks => nodupb (names ars) && forallb attr_lossless ars && lossless_kids ks
  end
with lossless_kids (ks : krules) : bool :=
  match ks with
  | KNil => true
  | KCons m c ks' => lossless c && lossless_kids ks'
  end.

(* schema sanity for the tie (not needed by the lens theorem): the code finds children by
   tag (getChild(tag)), the model parses them left to right; both agree when sibling rules
   have pairwise disjoint tags *)
Definition schema_tags (c : schema) : list str := match c with SNode tags _ _ _ => tags end.

Fixpoint krules_tags (ks : krules) : list str :=
  match ks with KNil => [] | KCons _ c ks' => schema_tags c ++ krules_tags ks' end.

Fixpoint tags_disjoint (sc : schema) : bool :=
  match sc with SNode _ _ _ ks => nodupb (krules_tags ks) && tags_disjoint_kids ks end
with tags_disjoint_kids (ks : krules) : bool :=
  match ks with KNil => true | KCons _ c ks' => tags_disjoint c && tags_disjoint_kids ks' end.

(* ------------------------------------------------------------------ codec well-formedness *)
Definition xmlstreamstart : str := Eval vm_compute in (s "xmlstreamstart").
Definition xmlstreamend : str := Eval vm_compute in (s "xmlstreamend").

Definition str_wf (x : str) : bool :=
  negb (is_nil x) && forallb (fun c => c <? 256) x &&
  negb (last x 0 =? 64) &&
  negb (str_eqb x xmlstreamstart) && negb (str_eqb x xmlstreamend).

Definition attr_wf (kv : str * aval) : bool :=
  str_wf (fst kv) && match snd kv with AStr x => str_wf x | _ => false end.

Definition content_wf (d : option (list N)) (k : list node) : bool :=
  match d, k with
  | None, _ => true
  | Some b, [] => negb (is_nil b) && forallb (fun c => c <? 256) b
  | Some _, _ :: _ => false
  end.

(* what the binary codec can carry (C01's domain): non-empty Latin-1 strings not ending in
   '@' and not a reserved word, distinct attribute keys, string attribute values, data xor
   children *)
Fixpoint codec_wf (n : node) : bool :=
  match n with
  | Node t a d k =>
    str_wf t && nodupb (map fst a) && forallb attr_wf a && content_wf d k &&
    forallb codec_wf k
  end.

(* boolean on the schema: whatever put emits has a well-formed shape *)
Definition conv_consts_wf (c : conv) : bool :=
  match c with
  | CEqC _ t f => str_wf t && str_wf f
  | CEqCOpt _ t f => str_wf t && str_wf f
  | CTruthy t f => str_wf t && str_wf f
  | CConst v => str_wf v
  | CIntRaw => false
  | _ => true
  end.

Definition arule_safe (r : arule) : bool := str_wf (a_name r) && conv_consts_wf (a_conv r).

Fixpoint codec_safe (sc : schema) : bool :=
  match sc with
  | SNode tags ars d ks =>
    forallb str_wf tags && nodupb (names ars) && forallb arule_safe ars &&
    match d, ks with DNone, _ => true | _, KNil => true | _, _ => false end &&
    codec_safe_kids ks
  end
with codec_safe_kids (ks : krules) : bool :=
  match ks with KNil => true | KCons _ c ks' => codec_safe c && codec_safe_kids ks' end.

(* value well-formedness: every string the entity's fields make put write is codec-safe *)
Definition attr_val_wf (r : arule) (v : val) : bool :=
  match put_attr r v with
  | Some l => forallb attr_wf l
  | None => true
  end.

Fixpoint attr_vals_wf (rs : list arule) (vs : list val) : bool :=
  match rs, vs with
  | r :: rs', v :: vs' => attr_val_wf r v && attr_vals_wf rs' vs'
  | _, _ => true
  end.

Definition data_val_wf (v : val) : bool :=
  match v with VBytes b => negb (is_nil b) && forallb (fun c => c <? 256) b | _ => true end.

Fixpoint val_wf (sc : schema) (v : val) {struct sc} : bool :=
  match sc with
  | SNode tags ars d ks =>
    match v with
    | VList (VStr t :: VList va :: vd :: VList vk :: nil) =>
      attr_vals_wf ars va && data_val_wf vd && vals_wf ks vk
    | _ => true
    end
  end
with vals_wf (ks : krules) (vs : list val) {struct ks} : bool :=
  match ks with
  | KNil => true
  | KCons m c ks' =>
    match vs with
    | [] => true
    | v :: vs' =>
      match m with
      | MList _ => match v with VList l => forallb (val_wf c) l | _ => true end
      | _ => if is_vnone v then true else val_wf c v
      end && vals_wf ks' vs'
    end
  end.
