(* C09 — generic lens theorem: on the documented shape, put (get n) ~ n for every lossless
   schema; proved once, by mutual induction on schemas. *)
From YV Require Import Common.Tac C09.C09Model.
From Coq Require Import Decimal DecimalN DecimalPos.
Local Open Scope N_scope.

(* ------------------------------------------------------------------ strings, lists *)
Lemma str_eqb_refl x : str_eqb x x = true.
Proof. induction x as [|c x IH]; cbn [str_eqb]; [reflexivity|]. rewrite N.eqb_refl, IH. reflexivity. Qed.

Lemma str_eqb_eq a b : str_eqb a b = true -> a = b.
Proof.
  revert b. induction a as [|x a IH]; intros [|y b] H; cbn [str_eqb] in H; try discriminate; [reflexivity|].
  apply andb_true_iff in H. destruct H as [H1 H2]. apply N.eqb_eq in H1. apply IH in H2. congruence.
Qed.

Lemma str_eqb_neq a b : str_eqb a b = false -> a <> b.
Proof. intros H E. subst. rewrite str_eqb_refl in H. discriminate. Qed.

Lemma mem_In k l : mem k l = true -> In k l.
Proof.
  induction l as [|x l IH]; cbn [mem]; [discriminate|]. intros H.
  apply orb_true_iff in H. destruct H as [H|H]; [left; symmetry; apply str_eqb_eq; exact H | right; auto].
Qed.

Lemma In_mem k l : In k l -> mem k l = true.
Proof.
  induction l as [|x l IH]; cbn [mem In]; [tauto|]. intros [H|H].
  - subst. rewrite str_eqb_refl. reflexivity.
  - rewrite IH by exact H. apply orb_true_r.
Qed.

Lemma mem_false_notin k l : mem k l = false -> ~ In k l.
Proof. intros H I. apply In_mem in I. congruence. Qed.

Lemma nodupb_NoDup l : nodupb l = true -> NoDup l.
Proof.
  induction l as [|x l IH]; cbn [nodupb]; intros H; [constructor|].
  apply andb_true_iff in H. destruct H as [H1 H2]. apply negb_true_iff in H1.
  constructor; [apply mem_false_notin; exact H1 | auto].
Qed.

(* ------------------------------------------------------------------ decimal *)
Lemma str_uint_rt u : str_to_uint (uint_to_str u) = Some u.
Proof. induction u; cbn [uint_to_str str_to_uint]; try reflexivity; rewrite IHu; reflexivity. Qed.

Lemma uint_to_str_nil u : uint_to_str u = [] -> u = Nil.
Proof. destruct u; cbn [uint_to_str]; intros H; try discriminate; reflexivity. Qed.

Lemma N_to_uint_nonnil n : N.to_uint n <> Nil.
Proof.
  destruct n as [|p]; cbn [N.to_uint]; [discriminate|]. apply Unsigned.to_uint_nonnil.
Qed.

Lemma dec_to_dec n : dec (to_dec n) = Some n.
Proof.
  unfold dec, to_dec. destruct (uint_to_str (N.to_uint n)) eqn:E.
  - apply uint_to_str_nil in E. exfalso. exact (N_to_uint_nonnil n E).
  - rewrite <- E, str_uint_rt. f_equal. apply DecimalN.Unsigned.of_to.
Qed.

Lemma dec_nonnil x n : dec x = Some n -> x <> [].
Proof. intros H E. subst. discriminate. Qed.

Lemma aval_eqvb_refl a : aval_eqvb a a = true.
Proof.
  destruct a; cbn [aval_eqvb]; [rewrite str_eqb_refl; reflexivity | apply N.eqb_refl | reflexivity].
Qed.

Lemma aval_eqvb_dec x n : dec x = Some n -> aval_eqvb (AStr (to_dec n)) (AStr x) = true.
Proof.
  intros H. cbn [aval_eqvb]. rewrite dec_to_dec, H, N.eqb_refl. apply orb_true_r.
Qed.

(* ------------------------------------------------------------------ one attribute *)
Lemma in_dom_nonnil d x : match d with DEnum _ => False | _ => True end ->
  in_dom d x = true -> is_nil x = false.
Proof.
  destruct d; cbn [in_dom]; intros T H; [| |contradiction].
  - apply negb_true_iff in H. exact H.
  - destruct (dec x) eqn:E; [|discriminate]. destruct x; [discriminate|reflexivity].
Qed.

Lemma conv_inf_ok_rt r x :
  conv_inf_ok (a_conv r) (a_emit r) (a_dom r) = true ->
  match a_dom r with DEnum _ => False | _ => True end ->
  in_dom (a_dom r) x = true -> attr_rt r (Some x) = true.
Proof.
  intros Hok Hd Hin. pose proof (in_dom_nonnil _ _ Hd Hin) as Hnn.
  unfold attr_rt. destruct r as [nm c e sh d]; cbn [a_conv a_emit a_dom] in *.
  destruct d; [| |contradiction].
  - (* DAny: only CStr *)
    destruct c; cbn [conv_inf_ok] in Hok; try discriminate.
    cbn [conv_in conv_out]. rewrite aval_eqvb_refl, andb_true_r.
    destruct e; cbn [emits is_vnone truthy negb]; try reflexivity. rewrite Hnn. reflexivity.
  - cbn [in_dom] in Hin. destruct (dec x) as [n|] eqn:E; [|discriminate].
    destruct c; cbn [conv_inf_ok] in Hok; try discriminate.
    + cbn [conv_in conv_out]. rewrite aval_eqvb_refl, andb_true_r.
      destruct e; cbn [emits is_vnone truthy negb]; try reflexivity. rewrite Hnn. reflexivity.
    + cbn [conv_in]. unfold int_in. rewrite E. cbn [conv_out]. rewrite (aval_eqvb_dec _ _ E), andb_true_r.
      destruct e; try discriminate; reflexivity.
    + cbn [conv_in]. unfold int_in. rewrite E. cbn [conv_out]. rewrite (aval_eqvb_dec _ _ E), andb_true_r.
      destruct e; try discriminate; reflexivity.
    + destruct x as [|c0 x']; [discriminate|]. cbn [conv_in]. unfold int_in. rewrite E. cbn [conv_out].
      rewrite (aval_eqvb_dec _ _ E), andb_true_r.
      destruct e; try discriminate; reflexivity.
Qed.

Lemma attr_lossless_present r x :
  attr_lossless r = true -> in_dom (a_dom r) x = true -> attr_rt r (Some x) = true.
Proof.
  unfold attr_lossless. intros H Hin. apply andb_true_iff in H. destruct H as [_ H].
  destruct (a_dom r) eqn:Ed.
  - apply conv_inf_ok_rt; rewrite ?Ed; auto.
  - apply conv_inf_ok_rt; rewrite ?Ed; auto.
  - cbn [in_dom] in Hin. apply mem_In in Hin. rewrite forallb_forall in H. apply H. exact Hin.
Qed.

Lemma attr_lossless_absent r :
  attr_lossless r = true -> a_shape r <> ShReq -> attr_rt r None = true.
Proof.
  unfold attr_lossless. intros H Hs. apply andb_true_iff in H. destruct H as [H _].
  destruct (a_shape r); [congruence| exact H | exact H].
Qed.

(* result of one rule on a matching node: either nothing is written and the node had no such
   attribute, or one pair is written, equivalent to the node's *)
Lemma attr_one r attrs :
  attr_lossless r = true -> attr_matches attrs r = true ->
  exists v out, get_attr r attrs = Some v /\ put_attr r v = Some out /\
    ((out = [] /\ lookup (a_name r) attrs = None) \/
     (exists a x, out = [(a_name r, a)] /\ lookup (a_name r) attrs = Some (AStr x) /\
                  aval_eqvb a (AStr x) = true)).
Proof.
  intros Hl Hm. unfold attr_matches in Hm. unfold get_attr, lookup_s, put_attr.
  destruct (lookup (a_name r) attrs) as [[x|n|]|] eqn:El; try discriminate.
  - apply andb_true_iff in Hm. destruct Hm as [Hin _].
    pose proof (attr_lossless_present _ _ Hl Hin) as Hrt. unfold attr_rt in Hrt.
    destruct (conv_in (a_conv r) (Some x)) as [v|] eqn:Ei; [|discriminate].
    destruct (conv_out (a_conv r) v) as [a|] eqn:Eo; [|discriminate].
    apply andb_true_iff in Hrt. destruct Hrt as [He Ha].
    exists v, [(a_name r, a)]. rewrite Eo, He. repeat split. right. exists a, x. auto.
  - assert (Hs : a_shape r <> ShReq) by (destruct (a_shape r); congruence).
    pose proof (attr_lossless_absent _ Hl Hs) as Hrt. unfold attr_rt in Hrt.
    destruct (conv_in (a_conv r) None) as [v|] eqn:Ei; [|discriminate].
    destruct (conv_out (a_conv r) v) as [a|] eqn:Eo; [|discriminate].
    apply negb_true_iff in Hrt.
    exists v, []. rewrite Eo, Hrt. repeat split. left. auto.
Qed.

(* ------------------------------------------------------------------ all attributes *)
Lemma lookup_app k a b :
  lookup k (a ++ b) = match lookup k a with Some v => Some v | None => lookup k b end.
Proof.
  induction a as [|[k' v] a IH]; [reflexivity|].
  change (((k', v) :: a) ++ b) with ((k', v) :: (a ++ b)). cbn [lookup].
  destruct (str_eqb k k'); [reflexivity | exact IH].
Qed.

Lemma lookup_notin k l : ~ In k (map fst l) -> lookup k l = None.
Proof.
  induction l as [|[k' v] l IH]; cbn [lookup map fst In]; intros H; [reflexivity|].
  destruct (str_eqb k k') eqn:E; [apply str_eqb_eq in E; subst; tauto | apply IH; tauto].
Qed.

Lemma attrs_all rs attrs :
  NoDup (names rs) -> forallb attr_lossless rs = true -> forallb (attr_matches attrs) rs = true ->
  exists va out, get_attrs rs attrs = Some va /\ put_attrs rs va = Some out /\
    (forall k, In k (map fst out) -> In k (names rs)) /\
    NoDup (map fst out) /\
    (forall k, In k (names rs) -> oa_eqvb (lookup k out) (lookup k attrs) = true).
Proof.
  induction rs as [|r rs IH]; intros Hnd Hl Hm.
  - exists [], []. cbn. repeat split; try tauto; try constructor.
  - cbn [forallb] in Hl, Hm. apply andb_true_iff in Hl, Hm. destruct Hl as [Hl1 Hl2], Hm as [Hm1 Hm2].
    cbn [names map] in Hnd. apply NoDup_cons_iff in Hnd. destruct Hnd as [Hni Hnd].
    destruct (IH Hnd Hl2 Hm2) as (va & out & Hg & Hp & Hsub & Hnd' & Heq).
    destruct (attr_one r attrs Hl1 Hm1) as (v & o1 & Hg1 & Hp1 & Hcase).
    exists (v :: va), (o1 ++ out). cbn [get_attrs put_attrs]. rewrite Hg1, Hg, Hp1, Hp.
    assert (Hno : lookup (a_name r) out = None).
    { apply lookup_notin. intros I. apply Hsub in I. exact (Hni I). }
    split; [reflexivity|]. split; [reflexivity|].
    destruct Hcase as [[E1 E2] | (a & x & E1 & E2 & E3)]; subst o1.
    + cbn [List.app]. split; [intros k I; right; fold (names rs); auto|]. split; [exact Hnd'|].
      intros k [Ek | Ik].
      * subst k. rewrite Hno, E2. reflexivity.
      * apply Heq. exact Ik.
    + cbn [List.app map fst]. split.
      { intros k [Ek|I]; [left; exact Ek | right; fold (names rs); auto]. }
      split.
      { constructor; [|exact Hnd']. intros I. apply Hsub in I. exact (Hni I). }
      intros k Ik. cbn [lookup]. destruct (str_eqb k (a_name r)) eqn:Ek.
      * apply str_eqb_eq in Ek. subst k. rewrite E2. exact E3.
      * destruct Ik as [Ik|Ik]; [subst; rewrite str_eqb_refl in Ek; discriminate|]. apply Heq. exact Ik.
Qed.

Lemma keys_in_spec attrs ns k : keys_in attrs ns = true -> ~ In k ns -> lookup k attrs = None.
Proof.
  intros H Hn. apply lookup_notin. intros I. apply in_map_iff in I. destruct I as ([k' v] & E & I).
  cbn [fst] in E. subst k'. unfold keys_in in H. rewrite forallb_forall in H.
  specialize (H _ I). cbn [fst] in H. apply mem_In in H. exact (Hn H).
Qed.

Lemma attrs_eqv rs attrs :
  nodupb (names rs) = true -> forallb attr_lossless rs = true ->
  forallb (attr_matches attrs) rs = true -> keys_in attrs (names rs) = true ->
  exists va out, get_attrs rs attrs = Some va /\ put_attrs rs va = Some out /\
    NoDup (map fst out) /\ (forall k, oa_eqvb (lookup k out) (lookup k attrs) = true).
Proof.
  intros Hnd Hl Hm Hk. apply nodupb_NoDup in Hnd.
  destruct (attrs_all rs attrs Hnd Hl Hm) as (va & out & Hg & Hp & Hsub & Hnd' & Heq).
  exists va, out. repeat split; auto. intros k.
  destruct (mem k (names rs)) eqn:Ek.
  - apply Heq. apply mem_In. exact Ek.
  - apply mem_false_notin in Ek. rewrite (keys_in_spec _ _ _ Hk Ek).
    rewrite lookup_notin; [reflexivity|]. intros I. apply Hsub in I. exact (Ek I).
Qed.

(* ------------------------------------------------------------------ data *)
Lemma data_rt d data : data_matches d data = true ->
  exists v, get_data d data = Some v /\ put_data d v = Some data.
Proof.
  destruct d, data as [b|]; cbn [data_matches get_data put_data]; intros H; try discriminate;
    try (eexists; split; reflexivity).
  rewrite H. eexists; split; reflexivity.
Qed.

(* ------------------------------------------------------------------ children *)
Scheme schema_mind := Induction for schema Sort Prop
  with krules_mind := Induction for krules Sort Prop.
Combined Scheme schema_krules_ind from schema_mind, krules_mind.

Definition lens_ok (c : schema) : Prop :=
  forall n, matches c n = true ->
  exists v n', get c n = Some v /\ put c v = Some n' /\ neqv n' n.

Definition lens_ok_kids (ks : krules) : Prop :=
  forall kids, matches_kids ks kids = true ->
  exists vs kids', get_kids ks kids = Some vs /\ put_kids ks vs = Some kids' /\
                   Forall2 neqv kids' kids.

Lemma span_app p l a b : span p l = (a, b) -> l = a ++ b.
Proof.
  revert a b. induction l as [|x l IH]; cbn [span]; intros a b H.
  - apply pair_inj in H. destruct H; subst. reflexivity.
  - destruct (p x).
    + destruct (span p l) as [a' b'] eqn:E. apply pair_inj in H. destruct H; subst.
      cbn [List.app]. f_equal. apply IH. reflexivity.
    + apply pair_inj in H. destruct H; subst. reflexivity.
Qed.

Lemma list_lens c pre : lens_ok c -> forallb (matches c) pre = true ->
  exists vl pre', mapM (get c) pre = Some vl /\ mapM (put c) vl = Some pre' /\ Forall2 neqv pre' pre.
Proof.
  intros Hc. induction pre as [|x pre IH]; cbn [forallb]; intros H.
  - exists [], []. cbn. repeat split. constructor.
  - apply andb_true_iff in H. destruct H as [H1 H2].
    destruct (Hc x H1) as (v & x' & Hg & Hp & He).
    destruct (IH H2) as (vl & pre' & Hg' & Hp' & He').
    exists (v :: vl), (x' :: pre'). cbn [mapM]. rewrite Hg, Hg', Hp, Hp'. repeat split. constructor; assumption.
Qed.

Lemma get_not_vnone c n v : get c n = Some v -> is_vnone v = false.
Proof.
  destruct c as [tags ars d ks], n as [t attrs data kids]. cbn [get].
  destruct (mem t tags); [|discriminate].
  destruct (get_attrs ars attrs); [|discriminate].
  destruct (get_data d data); [|discriminate].
  destruct (get_kids ks kids); [|discriminate].
  intros H. apply Some_inj in H. subst v. reflexivity.
Qed.

Lemma lens_all :
  (forall c, lossless c = true -> lens_ok c) /\
  (forall ks, lossless_kids ks = true -> lens_ok_kids ks).
Proof.
  apply schema_krules_ind.
  - (* SNode *)
    intros tags ars d ks IHks Hl. cbn [lossless] in Hl.
    apply andb_true_iff in Hl. destruct Hl as [Hl Hlk]. apply andb_true_iff in Hl. destruct Hl as [Hnd Hla].
    intros [t attrs data kids] Hm. cbn [matches] in Hm.
    apply andb_true_iff in Hm. destruct Hm as [Hm Hmk].
    apply andb_true_iff in Hm. destruct Hm as [Hm Hmd].
    apply andb_true_iff in Hm. destruct Hm as [Hm Hma].
    apply andb_true_iff in Hm. destruct Hm as [Hm Hki].
    apply andb_true_iff in Hm. destruct Hm as [Hmt Hnda].
    destruct (attrs_eqv ars attrs Hnd Hla Hma Hki) as (va & out & Hga & Hpa & Hndo & Heq).
    destruct (data_rt d data Hmd) as (vd & Hgd & Hpd).
    destruct (IHks Hlk kids Hmk) as (vk & kids' & Hgk & Hpk & Hek).
    exists (VList [VStr t; VList va; vd; VList vk]), (Node t out data kids').
    cbn [get put]. rewrite Hmt, Hga, Hgd, Hgk, Hpa, Hpd, Hpk.
    split; [reflexivity|]. split; [reflexivity|].
    constructor; auto. apply nodupb_NoDup. exact Hnda.
  - (* KNil *)
    intros _ kids Hm. cbn [matches_kids] in Hm. destruct kids; [|discriminate].
    exists [], []. cbn. repeat split. constructor.
  - (* KCons *)
    intros m c IHc ks IHks Hl. cbn [lossless_kids] in Hl. apply andb_true_iff in Hl. destruct Hl as [Hlc Hlk].
    specialize (IHc Hlc). specialize (IHks Hlk).
    intros kids Hm. cbn [matches_kids] in Hm. destruct m as [|ne|u].
    + (* MOne *)
      destruct kids as [|x rest]; [discriminate|].
      apply andb_true_iff in Hm. destruct Hm as [Hm Hmr]. apply andb_true_iff in Hm. destruct Hm as [Ht Hmx].
      destruct (IHc x Hmx) as (v & x' & Hg & Hp & He).
      destruct (IHks rest Hmr) as (vs & rest' & Hgr & Hpr & Her).
      exists (v :: vs), (x' :: rest'). cbn [get_kids put_kids]. rewrite Ht, Hg, Hgr, Hpr, Hp.
      repeat split. constructor; assumption.
    + (* MOpt *)
      destruct kids as [|x rest].
      * destruct (IHks [] Hm) as (vs & rest' & Hgr & Hpr & Her).
        exists (VNone :: vs), rest'. cbn [get_kids put_kids is_vnone]. rewrite Hgr, Hpr. repeat split. exact Her.
      * destruct (tag_in c x) eqn:Ht.
        -- apply andb_true_iff in Hm. destruct Hm as [Hm Hmr]. apply andb_true_iff in Hm. destruct Hm as [Hmx _].
           destruct (IHc x Hmx) as (v & x' & Hg & Hp & He).
           destruct (IHks rest Hmr) as (vs & rest' & Hgr & Hpr & Her).
           exists (v :: vs), (x' :: rest'). cbn [get_kids put_kids]. rewrite Ht, Hg, Hgr, Hpr, Hp.
           rewrite (get_not_vnone _ _ _ Hg). repeat split. constructor; assumption.
        -- destruct (IHks (x :: rest) Hm) as (vs & rest' & Hgr & Hpr & Her).
           exists (VNone :: vs), rest'. cbn [get_kids put_kids is_vnone]. rewrite Ht, Hgr, Hpr. repeat split. exact Her.
    + (* MList *)
      destruct (span (tag_in c) kids) as [pre rest] eqn:Es.
      apply andb_true_iff in Hm. destruct Hm as [Hm Hmr]. apply andb_true_iff in Hm. destruct Hm as [Hmp _].
      destruct (list_lens c pre IHc Hmp) as (vl & pre' & Hg & Hp & He).
      destruct (IHks rest Hmr) as (vs & rest' & Hgr & Hpr & Her).
      exists (VList vl :: vs), (pre' ++ rest'). cbn [get_kids put_kids]. rewrite Es, Hg, Hgr, Hpr, Hp.
      repeat split. rewrite (span_app _ _ _ _ Es). apply Forall2_app; assumption.
Qed.

(* FULL STATEMENT (proved): for every schema s with lossless s = true and every node n of
   the documented shape, fromProtocolTreeNode succeeds, toProtocolTreeNode succeeds and
   the result is n up to decimal normalisation of attribute values. *)
Theorem lens_get_put_thm : forall sc n,
  lossless sc = true -> matches sc n = true ->
  exists v n', get sc n = Some v /\ put sc v = Some n' /\ neqv n' n.
Proof. intros sc n Hl Hm. exact (proj1 lens_all sc Hl n Hm). Qed.

(* what ~ means for attributes, spelled out (used by the refutation lemmas) *)
Lemma neqv_attr n' n key : neqv n' n ->
  oa_eqvb (lookup key (node_attrs n')) (lookup key (node_attrs n)) = true.
Proof. intros H. destruct H. cbn [node_attrs]. auto. Qed.

Lemma neqv_tag n' n : neqv n' n -> node_tag n' = node_tag n.
Proof. intros H. destruct H. reflexivity. Qed.

Lemma neqv_data n' n : neqv n' n -> node_data n' = node_data n.
Proof. intros H. destruct H. reflexivity. Qed.

Lemma neqv_kids n' n : neqv n' n -> Forall2 neqv (node_kids n') (node_kids n).
Proof. intros H. destruct H. assumption. Qed.

Lemma neqv_nkids n' n : neqv n' n -> length (node_kids n') = length (node_kids n).
Proof.
  intros H. apply neqv_kids in H. induction H; cbn [length]; [reflexivity | f_equal; assumption].
Qed.

(* ================================================================== survives the codec *)
(* put produces codec-well-formed nodes, for every schema whose computed codec_safe flag holds
   and every entity value whose emitted strings are well-formed (val_wf). *)

Lemma NoDup_nodupb l : NoDup l -> nodupb l = true.
Proof.
  induction 1 as [|x l Hni _ IH]; cbn [nodupb]; [reflexivity|]. rewrite IH, andb_true_r.
  destruct (mem x l) eqn:E; [apply mem_In in E; contradiction | reflexivity].
Qed.

Lemma put_attr_shape r v l : put_attr r v = Some l ->
  l = [] \/ exists a, l = [(a_name r, a)].
Proof.
  unfold put_attr. destruct (conv_out (a_conv r) v) as [a|]; [|discriminate].
  destruct (emits (a_emit r) v); intros H; apply Some_inj in H; subst l; [right; eauto | left; reflexivity].
Qed.

Lemma put_attrs_keys rs : forall vs a, put_attrs rs vs = Some a ->
  forall k, In k (map fst a) -> In k (names rs).
Proof.
  induction rs as [|r rs IH]; intros [|v vs] a H k Hk; cbn [put_attrs] in H; try discriminate.
  - apply Some_inj in H. subst a. contradiction.
  - destruct (put_attr r v) as [l|] eqn:E1; [|discriminate].
    destruct (put_attrs rs vs) as [rest|] eqn:E2; [|discriminate].
    apply Some_inj in H. subst a. rewrite map_app, in_app_iff in Hk. cbn [names map].
    destruct Hk as [Hk|Hk].
    + destruct (put_attr_shape _ _ _ E1) as [El|[a El]]; subst l; [contradiction|].
      cbn [map fst In] in Hk. destruct Hk as [Hk|[]]. left. exact Hk.
    + right. exact (IH _ _ E2 _ Hk).
Qed.

Lemma put_attrs_nodup rs : forall vs a, NoDup (names rs) -> put_attrs rs vs = Some a ->
  NoDup (map fst a).
Proof.
  induction rs as [|r rs IH]; intros [|v vs] a Hnd H; cbn [put_attrs] in H; try discriminate.
  - apply Some_inj in H. subst a. constructor.
  - destruct (put_attr r v) as [l|] eqn:E1; [|discriminate].
    destruct (put_attrs rs vs) as [rest|] eqn:E2; [|discriminate].
    apply Some_inj in H. subst a. cbn [names map] in Hnd. apply NoDup_cons_iff in Hnd. destruct Hnd as [Hni Hnd].
    specialize (IH _ _ Hnd E2).
    destruct (put_attr_shape _ _ _ E1) as [El|[a El]]; subst l; [exact IH|].
    cbn [List.app map fst]. constructor; [|exact IH].
    intros I. apply (put_attrs_keys _ _ _ E2) in I. exact (Hni I).
Qed.

Lemma put_attrs_wf rs : forall vs a, put_attrs rs vs = Some a -> attr_vals_wf rs vs = true ->
  forallb attr_wf a = true.
Proof.
  induction rs as [|r rs IH]; intros [|v vs] a H Hw; cbn [put_attrs] in H; try discriminate.
  - apply Some_inj in H. subst a. reflexivity.
  - destruct (put_attr r v) as [l|] eqn:E1; [|discriminate].
    destruct (put_attrs rs vs) as [rest|] eqn:E2; [|discriminate].
    apply Some_inj in H. subst a. cbn [attr_vals_wf] in Hw. apply andb_true_iff in Hw. destruct Hw as [Hw1 Hw2].
    unfold attr_val_wf in Hw1. rewrite E1 in Hw1. rewrite forallb_app, Hw1. exact (IH _ _ E2 Hw2).
Qed.

Lemma put_inv tags ars d ks v n : put (SNode tags ars d ks) v = Some n ->
  exists t va vd vk a dd kk,
    v = VList [VStr t; VList va; vd; VList vk] /\ mem t tags = true /\
    put_attrs ars va = Some a /\ put_data d vd = Some dd /\ put_kids ks vk = Some kk /\
    n = Node t a dd kk.
Proof.
  cbn [put]. intros H.
  destruct v as [| | | | |l]; try discriminate H.
  destruct l as [|v0 l]; try discriminate H. destruct v0 as [|t| | | |]; try discriminate H.
  destruct l as [|v1 l]; try discriminate H. destruct v1 as [| | | | |va]; try discriminate H.
  destruct l as [|vd l]; try discriminate H.
  destruct l as [|v3 l]; try discriminate H. destruct v3 as [| | | | |vk]; try discriminate H.
  destruct l; try discriminate H.
  destruct (mem t tags) eqn:Et; [|discriminate H].
  destruct (put_attrs ars va) as [a|] eqn:Ea; [|discriminate H].
  destruct (put_data d vd) as [dd|] eqn:Ed; [|discriminate H].
  destruct (put_kids ks vk) as [kk|] eqn:Ek; [|discriminate H].
  apply Some_inj in H. exists t, va, vd, vk, a, dd, kk. repeat split; auto.
Qed.

Definition putwf_ok (c : schema) : Prop :=
  forall v n, put c v = Some n -> val_wf c v = true -> codec_wf n = true.

Definition putwf_ok_kids (ks : krules) : Prop :=
  forall vs kids, put_kids ks vs = Some kids -> vals_wf ks vs = true ->
                  forallb codec_wf kids = true.

Lemma list_putwf c : putwf_ok c -> forall l xs, mapM (put c) l = Some xs ->
  forallb (val_wf c) l = true -> forallb codec_wf xs = true.
Proof.
  intros Hc. induction l as [|v l IH]; intros xs H Hw; cbn [mapM] in H.
  - apply Some_inj in H. subst xs. reflexivity.
  - destruct (put c v) as [x|] eqn:E1; [|discriminate]. destruct (mapM (put c) l) as [ys|] eqn:E2; [|discriminate].
    apply Some_inj in H. subst xs. cbn [forallb] in Hw |- *. apply andb_true_iff in Hw. destruct Hw as [Hw1 Hw2].
    rewrite (Hc _ _ E1 Hw1), (IH _ eq_refl Hw2). reflexivity.
Qed.

Lemma mem_forallb (f : str -> bool) t l : mem t l = true -> forallb f l = true -> f t = true.
Proof. intros Hm Hf. apply mem_In in Hm. rewrite forallb_forall in Hf. auto. Qed.

Lemma putwf_all :
  (forall c, codec_safe c = true -> putwf_ok c) /\
  (forall ks, codec_safe_kids ks = true -> putwf_ok_kids ks).
Proof.
  apply schema_krules_ind.
  - intros tags ars d ks IHks Hs v n Hp Hw. cbn [codec_safe] in Hs.
    apply andb_true_iff in Hs. destruct Hs as [Hs Hsk].
    apply andb_true_iff in Hs. destruct Hs as [Hs Hdk].
    apply andb_true_iff in Hs. destruct Hs as [Hs _].
    apply andb_true_iff in Hs. destruct Hs as [Htags Hnd].
    destruct (put_inv _ _ _ _ _ _ Hp) as (t & va & vd & vk & a & dd & kk & Ev & Et & Ea & Ed & Ek & En).
    subst v n. cbn [val_wf] in Hw.
    apply andb_true_iff in Hw. destruct Hw as [Hw Hwk]. apply andb_true_iff in Hw. destruct Hw as [Hwa Hwd].
    cbn [codec_wf].
    rewrite (mem_forallb _ _ _ Et Htags).
    rewrite (NoDup_nodupb _ (put_attrs_nodup _ _ _ (nodupb_NoDup _ Hnd) Ea)).
    rewrite (put_attrs_wf _ _ _ Ea Hwa).
    rewrite (IHks Hsk _ _ Ek Hwk). rewrite !andb_true_r. cbn [andb].
    (* content: data xor children *)
    destruct d.
    + cbn [put_data] in Ed. apply Some_inj in Ed. subst dd. reflexivity.
    + destruct ks; [|discriminate Hdk]. cbn [put_kids] in Ek. destruct vk; [|discriminate Ek].
      apply Some_inj in Ek. subst kk.
      destruct vd; cbn [put_data] in Ed; try discriminate Ed; apply Some_inj in Ed; subst dd; [reflexivity|].
      cbn [content_wf]. exact Hwd.
    + destruct ks; [|discriminate Hdk]. cbn [put_kids] in Ek. destruct vk; [|discriminate Ek].
      apply Some_inj in Ek. subst kk.
      destruct vd; cbn [put_data] in Ed; try discriminate Ed; apply Some_inj in Ed; subst dd.
      cbn [content_wf]. exact Hwd.
  - intros _ vs kids H _. cbn [put_kids] in H. destruct vs; [|discriminate]. apply Some_inj in H. subst. reflexivity.
  - intros m c IHc ks IHks Hs vs kids H Hw. cbn [codec_safe_kids] in Hs.
    apply andb_true_iff in Hs. destruct Hs as [Hsc Hsk]. specialize (IHc Hsc). specialize (IHks Hsk).
    cbn [put_kids] in H. destruct vs as [|v vs]; [discriminate|].
    destruct (put_kids ks vs) as [rest|] eqn:Er; [|discriminate].
    cbn [vals_wf] in Hw. apply andb_true_iff in Hw. destruct Hw as [Hw1 Hw2].
    specialize (IHks _ _ Er Hw2).
    destruct m as [|ne|u].
    + destruct (put c v) as [x|] eqn:Ex; [|discriminate]. apply Some_inj in H. subst kids.
      cbn [forallb]. rewrite IHks, andb_true_r.
      destruct (is_vnone v) eqn:Ev.
      * destruct v; try discriminate Ev. destruct c. cbn [put] in Ex. discriminate Ex.
      * exact (IHc _ _ Ex Hw1).
    + destruct (is_vnone v) eqn:Ev.
      * apply Some_inj in H. subst kids. exact IHks.
      * destruct (put c v) as [x|] eqn:Ex; [|discriminate]. apply Some_inj in H. subst kids.
        cbn [forallb]. rewrite IHks, andb_true_r. exact (IHc _ _ Ex Hw1).
    + destruct v as [| | | | |l]; try discriminate H.
      destruct (mapM (put c) l) as [xs|] eqn:Ex; [|discriminate]. apply Some_inj in H. subst kids.
      rewrite forallb_app, IHks, andb_true_r. exact (list_putwf c IHc l xs Ex Hw1).
Qed.

(* FULL STATEMENT (proved): *)
Theorem put_wf_thm : forall sc v n,
  codec_safe sc = true -> val_wf sc v = true -> put sc v = Some n -> codec_wf n = true.
Proof. intros sc v n Hs Hw Hp. exact (proj1 putwf_all sc Hs v n Hp Hw). Qed.
