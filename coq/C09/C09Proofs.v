(* C09 — generic lens theorem: on the documented shape, put (get n) ~ n for every lossless
   schema; proved once, by mutual induction on schemas. *)
From YV Require Import Common.Tac C09.C09Model.
From Coq Require Import Decimal DecimalN DecimalPos.
Local Open Scope N_scope.

(* ------------------------------------------------------------------ strings, lists *)
Lemma str_eqb_refl x : str_eqb x x = true.
Proof. induction x as [|c x IH]; cbn [str_eqb]; [reflexivity|]. rewrite N.eqb_refl, IH. reflexivity. Qed.

Lemma str_eqb_eq a b : str_eqb a b = true -> a = b.
Proof.
  revert b. induction a as [|x a IH]; intros [|y b] H; cbn [str_eqb] in H; try discriminate; [reflexivity|].
  apply andb_true_iff in H. destruct H as [H1 H2]. apply N.eqb_eq in H1. apply IH in H2. congruence.
Qed.

Lemma str_eqb_neq a b : str_eqb a b = false -> a <> b.
Proof. intros H E. subst. rewrite str_eqb_refl in H. discriminate. Qed.

Lemma mem_In k l : mem k l = true -> In k l.
Proof.
  induction l as [|x l IH]; cbn [mem]; [discriminate|]. intros H.
  apply orb_true_iff in H. destruct H as [H|H]; [left; symmetry; apply str_eqb_eq; exact H | right; auto].
Qed.

Lemma In_mem k l : In k l -> mem k l = true.
Proof.
  induction l as [|x l IH]; cbn [mem In]; [tauto|]. intros [H|H].
  - subst. rewrite str_eqb_refl. reflexivity.
  - rewrite IH by exact H. apply orb_true_r.
Qed.

Lemma mem_false_notin k l : mem k l = false -> ~ In k l.
Proof. intros H I. apply In_mem in I. congruence. Qed.

Lemma nodupb_NoDup l : nodupb l = true -> NoDup l.
Proof.
  induction l as [|x l IH]; cbn [nodupb]; intros H; [constructor|].
  apply andb_true_iff in H. destruct H as [H1 H2]. apply negb_true_iff in H1.
  constructor; [apply mem_false_notin; exact H1 | auto].
Qed.

(* ------------------------------------------------------------------ decimal *)
Lemma str_uint_rt u : str_to_uint (uint_to_str u) = Some u.
Proof. induction u; cbn [uint_to_str str_to_uint]; try reflexivity; rewrite IHu; reflexivity. Qed.

Lemma uint_to_str_nil u : uint_to_str u = [] -> u = Nil.
Proof. destruct u; cbn [uint_to_str]; intros H; try discriminate; reflexivity. Qed.

Lemma N_to_uint_nonnil n : N.to_uint n <> Nil.
Proof.
  destruct n as [|p]; cbn [N.to_uint]; [discriminate|]. apply Unsigned.to_uint_nonnil.
Qed.

Lemma dec_to_dec n : dec (to_dec n) = Some n.
Proof.
  unfold dec, to_dec. destruct (uint_to_str (N.to_uint n)) eqn:E.
  - apply uint_to_str_nil in E. exfalso. exact (N_to_uint_nonnil n E).
  - rewrite <- E, str_uint_rt. f_equal. apply DecimalN.Unsigned.of_to.
Qed.

Lemma dec_nonnil x n : dec x = Some n -> x <> [].
Proof. intros H E. subst. discriminate. Qed.

Lemma aval_eqvb_refl a : aval_eqvb a a = true.
Proof.
  destruct a; cbn [aval_eqvb]; [rewrite str_eqb_refl; reflexivity | apply N.eqb_refl | reflexivity].
Qed.

Lemma aval_eqvb_dec x n : dec x = Some n -> aval_eqvb (AStr (to_dec n)) (AStr x) = true.
Proof.
  intros H. cbn [aval_eqvb]. rewrite dec_to_dec, H, N.eqb_refl. apply orb_true_r.
Qed.

(* ------------------------------------------------------------------ one attribute *)
Lemma in_dom_nonnil d x : match d with DEnum _ => False | _ => True end ->
  in_dom d x = true -> is_nil x = false.
Proof.
  destruct d; cbn [in_dom]; intros T H; [| | |contradiction].
  - apply negb_true_iff in H. exact H.
  - destruct (dec x) eqn:E; [|discriminate]. destruct x; [discriminate|reflexivity].
  - destruct (dec x) eqn:E; [|discriminate]. destruct x; [discriminate|reflexivity].
Qed.

Lemma conv_inf_ok_rt r x :
  conv_inf_ok (a_conv r) (a_emit r) (a_dom r) = true ->
  match a_dom r with DEnum _ => False | _ => True end ->
  in_dom (a_dom r) x = true -> attr_rt r (Some x) = true.
Proof.
  intros Hok Hd Hin. pose proof (in_dom_nonnil _ _ Hd Hin) as Hnn.
  unfold attr_rt. destruct r as [nm c e sh d]; cbn [a_conv a_emit a_dom] in *.
  destruct d; [| | |contradiction].
  - (* DAny: only CStr *)
    destruct c; cbn [conv_inf_ok] in Hok; try discriminate.
    cbn [conv_in conv_out]. rewrite aval_eqvb_refl, andb_true_r.
    destruct e; cbn [emits is_fnone truthy negb]; try reflexivity. rewrite Hnn. reflexivity.
  - cbn [in_dom] in Hin. destruct (dec x) as [n|] eqn:E; [|discriminate].
    destruct c; cbn [conv_inf_ok] in Hok; try discriminate.
    + cbn [conv_in conv_out]. rewrite aval_eqvb_refl, andb_true_r.
      destruct e; cbn [emits is_fnone truthy negb]; try reflexivity. rewrite Hnn. reflexivity.
    + cbn [conv_in]. unfold int_in. rewrite E. cbn [conv_out]. rewrite (aval_eqvb_dec _ _ E), andb_true_r.
      destruct e; try discriminate; reflexivity.
    + cbn [conv_in]. unfold int_in. rewrite E. cbn [conv_out]. rewrite (aval_eqvb_dec _ _ E), andb_true_r.
      destruct e; try discriminate; reflexivity.
    + destruct x as [|c0 x']; [discriminate|]. cbn [conv_in]. unfold int_in. rewrite E. cbn [conv_out].
      rewrite (aval_eqvb_dec _ _ E), andb_true_r.
      destruct e; try discriminate; reflexivity.
    + cbn [conv_in]. unfold int_in. rewrite E. cbn [conv_out]. rewrite (aval_eqvb_dec _ _ E), andb_true_r.
      destruct e; try discriminate; reflexivity.
  - (* DDecPos: the value is not 0, so a truthiness guard lets it through *)
    cbn [in_dom] in Hin. destruct (dec x) as [n|] eqn:E; [|discriminate].
    apply negb_true_iff in Hin.
    destruct c; cbn [conv_inf_ok] in Hok; try discriminate.
    + cbn [conv_in conv_out]. rewrite aval_eqvb_refl, andb_true_r.
      destruct e; cbn [emits is_fnone truthy negb]; try reflexivity. rewrite Hnn. reflexivity.
    + cbn [conv_in]. unfold int_in. rewrite E. cbn [conv_out]. rewrite (aval_eqvb_dec _ _ E), andb_true_r.
      destruct e; cbn [emits is_fnone truthy negb]; try reflexivity. rewrite Hin. reflexivity.
    + cbn [conv_in]. unfold int_in. rewrite E. cbn [conv_out]. rewrite (aval_eqvb_dec _ _ E), andb_true_r.
      destruct e; cbn [emits is_fnone truthy negb]; try reflexivity. rewrite Hin. reflexivity.
    + destruct x as [|c0 x']; [discriminate|]. cbn [conv_in]. unfold int_in. rewrite E. cbn [conv_out].
      rewrite (aval_eqvb_dec _ _ E), andb_true_r.
      destruct e; cbn [emits is_fnone truthy negb]; try reflexivity. rewrite Hin. reflexivity.
    + cbn [conv_in]. unfold int_in. rewrite E. cbn [conv_out]. rewrite (aval_eqvb_dec _ _ E), andb_true_r.
      destruct e; cbn [emits is_fnone truthy negb]; try reflexivity. rewrite Hin. reflexivity.
Qed.

Definition not_parent (c : conv) : bool := match c with CParent _ => false | _ => true end.

Definition attr_lossless0 (r : arule) : bool :=
  match a_shape r with ShReq => true | _ => attr_rt r None end &&
  match a_dom r with
  | DEnum l => forallb (fun x => attr_rt r (Some x)) l
  | d => conv_inf_ok (a_conv r) (a_emit r) d
  end.

Lemma attr_lossless_np r : not_parent (a_conv r) = true -> attr_lossless r = attr_lossless0 r.
Proof. unfold attr_lossless, attr_lossless0. destruct (a_conv r); try reflexivity. discriminate. Qed.

Lemma conv_out_e_np c env v : not_parent c = true -> conv_out_e c env v = conv_out c v.
Proof. destruct c; try reflexivity. discriminate. Qed.

Lemma attr_lossless_present r x :
  attr_lossless0 r = true -> in_dom (a_dom r) x = true -> attr_rt r (Some x) = true.
Proof.
  unfold attr_lossless0. intros H Hin. apply andb_true_iff in H. destruct H as [_ H].
  destruct (a_dom r) eqn:Ed.
  - apply conv_inf_ok_rt; rewrite ?Ed; auto.
  - apply conv_inf_ok_rt; rewrite ?Ed; auto.
  - apply conv_inf_ok_rt; rewrite ?Ed; auto.
  - cbn [in_dom] in Hin. apply mem_In in Hin. rewrite forallb_forall in H. apply H. exact Hin.
Qed.

Lemma attr_lossless_absent r :
  attr_lossless0 r = true -> a_shape r <> ShReq -> attr_rt r None = true.
Proof.
  unfold attr_lossless0. intros H Hs. apply andb_true_iff in H. destruct H as [H _].
  destruct (a_shape r); [congruence| exact H | exact H].
Qed.

(* the parent's attributes as written (eout) and as received (ein) agree up to number
   normalisation *)
Definition env_rel (eout ein : list (str * aval)) : Prop :=
  forall k, oa_eqvb (lookup k eout) (lookup k ein) = true.

(* result of one rule on a matching node: either nothing is written and the node had no such
   attribute, or one pair is written, equivalent to the node's *)
Lemma attr_one r ein eout attrs :
  env_rel eout ein -> attr_lossless r = true -> attr_matches ein attrs r = true ->
  exists v out, get_attr r attrs = Some v /\ put_attr r eout v = Some out /\
    ((out = [] /\ lookup (a_name r) attrs = None) \/
     (exists a x, out = [(a_name r, a)] /\ lookup (a_name r) attrs = Some (AStr x) /\
                  aval_eqvb a (AStr x) = true)).
Proof.
  intros Henv Hl Hm. destruct (not_parent (a_conv r)) eqn:Enp.
  2:{ (* copied from the parent *)
    destruct (a_conv r) as [| | | | | | | | | | |k] eqn:Ec; try discriminate Enp.
    unfold attr_lossless in Hl. rewrite Ec in Hl.
    destruct (a_shape r) eqn:Es; try discriminate Hl. destruct (a_emit r) eqn:Ee; try discriminate Hl.
    unfold attr_matches in Hm. rewrite Ec, Es in Hm.
    unfold get_attr, lookup_s, put_attr. rewrite Ec, Ee.
    destruct (lookup (a_name r) attrs) as [[x|n|]|] eqn:El; try discriminate.
    apply andb_true_iff in Hm. destruct Hm as [_ Hm].
    destruct (lookup k ein) as [[y|n|]|] eqn:Ek; try discriminate.
    apply str_eqb_eq in Hm. subst y.
    specialize (Henv k). rewrite Ek in Henv. cbn [conv_in conv_out_e emits].
    destruct (lookup k eout) as [a|]; [|discriminate Henv]. cbn [oa_eqvb] in Henv.
    exists FNone, [(a_name r, a)]. repeat split. right. exists a, x. auto. }
  rewrite (attr_lossless_np _ Enp) in Hl.
  unfold attr_matches in Hm. unfold get_attr, lookup_s, put_attr.
  destruct (lookup (a_name r) attrs) as [[x|n|]|] eqn:El; try discriminate.
  - apply andb_true_iff in Hm. destruct Hm as [Hm _]. apply andb_true_iff in Hm. destruct Hm as [Hin _].
    pose proof (attr_lossless_present _ _ Hl Hin) as Hrt. unfold attr_rt in Hrt.
    destruct (conv_in (a_conv r) (Some x)) as [v|] eqn:Ei; [|discriminate].
    destruct (conv_out (a_conv r) v) as [a|] eqn:Eo; [|discriminate].
    apply andb_true_iff in Hrt. destruct Hrt as [He Ha].
    exists v, [(a_name r, a)]. rewrite (conv_out_e_np _ _ _ Enp), Eo, He. repeat split. right. exists a, x. auto.
  - assert (Hs : a_shape r <> ShReq) by (destruct (a_shape r); congruence).
    pose proof (attr_lossless_absent _ Hl Hs) as Hrt. unfold attr_rt in Hrt.
    destruct (conv_in (a_conv r) None) as [v|] eqn:Ei; [|discriminate].
    destruct (conv_out (a_conv r) v) as [a|] eqn:Eo; [|discriminate].
    apply negb_true_iff in Hrt.
    exists v, []. rewrite (conv_out_e_np _ _ _ Enp), Eo, Hrt. repeat split. left. auto.
Qed.

(* ------------------------------------------------------------------ all attributes *)
Lemma lookup_app k a b :
  lookup k (a ++ b) = match lookup k a with Some v => Some v | None => lookup k b end.
Proof.
  induction a as [|[k' v] a IH]; [reflexivity|].
  change (((k', v) :: a) ++ b) with ((k', v) :: (a ++ b)). cbn [lookup].
  destruct (str_eqb k k'); [reflexivity | exact IH].
Qed.

Lemma lookup_notin k l : ~ In k (map fst l) -> lookup k l = None.
Proof.
  induction l as [|[k' v] l IH]; cbn [lookup map fst In]; intros H; [reflexivity|].
  destruct (str_eqb k k') eqn:E; [apply str_eqb_eq in E; subst; tauto | apply IH; tauto].
Qed.

Lemma attrs_all rs ein eout attrs : env_rel eout ein ->
  NoDup (names rs) -> forallb attr_lossless rs = true -> forallb (attr_matches ein attrs) rs = true ->
  exists va out, get_attrs rs attrs = Some va /\ put_attrs rs eout va = Some out /\
    (forall k, In k (map fst out) -> In k (names rs)) /\
    NoDup (map fst out) /\
    (forall k, In k (names rs) -> oa_eqvb (lookup k out) (lookup k attrs) = true).
Proof.
  intros Henv. induction rs as [|r rs IH]; intros Hnd Hl Hm.
  - exists [], []. cbn. repeat split; try tauto; try constructor.
  - cbn [forallb] in Hl, Hm. apply andb_true_iff in Hl, Hm. destruct Hl as [Hl1 Hl2], Hm as [Hm1 Hm2].
    cbn [names map] in Hnd. apply NoDup_cons_iff in Hnd. destruct Hnd as [Hni Hnd].
    destruct (IH Hnd Hl2 Hm2) as (va & out & Hg & Hp & Hsub & Hnd' & Heq).
    destruct (attr_one r ein eout attrs Henv Hl1 Hm1) as (v & o1 & Hg1 & Hp1 & Hcase).
    exists (v :: va), (o1 ++ out). cbn [get_attrs put_attrs]. rewrite Hg1, Hg, Hp1, Hp.
    assert (Hno : lookup (a_name r) out = None).
    { apply lookup_notin. intros I. apply Hsub in I. exact (Hni I). }
    split; [reflexivity|]. split; [reflexivity|].
    destruct Hcase as [[E1 E2] | (a & x & E1 & E2 & E3)]; subst o1.
    + cbn [List.app]. split; [intros k I; right; fold (names rs); auto|]. split; [exact Hnd'|].
      intros k [Ek | Ik].
      * subst k. rewrite Hno, E2. reflexivity.
      * apply Heq. exact Ik.
    + cbn [List.app map fst]. split.
      { intros k [Ek|I]; [left; exact Ek | right; fold (names rs); auto]. }
      split.
      { constructor; [|exact Hnd']. intros I. apply Hsub in I. exact (Hni I). }
      intros k Ik. cbn [lookup]. destruct (str_eqb k (a_name r)) eqn:Ek.
      * apply str_eqb_eq in Ek. subst k. rewrite E2. exact E3.
      * destruct Ik as [Ik|Ik]; [subst; rewrite str_eqb_refl in Ek; discriminate|]. apply Heq. exact Ik.
Qed.

Lemma keys_in_spec attrs ns k : keys_in attrs ns = true -> ~ In k ns -> lookup k attrs = None.
Proof.
  intros H Hn. apply lookup_notin. intros I. apply in_map_iff in I. destruct I as ([k' v] & E & I).
  cbn [fst] in E. subst k'. unfold keys_in in H. rewrite forallb_forall in H.
  specialize (H _ I). cbn [fst] in H. apply mem_In in H. exact (Hn H).
Qed.

Lemma attrs_eqv rs ein eout attrs : env_rel eout ein ->
  nodupb (names rs) = true -> forallb attr_lossless rs = true ->
  forallb (attr_matches ein attrs) rs = true -> keys_in attrs (names rs) = true ->
  exists va out, get_attrs rs attrs = Some va /\ put_attrs rs eout va = Some out /\
    NoDup (map fst out) /\ env_rel out attrs.
Proof.
  intros Henv Hnd Hl Hm Hk. apply nodupb_NoDup in Hnd.
  destruct (attrs_all rs ein eout attrs Henv Hnd Hl Hm) as (va & out & Hg & Hp & Hsub & Hnd' & Heq).
  exists va, out. repeat split; auto. intros k.
  destruct (mem k (names rs)) eqn:Ek.
  - apply Heq. apply mem_In. exact Ek.
  - apply mem_false_notin in Ek. rewrite (keys_in_spec _ _ _ Hk Ek).
    rewrite lookup_notin; [reflexivity|]. intros I. apply Hsub in I. exact (Ek I).
Qed.

(* ------------------------------------------------------------------ data *)
Lemma be32_be_val a b c e :
  a <? 256 = true -> b <? 256 = true -> c <? 256 = true -> e <? 256 = true ->
  be_val [a; b; c; e] <? 4294967296 = true /\ be32 (be_val [a; b; c; e]) = [a; b; c; e].
Proof.
  intros Ha Hb Hc He. unfold be_val, be32. cbn [fold_left].
  set (n := (((0 * 256 + a) * 256 + b) * 256 + c) * 256 + e).
  assert (Hn : n = a * 16777216 + b * 65536 + c * 256 + e) by (unfold n; lia).
  split; [lia|].
  assert (E1 : n / 16777216 = a) by lia.
  assert (E2 : (n / 65536) mod 256 = b) by lia.
  assert (E3 : (n / 256) mod 256 = c) by lia.
  assert (E4 : n mod 256 = e) by lia.
  rewrite E1, E2, E3, E4. reflexivity.
Qed.

Lemma be32_wf n : n <? 4294967296 = true -> bytes_ok (be32 n) = true.
Proof.
  intros H. unfold bytes_ok, be32. cbn [forallb].
  assert (n / 16777216 <? 256 = true) as -> by lia.
  assert ((n / 65536) mod 256 <? 256 = true) as -> by lia.
  assert ((n / 256) mod 256 <? 256 = true) as -> by lia.
  assert (n mod 256 <? 256 = true) as -> by lia.
  reflexivity.
Qed.

Section Lens.
Variable PL : paylens.
Hypothesis HPL : pl_lossless PL.

Lemma deqv_refl t d : deqv PL t d d.
Proof. left. reflexivity. Qed.

Lemma data_rt tags t d data :
  data_lossless tags d = true -> tag_ok tags t = true -> data_matches PL d data = true ->
  exists v dd, get_data PL d data = Some v /\ put_data PL d v = Some dd /\ deqv PL t dd data.
Proof.
  intros Hdl Ht H. destruct d.
  - (* DNone *) destruct data; cbn [data_matches] in H; [discriminate|].
    exists VNone, None. repeat split. apply deqv_refl.
  - (* DBytes *) destruct data as [b|]; [exists (VBytes b), (Some b) | exists VNone, None];
      repeat split; apply deqv_refl.
  - (* DUtf8 *) destruct data as [b|]; cbn [data_matches] in H; [|discriminate].
    exists (VBytes b), (Some b). cbn [get_data put_data]. rewrite H. repeat split. apply deqv_refl.
  - (* DBytesNE *) destruct data as [b|]; cbn [data_matches] in H; [|discriminate].
    apply negb_true_iff in H. exists (VBytes b), (Some b). cbn [get_data put_data]. rewrite H.
    repeat split. apply deqv_refl.
  - (* DByte *) destruct data as [[|c [|c' b]]|]; cbn [data_matches] in H; try discriminate.
    exists (VInt c), (Some [c]). cbn [get_data put_data]. rewrite H. repeat split. apply deqv_refl.
  - (* DBe32 *)
    destruct data as [[|a [|b [|c [|e [|x l]]]]]|]; cbn [data_matches] in H; try discriminate.
    unfold bytes_ok in H. cbn [forallb] in H.
    apply andb_true_iff in H. destruct H as [Ha H]. apply andb_true_iff in H. destruct H as [Hb H].
    apply andb_true_iff in H. destruct H as [Hc H]. apply andb_true_iff in H. destruct H as [He _].
    destruct (be32_be_val a b c e Ha Hb Hc He) as [Hlt Hrt].
    exists (VInt (be_val [a; b; c; e])), (Some [a; b; c; e]). cbn [get_data put_data].
    rewrite Hlt, Hrt. repeat split. apply deqv_refl.
  - (* DConst *) destruct data as [b|]; cbn [data_matches] in H; [|discriminate].
    apply str_eqb_eq in H. subst c. exists VNone, (Some b). repeat split. apply deqv_refl.
  - (* DPayload *) destruct data as [b|]; cbn [data_matches] in H; [|discriminate].
    destruct (HPL b H) as (a & b' & Hg & Hp & He).
    exists (VPay a), (Some b'). cbn [get_data put_data]. rewrite Hg, Hp. repeat split.
    right. split.
    + cbn [data_lossless] in Hdl. apply andb_true_iff in Hdl. destruct Hdl as [Hne Hall].
      unfold tag_ok in Ht. apply negb_true_iff in Hne. rewrite Hne in Ht. cbn [orb] in Ht.
      rewrite forallb_forall in Hall. apply Hall. apply mem_In. exact Ht.
    + exists b', b. auto.
Qed.

(* ------------------------------------------------------------------ children *)
Scheme schema_mind := Induction for schema Sort Prop
  with krules_mind := Induction for krules Sort Prop.
Combined Scheme schema_krules_ind from schema_mind, krules_mind.

Definition lens_ok (c : schema) : Prop :=
  forall ein eout n, env_rel eout ein -> matches PL c ein n = true ->
  exists v n', get PL c n = Some v /\ put PL c eout v = Some n' /\ neqv PL n' n.

Definition lens_ok_kids (ks : krules) : Prop :=
  forall ein eout kids, env_rel eout ein -> matches_kids PL ks ein kids = true ->
  exists vs kids', get_kids PL ks kids = Some vs /\ put_kids PL ks eout vs = Some kids' /\
                   Forall2 (neqv PL) kids' kids.

Lemma span_app p l a b : span p l = (a, b) -> l = a ++ b.
Proof.
  revert a b. induction l as [|x l IH]; cbn [span]; intros a b H.
  - apply pair_inj in H. destruct H; subst. reflexivity.
  - destruct (p x).
    + destruct (span p l) as [a' b'] eqn:E. apply pair_inj in H. destruct H; subst.
      cbn [List.app]. f_equal. apply IH. reflexivity.
    + apply pair_inj in H. destruct H; subst. reflexivity.
Qed.

Lemma list_lens c ein eout pre : env_rel eout ein -> lens_ok c ->
  forallb (matches PL c ein) pre = true ->
  exists vl pre', mapM (get PL c) pre = Some vl /\ mapM (put PL c eout) vl = Some pre' /\
                  Forall2 (neqv PL) pre' pre.
Proof.
  intros Henv Hc. induction pre as [|x pre IH]; cbn [forallb]; intros H.
  - exists [], []. cbn. repeat split. constructor.
  - apply andb_true_iff in H. destruct H as [H1 H2].
    destruct (Hc ein eout x Henv H1) as (v & x' & Hg & Hp & He).
    destruct (IH H2) as (vl & pre' & Hg' & Hp' & He').
    exists (v :: vl), (x' :: pre'). cbn [mapM]. rewrite Hg, Hg', Hp, Hp'. repeat split. constructor; assumption.
Qed.

Lemma get_not_vnone c n v : get PL c n = Some v -> is_vnone v = false.
Proof.
  destruct c as [tags ars d ks], n as [t attrs data kids]. cbn [get].
  destruct (tag_ok tags t); [|discriminate].
  destruct (get_attrs ars attrs); [|discriminate].
  destruct (get_data PL d data); [|discriminate].
  destruct (get_kids PL ks kids); [|discriminate].
  intros H. apply Some_inj in H. subst v. reflexivity.
Qed.

Lemma lens_all :
  (forall c, lossless c = true -> lens_ok c) /\
  (forall ks, lossless_kids ks = true -> lens_ok_kids ks).
Proof.
  apply schema_krules_ind.
  - (* SNode *)
    intros tags ars d ks IHks Hl. cbn [lossless] in Hl.
    apply andb_true_iff in Hl. destruct Hl as [Hl Hlk]. apply andb_true_iff in Hl. destruct Hl as [Hl Hld].
    apply andb_true_iff in Hl. destruct Hl as [Hnd Hla].
    intros ein eout [t attrs data kids] Henv Hm. cbn [matches] in Hm.
    apply andb_true_iff in Hm. destruct Hm as [Hm Hmk].
    apply andb_true_iff in Hm. destruct Hm as [Hm Hmd].
    apply andb_true_iff in Hm. destruct Hm as [Hm Hma].
    apply andb_true_iff in Hm. destruct Hm as [Hm Hki].
    apply andb_true_iff in Hm. destruct Hm as [Hmt Hnda].
    destruct (attrs_eqv ars ein eout attrs Henv Hnd Hla Hma Hki) as (va & out & Hga & Hpa & Hndo & Heq).
    destruct (data_rt tags t d data Hld Hmt Hmd) as (vd & dd & Hgd & Hpd & Hde).
    destruct (IHks Hlk attrs out kids Heq Hmk) as (vk & kids' & Hgk & Hpk & Hek).
    exists (VList [VStr t; VAttrs va; vd; VList vk]), (Node t out dd kids').
    cbn [get put]. rewrite Hmt, Hga, Hgd, Hgk, Hpa, Hpd, Hpk.
    split; [reflexivity|]. split; [reflexivity|].
    constructor; auto. apply nodupb_NoDup. exact Hnda.
  - (* KNil *)
    intros _ ein eout kids _ Hm. cbn [matches_kids] in Hm. destruct kids; [|discriminate].
    exists [], []. cbn. repeat split. constructor.
  - (* KCons *)
    intros m c IHc ks IHks Hl. cbn [lossless_kids] in Hl. apply andb_true_iff in Hl. destruct Hl as [Hlc Hlk].
    specialize (IHc Hlc). specialize (IHks Hlk).
    intros ein eout kids Henv Hm. cbn [matches_kids] in Hm. destruct m as [|ne|u].
    + (* MOne *)
      destruct kids as [|x rest]; [discriminate|].
      apply andb_true_iff in Hm. destruct Hm as [Hm Hmr]. apply andb_true_iff in Hm. destruct Hm as [Ht Hmx].
      destruct (IHc ein eout x Henv Hmx) as (v & x' & Hg & Hp & He).
      destruct (IHks ein eout rest Henv Hmr) as (vs & rest' & Hgr & Hpr & Her).
      exists (v :: vs), (x' :: rest'). cbn [get_kids put_kids]. rewrite Ht, Hg, Hgr, Hpr, Hp.
      repeat split. constructor; assumption.
    + (* MOpt *)
      destruct kids as [|x rest].
      * destruct (IHks ein eout [] Henv Hm) as (vs & rest' & Hgr & Hpr & Her).
        exists (VNone :: vs), rest'. cbn [get_kids put_kids is_vnone]. rewrite Hgr, Hpr. repeat split. exact Her.
      * destruct (tag_in c x) eqn:Ht.
        -- apply andb_true_iff in Hm. destruct Hm as [Hm Hmr]. apply andb_true_iff in Hm. destruct Hm as [Hmx _].
           destruct (IHc ein eout x Henv Hmx) as (v & x' & Hg & Hp & He).
           destruct (IHks ein eout rest Henv Hmr) as (vs & rest' & Hgr & Hpr & Her).
           exists (v :: vs), (x' :: rest'). cbn [get_kids put_kids]. rewrite Ht, Hg, Hgr, Hpr, Hp.
           rewrite (get_not_vnone _ _ _ Hg). repeat split. constructor; assumption.
        -- destruct (IHks ein eout (x :: rest) Henv Hm) as (vs & rest' & Hgr & Hpr & Her).
           exists (VNone :: vs), rest'. cbn [get_kids put_kids is_vnone]. rewrite Ht, Hgr, Hpr. repeat split. exact Her.
    + (* MList *)
      destruct (span (tag_in c) kids) as [pre rest] eqn:Es.
      apply andb_true_iff in Hm. destruct Hm as [Hm Hmr]. apply andb_true_iff in Hm. destruct Hm as [Hmp _].
      destruct (list_lens c ein eout pre Henv IHc Hmp) as (vl & pre' & Hg & Hp & He).
      destruct (IHks ein eout rest Henv Hmr) as (vs & rest' & Hgr & Hpr & Her).
      exists (VList vl :: vs), (pre' ++ rest'). cbn [get_kids put_kids]. rewrite Es, Hg, Hgr, Hpr, Hp.
      repeat split. rewrite (span_app _ _ _ _ Es). apply Forall2_app; assumption.
Qed.

Lemma env_rel_nil : env_rel [] [].
Proof. intros k. reflexivity. Qed.

(* FULL STATEMENT (proved): for every payload lens PL that is lossless on its payload domain,
   every schema s with lossless s = true and every node n of the documented shape,
   fromProtocolTreeNode succeeds, toProtocolTreeNode succeeds and the result is n up to
   decimal normalisation of attribute values and payload equivalence on <proto> data. *)
Theorem lens_get_put_thm : forall sc n,
  lossless sc = true -> matches PL sc [] n = true ->
  exists v n', get PL sc n = Some v /\ put PL sc [] v = Some n' /\ neqv PL n' n.
Proof. intros sc n Hl Hm. exact (proj1 lens_all sc Hl [] [] n env_rel_nil Hm). Qed.

(* what ~ means, spelled out (used by the refutation lemmas) *)
Lemma neqv_attr n' n key : neqv PL n' n ->
  oa_eqvb (lookup key (node_attrs n')) (lookup key (node_attrs n)) = true.
Proof. intros H. destruct H. cbn [node_attrs]. auto. Qed.

Lemma neqv_tag n' n : neqv PL n' n -> node_tag n' = node_tag n.
Proof. intros H. destruct H. reflexivity. Qed.

Lemma neqv_data n' n : neqv PL n' n -> deqv PL (node_tag n) (node_data n') (node_data n).
Proof. intros H. destruct H. assumption. Qed.

Lemma neqv_kids n' n : neqv PL n' n -> Forall2 (neqv PL) (node_kids n') (node_kids n).
Proof. intros H. destruct H. assumption. Qed.

Lemma neqv_nkids n' n : neqv PL n' n -> length (node_kids n') = length (node_kids n).
Proof.
  intros H. apply neqv_kids in H. induction H; cbn [length]; [reflexivity | f_equal; assumption].
Qed.

End Lens.

(* ================================================================== survives the codec *)
(* put produces codec-well-formed nodes, for every schema whose computed codec_safe flag holds
   and every entity value whose emitted strings are well-formed (val_wf). *)

Lemma NoDup_nodupb l : NoDup l -> nodupb l = true.
Proof.
  induction 1 as [|x l Hni _ IH]; cbn [nodupb]; [reflexivity|]. rewrite IH, andb_true_r.
  destruct (mem x l) eqn:E; [apply mem_In in E; contradiction | reflexivity].
Qed.

Lemma put_attr_shape r env v l : put_attr r env v = Some l ->
  l = [] \/ exists a, l = [(a_name r, a)].
Proof.
  unfold put_attr. destruct (conv_out_e (a_conv r) env v) as [a|]; [|discriminate].
  destruct (emits (a_emit r) v); intros H; apply Some_inj in H; subst l; [right; eauto | left; reflexivity].
Qed.

Lemma put_attrs_keys rs env : forall vs a, put_attrs rs env vs = Some a ->
  forall k, In k (map fst a) -> In k (names rs).
Proof.
  induction rs as [|r rs IH]; intros [|v vs] a H k Hk; cbn [put_attrs] in H; try discriminate.
  - apply Some_inj in H. subst a. contradiction.
  - destruct (put_attr r env v) as [l|] eqn:E1; [|discriminate].
    destruct (put_attrs rs env vs) as [rest|] eqn:E2; [|discriminate].
    apply Some_inj in H. subst a. rewrite map_app, in_app_iff in Hk. cbn [names map].
    destruct Hk as [Hk|Hk].
    + destruct (put_attr_shape _ _ _ _ E1) as [El|[a El]]; subst l; [contradiction|].
      cbn [map fst In] in Hk. destruct Hk as [Hk|[]]. left. exact Hk.
    + right. exact (IH _ _ E2 _ Hk).
Qed.

Lemma put_attrs_nodup rs env : forall vs a, NoDup (names rs) -> put_attrs rs env vs = Some a ->
  NoDup (map fst a).
Proof.
  induction rs as [|r rs IH]; intros [|v vs] a Hnd H; cbn [put_attrs] in H; try discriminate.
  - apply Some_inj in H. subst a. constructor.
  - destruct (put_attr r env v) as [l|] eqn:E1; [|discriminate].
    destruct (put_attrs rs env vs) as [rest|] eqn:E2; [|discriminate].
    apply Some_inj in H. subst a. cbn [names map] in Hnd. apply NoDup_cons_iff in Hnd. destruct Hnd as [Hni Hnd].
    specialize (IH _ _ Hnd E2).
    destruct (put_attr_shape _ _ _ _ E1) as [El|[a El]]; subst l; [exact IH|].
    cbn [List.app map fst]. constructor; [|exact IH].
    intros I. apply (put_attrs_keys _ _ _ _ E2) in I. exact (Hni I).
Qed.

Lemma lookup_In k l v : lookup k l = Some v -> exists k', In (k', v) l.
Proof.
  induction l as [|[k' v'] l IH]; cbn [lookup]; [discriminate|].
  destruct (str_eqb k k').
  - intros H. apply Some_inj in H. subst v'. exists k'. left. reflexivity.
  - intros H. destruct (IH H) as [k'' I]. exists k''. right. exact I.
Qed.

Lemma put_attr_wf r env v l : forallb attr_wf env = true -> arule_safe r = true ->
  put_attr r env v = Some l -> attr_val_wf r v = true -> forallb attr_wf l = true.
Proof.
  intros Henv Hs Hp Hw. destruct (not_parent (a_conv r)) eqn:Enp.
  - unfold attr_val_wf in Hw. unfold put_attr in Hp, Hw.
    rewrite (conv_out_e_np _ _ _ Enp) in Hp. rewrite (conv_out_e_np _ _ _ Enp) in Hw.
    destruct (a_conv r); try discriminate Enp; rewrite Hp in Hw; exact Hw.
  - destruct (a_conv r) as [| | | | | | | | | | |k] eqn:Ec; try discriminate Enp.
    unfold put_attr in Hp. rewrite Ec in Hp. cbn [conv_out_e] in Hp.
    destruct (lookup k env) as [a|] eqn:El; [|discriminate].
    apply Some_inj in Hp. subst l. destruct (emits (a_emit r) v); [|reflexivity].
    cbn [forallb]. rewrite andb_true_r. unfold attr_wf. cbn [fst snd].
    unfold arule_safe in Hs. apply andb_true_iff in Hs. destruct Hs as [Hs _]. rewrite Hs. cbn [andb].
    destruct (lookup_In _ _ _ El) as [k' I]. rewrite forallb_forall in Henv. specialize (Henv _ I).
    unfold attr_wf in Henv. cbn [fst snd] in Henv. apply andb_true_iff in Henv. destruct Henv as [_ Henv]. exact Henv.
Qed.

Lemma put_attrs_wf rs env : forallb attr_wf env = true -> forallb arule_safe rs = true ->
  forall vs a, put_attrs rs env vs = Some a -> attr_vals_wf rs vs = true -> forallb attr_wf a = true.
Proof.
  intros Henv. induction rs as [|r rs IH]; intros Hs [|v vs] a H Hw; cbn [put_attrs] in H; try discriminate.
  - apply Some_inj in H. subst a. reflexivity.
  - destruct (put_attr r env v) as [l|] eqn:E1; [|discriminate].
    destruct (put_attrs rs env vs) as [rest|] eqn:E2; [|discriminate].
    apply Some_inj in H. subst a. cbn [attr_vals_wf] in Hw. apply andb_true_iff in Hw. destruct Hw as [Hw1 Hw2].
    cbn [forallb] in Hs. apply andb_true_iff in Hs. destruct Hs as [Hs1 Hs2].
    rewrite forallb_app, (put_attr_wf _ _ _ _ Henv Hs1 E1 Hw1). exact (IH Hs2 _ _ E2 Hw2).
Qed.

Lemma mem_forallb (f : str -> bool) t l : mem t l = true -> forallb f l = true -> f t = true.
Proof. intros Hm Hf. apply mem_In in Hm. rewrite forallb_forall in Hf. auto. Qed.

Section PutWf.
Variable PL : paylens.

Lemma put_inv tags ars d ks env v n : put PL (SNode tags ars d ks) env v = Some n ->
  exists t va vd vk a dd kk,
    v = VList [VStr t; VAttrs va; vd; VList vk] /\ tag_ok tags t = true /\
    put_attrs ars env va = Some a /\ put_data PL d vd = Some dd /\ put_kids PL ks a vk = Some kk /\
    n = Node t a dd kk.
Proof.
  cbn [put]. intros H.
  destruct v as [| | | | | |l]; try discriminate H.
  destruct l as [|v0 l]; try discriminate H. destruct v0 as [|t| | | | |]; try discriminate H.
  destruct l as [|v1 l]; try discriminate H. destruct v1 as [| | | |va| |]; try discriminate H.
  destruct l as [|vd l]; try discriminate H.
  destruct l as [|v3 l]; try discriminate H. destruct v3 as [| | | | | |vk]; try discriminate H.
  destruct l; try discriminate H.
  destruct (tag_ok tags t) eqn:Et; [|discriminate H].
  destruct (put_attrs ars env va) as [a|] eqn:Ea; [|discriminate H].
  destruct (put_data PL d vd) as [dd|] eqn:Ed; [|discriminate H].
  destruct (put_kids PL ks a vk) as [kk|] eqn:Ek; [|discriminate H].
  apply Some_inj in H. exists t, va, vd, vk, a, dd, kk. repeat split; auto.
Qed.

Lemma put_data_wf d vd dd : drule_safe d = true -> data_val_wf PL vd = true ->
  put_data PL d vd = Some dd -> content_wf dd [] = true.
Proof.
  intros Hs Hw H. destruct d; cbn [put_data] in H.
  - apply Some_inj in H. subst dd. reflexivity.
  - destruct vd; try discriminate H; apply Some_inj in H; subst dd; [reflexivity | exact Hw].
  - destruct vd; try discriminate H; apply Some_inj in H; subst dd. exact Hw.
  - destruct vd; try discriminate H. destruct (is_nil b); [discriminate H|]. apply Some_inj in H. subst dd. exact Hw.
  - destruct vd; try discriminate H. destruct (n <? 256) eqn:E; [|discriminate H]. apply Some_inj in H. subst dd.
    cbn [content_wf is_nil negb bytes_ok forallb]. rewrite E. reflexivity.
  - destruct vd; try discriminate H. destruct (n <? 4294967296) eqn:E; [|discriminate H]. apply Some_inj in H. subst dd.
    cbn [content_wf]. rewrite (be32_wf _ E). reflexivity.
  - apply Some_inj in H. subst dd. cbn [drule_safe] in Hs. exact Hs.
  - destruct vd; try discriminate H. cbn [data_val_wf] in Hw.
    destruct (pl_put PL a) as [b|]; [|discriminate H]. apply Some_inj in H. subst dd. exact Hw.
Qed.

Definition putwf_ok (c : schema) : Prop :=
  forall env v n, forallb attr_wf env = true -> put PL c env v = Some n -> val_wf PL c v = true ->
                  codec_wf n = true.

Definition putwf_ok_kids (ks : krules) : Prop :=
  forall env vs kids, forallb attr_wf env = true -> put_kids PL ks env vs = Some kids ->
                      vals_wf PL ks vs = true -> forallb codec_wf kids = true.

Lemma list_putwf c env : forallb attr_wf env = true -> putwf_ok c ->
  forall l xs, mapM (put PL c env) l = Some xs ->
  forallb (val_wf PL c) l = true -> forallb codec_wf xs = true.
Proof.
  intros Henv Hc. induction l as [|v l IH]; intros xs H Hw; cbn [mapM] in H.
  - apply Some_inj in H. subst xs. reflexivity.
  - destruct (put PL c env v) as [x|] eqn:E1; [|discriminate]. destruct (mapM (put PL c env) l) as [ys|] eqn:E2; [|discriminate].
    apply Some_inj in H. subst xs. cbn [forallb] in Hw |- *. apply andb_true_iff in Hw. destruct Hw as [Hw1 Hw2].
    rewrite (Hc _ _ _ Henv E1 Hw1), (IH _ eq_refl Hw2). reflexivity.
Qed.

Lemma putwf_all :
  (forall c, codec_safe c = true -> putwf_ok c) /\
  (forall ks, codec_safe_kids ks = true -> putwf_ok_kids ks).
Proof.
  apply schema_krules_ind.
  - intros tags ars d ks IHks Hs env v n Henv Hp Hw. cbn [codec_safe] in Hs.
    apply andb_true_iff in Hs. destruct Hs as [Hs Hsk].
    apply andb_true_iff in Hs. destruct Hs as [Hs Hds].
    apply andb_true_iff in Hs. destruct Hs as [Hs Hdk].
    apply andb_true_iff in Hs. destruct Hs as [Hs Hars].
    apply andb_true_iff in Hs. destruct Hs as [Htags Hnd].
    destruct (put_inv _ _ _ _ _ _ _ Hp) as (t & va & vd & vk & a & dd & kk & Ev & Et & Ea & Ed & Ek & En).
    subst v n. cbn [val_wf] in Hw.
    apply andb_true_iff in Hw. destruct Hw as [Hw Hwk]. apply andb_true_iff in Hw. destruct Hw as [Hw Hwd].
    apply andb_true_iff in Hw. destruct Hw as [Hwt Hwa].
    pose proof (put_attrs_wf _ _ Henv Hars _ _ Ea Hwa) as Hawf.
    cbn [codec_wf].
    assert (Htw : str_wf t = true).
    { unfold tag_ok in Et. destruct (is_nil tags) eqn:En.
      - cbn [negb orb] in Hwt. exact Hwt.
      - cbn [orb] in Et. exact (mem_forallb _ _ _ Et Htags). }
    rewrite Htw.
    rewrite (NoDup_nodupb _ (put_attrs_nodup _ _ _ _ (nodupb_NoDup _ Hnd) Ea)).
    rewrite Hawf.
    rewrite (IHks Hsk _ _ _ Hawf Ek Hwk). rewrite !andb_true_r. cbn [andb].
    (* content: data xor children *)
    destruct d;
      [ cbn [put_data] in Ed; apply Some_inj in Ed; subst dd; reflexivity | .. ];
      (destruct ks; [|discriminate Hdk]; cbn [put_kids] in Ek; destruct vk; [|discriminate Ek];
       apply Some_inj in Ek; subst kk; exact (put_data_wf _ _ _ Hds Hwd Ed)).
  - intros _ env vs kids _ H _. cbn [put_kids] in H. destruct vs; [|discriminate]. apply Some_inj in H. subst. reflexivity.
  - intros m c IHc ks IHks Hs env vs kids Henv H Hw. cbn [codec_safe_kids] in Hs.
    apply andb_true_iff in Hs. destruct Hs as [Hsc Hsk]. specialize (IHc Hsc). specialize (IHks Hsk).
    cbn [put_kids] in H. destruct vs as [|v vs]; [discriminate|].
    destruct (put_kids PL ks env vs) as [rest|] eqn:Er; [|discriminate].
    cbn [vals_wf] in Hw. apply andb_true_iff in Hw. destruct Hw as [Hw1 Hw2].
    specialize (IHks _ _ _ Henv Er Hw2).
    destruct m as [|ne|u].
    + destruct (put PL c env v) as [x|] eqn:Ex; [|discriminate]. apply Some_inj in H. subst kids.
      cbn [forallb]. rewrite IHks, andb_true_r.
      destruct (is_vnone v) eqn:Ev.
      * destruct v; try discriminate Ev. destruct c. cbn [put] in Ex. discriminate Ex.
      * exact (IHc _ _ _ Henv Ex Hw1).
    + destruct (is_vnone v) eqn:Ev.
      * apply Some_inj in H. subst kids. exact IHks.
      * destruct (put PL c env v) as [x|] eqn:Ex; [|discriminate]. apply Some_inj in H. subst kids.
        cbn [forallb]. rewrite IHks, andb_true_r. exact (IHc _ _ _ Henv Ex Hw1).
    + destruct v as [| | | | | |l]; try discriminate H.
      destruct (mapM (put PL c env) l) as [xs|] eqn:Ex; [|discriminate]. apply Some_inj in H. subst kids.
      rewrite forallb_app, IHks, andb_true_r. exact (list_putwf c env Henv IHc l xs Ex Hw1).
Qed.

(* FULL STATEMENT (proved): *)
Theorem put_wf_thm : forall sc v n,
  codec_safe sc = true -> val_wf PL sc v = true -> put PL sc [] v = Some n -> codec_wf n = true.
Proof. intros sc v n Hs Hw Hp. exact (proj1 putwf_all sc Hs [] v n eq_refl Hp Hw). Qed.

End PutWf.

(* ================================================================== instances of the payload lens *)
(* the ideal payload lens satisfies the hypothesis (non-vacuity of pl_lossless), and with it
   ~ is strict: data reproduced byte for byte everywhere *)
Lemma pl_id_lossless : pl_lossless pl_id.
Proof. intros b _. exists b, b. repeat split. Qed.

Lemma deqv_id_eq t d' d : deqv pl_id t d' d -> d' = d.
Proof.
  intros [H|[_ (b' & b & E1 & E2 & E3)]]; [exact H|]. cbn in E3. subst. reflexivity.
Qed.

(* payload-free schemas: the statement holds without any assumption on payloads, with strict ~ *)
Theorem lens_get_put_strict_thm : forall sc n,
  lossless sc = true -> matches pl_id sc [] n = true ->
  exists v n', get pl_id sc n = Some v /\ put pl_id sc [] v = Some n' /\ neqv pl_id n' n.
Proof. exact (lens_get_put_thm pl_id pl_id_lossless). Qed.
