(* C04 — encrypted transport.  Executable small-step interleaving model of
   yowsup/layers/noise/layer.py + workers/handshake.py over consonance's WANoiseProtocol.

   Threads: tid 0 = network thread NT (runs the script: auth events, disconnect events,
   arriving server segments); tid (a+1) = handshake worker of attempt a.
   One model step = one shared-state operation of the code (queue put/get/qsize, flush lock
   acquire/release, protocol-state read or transition, profile write, delivery upward) together
   with the thread-local computation that follows it.  Definitions only; proofs in C04Proofs*.v. *)
From YV Require Import Common.Tac.

(* consonance WANoiseProtocol states *)
Inductive pst := PInit | PHs | PTr | PErr.

(* A server segment.  SHello: the server hello sent on connection [cn] (it answers the first
   client hello the server received on that connection); [ok] is the oracle bit "authenticates"
   (AEAD tags / protobuf parse); [static] <> 0 when the hello carries a server static key
   (XX, XXfallback), 0 when it does not (IK).  SData: a transport segment. *)
Inductive seg :=
| SHello (sid cn : N) (ok : bool) (static : N)
| SData (sid : N).

Definition sid_of (x : seg) : N := match x with SHello i _ _ _ => i | SData i => i end.

(* What on_auth puts into consonance's ClientConfig, i.e. the ClientPayload the client presents:
   the account (profile.username), the passive flag (argument of the auth event) and the client
   attributes on_auth reads from profile.config / YowsupEnv at that moment (pushname, mcc, mnc,
   fdid as phone_id, platform, app version, os version, manufacturer, device, build number, locale,
   short_connect), each as an opaque code. *)
Record ccfg := mkCfg { c_user : N; c_passive : bool; c_attrs : list N }.

(* events of the network thread's script.  An auth event carries the configuration in force when
   it is emitted. *)
Inductive nev := NAuth (c : ccfg) | NDisc | NSeg (x : seg).

(* _flush_incoming_buffer *)
Inductive fpc := FAcq | FSize | FMach | FGet | FRel.

Inductive npc :=
| NNext | NAuthE2 | NAuthH | NAuthChk | NSpawn | NChk | NFl (f : fpc) | NCrashed.

Inductive hpc :=
| HReset | HStart | HHello | HGet
| HFinish (nrs : N) | HSetT (nrs : N) | HPersist (nrs : N) | HFlush (f : fpc)
| HSetE | HEvent | HFailure | HDone | HCrashed.

(* a handshake worker captures, at construction, the server key and the ClientConfig on_auth built *)
Record worker := mkW { w_att : N; w_rs : N; w_cfg : ccfg; w_pc : hpc }.

(* a payload-bearing handshake message written on a connection: (connection, 1 client hello | 2 client
   finish, payload) *)
Definition pentry := (N * N * ccfg)%type.

(* what reaches the layers above / the profile, in global order *)
Inductive ev :=
| EUp (ctr : N) (x : seg)      (* frame delivered upward: x decrypted with receive counter ctr *)
| EEvent                       (* EVENT_HANDSHAKE_FAILED emitted upward *)
| EFailure                     (* <failure> stanza delivered upward *)
| EPersist (rs : N).           (* profile.write_config with server_static_public := rs *)

Inductive label :=
| LDown (m : N)                (* unit written downward: 0 prologue 1 client hello 2 client finish 3 edge header 4 routing info *)
| LChk (h : bool)              (* _in_handshake() evaluated *)
| LSpawn (a : N)
| LSt (p : pst)                (* a transition of the protocol state machine fired; p = state after *)
| LPut (i : N) | LGet (i : N) | LSize (n : N)
| LUp (i : N) | LEvent | LFailure | LPersist (rs : N)
| LAcq | LRel | LCrash.

Record st := mkSt {
  ps : pst;                    (* protocol state *)
  inq : list seg;              (* _incoming_segments_queue *)
  lock : option N;             (* _flush_lock holder *)
  ctr : N;                     (* receive cipher-state nonce of the current transport *)
  stored : N;                  (* profile config.server_static_public, in memory (0 = none); the file follows at EPersist *)
  lrs : N;                     (* layer._rs *)
  npc_ : npc;
  script : list nev;
  workers : list worker;       (* newest first *)
  gen : N;                     (* next attempt id *)
  log : list ev;
  edge : bool;                 (* config.edge_routing_info set *)
  conn : N;                    (* id of the current connection (incremented per auth event) *)
  bound : list (N * N);        (* connection -> attempt whose client hello the server consumed first *)
  pcfg : ccfg;                 (* on_auth's local client_config (built from the event being handled) *)
  pres : list pentry           (* payloads written towards the server, in order *)
}.

Definition set_ps p s := mkSt p (inq s) (lock s) (ctr s) (stored s) (lrs s) (npc_ s) (script s) (workers s) (gen s) (log s) (edge s) (conn s) (bound s) (pcfg s) (pres s).
Definition set_inq q s := mkSt (ps s) q (lock s) (ctr s) (stored s) (lrs s) (npc_ s) (script s) (workers s) (gen s) (log s) (edge s) (conn s) (bound s) (pcfg s) (pres s).
Definition set_lock l s := mkSt (ps s) (inq s) l (ctr s) (stored s) (lrs s) (npc_ s) (script s) (workers s) (gen s) (log s) (edge s) (conn s) (bound s) (pcfg s) (pres s).
Definition set_ctr c s := mkSt (ps s) (inq s) (lock s) c (stored s) (lrs s) (npc_ s) (script s) (workers s) (gen s) (log s) (edge s) (conn s) (bound s) (pcfg s) (pres s).
Definition set_stored r s := mkSt (ps s) (inq s) (lock s) (ctr s) r (lrs s) (npc_ s) (script s) (workers s) (gen s) (log s) (edge s) (conn s) (bound s) (pcfg s) (pres s).
Definition set_lrs r s := mkSt (ps s) (inq s) (lock s) (ctr s) (stored s) r (npc_ s) (script s) (workers s) (gen s) (log s) (edge s) (conn s) (bound s) (pcfg s) (pres s).
Definition set_npc n s := mkSt (ps s) (inq s) (lock s) (ctr s) (stored s) (lrs s) n (script s) (workers s) (gen s) (log s) (edge s) (conn s) (bound s) (pcfg s) (pres s).
Definition set_script r s := mkSt (ps s) (inq s) (lock s) (ctr s) (stored s) (lrs s) (npc_ s) r (workers s) (gen s) (log s) (edge s) (conn s) (bound s) (pcfg s) (pres s).
Definition set_workers w s := mkSt (ps s) (inq s) (lock s) (ctr s) (stored s) (lrs s) (npc_ s) (script s) w (gen s) (log s) (edge s) (conn s) (bound s) (pcfg s) (pres s).
Definition set_gen g s := mkSt (ps s) (inq s) (lock s) (ctr s) (stored s) (lrs s) (npc_ s) (script s) (workers s) g (log s) (edge s) (conn s) (bound s) (pcfg s) (pres s).
Definition add_log e s := mkSt (ps s) (inq s) (lock s) (ctr s) (stored s) (lrs s) (npc_ s) (script s) (workers s) (gen s) (log s ++ [e]) (edge s) (conn s) (bound s) (pcfg s) (pres s).

Definition set_conn c s := mkSt (ps s) (inq s) (lock s) (ctr s) (stored s) (lrs s) (npc_ s) (script s) (workers s) (gen s) (log s) (edge s) c (bound s) (pcfg s) (pres s).
Definition set_pcfg c s := mkSt (ps s) (inq s) (lock s) (ctr s) (stored s) (lrs s) (npc_ s) (script s) (workers s) (gen s) (log s) (edge s) (conn s) (bound s) c (pres s).
Definition add_pres (e : pentry) s := mkSt (ps s) (inq s) (lock s) (ctr s) (stored s) (lrs s) (npc_ s) (script s) (workers s) (gen s) (log s) (edge s) (conn s) (bound s) (pcfg s) (pres s ++ [e]).
Definition set_bound b s := mkSt (ps s) (inq s) (lock s) (ctr s) (stored s) (lrs s) (npc_ s) (script s) (workers s) (gen s) (log s) (edge s) (conn s) b (pcfg s) (pres s).

Fixpoint lookup (c : N) (b : list (N * N)) : option N :=
  match b with
  | [] => None
  | (c', a) :: r => if (c' =? c)%N then Some a else lookup c r
  end.

Definition is_hs (p : pst) : bool := match p with PHs => true | _ => false end.
Definition is_tr (p : pst) : bool := match p with PTr => true | _ => false end.

(* --- _flush_incoming_buffer, run by thread [me] ---
   FAcq  : _flush_lock.acquire()           (blocks while held)
   FSize : _incoming_segments_queue.qsize()
   FMach : WANoiseProtocol.receive -> machine.receive(): MachineError unless state = transport
           (the exception leaves the lock held: no try/finally in the code)
   FGet  : read_segment: queue.get -> stream read queue -> decrypt with the counter -> toUpper
   FRel  : _flush_lock.release()                                                        *)
Inductive fres := FNext (f : fpc) | FDone | FCrash.

Definition flush_step (me : N) (f : fpc) (s : st) : option (list label * st * fres) :=
  match f with
  | FAcq => match lock s with
            | None => Some ([LAcq], set_lock (Some me) s, FNext FSize)
            | Some _ => None
            end
  | FSize => Some ([LSize (N.of_nat (length (inq s)))], s,
                   FNext (match inq s with [] => FRel | _ => FMach end))
  | FMach => if is_tr (ps s) then Some ([LSt PTr], s, FNext FGet) else Some ([LCrash], s, FCrash)
  | FGet => match inq s with
            | [] => None
            | SData i :: q => Some ([LGet i; LUp i],
                                    add_log (EUp (ctr s) (SData i)) (set_ctr (ctr s + 1) (set_inq q s)), FNext FSize)
            | SHello i _ _ _ :: q =>   (* a handshake message does not decrypt as a transport frame: the
                                          exception leaves the thread dead with the lock held *)
                Some ([LGet i; LCrash], set_inq q s, FCrash)
            end
  | FRel => Some ([LRel], set_lock None s, FDone)
  end.

(* the server hello of a connection can only exist once a client hello was written on it *)
Definition arrival_ok (s : st) (x : seg) : bool :=
  match x with
  | SHello _ c _ _ => match lookup c (bound s) with Some _ => true | None => false end
  | SData _ => true
  end.

Definition nt_step (s : st) : option (list label * st) :=
  match npc_ s with
  | NNext =>
      match script s with
      | [] => None
      | NAuth c :: r =>
          (* the ClientConfig is built from THIS event's passive flag and the configuration in force now *)
          if edge s then Some ([LDown 3], set_npc NAuthE2 (set_pcfg c (set_conn (conn s + 1) (set_script r s))))
          else Some ([LDown 0], set_npc NAuthChk (set_lrs (stored s) (set_pcfg c (set_conn (conn s + 1) (set_script r s)))))
      | NDisc :: r => Some ([LSt PInit], set_ps PInit (set_script r s))
      | NSeg x :: r =>
          if arrival_ok s x
          then Some ([LPut (sid_of x)], set_npc NChk (set_inq (inq s ++ [x]) (set_script r s)))
          else None
      end
  | NAuthE2 => Some ([LDown 4], set_npc NAuthH s)
  | NAuthH => Some ([LDown 0], set_npc NAuthChk (set_lrs (stored s) s))
  | NAuthChk => Some ([LChk (is_hs (ps s))], set_npc (if is_hs (ps s) then NNext else NSpawn) s)
  | NSpawn => Some ([LSpawn (gen s)],
                    set_npc NNext (set_gen (gen s + 1)
                      (set_workers (mkW (gen s) (lrs s) (pcfg s) HReset :: workers s) s)))
  | NChk => Some ([LChk (is_hs (ps s))], set_npc (if is_hs (ps s) then NNext else NFl FAcq) s)
  | NFl f =>
      match flush_step 0 f s with
      | None => None
      | Some (l, s', FNext f') => Some (l, set_npc (NFl f') s')
      | Some (l, s', FDone) => Some (l, set_npc NNext s')
      | Some (l, s', FCrash) => Some (l, set_npc NCrashed s')
      end
  | NCrashed => None
  end.

(* outcome of reading the server's answer: None = authentication failure; Some (nrs, fin):
   negotiated server key nrs, fin = a client finish is written (XX / XXfallback). *)
Definition mine (b : list (N * N)) (c a : N) : bool :=
  match lookup c b with Some a' => (a' =? a)%N | None => false end.

Definition verify (b : list (N * N)) (w : worker) (x : seg) : option (N * bool) :=
  match x with
  | SHello _ c ok static =>
      if ok && mine b c (w_att w) then
        if (w_rs w =? 0)%N then (if (static =? 0)%N then None else Some (static, true))      (* XX *)
        else if (static =? 0)%N then Some (w_rs w, false)                                     (* IK *)
        else Some (static, true)                                                              (* IK -> XXfallback *)
      else None
  | SData _ => None
  end.

Definition hello_pres (w : worker) (s : st) : st :=
  if (w_rs w =? 0)%N then s else add_pres (conn s, 1%N, w_cfg w) s.

Definition hs_step (s : st) (w : worker) : option (list label * st * hpc) :=
  match w_pc w with
  | HReset => Some ([LSt PInit], set_ps PInit s, HStart)
  | HStart => match ps s with
              | PInit | PErr => Some ([LSt PHs], set_ps PHs s, HHello)
              | _ => Some ([LCrash], s, HCrashed)
              end
  | HHello => Some ([LDown 1],
                    (* IK client hello (a server key was captured): carries the encrypted ClientPayload *)
                    hello_pres w
                      match lookup (conn s) (bound s) with
                      | None => set_bound ((conn s, w_att w) :: bound s) s
                      | Some _ => s
                      end, HGet)
  | HGet => match inq s with
            | [] => None
            | x :: q => Some ([LGet (sid_of x)], set_inq q s,
                              match verify (bound s) w x with
                              | Some (nrs, true) => HFinish nrs
                              | Some (nrs, false) => HSetT nrs
                              | None => HSetE
                              end)
            end
  | HFinish nrs => Some ([LDown 2], add_pres (conn s, 2%N, w_cfg w) s, HSetT nrs)   (* XX / XXfallback: payload in the client finish *)
  | HSetT nrs => if is_hs (ps s)
                 then Some ([LSt PTr],
                            (* _on_protocol_state_changed: config.server_static_public := rs happens here,
                               in memory, BEFORE profile.write_config is called *)
                            set_ctr 0 (set_ps PTr (if (lrs s =? nrs)%N then s else set_stored nrs s)),
                            if (lrs s =? nrs)%N then HFlush FAcq else HPersist nrs)
                 else Some ([LCrash], s, HCrashed)
  | HPersist nrs => Some ([LPersist nrs], add_log (EPersist nrs) (set_lrs nrs s), HFlush FAcq)
  | HFlush f =>
      match flush_step (w_att w + 1) f s with
      | None => None
      | Some (l, s', FNext f') => Some (l, s', HFlush f')
      | Some (l, s', FDone) => Some (l, s', HDone)
      | Some (l, s', FCrash) => Some (l, s', HCrashed)
      end
  | HSetE => match ps s with
             | PHs | PTr => Some ([LSt PErr], set_ps PErr s, HEvent)
             | _ => Some ([LCrash], s, HCrashed)
             end
  | HEvent => Some ([LEvent], add_log EEvent s, HFailure)
  | HFailure => Some ([LFailure], add_log EFailure s, HDone)
  | HDone | HCrashed => None
  end.

Fixpoint find_w (a : N) (ws : list worker) : option worker :=
  match ws with
  | [] => None
  | w :: r => if (w_att w =? a)%N then Some w else find_w a r
  end.

Fixpoint upd_w (a : N) (p : hpc) (ws : list worker) : list worker :=
  match ws with
  | [] => []
  | w :: r => if (w_att w =? a)%N then mkW (w_att w) (w_rs w) (w_cfg w) p :: r else w :: upd_w a p r
  end.

Definition step (s : st) (tid : N) : option (list label * st) :=
  if (tid =? 0)%N then nt_step s
  else match find_w (tid - 1) (workers s) with
       | None => None
       | Some w => match hs_step s w with
                   | None => None
                   | Some (l, s', p) => Some (l, set_workers (upd_w (tid - 1) p (workers s')) s')
                   end
       end.

(* runs *)
Inductive reach (s0 : st) : st -> Prop :=
| reach_refl : reach s0 s0
| reach_step : forall s tid l s', reach s0 s -> step s tid = Some (l, s') -> reach s0 s'.

Fixpoint run (s : st) (sched : list N) : option st :=
  match sched with
  | [] => Some s
  | t :: r => match step s t with Some (_, s') => run s' r | None => None end
  end.

(* observations *)
Fixpoint ups (l : list ev) : list (N * seg) :=
  match l with
  | [] => []
  | EUp c x :: r => (c, x) :: ups r
  | _ :: r => ups r
  end.

Fixpoint persists (l : list ev) : list N :=
  match l with
  | [] => []
  | EPersist r :: t => r :: persists t
  | _ :: t => persists t
  end.

Fixpoint failures (l : list ev) : list ev :=
  match l with
  | [] => []
  | EEvent :: t => EEvent :: failures t
  | EFailure :: t => EFailure :: failures t
  | _ :: t => failures t
  end.

(* decryptions expected: i-th data segment with counter i *)
Fixpoint number (c : N) (xs : list seg) : list (N * seg) :=
  match xs with
  | [] => []
  | x :: r => (c, x) :: number (c + 1) r
  end.

Definition w_finished (w : worker) : bool :=
  match w_pc w with HDone | HCrashed => true | _ => false end.

Definition nt_finished (s : st) : bool :=
  match npc_ s, script s with NNext, [] => true | NCrashed, _ => true | _, _ => false end.

Definition all_done (s : st) : bool := nt_finished s && forallb w_finished (workers s).

Definition tids (s : st) : list N := 0%N :: map (fun w => (w_att w + 1)%N) (workers s).

Definition enabled (s : st) (t : N) : bool := match step s t with Some _ => true | None => false end.

Definition stuck (s : st) : bool := negb (all_done s) && forallb (fun t => negb (enabled s t)) (tids s).

(* ---- the scenarios the theorems speak about ----
   A layer in any quiescent condition (protocol state p0 <> handshake; any stored server key; any
   number of earlier handshake workers, all terminated; queues empty; lock free), then one login
   attempt: auth event, server hello answering this attempt, then any number of transport segments.
   pc0 = whatever an earlier on_auth left in its local, pres0 = whatever was presented on earlier
   connections, cfg = the configuration carried by THIS auth event. *)
Definition old_ok (g : N) (w : worker) : Prop := w_finished w = true /\ (w_att w < g)%N.

Definition start (p0 : pst) (c0 stored0 lrs0 g0 : N) (ws0 : list worker) (e : bool)
                 (cn0 : N) (b0 : list (N * N)) (pc0 : ccfg) (pres0 : list pentry) (cfg : ccfg)
                 (hello : seg) (data : list seg) : st :=
  mkSt p0 [] None c0 stored0 lrs0 NNext (NAuth cfg :: NSeg hello :: map NSeg data) ws0 g0 [] e cn0 b0 pc0 pres0.

Definition negotiated (stored0 static : N) : N := if (static =? 0)%N then stored0 else static.

(* ---- a model VARIANT, not the code: on_auth keeps the ClientConfig it built and rebuilds it only
   when the account (username) changes.  It behaves like the model above run on a script in which
   every auth event carries the cached configuration.  Used only by the *_refuted witness. *)
Fixpoint cache_script (cache : option ccfg) (scr : list nev) : list nev :=
  match scr with
  | [] => []
  | NAuth c :: r =>
      let c' := match cache with
                | Some k => if (c_user k =? c_user c)%N then k else c
                | None => c
                end in
      NAuth c' :: cache_script (Some c') r
  | x :: r => x :: cache_script cache r
  end.

Definition cached_variant (s : st) : st := set_script (cache_script None (script s)) s.

(* a schedule that always runs the oldest enabled handshake worker, the network thread only when no
   worker can move (so the network thread never cuts a live attempt off) *)
Fixpoint auto_sched (fuel : nat) (s : st) : list N :=
  match fuel with
  | O => []
  | S k => match filter (enabled s) (rev (tids s)) with
           | [] => []
           | t :: _ => match step s t with
                       | Some (_, s') => t :: auto_sched k s'
                       | None => []
                       end
           end
  end.
