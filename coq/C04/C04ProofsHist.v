(* C04 — login histories on ONE layer instance: connect, login, frames, [disconnect], reconnect, ...
   any number of logins; each auth event carries the configuration in force when it is emitted.
   What the server is presented on the connection of login i is exactly the configuration of auth
   event i; it does not depend on what earlier logins presented.

   A history is chained from the one-attempt scenario of C04Proofs.v: the next login starts from the
   state the previous one left behind when every thread had finished (that is the domain proved in
   C04Proofs.v; a disconnect that races a live worker is the open reconnect finding). *)
From YV Require Import Common.Tac C04.C04Model C04.C04Proofs.

(* one login: [s_disc] a disconnect event precedes the auth event; the auth event carries [s_cfg];
   the server answers with a hello (oracle bit s_ok, key s_static, 0 = none) and then sends the
   transport segments s_dsids *)
Record session := mkSess {
  s_disc : bool; s_cfg : ccfg; s_hsid : N; s_ok : bool; s_static : N; s_dsids : list N }.

(* the state in which login x starts, given the state q the previous login left behind: every field
   of the layer is carried over (protocol state reset to init by the disconnect event, if any);
   the script is this login's; the observation log is restarted.  inq/lock/npc_ are written as
   [] / None / NNext: by [done_state] that is what q holds. *)
Definition sess_start (q : st) (x : session) : st :=
  start (if s_disc x then PInit else ps q) (ctr q) (stored q) (lrs q) (gen q) (workers q) (edge q)
        (conn q) (bound q) (pcfg q) (pres q) (s_cfg x)
        (SHello (s_hsid x) (conn q + 1) (s_ok x) (s_static x)) (map SData (s_dsids x)).

Inductive hrun : st -> list session -> st -> Prop :=
| hrun_nil : forall q, hrun q [] q
| hrun_cons : forall q x s xs s',
    reach (sess_start q x) s -> all_done s = true -> hrun s xs s' -> hrun q (x :: xs) s'.

(* a layer between logins *)
Definition quiescent (q : st) : Prop :=
  ps q <> PHs /\ Forall (old_ok (gen q)) (workers q) /\
  (forall c, (conn q < c)%N -> lookup c (bound q) = None).

(* the server key stored in the profile after login x, given the one stored before *)
Definition stored_after (st0 : N) (x : session) : N :=
  if auth_ok st0 (s_ok x) (s_static x) then nrs st0 (s_static x) else st0.

Fixpoint stored_before (st0 : N) (xs : list session) (i : nat) : N :=
  match i, xs with
  | S j, x :: r => stored_before (stored_after st0 x) r j
  | _, _ => st0
  end.

(* environment assumption, per login: a server whose hello failed authentication sends no frames *)
Fixpoint sessions_ok (st0 : N) (xs : list session) : Prop :=
  match xs with
  | [] => True
  | x :: r => (auth_ok st0 (s_ok x) (s_static x) = false -> s_dsids x = []) /\
              sessions_ok (stored_after st0 x) r
  end.

(* what the history presents: login i on connection cn0+1+i, its own configuration, in the client
   hello when a server key is stored (IK) and in the client finish when the server hello carried a
   key (XX, XXfallback) *)
Definition sess_pres (cn0 st0 : N) (x : session) : list pentry :=
  if auth_ok st0 (s_ok x) (s_static x) then presented_ok st0 cn0 (s_cfg x) (s_static x)
  else hello_entry st0 cn0 (s_cfg x).

Fixpoint expect_pres (cn0 st0 : N) (xs : list session) : list pentry :=
  match xs with
  | [] => []
  | x :: r => sess_pres cn0 st0 x ++ expect_pres (cn0 + 1) (stored_after st0 x) r
  end.

Lemma old_ok_weaken g w : old_ok g w -> old_ok (g + 1) w.
Proof. intros [H1 H2]. split; [assumption | lia]. Qed.

Lemma quiescent_start q x :
  quiescent q ->
  (if s_disc x then PInit else ps q) <> PHs /\ Forall (old_ok (gen q)) (workers q) /\
  lookup (conn q + 1) (bound q) = None.
Proof.
  intros (H1 & H2 & H3). repeat split; [destruct (s_disc x); [discriminate | assumption] | assumption |].
  apply H3. lia.
Qed.

(* one login, from a quiescent layer: what it leaves behind *)
Lemma session_step q x s :
  quiescent q -> (auth_ok (stored q) (s_ok x) (s_static x) = false -> s_dsids x = []) ->
  reach (sess_start q x) s -> all_done s = true ->
  quiescent s /\ conn s = (conn q + 1)%N /\ stored s = stored_after (stored q) x /\
  pres s = pres q ++ sess_pres (conn q) (stored q) x.
Proof.
  intros Hq Hf Hr Hd. destruct (quiescent_start q x Hq) as (Q1 & Q2 & Q3).
  destruct Hq as (_ & _ & Hb).
  pose proof (done_state _ _ _ _ _ _ _ _ _ _ _ _ _ _ _ _ Q1 Q2 Q3 Hf s Hr Hd)
    as (Hw & Hg & Hcn & _ & Hbd & Hps & _ & _ & _ & _ & Hst & Hpr).
  unfold cn in *. repeat split.
  - rewrite Hps. destruct (auth_ok _ _ _); discriminate.
  - rewrite Hw, Hg. constructor.
    + split; [reflexivity | cbn; lia].
    + eapply Forall_impl; [|exact Q2]. intros w. apply old_ok_weaken.
  - intros c Hc. rewrite Hbd. cbn [lookup]. rewrite Hcn in Hc.
    destruct (conn q + 1 =? c)%N eqn:E; [lia|]. apply Hb. lia.
  - assumption.
  - rewrite Hst. reflexivity.
  - rewrite Hpr. reflexivity.
Qed.

(* ---- the history theorem: any number of logins *)
Theorem presented_history_thm : forall xs q s',
  quiescent q -> sessions_ok (stored q) xs -> hrun q xs s' ->
  pres s' = pres q ++ expect_pres (conn q) (stored q) xs /\ quiescent s'.
Proof.
  induction xs as [|x xs IH]; intros q s' Hq Hok Hh; inversion Hh; subst.
  - cbn. rewrite app_nil_r. split; [reflexivity | assumption].
  - cbn in Hok. destruct Hok as [Hf Hok].
    match goal with Hr : reach _ ?s, Hd : all_done ?s = true |- _ =>
      destruct (session_step q x s Hq Hf Hr Hd) as (Hq1 & Hc1 & Hs1 & Hp1) end.
    match goal with Hh' : hrun ?s xs s' |- _ =>
      rewrite <- Hs1 in Hok; destruct (IH s s' Hq1 Hok Hh') as [Hp Hq'] end.
    split; [|assumption]. rewrite Hp, Hp1, Hc1, Hs1. cbn [expect_pres]. rewrite app_assoc. reflexivity.
Qed.

(* ... and at every moment DURING the next login (every interleaving): whatever has been written so far
   on its connection carries its own configuration *)
Theorem presented_history_during_thm : forall xs q s1 x t,
  quiescent q -> sessions_ok (stored q) xs -> hrun q xs s1 ->
  (auth_ok (stored s1) (s_ok x) (s_static x) = false -> s_dsids x = []) ->
  reach (sess_start s1 x) t ->
  exists tl, pres t = pres q ++ expect_pres (conn q) (stored q) xs ++ tl /\
             forall e, In e tl -> e = (conn s1 + 1, 1, s_cfg x)%N \/ e = (conn s1 + 1, 2, s_cfg x)%N.
Proof.
  intros xs q s1 x t Hq Hok Hh Hf Hr.
  destruct (presented_history_thm xs q s1 Hq Hok Hh) as [Hp Hq1].
  destruct (quiescent_start s1 x Hq1) as (Q1 & Q2 & Q3).
  destruct (presented_thm _ _ _ _ _ _ _ _ _ _ _ _ _ _ _ _ Q1 Q2 Q3 Hf t Hr) as [(tl & Ht & Hin) _].
  exists tl. rewrite Ht, Hp, <- app_assoc. split; [reflexivity | exact Hin].
Qed.

(* ---- reading expect_pres: only login i's configuration on login i's connection, and it is there
   whenever login i succeeds *)
Lemma in_sess_pres cn0 st0 x c k p : In (c, k, p) (sess_pres cn0 st0 x) -> c = (cn0 + 1)%N /\ p = s_cfg x.
Proof.
  unfold sess_pres, presented_ok, hello_entry, finish_entry, cn. rewrite ?in_app_iff.
  destruct (auth_ok _ _ _), (st0 =? 0)%N, (fin st0 (s_static x)); cbn;
    intuition; try (apply pair_inj in H0; destruct H0 as [H0 ?]; apply pair_inj in H0; destruct H0; subst; auto);
    try (apply pair_inj in H; destruct H as [H ?]; apply pair_inj in H; destruct H; subst; auto).
Qed.

Lemma expect_pres_sound : forall xs cn0 st0 c k p,
  In (c, k, p) (expect_pres cn0 st0 xs) ->
  exists i x, nth_error xs i = Some x /\ c = (cn0 + 1 + N.of_nat i)%N /\ p = s_cfg x.
Proof.
  induction xs as [|x xs IH]; intros cn0 st0 c k p Hin; cbn in Hin; [contradiction|].
  apply in_app_iff in Hin. destruct Hin as [Hin | Hin].
  - apply in_sess_pres in Hin. destruct Hin as [-> ->]. exists 0%nat, x. repeat split. lia.
  - destruct (IH _ _ _ _ _ Hin) as (i & y & Hn & -> & ->). exists (S i), y. repeat split; [assumption | lia].
Qed.

Lemma sess_pres_complete cn0 st0 x :
  auth_ok st0 (s_ok x) (s_static x) = true -> exists k, In ((cn0 + 1)%N, k, s_cfg x) (sess_pres cn0 st0 x).
Proof.
  intros Ha. unfold sess_pres. rewrite Ha. unfold presented_ok, hello_entry, finish_entry, fin, cn.
  destruct (st0 =? 0)%N.
  - rewrite orb_true_r. exists 2%N. left. reflexivity.
  - exists 1%N. left. reflexivity.
Qed.

Lemma expect_pres_complete : forall xs cn0 st0 i x,
  nth_error xs i = Some x -> auth_ok (stored_before st0 xs i) (s_ok x) (s_static x) = true ->
  exists k, In ((cn0 + 1 + N.of_nat i)%N, k, s_cfg x) (expect_pres cn0 st0 xs).
Proof.
  induction xs as [|y xs IH]; intros cn0 st0 i x Hn Ha; [destruct i; discriminate|].
  destruct i as [|i]; cbn in Hn.
  - apply Some_inj in Hn. subst y. cbn in Ha. destruct (sess_pres_complete cn0 st0 x Ha) as [k Hk].
    exists k. cbn [expect_pres]. apply in_app_iff. left. replace (cn0 + 1 + N.of_nat 0)%N with (cn0 + 1)%N by lia. exact Hk.
  - cbn [stored_before] in Ha. destruct (IH (cn0 + 1)%N _ i x Hn Ha) as [k Hk].
    exists k. cbn [expect_pres]. apply in_app_iff. right.
    replace (cn0 + 1 + N.of_nat (S i))%N with (cn0 + 1 + 1 + N.of_nat i)%N by lia. exact Hk.
Qed.

(* The property clause, in plain terms, for a history of any number of logins on one layer: the
   payloads the server is presented during the history are exactly [added]; on the connection of
   login i (connection number conn q + 1 + i) only the configuration of auth event i is ever
   presented — never an earlier login's — and when login i succeeds it has been presented. *)
Theorem presents_configured_history_thm : forall xs q s',
  quiescent q -> sessions_ok (stored q) xs -> hrun q xs s' ->
  exists added, pres s' = pres q ++ added /\
    (forall c k p, In (c, k, p) added ->
       exists i x, nth_error xs i = Some x /\ c = (conn q + 1 + N.of_nat i)%N /\ p = s_cfg x) /\
    (forall i x, nth_error xs i = Some x ->
       auth_ok (stored_before (stored q) xs i) (s_ok x) (s_static x) = true ->
       exists k, In ((conn q + 1 + N.of_nat i)%N, k, s_cfg x) added).
Proof.
  intros xs q s' Hq Hok Hh. destruct (presented_history_thm xs q s' Hq Hok Hh) as [Hp _].
  exists (expect_pres (conn q) (stored q) xs). split; [assumption|]. split.
  - intros c k p. apply expect_pres_sound.
  - intros i x. apply expect_pres_complete.
Qed.

(* ------------------------------------------------------------------ witnesses *)
(* a fresh layer; login A: passive, first contact (XX, server key 7), two frames; disconnect;
   login B: NOT passive, other pushname, resumed (IK), one frame — yowsup's own flow after registration *)
Definition h_fresh : st := mkSt PInit [] None 0 0 0 NNext [] [] 0 [] false 0 [] cfgA [].
Definition h_A := mkSess false cfgA 101 true 7 [1; 2]%N.
Definition h_B := mkSess true cfgB 102 true 0 [3]%N.

Lemma h_fresh_quiescent : quiescent h_fresh.
Proof. repeat split; [discriminate | constructor]. Qed.

Example history_nonvacuous :
  quiescent h_fresh /\ sessions_ok (stored h_fresh) [h_A; h_B] /\
  c_passive (s_cfg h_A) <> c_passive (s_cfg h_B) /\
  exists s', hrun h_fresh [h_A; h_B] s' /\
             pres s' = [(1, 2, cfgA); (2, 1, cfgB)]%N /\ pres s' = expect_pres 0 0 [h_A; h_B].
Proof.
  split; [exact h_fresh_quiescent|]. split; [cbn; repeat split; discriminate|]. split; [discriminate|].
  destruct (run (sess_start h_fresh h_A) (auto_sched 200 (sess_start h_fresh h_A))) as [s1|] eqn:E1;
    [|vm_compute in E1; discriminate].
  destruct (run (sess_start s1 h_B) (auto_sched 200 (sess_start s1 h_B))) as [s2|] eqn:E2.
  - exists s2. split.
    + eapply hrun_cons; [eapply run_reach; exact E1 | | eapply hrun_cons; [eapply run_reach; exact E2 | | apply hrun_nil]].
      * vm_compute in E1. apply Some_inj in E1. subst s1. vm_compute. reflexivity.
      * vm_compute in E1. apply Some_inj in E1. subst s1. vm_compute in E2. apply Some_inj in E2. subst s2.
        vm_compute. reflexivity.
    + vm_compute in E1. apply Some_inj in E1. subst s1. vm_compute in E2. apply Some_inj in E2. subst s2.
      vm_compute. split; reflexivity.
  - vm_compute in E1. apply Some_inj in E1. subst s1. vm_compute in E2. discriminate.
Qed.

(* the same history as ONE script of the model (with the disconnect event in it) *)
Definition h_script : list nev :=
  [NAuth cfgA; NSeg (SHello 101 1 true 7); NSeg (SData 1); NSeg (SData 2); NDisc;
   NAuth cfgB; NSeg (SHello 102 2 true 0); NSeg (SData 3)].
Definition h_S := set_script h_script h_fresh.

(* A variant of on_auth that caches the ClientConfig per username (seeded defect C04-2) violates the
   clause: the second login presents the FIRST login's passive flag and attributes.  The faithful
   model, same script, same schedule, presents what the history theorem says. *)
Lemma cached_config_refuted :
  (exists s, run h_S (auto_sched 400 h_S) = Some s /\ all_done s = true /\
             pres s = expect_pres 0 0 [h_A; h_B]) /\
  (exists s, run (cached_variant h_S) (auto_sched 400 (cached_variant h_S)) = Some s /\ all_done s = true /\
             pres s = [(1, 2, cfgA); (2, 1, cfgA)]%N /\ pres s <> expect_pres 0 0 [h_A; h_B]).
Proof.
  split; eexists; (split; [vm_compute; reflexivity|]); vm_compute; repeat split; discriminate.
Qed.
