(* C04, "from then on every stanza sent in either direction arrives at the other side intact and in
   sending order" -- the three lower layers composed.

   One direction of an established session is:   coder.write (C01 model `encode`)
                                               -> noise transport (an AEAD keyed by an implicit counter)
                                               -> segments.send (C05 model `send`: 3-byte length + frame)
                                               ~~ the byte stream, cut into network reads in ANY way ~~
                                               -> segments.receive (C05 model `run_recv`)
                                               -> noise transport (the counter again)
                                               -> coder.read (C01 model `decode`).
   The Noise cipher is external (consonance/dissononce/cryptography): a Section variable with the two
   facts the pipeline needs -- opening a sealed frame with the same counter gives the plaintext back,
   and sealing adds the 16-byte tag.  Everything else is the models of C01 and C05, which are tied
   to encoder.py / decoder.py / layer_noise_segments.py by their own correspondence runs; this file
   adds no new tie, it composes theorems.                                                        *)
From YV Require Import Common.Tac C01.C01Model C02.C02Spec C01.C01DecodeNode C01.C01Encode C01.C01Proofs C01.C01Inst
     Gen.C01Dict C05.C05Model C05.C05Proofs.

Local Open Scope nat_scope.


Lemma In_firstn_incl {A} (x : A) : forall k l, In x (firstn k l) -> In x l.
Proof.
  induction k as [|k IH]; intros l H; [destruct H|].
  destruct l as [|a l]; [destruct H|]. cbn [firstn] in H. destruct H as [->|H]; [left; reflexivity|].
  right. apply IH. exact H.
Qed.

Section Pipeline.
Variable seal : N -> list N -> list N.              (* encrypt_with_ad with counter n *)
Variable open_ : N -> list N -> option (list N).    (* decrypt_with_ad with counter n *)
Hypothesis open_seal : forall n p, open_ n (seal n p) = Some p.
Hypothesis seal_len : forall n p, length (seal n p) = length p + 16.
Variable inflate : list N -> option (list N).       (* zlib, never consulted for what the encoder emits *)

(* sender: stanza i is encoded, sealed with counter n+i and handed to the segments layer;
   None = some layer refused (the encoder's 16-bit list limit, the segments layer's 2^24 limit) *)
Fixpoint send_all (n : N) (ts : list C01Model.node) : option (list (list N)) :=
  match ts with
  | [] => Some []
  | t :: r =>
    match C01Model.encode D t with
    | None => None
    | Some b =>
      match C05Model.send true (seal n b) with
      | None => None
      | Some ws => match send_all (n + 1) r with None => None | Some rest => Some (ws ++ rest) end
      end
    end
  end.

(* receiver, noise part: frame i is opened with counter n+i *)
Fixpoint open_all (n : N) (fs : list (list N)) : option (list (list N)) :=
  match fs with
  | [] => Some []
  | f :: r =>
    match open_ n f with
    | None => None
    | Some p => match open_all (n + 1) r with None => None | Some ps => Some (p :: ps) end
    end
  end.

(* receiver: what reaches the layer above the coder, and what the segments layer still buffers *)
Definition recv_all (chunks : list (list N)) :=
  let '(fs, buf) := C05Model.run_recv true [] chunks in
  match open_all 0 fs with
  | None => None
  | Some ps => Some (map (C01Model.decode D inflate) ps, buf)
  end.

(* ---------------------------------------------------------------- proofs *)
Fixpoint enc_all (ts : list C01Model.node) : option (list (list N)) :=
  match ts with
  | [] => Some []
  | t :: r => match C01Model.encode D t, enc_all r with
              | Some b, Some bs => Some (b :: bs)
              | _, _ => None
              end
  end.

Fixpoint seal_all (n : N) (bs : list (list N)) : list (list N) :=
  match bs with [] => [] | b :: r => seal n b :: seal_all (n + 1) r end.

(* what send_all puts on the wire: the wire images of the sealed encodings, all of them valid frames *)
Lemma send_all_wire : forall ts n writes, send_all n ts = Some writes ->
  exists bs, enc_all ts = Some bs /\
             concat writes = concat (map C05Model.wire (seal_all n bs)) /\
             Forall C05Model.valid_frame (seal_all n bs).
Proof.
  induction ts as [|t r IH]; intros n writes H.
  - cbn in H. apply Some_inj in H. subst writes. exists []. repeat split; constructor.
  - cbn [send_all] in H.
    destruct (C01Model.encode D t) as [b|] eqn:Eb; [|discriminate].
    unfold C05Model.send in H.
    destruct (16777216 <=? C05Model.lenN (seal n b))%N eqn:El; [discriminate|].
    destruct (send_all (n + 1) r) as [rest|] eqn:Er; [|discriminate].
    apply Some_inj in H. subst writes.
    destruct (IH (n + 1)%N rest Er) as (bs & He & Hw & Hv).
    exists (b :: bs). split; [|split].
    + cbn [enc_all]. rewrite Eb, He. reflexivity.
    + cbn [seal_all map concat]. rewrite concat_app, Hw. unfold C05Model.wire at 2.
      cbn [concat app]. rewrite app_nil_r, <- app_assoc. reflexivity.
    + cbn [seal_all]. constructor; [|exact Hv]. unfold C05Model.valid_frame. rewrite seal_len.
      split; [lia|]. apply N.leb_gt in El. exact El.
Qed.

Lemma open_all_sealed : forall bs n, open_all n (seal_all n bs) = Some bs.
Proof.
  induction bs as [|b r IH]; intros n; [reflexivity|].
  cbn [seal_all open_all]. rewrite open_seal, IH. reflexivity.
Qed.

Lemma decode_all : forall ts bs, Forall (C01Encode.wf_node D) ts -> enc_all ts = Some bs ->
  map (C01Model.decode D inflate) bs = map (fun t => Ok (Some t)) ts.
Proof.
  induction ts as [|t r IH]; intros bs Hwf He.
  - cbn in He. apply Some_inj in He. subst bs. reflexivity.
  - cbn [enc_all] in He.
    destruct (C01Model.encode D t) as [b|] eqn:Eb; [|discriminate].
    destruct (enc_all r) as [bs'|] eqn:Er; [|discriminate].
    apply Some_inj in He. subst bs. inversion Hwf as [|? ? Ht Hr]; subst.
    cbn [map]. rewrite (roundtrip_thm D inflate D_ok t b Ht Eb), (IH bs' Hr eq_refl). reflexivity.
Qed.

(* The pipeline theorem.  Any list of well-formed stanzas that the sending side accepted, any way the
   network cuts the byte stream into reads: the receiving side hands up exactly those stanzas, in
   sending order, each exactly once, nothing is left in the segment buffer. *)
Theorem pipeline_intact_thm : forall ts writes chunks,
  Forall (C01Encode.wf_node D) ts -> send_all 0 ts = Some writes ->
  concat chunks = concat writes ->
  recv_all chunks = Some (map (fun t => Ok (Some t)) ts, []).
Proof.
  intros ts writes chunks Hwf Hs Hc.
  destruct (send_all_wire ts 0%N writes Hs) as (bs & He & Hw & Hv).
  unfold recv_all. rewrite Hw in Hc.
  rewrite (reassembly_thm chunks (seal_all 0 bs) Hv Hc).
  rewrite open_all_sealed, (decode_all ts bs Hwf He). reflexivity.
Qed.

(* ... and at every moment before the stream is complete: if the bytes received so far are the images of
   the first k sealed stanzas plus a strict prefix of the next frame, exactly the first k stanzas were
   handed up and the unfinished frame waits in the buffer, untouched. *)
Theorem pipeline_prefix_thm : forall ts writes chunks k partial,
  Forall (C01Encode.wf_node D) ts -> send_all 0 ts = Some writes ->
  (exists bs, enc_all ts = Some bs /\
     concat chunks = concat (map C05Model.wire (firstn k (seal_all 0 bs))) ++ partial) ->
  incomplete partial ->
  recv_all chunks = Some (map (fun t => Ok (Some t)) (firstn k ts), partial).
Proof.
  intros ts writes chunks k partial Hwf Hs (bs & He & Hc) Hp.
  destruct (send_all_wire ts 0%N writes Hs) as (bs' & He' & _ & Hv).
  rewrite He in He'. apply Some_inj in He'. subst bs'.
  unfold recv_all.
  assert (Hvk : Forall C05Model.valid_frame (firstn k (seal_all 0 bs))).
  { apply Forall_forall. intros x Hx. rewrite Forall_forall in Hv. apply Hv.
    eapply In_firstn_incl; exact Hx. }
  rewrite (prefix_thm chunks (firstn k (seal_all 0 bs)) partial Hvk Hp Hc).
  assert (Hk : firstn k (seal_all 0 bs) = seal_all 0 (firstn k bs)).
  { clear. generalize 0%N. revert k. induction bs as [|b r IH]; intros k n.
    - destruct k; reflexivity.
    - destruct k as [|k]; [reflexivity|]. cbn [firstn seal_all]. rewrite IH. reflexivity. }
  rewrite Hk, open_all_sealed.
  assert (Hek : enc_all (firstn k ts) = Some (firstn k bs)).
  { clear - He. revert k bs He. induction ts as [|t r IH]; intros k bs He.
    - cbn in He. apply Some_inj in He. subst bs. destruct k; reflexivity.
    - cbn [enc_all] in He.
      destruct (C01Model.encode D t) as [b|] eqn:Eb; [|discriminate].
      destruct (enc_all r) as [bs'|] eqn:Er; [|discriminate].
      apply Some_inj in He. subst bs. destruct k as [|k]; [reflexivity|].
      cbn [firstn enc_all]. rewrite Eb, (IH k bs' eq_refl). reflexivity. }
  rewrite (decode_all (firstn k ts) (firstn k bs)); [reflexivity| |exact Hek].
  apply Forall_forall. intros x Hx. rewrite Forall_forall in Hwf. apply Hwf.
  eapply In_firstn_incl; exact Hx.
Qed.

(* ---------------------------------------------------------------- the other direction: what the PEER sends
   The server is not bound to the choices yowsup's encoder makes: any valid frame of a tree (C02's relation Frame:
   8/16-bit list headers, literal strings instead of tokens, packed or raw digits, a deflated frame, ...) sealed
   under the running counter and cut by the network in any way reaches the layer above the coder as that tree, in
   sending order, each exactly once. *)
Lemma decode_frames : forall ts bs,
  Forall2 (fun t b => attrs_ok t /\ Frame D inflate t b) ts bs ->
  map (C01Model.decode D inflate) bs = map (fun t => Ok (Some t)) ts.
Proof.
  induction 1 as [|t b ts bs [Ho Hf] _ IH]; [reflexivity|].
  cbn [map]. rewrite (accepts_all_thm D inflate t b Ho Hf), IH. reflexivity.
Qed.

Lemma sealed_valid : forall bs n, Forall (fun b => (C05Model.lenN b + 16 < 16777216)%N) bs ->
  Forall C05Model.valid_frame (seal_all n bs).
Proof.
  induction bs as [|b r IH]; intros n H; [constructor|].
  inversion H as [|? ? Hb Hr]; subst. cbn [seal_all]. constructor; [|apply IH; exact Hr].
  unfold C05Model.valid_frame, C05Model.lenN in *. rewrite seal_len. split; lia.
Qed.

Theorem pipeline_incoming_thm : forall ts bs chunks,
  Forall2 (fun t b => attrs_ok t /\ Frame D inflate t b) ts bs ->
  Forall (fun b => (C05Model.lenN b + 16 < 16777216)%N) bs ->
  concat chunks = concat (map C05Model.wire (seal_all 0 bs)) ->
  recv_all chunks = Some (map (fun t => Ok (Some t)) ts, []).
Proof.
  intros ts bs chunks Hf Hl Hc. unfold recv_all.
  rewrite (reassembly_thm chunks (seal_all 0 bs) (sealed_valid bs 0%N Hl) Hc).
  rewrite open_all_sealed, (decode_frames ts bs Hf). reflexivity.
Qed.

End Pipeline.

(* non-vacuity: the two cipher hypotheses are satisfiable (a toy cipher: plaintext followed by a 16-byte
   tag that names the counter), so the theorems are not statements about nothing; with it, two concrete
   stanzas cut into 5-byte network reads come out intact and in order *)
Definition toy_seal (n : N) (p : list N) : list N := p ++ repeat (n mod 256)%N 16.
Definition toy_open (n : N) (c : list N) : option (list N) :=
  let k := length c - 16 in
  if forallb (N.eqb (n mod 256)%N) (skipn k c) then Some (firstn k c) else None.

Lemma toy_seal_len n p : length (toy_seal n p) = length p + 16.
Proof. unfold toy_seal. rewrite app_length, repeat_length. reflexivity. Qed.

Lemma toy_open_seal n p : toy_open n (toy_seal n p) = Some p.
Proof.
  unfold toy_open. rewrite toy_seal_len. replace (length p + 16 - 16) with (length p) by lia.
  unfold toy_seal. rewrite skipn_app, firstn_app, Nat.sub_diag, skipn_all, firstn_all.
  cbn [skipn firstn app]. rewrite app_nil_r.
  assert (H : forallb (N.eqb (n mod 256)%N) (repeat (n mod 256)%N 16) = true).
  { apply forallb_forall. intros x Hx. apply repeat_spec in Hx. subst x. apply N.eqb_refl. }
  rewrite H. reflexivity.
Qed.

Fixpoint chop (k : nat) (fuel : nat) (l : list N) : list (list N) :=
  match fuel with
  | O => [l]
  | S f => match l with [] => [] | _ => firstn k l :: chop k f (skipn k l) end
  end.

Definition ex_pair : list C01Model.node := [ex_tree; ex_tree].

Example pipeline_example :
  match send_all toy_seal 0 ex_pair with
  | Some writes =>
      recv_all toy_open (fun _ => None) (chop 5 (length (concat writes)) (concat writes))
      = Some ([Ok (Some ex_tree); Ok (Some ex_tree)], [])
  | None => False
  end.
Proof. vm_compute. reflexivity. Qed.
