(* C04 — the chained login histories of C04ProofsHist.v are runs of the ONE-script model (the model the
   harness replays real traces through, with disconnect events inside the script): stepping is
   insensitive to script events queued behind the current ones and to an earlier observation log. *)
From YV Require Import Common.Tac C04.C04Model C04.C04Proofs C04.C04ProofsHist.

Definition set_log (l : list ev) (s : st) : st :=
  mkSt (ps s) (inq s) (lock s) (ctr s) (stored s) (lrs s) (npc_ s) (script s) (workers s) (gen s) l
       (edge s) (conn s) (bound s) (pcfg s) (pres s).
(* s with more script behind its own and an earlier log in front of its own *)
Definition ext (tl : list nev) (l0 : list ev) (s : st) : st :=
  set_log (l0 ++ log s) (set_script (script s ++ tl) s).

Ltac inv_some1 H :=
  apply Some_inj in H;
  repeat match type of H with
         | (_, _) = (_, _) => let H2 := fresh "E" in apply pair_inj in H; destruct H as [H H2]
         end; subst.
Ltac prj := cbn [ps inq lock ctr stored lrs npc_ script workers gen log edge conn bound pcfg pres].
Ltac unf := cbv [ext set_log set_ps set_inq set_lock set_ctr set_stored set_lrs set_npc set_script
            set_workers set_gen add_log set_conn set_bound set_pcfg add_pres
            ps inq lock ctr stored lrs npc_ script workers gen log edge conn bound pcfg pres] in *.

Lemma flush_ext tl l0 me f s l s' r :
  flush_step me f s = Some (l, s', r) -> flush_step me f (ext tl l0 s) = Some (l, ext tl l0 s', r).
Proof.
  destruct s as [ps0 inq0 lock0 ctr0 stored0 lrs0 npc0 script0 workers0 gen0 log0 edge0 conn0 bound0 pcfg0 pres0]. unfold flush_step. unf. prj. intros H. destruct f.
  - destruct lock0; [discriminate|]. inv_some1 H. unf. reflexivity.
  - inv_some1 H. unf. reflexivity.
  - destruct (is_tr ps0); inv_some1 H; unf; reflexivity.
  - destruct inq0 as [|[]]; [discriminate| |]; inv_some1 H; unf; rewrite ?app_assoc; reflexivity.
  - inv_some1 H. unf. reflexivity.
Qed.

Lemma hs_ext tl l0 s w l s' p :
  hs_step s w = Some (l, s', p) -> hs_step (ext tl l0 s) w = Some (l, ext tl l0 s', p).
Proof.
  destruct w as [a rs c pc]. destruct pc as [| | | |n1|n1|n1|f| | | | |]; unfold hs_step; cbn [w_pc w_att w_rs w_cfg].
  8: { (* HFlush *)
    intros H. destruct (flush_step (a + 1) f s) as [[[l1 s1] r]|] eqn:Ef; [|discriminate].
    rewrite (flush_ext tl l0 _ _ _ _ _ _ Ef). destruct r; inv_some1 H; reflexivity. }
  all: destruct s as [ps0 inq0 lock0 ctr0 stored0 lrs0 npc0 script0 workers0 gen0 log0 edge0 conn0 bound0 pcfg0 pres0]; unfold hello_pres; cbn [w_att w_rs w_cfg]; unf; prj; intros H.
  - inv_some1 H. unf. reflexivity.
  - destruct ps0; inv_some1 H; unf; reflexivity.
  - destruct (rs =? 0)%N; destruct (lookup conn0 bound0); inv_some1 H; unf; reflexivity.
  - destruct inq0; [discriminate|]. inv_some1 H. unf. reflexivity.
  - inv_some1 H. unf. reflexivity.
  - destruct (is_hs ps0); [destruct (lrs0 =? n1)%N|]; inv_some1 H; unf; reflexivity.
  - inv_some1 H. unf. rewrite app_assoc. reflexivity.
  - destruct ps0; inv_some1 H; unf; reflexivity.
  - inv_some1 H. unf. rewrite app_assoc. reflexivity.
  - inv_some1 H. unf. rewrite app_assoc. reflexivity.
  - discriminate.
  - discriminate.
Qed.

Lemma nt_ext tl l0 s l s' :
  nt_step s = Some (l, s') -> nt_step (ext tl l0 s) = Some (l, ext tl l0 s').
Proof.
  unfold nt_step. destruct (npc_ s) as [| | | | | |f|] eqn:En.
  7: { (* NFl *)
    intros H. replace (npc_ (ext tl l0 s)) with (npc_ s) by reflexivity. rewrite En.
    destruct (flush_step 0 f s) as [[[l1 s1] r]|] eqn:Ef; [|discriminate].
    rewrite (flush_ext tl l0 _ _ _ _ _ _ Ef). destruct r; inv_some1 H; reflexivity. }
  all: destruct s as [ps0 inq0 lock0 ctr0 stored0 lrs0 npc0 script0 workers0 gen0 log0 edge0 conn0 bound0 pcfg0 pres0]; unfold arrival_ok; unf; prj; cbn [npc_] in En; subst; intros H.
  - destruct script0 as [|[c| |x] r]; [discriminate| | |]; cbn [app].
    + destruct edge0; inv_some1 H; unf; reflexivity.
    + inv_some1 H. unf. reflexivity.
    + destruct (match x with SHello _ c _ _ => match lookup c bound0 with Some _ => true | None => false end | SData _ => true end);
        [|discriminate]. inv_some1 H. unf. reflexivity.
  - inv_some1 H. unf. reflexivity.
  - inv_some1 H. unf. reflexivity.
  - inv_some1 H. unf. reflexivity.
  - inv_some1 H. unf. reflexivity.
  - inv_some1 H. unf. reflexivity.
  - discriminate.
Qed.

Lemma step_ext tl l0 s t l s' :
  step s t = Some (l, s') -> step (ext tl l0 s) t = Some (l, ext tl l0 s').
Proof.
  unfold step. destruct (t =? 0)%N; [apply nt_ext|].
  replace (workers (ext tl l0 s)) with (workers s) by reflexivity.
  destruct (find_w (t - 1) (workers s)) as [w|]; [|discriminate].
  destruct (hs_step s w) as [[[l1 s1] p]|] eqn:Eh; [|discriminate].
  rewrite (hs_ext tl l0 _ _ _ _ _ Eh). intros H. inv_some1 H. reflexivity.
Qed.

Lemma reach_ext tl l0 s0 s : reach s0 s -> reach (ext tl l0 s0) (ext tl l0 s).
Proof.
  induction 1; [apply reach_refl|]. eapply reach_step; [eassumption|]. apply step_ext. eassumption.
Qed.

Lemma reach_trans a b c : reach a b -> reach b c -> reach a c.
Proof. intros H1 H2. induction H2; [assumption | eapply reach_step; eassumption]. Qed.

(* a layer between logins, as the one-script model sees it *)
Definition idle (q : st) : Prop :=
  quiescent q /\ inq q = [] /\ lock q = None /\ npc_ q = NNext /\ script q = [].

Definition sess_script (cn0 : N) (x : session) : list nev :=
  (if s_disc x then [NDisc] else []) ++
  NAuth (s_cfg x) :: NSeg (SHello (s_hsid x) (cn0 + 1) (s_ok x) (s_static x)) :: map NSeg (map SData (s_dsids x)).

Fixpoint hist_script (cn0 : N) (xs : list session) : list nev :=
  match xs with
  | [] => []
  | x :: r => sess_script cn0 x ++ hist_script (cn0 + 1) r
  end.

Lemma session_idle q x s :
  quiescent q -> (auth_ok (stored q) (s_ok x) (s_static x) = false -> s_dsids x = []) ->
  reach (sess_start q x) s -> all_done s = true -> idle s.
Proof.
  intros Hq Hf Hr Hd. destruct (session_step q x s Hq Hf Hr Hd) as (Hq1 & _).
  destruct (quiescent_start q x Hq) as (Q1 & Q2 & Q3).
  pose proof (done_state _ _ _ _ _ _ _ _ _ _ _ _ _ _ _ _ Q1 Q2 Q3 Hf s Hr Hd)
    as (_ & _ & _ & _ & _ & _ & Hi & Hl & Hn & Hs & _).
  repeat split; try assumption; apply Hq1.
Qed.

(* entering a login: from an idle layer with this login's events (and any later ones) in the script,
   the network thread's disconnect step (if any) leads to the login's start state *)
Lemma enter_session q x rest L0 :
  idle q ->
  reach (set_log L0 (set_script (sess_script (conn q) x ++ rest) q)) (ext rest L0 (sess_start q x)).
Proof.
  intros (_ & Hi & Hl & Hn & Hs).
  destruct q as [ps0 inq0 lock0 ctr0 stored0 lrs0 npc0 script0 workers0 gen0 log0 edge0 conn0 bound0 pcfg0 pres0].
  cbn [inq lock npc_ script] in *. subst.
  unfold sess_script, sess_start, start. destruct (s_disc x); cbn [app]; unf; rewrite app_nil_r.
  - eapply reach_step; [apply reach_refl|]. instantiate (2 := 0%N). reflexivity.
  - apply reach_refl.
Qed.

Lemma leave_session s rest L0 :
  script s = [] -> ext rest L0 s = set_log (L0 ++ log s) (set_script rest s).
Proof. intros H. destruct s as [ps0 inq0 lock0 ctr0 stored0 lrs0 npc0 script0 workers0 gen0 log0 edge0 conn0 bound0 pcfg0 pres0]. cbn [script] in H. subst. reflexivity. Qed.

(* Every chained history is a run of the ONE-script model (the script holding all logins' events,
   disconnect events included): the schedules in which the network thread handles the next
   disconnect/auth event only after the running login's threads have finished. *)
Theorem hrun_embeds : forall xs q s' L0,
  idle q -> sessions_ok (stored q) xs -> hrun q xs s' ->
  exists L, reach (set_log L0 (set_script (hist_script (conn q) xs) q)) (set_log L s').
Proof.
  induction xs as [|x xs IH]; intros q s' L0 Hi Hok Hh; inversion Hh; subst.
  - exists L0. destruct Hi as (_ & _ & _ & _ & Hs). destruct s' as [ps0 inq0 lock0 ctr0 stored0 lrs0 npc0 script0 workers0 gen0 log0 edge0 conn0 bound0 pcfg0 pres0]. cbn [script] in Hs. subst. apply reach_refl.
  - cbn in Hok. destruct Hok as [Hf Hok]. pose proof Hi as (Hq & _).
    match goal with Hr : reach _ ?s, Hd : all_done ?s = true, Hh' : hrun ?s xs s' |- _ =>
      pose proof (session_idle q x s Hq Hf Hr Hd) as Hi1;
      destruct (session_step q x s Hq Hf Hr Hd) as (_ & Hc1 & Hs1 & _);
      rewrite <- Hs1 in Hok;
      destruct (IH s s' (L0 ++ log s) Hi1 Hok Hh') as [L HL];
      exists L; cbn [hist_script];
      eapply reach_trans; [apply enter_session; assumption|];
      eapply reach_trans; [apply reach_ext; exact Hr|];
      rewrite leave_session by apply Hi1; rewrite <- Hc1; exact HL
    end.
Qed.
